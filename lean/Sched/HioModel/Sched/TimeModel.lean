import HioModel.Sched.Model
/-!
# Additions to the scheduler model for C03 / C04 / C30 (timing half of the family)

Nothing here changes `Model.lean`; import-free apart from it (the driver links this file).

* `Spec.flatL` — splice every *transparent* DoDoer (`tock == 0`, not `always`) away: the inverse of any
  regrouping of consecutive siblings (C04).
* `adoLoop` / `doistAdo` — `Doist.ado` written from its OWN source loop (C30).  It differs from `doLoop`
  by the step `await asyncio.sleep(0.0)` between `recur()` and the deeds-empty test: control goes to the
  asyncio event loop, where *other tasks* run.  They are modelled as an arbitrary environment
  `env : Nat → σ → σ` acting on a world `σ` that is disjoint from everything the Doist owns (the
  "modelled only" assumption of DESIGN §5 C30: other tasks cannot reach scheduler state except through
  user code).  Real-time mode (`AsyncTimer` pacing) is not modelled here: C30 is about `real = False`.
-/
namespace Hio.Sched
variable {τ : Type}

section flatten
variable [OfNat τ 0] [BEq τ]

/-- a DoDoer that C04 calls transparent: `tock == 0` and not `always` -/
def transparentB (tock : τ) (always : Bool) : Bool := (tock == 0) && !always

mutual
/-- splice transparent groups away at every depth; kids of a group that is kept are flattened in place -/
def Spec.flat : Spec τ → List (Spec τ)
  | .leaf i a s => [.leaf i a s]
  | .group i t al kids pool =>
      if transparentB t al then Spec.flatL kids else [.group i t al (Spec.flatL kids) pool]
def Spec.flatL : List (Spec τ) → List (Spec τ)
  | [] => []
  | s :: ss => s.flat ++ Spec.flatL ss
end
end flatten

section ado
variable [Add τ] [LE τ] [DecidableRel (α := τ) (· ≤ ·)] [OfNat τ 0] [BEq τ]
variable {σ : Type}

/-- `await asyncio.sleep(0.0)` in cycle `n`: the event loop runs whatever else is scheduled, then resumes `ado`.
Scheduler state is not an argument: it cannot be reached from here. -/
def yieldToLoop (env : Nat → σ → σ) (n : Nat) (w : σ) : σ := env n w

/-- main loop of `Doist.ado` with `real = False`, statement by statement:
`recur()` (which ticks) · `await asyncio.sleep(0.0)` · `if not self.deeds: done = True; break` ·
`if limit is not None and tymer.expired: break`; an exception out of `recur()` skips the await;
`finally: self.exit()` -/
def adoLoop (pool : List (Spec τ)) (tock : τ) (stopAt : Option τ) (env : Nat → σ → σ) :
    Nat → Nat → τ → List (RT τ) → List Id → σ → Final τ × σ
  | 0, n, now, deeds, doers, w => (⟨stopEvs now deeds, false, now, false, true, doers, n⟩, w)
  | fuel+1, n, now, deeds, doers, w =>
      match runCycle pool now tock 0 deeds { doers := doers } with
      | (es, un, c, some x) =>       -- recur raised: neither tick() nor the await is reached
          (⟨es ++ stopEvs now (c.pr ++ un), false, now, x == .err, false, c.doers, n⟩, w)
      | (es, _, c, none) =>
          let now' := now + tock
          let w' := yieldToLoop env n w          -- else: await asyncio.sleep(0.0)
          if c.pr.isEmpty then (⟨es ++ stopEvs now' [], true, now', false, false, c.doers, n+1⟩, w')
          else
            let stop := match stopAt with | some s => decide (s ≤ now') | none => false
            if stop then (⟨es ++ stopEvs now' c.pr, false, now', false, false, c.doers, n+1⟩, w')
            else
              let r := adoLoop pool tock stopAt env fuel (n+1) now' c.pr c.doers w'
              ({ r.1 with evs := es ++ r.1.evs }, r.2)

/-- `asyncio.run(Doist(tock, tyme=start, limit).ado(doers=specs))` next to other tasks `env` -/
def doistAdo (pool : List (Spec τ)) (tock start : τ) (limit : Option τ) (fuel : Nat) (specs : List (Spec τ))
    (env : Nat → σ → σ) (w : σ) : Final τ × σ :=
  match enterList start specs with
  | (es, deeds, true) => (⟨es ++ stopEvs start deeds, false, start, true, false, specs.map Spec.id, 0⟩, w)
  | (es, deeds, false) =>
      let r := adoLoop pool tock (limit.map (start + ·)) env fuel 0 start deeds (specs.map Spec.id) w
      ({ r.1 with evs := es ++ r.1.evs }, r.2)
/-- `Doist.ado` whose task is CANCELLED at its `(j+1)`-th `await asyncio.sleep(0.0)` (`task.cancel()` from anywhere):
`asyncio.CancelledError` is a `BaseException`, none of the three handlers catches it, `finally: self.exit()` runs, the
error propagates.  No fuel: the cancellation ends the loop.  Bool = the cancellation was delivered (the run had not ended
before).  Written from the same source loop as `adoLoop`. -/
def adoLoopCancel (pool : List (Spec τ)) (tock : τ) (stopAt : Option τ) :
    Nat → Nat → τ → List (RT τ) → List Id → Final τ × Bool
  | 0, n, now, deeds, doers =>
      match runCycle pool now tock 0 deeds { doers := doers } with
      | (es, un, c, some x) => (⟨es ++ stopEvs now (c.pr ++ un), false, now, x == .err, false, c.doers, n⟩, false)
      | (es, _, c, none) =>
          -- tick() done inside recur(); CancelledError raised at the await; finally: exit()
          (⟨es ++ stopEvs (now + tock) c.pr, false, now + tock, false, false, c.doers, n+1⟩, true)
  | j+1, n, now, deeds, doers =>
      match runCycle pool now tock 0 deeds { doers := doers } with
      | (es, un, c, some x) => (⟨es ++ stopEvs now (c.pr ++ un), false, now, x == .err, false, c.doers, n⟩, false)
      | (es, _, c, none) =>
          let now' := now + tock
          if c.pr.isEmpty then (⟨es ++ stopEvs now' [], true, now', false, false, c.doers, n+1⟩, false)
          else
            let stop := match stopAt with | some s => decide (s ≤ now') | none => false
            if stop then (⟨es ++ stopEvs now' c.pr, false, now', false, false, c.doers, n+1⟩, false)
            else
              let r := adoLoopCancel pool tock stopAt j (n+1) now' c.pr c.doers
              ({ r.1 with evs := es ++ r.1.evs }, r.2)

def doistAdoCancel (pool : List (Spec τ)) (tock start : τ) (limit : Option τ) (j : Nat) (specs : List (Spec τ)) :
    Final τ × Bool :=
  match enterList start specs with
  | (es, deeds, true) => (⟨es ++ stopEvs start deeds, false, start, true, false, specs.map Spec.id, 0⟩, false)
  | (es, deeds, false) =>
      let r := adoLoopCancel pool tock (limit.map (start + ·)) j 0 start deeds (specs.map Spec.id)
      ({ r.1 with evs := es ++ r.1.evs }, r.2)

end ado

end Hio.Sched
