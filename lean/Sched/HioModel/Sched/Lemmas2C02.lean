import HioModel.Sched.Model2
import HioModel.Sched.Defs
/-!
# Helper lemmas for C02 on the second-generation model `Hio.Sched2` (`Model2.lean`)

Port of `LemmasC02.lean`: exception kinds, enters raising any kind, `cleanFails`.  Same structure:
counting lemmas (`*_count`, `*_le`), shapes of the `exitEnd` sites, order lemmas under the no-extend
guard, nested order (`Fits`/`FitsL`).  The `Defs.lean` vocabulary (`liveIds`, `stepsNoExtend`,
`allSteps`) is restated for `RT2`/`Spec2` as plain functions of this namespace (`Hio.Sched2.C02`),
`countK` is the one of `Defs.lean` (events are shared).  Does not depend on `Embed.lean`.
-/
namespace Hio.Sched2.C02
open Hio.Sched (Id Kind Ev ev Op flagEvs countK nextDue)
variable {τ : Type}
set_option linter.unusedSimpArgs false

/-! ### vocabulary for `RT2`/`Spec2` (the `Defs.lean` notions, restated; local to this namespace) -/
mutual
/-- ids of all live (entered, not exited) doers in a run-time subtree -/
def liveIds : RT2 τ → List Id
  | .leaf i _ _ _ => [i]
  | .group i _ _ _ _ _ deeds _ => i :: liveIdsL deeds
def liveIdsL : List (RT2 τ) → List Id
  | [] => []
  | d :: ds => liveIds d ++ liveIdsL ds
end

/-- no step issues `extend` -/
def stepsNoExtend (steps : List (Step2 τ)) : Bool := steps.all (fun s => s.ops.all (fun o => !o.isExtend))

mutual
/-- `p` holds of the script of every leaf that is entered with this spec (kids, not pools) -/
def specAllSteps (p : List (Step2 τ) → Bool) : Spec2 τ → Bool
  | .leaf _ _ steps _ => p steps
  | .group _ _ _ kids _ _ => specAllStepsL p kids
def specAllStepsL (p : List (Step2 τ) → Bool) : List (Spec2 τ) → Bool
  | [] => true
  | s :: ss => specAllSteps p s && specAllStepsL p ss
end

mutual
/-- `p` holds of the remaining script of every live leaf -/
def rtAllSteps (p : List (Step2 τ) → Bool) : RT2 τ → Bool
  | .leaf _ _ steps _ => p steps
  | .group _ _ _ _ _ _ deeds _ => rtAllStepsL p deeds
def rtAllStepsL (p : List (Step2 τ) → Bool) : List (RT2 τ) → Bool
  | [] => true
  | d :: ds => rtAllSteps p d && rtAllStepsL p ds
end

theorem countK_append (k : Kind) (i : Id) (a b : List (Ev τ)) :
    countK k i (a ++ b) = countK k i a + countK k i b := by
  simp [countK]

theorem countK_nil (k : Kind) (i : Id) : countK k i ([] : List (Ev τ)) = 0 := rfl

theorem countK_cons (k : Kind) (j : Id) (i : Id) (k' : Kind) (t : τ) (l : List (Ev τ)) :
    countK k j (ev i k' t :: l) = (if i = j ∧ k' = k then 1 else 0) + countK k j l := by
  simp only [countK, ev, List.filter_cons]
  by_cases h : i = j ∧ k' = k
  · obtain ⟨rfl, rfl⟩ := h; simp; omega
  · rw [if_neg h]
    have : ((i == j) && (k' == k)) = false := by
      simp; intro h1; exact fun h2 => h ⟨h1, h2⟩
    simp [this]

theorem closeAllRev_append (now : τ) : ∀ (a b : List (RT2 τ)),
    closeAllRev now (a ++ b) = closeAllRev now b ++ closeAllRev now a
  | [], b => by simp [closeAllRev]
  | d :: a, b => by
      simp only [List.cons_append, closeAllRev, closeAllRev_append now a b, List.append_assoc]

theorem closeAllRev_eq_flatten (now : τ) : ∀ ds : List (RT2 τ),
    closeAllRev now ds = (ds.reverse.map (closeRT now)).flatten
  | [] => by simp [closeAllRev]
  | d :: ds => by
      simp [closeAllRev, closeAllRev_eq_flatten now ds]

theorem liveIdsL_append : ∀ (a b : List (RT2 τ)), liveIdsL (a ++ b) = liveIdsL a ++ liveIdsL b
  | [], b => by simp [liveIdsL]
  | d :: a, b => by simp [liveIdsL, liveIdsL_append a b]

mutual
theorem closeRT_count (now : τ) (j : Id) : ∀ rt : RT2 τ,
    countK .exit j (closeRT now rt) = (liveIds rt).count j ∧ countK .enter j (closeRT now rt) = 0
  | .leaf i _ _ _ => by
      simp [closeRT, liveIds, countK_cons, countK_nil, List.count_cons]
  | .group i _ _ _ _ _ deeds _ => by
      have := closeAllRev_count now j deeds
      simp [closeRT, liveIds, countK_cons, countK_nil, countK_append, List.count_cons, this]
      omega
theorem closeAllRev_count (now : τ) (j : Id) : ∀ ds : List (RT2 τ),
    countK .exit j (closeAllRev now ds) = (liveIdsL ds).count j ∧ countK .enter j (closeAllRev now ds) = 0
  | [] => by simp [closeAllRev, liveIdsL, countK_nil]
  | d :: ds => by
      have h1 := closeRT_count now j d
      have h2 := closeAllRev_count now j ds
      simp [closeAllRev, liveIdsL, countK_append, h1, h2]
      omega
end

theorem abortEvs_count (k : Kind) (hk : k ≠ .abort) (i : Id) (x : Exn2) (now : τ) (j : Id) :
    countK k j (abortEvs i x now) = 0 := by
  unfold abortEvs
  split
  · simp [countK_cons, countK_nil]
    intro _ h; exact hk h.symm
  · rfl

theorem flagEvs_count (k : Kind) (hk : ∀ b, k ≠ .flag b) (i : Id) (v : Option Bool) (now : τ) (j : Id) :
    countK k j (flagEvs i v now) = 0 := by
  cases v <;> simp [flagEvs, countK_cons, countK_nil]
  intro _ h; exact hk _ h.symm

/-! ### enter -/
mutual
theorem enterSpec_count (now : τ) (j : Id) : ∀ s : Spec2 τ,
    countK .enter j (enterSpec now s).1
      = countK .exit j (enterSpec now s).1 + (liveIdsL (enterSpec now s).2.1.toList).count j
    ∧ (∀ x, (enterSpec now s).2.2 = some x → (enterSpec now s).2.1 = none)
  | .leaf i act steps cf => by
      cases act with
      | ok => simp [enterSpec, liveIdsL, liveIds, countK_cons, countK_nil, List.count_cons]
      | fail x => simp [enterSpec, liveIdsL, countK_cons, countK_nil, countK_append, abortEvs_count]
      | done v =>
          cases cf <;> simp [enterSpec, liveIdsL, countK_cons, countK_nil, countK_append, flagEvs_count]
  | .group i tock always kids pool cf => by
      have h := enterList_count now j kids
      unfold enterSpec
      generalize enterList now kids = R at h ⊢
      obtain ⟨es, deeds, b⟩ := R
      have hc := closeAllRev_count now j deeds
      cases b with
      | some x =>
          simp [countK_cons, countK_nil, countK_append, hc, liveIdsL, abortEvs_count] at h ⊢
          omega
      | none =>
          simp [countK_cons, countK_nil, countK_append, liveIdsL, liveIds, List.count_cons] at h ⊢
          omega
theorem enterList_count (now : τ) (j : Id) : ∀ ss : List (Spec2 τ),
    countK .enter j (enterList now ss).1
      = countK .exit j (enterList now ss).1 + (liveIdsL (enterList now ss).2.1).count j
  | [] => by simp [enterList, countK_nil, liveIdsL]
  | s :: ss => by
      have h1 := enterSpec_count now j s
      have h2 := enterList_count now j ss
      unfold enterList
      generalize enterSpec now s = R at h1 ⊢
      obtain ⟨e, r, b⟩ := R
      cases b with
      | some x =>
          simp at h1
          simp [liveIdsL, h1]
      | none =>
          dsimp only at h1 ⊢
          generalize enterList now ss = R2 at h2 ⊢
          obtain ⟨e2, rs, b2⟩ := R2
          simp [countK_append, liveIdsL_append] at h1 h2 ⊢
          omega
end

/-! ### extend / remove / ops -/
theorem liveIdsL_filter_count (j : Id) (p : RT2 τ → Bool) : ∀ ds : List (RT2 τ),
    (liveIdsL (ds.filter p)).count j + (liveIdsL (ds.filter (fun d => !p d))).count j
      = (liveIdsL ds).count j
  | [] => by simp [liveIdsL]
  | d :: ds => by
      have := liveIdsL_filter_count j p ds
      cases h : p d <;> simp [List.filter_cons, h, liveIdsL] <;> omega

theorem extendList_count (pool : List (Spec2 τ)) (now : τ) (j : Id) : ∀ (ks : List Nat) (c : Cyc2 τ),
    countK .enter j (extendList pool now ks c).1 + (liveIdsL c.pr).count j
      = countK .exit j (extendList pool now ks c).1 + (liveIdsL (extendList pool now ks c).2.1.pr).count j
    ∧ (extendList pool now ks c).2.1.gone = c.gone
  | [], c => by simp [extendList, countK_nil]
  | k :: ks, c => by
      unfold extendList
      split
      · exact extendList_count pool now j ks c
      · rename_i s _
        split
        · exact extendList_count pool now j ks c
        · have h1 := enterSpec_count now j s
          generalize enterSpec now s = R at h1 ⊢
          obtain ⟨e, r, b⟩ := R
          cases b with
          | some x =>
              simp at h1
              simp [h1, liveIdsL]
          | none =>
              dsimp only at h1 ⊢
              have h2 := extendList_count pool now j ks
                { pr := c.pr ++ r.toList, doers := c.doers ++ [s.id], gone := c.gone }
              generalize extendList pool now ks _ = R2 at h2 ⊢
              obtain ⟨e2, c2, b2⟩ := R2
              simp [countK_append, liveIdsL_append] at h1 h2 ⊢
              exact ⟨by omega, h2.2⟩

theorem liveUn_removeOp (now : τ) (sid : Id) (un : List (RT2 τ)) (ids : List Id) (c : Cyc2 τ) :
    liveUn (removeOp now sid un ids c).2 un
      = (liveUn c un).filter (fun d => !(ids.filter (fun i => c.doers.contains i)).contains d.id) := by
  simp only [removeOp, liveUn, List.filter_filter]
  apply List.filter_congr
  intro d hd
  by_cases hg : d.id ∈ c.gone
  · simp [hg]
  · rw [Bool.eq_iff_iff]
    simp [hg, List.mem_filter]
    constructor
    · intro h
      by_cases h1 : d.id ∈ ids
      · by_cases h2 : d.id ∈ c.doers
        · exact absurd rfl (h d hd h1 h2 hg)
        · exact Or.inr h2
      · exact Or.inl h1
    · intro h x _ h1 h2 _ he
      rw [he] at h1 h2
      rcases h with h | h
      · exact h h1
      · exact h h2

theorem removeOp_count (now : τ) (sid : Id) (un : List (RT2 τ)) (ids : List Id) (c : Cyc2 τ) (j : Id) :
    countK .enter j (removeOp now sid un ids c).1 = 0 ∧
    (liveIdsL (c.pr ++ liveUn c un)).count j
      = countK .exit j (removeOp now sid un ids c).1
        + (liveIdsL ((removeOp now sid un ids c).2.pr ++ liveUn (removeOp now sid un ids c).2 un)).count j := by
  rw [liveUn_removeOp]
  simp only [removeOp]
  have hc := closeAllRev_count now j
  have f1 := liveIdsL_filter_count j (fun d => (ids.filter (fun i => c.doers.contains i)).contains d.id) c.pr
  have f2 := liveIdsL_filter_count j (fun d => (ids.filter (fun i => c.doers.contains i)).contains d.id) (liveUn c un)
  simp [countK_cons, countK_nil, countK_append, hc, liveIdsL_append] at f1 f2 ⊢
  omega

theorem liveUn_congr {c c' : Cyc2 τ} (h : c'.gone = c.gone) (un : List (RT2 τ)) : liveUn c' un = liveUn c un := by
  simp only [liveUn, h]

theorem applyOps_count (pool : List (Spec2 τ)) (now : τ) (sid : Id) (un : List (RT2 τ)) (j : Id) :
    ∀ (ops : List Op) (c : Cyc2 τ),
    countK .enter j (applyOps pool now sid un ops c).1 + (liveIdsL (c.pr ++ liveUn c un)).count j
      = countK .exit j (applyOps pool now sid un ops c).1
        + (liveIdsL ((applyOps pool now sid un ops c).2.1.pr ++ liveUn (applyOps pool now sid un ops c).2.1 un)).count j
  | [], c => by simp [applyOps, countK_nil]
  | .extend ks :: ops, c => by
      have h1 := extendList_count pool now j ks c
      unfold applyOps
      split
      · rename_i e c1 heq
        rw [heq] at h1
        simp [liveIdsL_append, liveUn_congr h1.2] at h1 ⊢
        omega
      · rename_i e c1 heq
        rw [heq] at h1
        split
        rename_i e2 c2 b heq2
        have h2 := applyOps_count pool now sid un j ops c1
        rw [heq2] at h2
        simp [liveIdsL_append, liveUn_congr h1.2, countK_append, countK_cons, countK_nil] at h1 h2 ⊢
        omega
  | .remove ids :: ops, c => by
      have h1 := removeOp_count now sid un ids c j
      unfold applyOps
      split
      rename_i e c1 heq
      rw [heq] at h1
      split
      rename_i e2 c2 b heq2
      have h2 := applyOps_count pool now sid un j ops c1
      rw [heq2] at h2
      simp [liveIdsL_append, countK_append, countK_cons, countK_nil] at h1 h2 ⊢
      omega

def resLive : Res2 τ → List Id
  | .yielded rt _ => liveIds rt
  | _ => []

theorem liveIds_setRetyme (r : τ) : ∀ rt : RT2 τ, liveIds (rt.setRetyme r) = liveIds rt
  | .leaf .. => by simp [RT2.setRetyme, liveIds]
  | .group .. => by simp [RT2.setRetyme, liveIds]

theorem liveUn_nil_gone (doers : List Id) (pr un : List (RT2 τ)) :
    liveUn { pr := pr, doers := doers, gone := [] } un = un := by
  simp [liveUn]

theorem liveUn_cons (c : Cyc2 τ) (d : RT2 τ) (un : List (RT2 τ)) :
    liveUn c (d :: un) = if c.gone.contains d.id then liveUn c un else d :: liveUn c un := by
  simp only [liveUn, List.filter_cons]
  cases c.gone.contains d.id <;> simp

theorem liveUn_pr (c : Cyc2 τ) (p : List (RT2 τ)) (un : List (RT2 τ)) :
    liveUn { pr := p, doers := c.doers, gone := c.gone } un = liveUn c un := rfl

theorem stopEvs_count (now : τ) (ds : List (RT2 τ)) (j : Id) :
    countK .exit j (stopEvs now ds) = (liveIdsL ds).count j ∧ countK .enter j (stopEvs now ds) = 0 := by
  have hc := closeAllRev_count now j ds
  simp [stopEvs, countK_append, countK_cons, countK_nil, hc]

section Timed
variable [Add τ] [LE τ] [DecidableRel (α := τ) (· ≤ ·)] [OfNat τ 0] [BEq τ]

theorem runCycle_none_un (pool : List (Spec2 τ)) (now stock : τ) (sid : Id) :
    ∀ (un : List (RT2 τ)) (c : Cyc2 τ),
    (runCycle pool now stock sid un c).2.2.2 = none → (runCycle pool now stock sid un c).2.1 = []
  | [], c => by simp [runCycle]
  | d :: un, c => by
      have ih := runCycle_none_un pool now stock sid un
      unfold runCycle
      dsimp only
      repeat' split
      all_goals first | exact ih _ | simp

mutual
theorem resumeGroup_count (now : τ) (j : Id) : ∀ rt : RT2 τ,
    match rt with
    | .leaf .. => True
    | .group .. =>
      countK .enter j (resumeGroup now rt).1 + (liveIds rt).count j
        = countK .exit j (resumeGroup now rt).1 + (resLive (resumeGroup now rt).2).count j
  | .leaf .. => trivial
  | .group i r tock always pool doers deeds cf => by
      have h := runCycle_count now j pool tock i deeds { doers := doers }
      have hn := runCycle_none_un pool now tock i deeds { doers := doers }
      simp only
      unfold resumeGroup
      split
      · rename_i es un c x heq
        rw [heq] at h
        have hc := closeAllRev_count now j (c.pr ++ un)
        simp [countK_append, countK_cons, countK_nil, abortEvs_count, hc, resLive, liveIds,
          List.count_cons, liveUn_nil_gone] at h ⊢
        omega
      · rename_i es un c heq
        rw [heq] at h hn
        simp at hn
        subst hn
        dsimp only
        split
        · simp [countK_append, countK_cons, countK_nil, resLive, liveIds,
            List.count_cons, liveUn_nil_gone] at h ⊢
          omega
        · rename_i hne
          have hpr : c.pr = [] := by
            cases hp : c.pr with
            | nil => rfl
            | cons a b => simp [hp] at hne
          split <;>
          · simp [countK_append, countK_cons, countK_nil, resLive, liveIds,
              List.count_cons, liveUn_nil_gone, hpr, liveIdsL] at h ⊢
            omega
theorem runCycle_count (now : τ) (j : Id) (pool : List (Spec2 τ)) (stock : τ) (sid : Id) :
    ∀ (un : List (RT2 τ)) (c : Cyc2 τ),
    countK .enter j (runCycle pool now stock sid un c).1 + (liveIdsL (c.pr ++ liveUn c un)).count j
      = countK .exit j (runCycle pool now stock sid un c).1
        + (liveIdsL ((runCycle pool now stock sid un c).2.2.1.pr ++ (runCycle pool now stock sid un c).2.1)).count j
  | [], c => by simp [runCycle, countK_nil, liveUn]
  | .leaf i r steps cf :: un, c => by
      have ih := runCycle_count now j pool stock sid un
      have ho := applyOps_count pool now sid un j (headStep steps).1.ops c
      unfold runCycle
      dsimp only
      rw [liveUn_cons]
      split
      · exact ih c
      · split
        · generalize applyOps pool now sid un (headStep steps).1.ops c = A at ho ⊢
          obtain ⟨eo, c1, b⟩ := A
          dsimp only at ho ⊢
          split
          · simp [countK_append, countK_cons, countK_nil, abortEvs_count, liveIdsL_append, liveIdsL,
              liveIds, List.count_cons] at ho ⊢
            omega
          · split
            · simp [countK_append, countK_cons, countK_nil, liveIdsL_append, liveIdsL,
                liveIds, List.count_cons] at ho ⊢
              omega
            · have := ih c1
              generalize runCycle pool now stock sid un c1 = R at this ⊢
              obtain ⟨e2, un2, c2, x⟩ := R
              simp [countK_append, countK_cons, countK_nil, flagEvs_count, liveIdsL_append, liveIdsL,
                liveIds, List.count_cons] at ho this ⊢
              omega
          · rename_i t _
            have := ih { pr := c1.pr ++ [.leaf i (nextDue now stock r t) (headStep steps).2 cf],
                         doers := c1.doers, gone := c1.gone }
            generalize runCycle pool now stock sid un _ = R at this ⊢
            obtain ⟨e2, un2, c2, x⟩ := R
            simp [countK_append, countK_cons, countK_nil, liveIdsL_append, liveIdsL,
              liveIds, List.count_cons, liveUn_pr] at ho this ⊢
            omega
        · have := ih { pr := c.pr ++ [.leaf i r steps cf], doers := c.doers, gone := c.gone }
          generalize runCycle pool now stock sid un _ = R at this ⊢
          obtain ⟨e2, un2, c2, x⟩ := R
          simp [liveIdsL_append, liveIdsL, liveIds, List.count_cons, liveUn_pr] at this ⊢
          omega
  | .group i r tock always gpool doers deeds cf :: un, c => by
      have ih := runCycle_count now j pool stock sid un
      have hg := resumeGroup_count now j (.group i r tock always gpool doers deeds cf)
      simp only at hg
      unfold runCycle
      dsimp only
      rw [liveUn_cons]
      split
      · exact ih c
      · split
        · generalize resumeGroup now (.group i r tock always gpool doers deeds cf) = G at hg ⊢
          obtain ⟨eg, res⟩ := G
          cases res with
          | raised x =>
              simp [liveIdsL_append, liveIdsL, resLive, List.count_cons] at hg ⊢
              omega
          | finished =>
              have := ih c
              generalize runCycle pool now stock sid un c = R at this ⊢
              obtain ⟨e2, un2, c2, x⟩ := R
              simp [countK_append, countK_cons, countK_nil, liveIdsL_append, liveIdsL, resLive,
                List.count_cons] at hg this ⊢
              omega
          | yielded rt t =>
              dsimp only
              have := ih { pr := c.pr ++ [rt.setRetyme (nextDue now stock r (some t))],
                           doers := c.doers, gone := c.gone }
              generalize runCycle pool now stock sid un _ = R at this ⊢
              obtain ⟨e2, un2, c2, x⟩ := R
              simp [countK_append, countK_cons, countK_nil, liveIdsL_append, liveIdsL, resLive,
                List.count_cons, liveUn_pr, liveIds_setRetyme] at hg this ⊢
              omega
        · have := ih { pr := c.pr ++ [.group i r tock always gpool doers deeds cf], doers := c.doers, gone := c.gone }
          generalize runCycle pool now stock sid un _ = R at this ⊢
          obtain ⟨e2, un2, c2, x⟩ := R
          simp [liveIdsL_append, liveIdsL, List.count_cons, liveUn_pr] at this ⊢
          omega
end

theorem doLoop_count (pool : List (Spec2 τ)) (tock : τ) (stopAt : Option τ) (j : Id) :
    ∀ (fuel n : Nat) (now : τ) (deeds : List (RT2 τ)) (doers : List Id),
    countK .enter j (doLoop pool tock stopAt fuel n now deeds doers).evs + (liveIdsL deeds).count j
      = countK .exit j (doLoop pool tock stopAt fuel n now deeds doers).evs
  | 0, n, now, deeds, doers => by
      have := stopEvs_count now deeds j
      simp [doLoop, this]
  | fuel+1, n, now, deeds, doers => by
      have h := runCycle_count now j pool tock 0 deeds { doers := doers }
      have hn := runCycle_none_un pool now tock 0 deeds { doers := doers }
      unfold doLoop
      generalize runCycle pool now tock 0 deeds { doers := doers } = R at h hn ⊢
      obtain ⟨es, un, c, x⟩ := R
      cases x with
      | some x =>
          have hs := stopEvs_count now (c.pr ++ un) j
          simp [countK_append, hs, liveUn_nil_gone] at h ⊢
          omega
      | none =>
          simp at hn
          subst hn
          dsimp only
          split
          · rename_i hp
            have hpr : c.pr = [] := by
              cases hq : c.pr with
              | nil => rfl
              | cons a b => simp [hq] at hp
            have hs := stopEvs_count (now + tock) ([] : List (RT2 τ)) j
            simp [countK_append, hs, liveUn_nil_gone, hpr, liveIdsL] at h ⊢
            omega
          · have ih := doLoop_count pool tock stopAt j fuel (n+1) (now + tock) c.pr c.doers
            have hs := stopEvs_count (now + tock) c.pr j
            split <;> (try split) <;> simp [countK_append, hs, liveUn_nil_gone] at h ih ⊢ <;> omega

theorem doistDo_count (pool : List (Spec2 τ)) (tock start : τ) (limit : Option τ) (fuel : Nat)
    (specs : List (Spec2 τ)) (j : Id) :
    countK .enter j (doistDo pool tock start limit fuel specs).evs
      = countK .exit j (doistDo pool tock start limit fuel specs).evs := by
  have h := enterList_count start j specs
  unfold doistDo
  split
  · rename_i es deeds x heq
    rw [heq] at h
    have hs := stopEvs_count start deeds j
    simp [countK_append, hs] at h ⊢
    omega
  · rename_i es deeds heq
    rw [heq] at h
    have hl := doLoop_count pool tock (limit.map (start + ·)) j fuel 0 start deeds (specs.map Spec2.id)
    simp [countK_append] at h hl ⊢
    omega
end Timed


/-! ### shapes of the other places that emit `exitEnd` -/
theorem enterSpec_group_fail_shape (now : τ) (i : Id) (t : τ) (a : Bool) (kids pool : List (Spec2 τ))
    (cf : Bool) (es : List (Ev τ)) (r : Option (RT2 τ)) (x : Exn2)
    (h : enterSpec now (.group i t a kids pool cf) = (es, r, some x)) :
    ∃ pre ds, es = pre ++ [ev i .exit now] ++ closeAllRev now ds ++ [ev i .exitEnd now]
      ∧ ∀ j, countK .enter j pre = countK .exit j pre + (i :: liveIdsL ds).count j := by
  unfold enterSpec at h
  have hc := fun j => enterList_count now j kids
  generalize enterList now kids = R at h hc
  obtain ⟨e, deeds, b⟩ := R
  cases b with
  | none => simp at h
  | some y =>
      simp only [Prod.mk.injEq] at h
      refine ⟨[ev i (.flag false) now, ev i .enter now] ++ e ++ abortEvs i y now, deeds, ?_, ?_⟩
      · rw [← h.1]
      · intro j
        have := hc j
        simp [countK_append, countK_cons, countK_nil, List.count_cons, abortEvs_count] at this ⊢
        omega

section Timed2
variable [Add τ] [LE τ] [DecidableRel (α := τ) (· ≤ ·)] [OfNat τ 0] [BEq τ]

/-- both raise paths of a DoDoer: a deed (or an enter in extend) raised in mid cycle, or its own clean
action raised after it finished by itself (then `ds = []`, `pre` ends with `clean`) -/
theorem resumeGroup_raised_shape (now : τ) (i : Id) (r tock : τ) (always : Bool) (pool : List (Spec2 τ))
    (doers : List Id) (deeds : List (RT2 τ)) (cf : Bool) (es : List (Ev τ)) (x : Exn2)
    (h : resumeGroup now (.group i r tock always pool doers deeds cf) = (es, .raised x)) :
    ∃ pre ds, es = pre ++ [ev i .exit now] ++ closeAllRev now ds ++ [ev i .exitEnd now]
      ∧ ∀ j, countK .enter j pre + (liveIdsL deeds).count j
              = countK .exit j pre + (liveIdsL ds).count j := by
  unfold resumeGroup at h
  have hc := fun j => runCycle_count now j pool tock i deeds { doers := doers }
  have hn := runCycle_none_un pool now tock i deeds { doers := doers }
  generalize runCycle pool now tock i deeds { doers := doers } = R at h hc hn
  obtain ⟨e, un, c, ox⟩ := R
  cases ox with
  | none =>
      simp at hn
      subst hn
      dsimp only at h
      split at h
      · simp at h
      · rename_i hne
        have hpr : c.pr = [] := by
          cases hp : c.pr with
          | nil => rfl
          | cons a b => simp [hp] at hne
        split at h
        · simp only [Prod.mk.injEq] at h
          refine ⟨[ev i .recur now] ++ e ++ [ev i (.flag c.pr.isEmpty) now] ++ [ev i .clean now], [], ?_, ?_⟩
          · rw [← h.1]; simp [closeAllRev]
          · intro j
            have := hc j
            simp [countK_append, countK_cons, countK_nil, liveUn_nil_gone, hpr, liveIdsL] at this ⊢
            omega
        · simp at h
  | some y =>
      simp only [Prod.mk.injEq] at h
      refine ⟨[ev i .recur now] ++ e ++ abortEvs i y now, c.pr ++ un, ?_, ?_⟩
      · rw [← h.1]
      · intro j
        have := hc j
        simp [countK_append, countK_cons, countK_nil, abortEvs_count, liveUn_nil_gone] at this ⊢
        omega

/-- a DoDoer that finishes by itself (its cycle did not raise): `clean, exit, exitEnd` with no deed
left alive, whether its clean action succeeds (`.finished`) or fails (`.raised .err`, `cf = true`) -/
theorem resumeGroup_self_finish_shape (now : τ) (i : Id) (r tock : τ) (always : Bool) (pool : List (Spec2 τ))
    (doers : List Id) (deeds : List (RT2 τ)) (cf : Bool) (es : List (Ev τ)) (res : Res2 τ)
    (h : resumeGroup now (.group i r tock always pool doers deeds cf) = (es, res))
    (hr : (runCycle pool now tock i deeds { doers := doers }).2.2.2 = none)
    (hy : ∀ rt t, res ≠ .yielded rt t) :
    (∃ pre, es = pre ++ [ev i .clean now, ev i .exit now, ev i .exitEnd now]
      ∧ ∀ j, countK .enter j pre + (liveIdsL deeds).count j = countK .exit j pre)
    ∧ ((cf = true ∧ res = .raised .err) ∨ (cf = false ∧ res = .finished)) := by
  unfold resumeGroup at h
  have hc := fun j => runCycle_count now j pool tock i deeds { doers := doers }
  have hn := runCycle_none_un pool now tock i deeds { doers := doers }
  generalize runCycle pool now tock i deeds { doers := doers } = R at h hc hn hr
  obtain ⟨e, un, c, ox⟩ := R
  cases ox with
  | some y => simp at hr
  | none =>
      simp at hn
      subst hn
      dsimp only at h
      split at h
      · simp only [Prod.mk.injEq] at h
        exact absurd h.2.symm (hy _ _)
      · rename_i hne
        have hpr : c.pr = [] := by
          cases hp : c.pr with
          | nil => rfl
          | cons a b => simp [hp] at hne
        have hbal : ∀ j, countK .enter j ([ev i .recur now] ++ e ++ [ev i (.flag c.pr.isEmpty) now])
            + (liveIdsL deeds).count j
            = countK .exit j ([ev i .recur now] ++ e ++ [ev i (.flag c.pr.isEmpty) now]) := by
          intro j
          have := hc j
          simp [countK_append, countK_cons, countK_nil, liveUn_nil_gone, hpr, liveIdsL] at this ⊢
          omega
        split at h
        · rename_i hcf
          simp only [Prod.mk.injEq] at h
          exact ⟨⟨_, h.1.symm, hbal⟩, Or.inl ⟨hcf, h.2.symm⟩⟩
        · rename_i hcf
          simp only [Prod.mk.injEq] at h
          exact ⟨⟨_, h.1.symm, hbal⟩, Or.inr ⟨by simpa using hcf, h.2.symm⟩⟩

theorem resumeGroup_finished_shape (now : τ) (i : Id) (r tock : τ) (always : Bool) (pool : List (Spec2 τ))
    (doers : List Id) (deeds : List (RT2 τ)) (cf : Bool) (es : List (Ev τ))
    (h : resumeGroup now (.group i r tock always pool doers deeds cf) = (es, .finished)) :
    ∃ pre, es = pre ++ [ev i .clean now, ev i .exit now, ev i .exitEnd now]
      ∧ ∀ j, countK .enter j pre + (liveIdsL deeds).count j = countK .exit j pre := by
  refine (resumeGroup_self_finish_shape now i r tock always pool doers deeds cf es .finished h ?_ ?_).1
  · unfold resumeGroup at h
    generalize runCycle pool now tock i deeds { doers := doers } = R at h ⊢
    obtain ⟨e, un, c, ox⟩ := R
    cases ox with
    | some y => simp at h
    | none => rfl
  · intro rt t hh; cases hh
end Timed2

/-! ### `exitEnd` never outnumbers `exit` -/
mutual
theorem closeRT_le (now : τ) (j : Id) : ∀ rt : RT2 τ,
    countK .exitEnd j (closeRT now rt) ≤ countK .exit j (closeRT now rt)
  | .leaf i _ _ _ => by simp [closeRT, countK_cons, countK_nil]
  | .group i _ _ _ _ _ deeds _ => by
      have := closeAllRev_le now j deeds
      simp [closeRT, countK_cons, countK_nil, countK_append]
      omega
theorem closeAllRev_le (now : τ) (j : Id) : ∀ ds : List (RT2 τ),
    countK .exitEnd j (closeAllRev now ds) ≤ countK .exit j (closeAllRev now ds)
  | [] => by simp [closeAllRev, countK_nil]
  | d :: ds => by
      have h1 := closeRT_le now j d
      have h2 := closeAllRev_le now j ds
      simp [closeAllRev, countK_append]
      omega
end

mutual
theorem enterSpec_le (now : τ) (j : Id) : ∀ s : Spec2 τ,
    countK .exitEnd j (enterSpec now s).1 ≤ countK .exit j (enterSpec now s).1
  | .leaf i act steps cf => by
      cases act with
      | ok => simp [enterSpec, countK_cons, countK_nil]
      | fail x => simp [enterSpec, countK_cons, countK_nil, countK_append, abortEvs_count]
      | done v => cases cf <;> simp [enterSpec, countK_cons, countK_nil, countK_append, flagEvs_count]
  | .group i tock always kids pool cf => by
      have h := enterList_le now j kids
      unfold enterSpec
      generalize enterList now kids = R at h ⊢
      obtain ⟨es, deeds, b⟩ := R
      have hc := closeAllRev_le now j deeds
      cases b <;> simp [countK_cons, countK_nil, countK_append, abortEvs_count] at h ⊢ <;> omega
theorem enterList_le (now : τ) (j : Id) : ∀ ss : List (Spec2 τ),
    countK .exitEnd j (enterList now ss).1 ≤ countK .exit j (enterList now ss).1
  | [] => by simp [enterList, countK_nil]
  | s :: ss => by
      have h1 := enterSpec_le now j s
      have h2 := enterList_le now j ss
      unfold enterList
      generalize enterSpec now s = R at h1 ⊢
      obtain ⟨e, r, b⟩ := R
      generalize enterList now ss = R2 at h2 ⊢
      obtain ⟨e2, rs, b2⟩ := R2
      cases b <;> simp [countK_append] at h1 h2 ⊢ <;> omega
end

theorem extendList_le (pool : List (Spec2 τ)) (now : τ) (j : Id) : ∀ (ks : List Nat) (c : Cyc2 τ),
    countK .exitEnd j (extendList pool now ks c).1 ≤ countK .exit j (extendList pool now ks c).1
  | [], c => by simp [extendList, countK_nil]
  | k :: ks, c => by
      unfold extendList
      split
      · exact extendList_le pool now j ks c
      · rename_i s _
        split
        · exact extendList_le pool now j ks c
        · have h1 := enterSpec_le now j s
          generalize enterSpec now s = R at h1 ⊢
          obtain ⟨e, r, b⟩ := R
          cases b with
          | some x0 => exact h1
          | none =>
              dsimp only at h1 ⊢
              have h2 := extendList_le pool now j ks
                { pr := c.pr ++ r.toList, doers := c.doers ++ [s.id], gone := c.gone }
              generalize extendList pool now ks _ = R2 at h2 ⊢
              obtain ⟨e2, c2, b2⟩ := R2
              simp [countK_append] at h1 h2 ⊢
              omega

theorem removeOp_le (now : τ) (sid : Id) (un : List (RT2 τ)) (ids : List Id) (c : Cyc2 τ) (j : Id) :
    countK .exitEnd j (removeOp now sid un ids c).1 ≤ countK .exit j (removeOp now sid un ids c).1 := by
  simp only [removeOp]
  have := closeAllRev_le now j
    (c.pr.filter (fun d => (ids.filter (fun i => c.doers.contains i)).contains d.id) ++
      (liveUn c un).filter (fun d => (ids.filter (fun i => c.doers.contains i)).contains d.id))
  simp [countK_cons, countK_nil, countK_append] at this ⊢
  omega

theorem applyOps_le (pool : List (Spec2 τ)) (now : τ) (sid : Id) (un : List (RT2 τ)) (j : Id) :
    ∀ (ops : List Op) (c : Cyc2 τ),
    countK .exitEnd j (applyOps pool now sid un ops c).1 ≤ countK .exit j (applyOps pool now sid un ops c).1
  | [], c => by simp [applyOps, countK_nil]
  | .extend ks :: ops, c => by
      have h1 := extendList_le pool now j ks c
      unfold applyOps
      generalize extendList pool now ks c = R at h1 ⊢
      obtain ⟨e, c1, b⟩ := R
      cases b with
      | some x0 => exact h1
      | none =>
          dsimp only at h1 ⊢
          have h2 := applyOps_le pool now sid un j ops c1
          generalize applyOps pool now sid un ops c1 = R2 at h2 ⊢
          obtain ⟨e2, c2, b2⟩ := R2
          simp [countK_append, countK_cons, countK_nil] at h1 h2 ⊢
          omega
  | .remove ids :: ops, c => by
      have h1 := removeOp_le now sid un ids c j
      unfold applyOps
      generalize removeOp now sid un ids c = R at h1 ⊢
      obtain ⟨e, c1⟩ := R
      dsimp only at h1 ⊢
      have h2 := applyOps_le pool now sid un j ops c1
      generalize applyOps pool now sid un ops c1 = R2 at h2 ⊢
      obtain ⟨e2, c2, b2⟩ := R2
      simp [countK_append, countK_cons, countK_nil] at h1 h2 ⊢
      omega

theorem stopEvs_le (now : τ) (ds : List (RT2 τ)) (j : Id) :
    countK .exitEnd j (stopEvs now ds) ≤ countK .exit j (stopEvs now ds) := by
  have hc := closeAllRev_le now j ds
  simp [stopEvs, countK_append, countK_cons, countK_nil]
  omega

section Timed4
variable [Add τ] [LE τ] [DecidableRel (α := τ) (· ≤ ·)] [OfNat τ 0] [BEq τ]

mutual
theorem resumeGroup_le (now : τ) (j : Id) : ∀ rt : RT2 τ,
    countK .exitEnd j (resumeGroup now rt).1 ≤ countK .exit j (resumeGroup now rt).1
  | .leaf .. => by simp [resumeGroup, countK_nil]
  | .group i r tock always pool doers deeds cf => by
      have h := runCycle_le now j pool tock i deeds { doers := doers }
      unfold resumeGroup
      generalize runCycle pool now tock i deeds { doers := doers } = R at h ⊢
      obtain ⟨es, un, c, x⟩ := R
      cases x with
      | some x =>
          have hc := closeAllRev_le now j (c.pr ++ un)
          simp [countK_append, countK_cons, countK_nil, abortEvs_count] at h hc ⊢
          omega
      | none =>
          dsimp only
          split <;> (try split) <;> simp [countK_append, countK_cons, countK_nil] at h ⊢ <;> omega
theorem runCycle_le (now : τ) (j : Id) (pool : List (Spec2 τ)) (stock : τ) (sid : Id) :
    ∀ (un : List (RT2 τ)) (c : Cyc2 τ),
    countK .exitEnd j (runCycle pool now stock sid un c).1 ≤ countK .exit j (runCycle pool now stock sid un c).1
  | [], c => by simp [runCycle, countK_nil]
  | .leaf i r steps cf :: un, c => by
      have ih := runCycle_le now j pool stock sid un
      have ho := applyOps_le pool now sid un j (headStep steps).1.ops c
      unfold runCycle
      dsimp only
      split
      · exact ih c
      · split
        · generalize applyOps pool now sid un (headStep steps).1.ops c = A at ho ⊢
          obtain ⟨eo, c1, b⟩ := A
          dsimp only at ho ⊢
          split
          · simp [countK_append, countK_cons, countK_nil, abortEvs_count] at ho ⊢
            omega
          · split
            · simp [countK_append, countK_cons, countK_nil] at ho ⊢
              omega
            · have := ih c1
              generalize runCycle pool now stock sid un c1 = R at this ⊢
              obtain ⟨e2, un2, c2, x⟩ := R
              simp [countK_append, countK_cons, countK_nil, flagEvs_count] at ho this ⊢
              omega
          · rename_i t _
            have := ih { pr := c1.pr ++ [.leaf i (nextDue now stock r t) (headStep steps).2 cf],
                         doers := c1.doers, gone := c1.gone }
            generalize runCycle pool now stock sid un _ = R at this ⊢
            obtain ⟨e2, un2, c2, x⟩ := R
            simp [countK_append, countK_cons, countK_nil] at ho this ⊢
            omega
        · exact ih _
  | .group i r tock always gpool doers deeds cf :: un, c => by
      have ih := runCycle_le now j pool stock sid un
      have hg := resumeGroup_le now j (.group i r tock always gpool doers deeds cf)
      unfold runCycle
      dsimp only
      split
      · exact ih c
      · split
        · generalize resumeGroup now (.group i r tock always gpool doers deeds cf) = G at hg ⊢
          obtain ⟨eg, res⟩ := G
          cases res with
          | raised x => exact hg
          | finished =>
              have := ih c
              generalize runCycle pool now stock sid un c = R at this ⊢
              obtain ⟨e2, un2, c2, x⟩ := R
              simp [countK_append, countK_cons, countK_nil] at hg this ⊢
              omega
          | yielded rt t =>
              dsimp only
              have := ih { pr := c.pr ++ [rt.setRetyme (nextDue now stock r (some t))],
                           doers := c.doers, gone := c.gone }
              generalize runCycle pool now stock sid un _ = R at this ⊢
              obtain ⟨e2, un2, c2, x⟩ := R
              simp [countK_append, countK_cons, countK_nil] at hg this ⊢
              omega
        · exact ih _
end

theorem doLoop_le (pool : List (Spec2 τ)) (tock : τ) (stopAt : Option τ) (j : Id) :
    ∀ (fuel n : Nat) (now : τ) (deeds : List (RT2 τ)) (doers : List Id),
    countK .exitEnd j (doLoop pool tock stopAt fuel n now deeds doers).evs
      ≤ countK .exit j (doLoop pool tock stopAt fuel n now deeds doers).evs
  | 0, n, now, deeds, doers => by
      have := stopEvs_le now deeds j
      simp [doLoop, this]
  | fuel+1, n, now, deeds, doers => by
      have h := runCycle_le now j pool tock 0 deeds { doers := doers }
      unfold doLoop
      generalize runCycle pool now tock 0 deeds { doers := doers } = R at h ⊢
      obtain ⟨es, un, c, x⟩ := R
      cases x with
      | some x =>
          have hs := stopEvs_le now (c.pr ++ un) j
          simp [countK_append] at h hs ⊢
          omega
      | none =>
          dsimp only
          have hs0 := stopEvs_le (now + tock) ([] : List (RT2 τ)) j
          have hs := stopEvs_le (now + tock) c.pr j
          have ih := doLoop_le pool tock stopAt j fuel (n+1) (now + tock) c.pr c.doers
          split
          · simp [countK_append] at h ⊢
            omega
          · split <;> (try split) <;> simp [countK_append] at h ih ⊢ <;> omega

theorem doistDo_le (pool : List (Spec2 τ)) (tock start : τ) (limit : Option τ) (fuel : Nat)
    (specs : List (Spec2 τ)) (j : Id) :
    countK .exitEnd j (doistDo pool tock start limit fuel specs).evs
      ≤ countK .exit j (doistDo pool tock start limit fuel specs).evs := by
  have h := enterList_le start j specs
  unfold doistDo
  generalize enterList start specs = R at h ⊢
  obtain ⟨es, deeds, b⟩ := R
  cases b with
  | some x0 =>
      have hs := stopEvs_le start deeds j
      simp [countK_append] at h hs ⊢
      omega
  | none =>
      have hl := doLoop_le pool tock (limit.map (start + ·)) j fuel 0 start deeds (specs.map Spec2.id)
      simp [countK_append] at h hl ⊢
      omega
end Timed4

/-! ### order of the deque (F03-guarded) -/
/-- the script of a top-level leaf never extends (a group may do what it likes with its own deque) -/
def leafNoExtend : RT2 τ → Bool
  | .leaf _ _ steps _ => stepsNoExtend steps
  | .group .. => true
/-- guard of the order clause for one scheduler level: no leaf of this deque extends -/
def levelNoExtend (ds : List (RT2 τ)) : Bool := ds.all leafNoExtend
def specNoExtend : Spec2 τ → Bool
  | .leaf _ _ steps _ => stepsNoExtend steps
  | .group .. => true
/-- guard of the order clause for a whole `Doist.do` run: no top-level leaf spec extends -/
def topNoExtend (specs : List (Spec2 τ)) : Bool := specs.all specNoExtend

theorem levelNoExtend_append (a b : List (RT2 τ)) :
    levelNoExtend (a ++ b) = (levelNoExtend a && levelNoExtend b) := by
  simp [levelNoExtend]

theorem levelNoExtend_snoc (a : List (RT2 τ)) (d : RT2 τ) :
    levelNoExtend (a ++ [d]) = (levelNoExtend a && leafNoExtend d) := by
  simp [levelNoExtend]

theorem levelNoExtend_sublist {a b : List (RT2 τ)} (h : a.Sublist b) (hb : levelNoExtend b = true) :
    levelNoExtend a = true := by
  simp only [levelNoExtend, List.all_eq_true] at hb ⊢
  exact fun d hd => hb d (h.subset hd)

theorem removeOp_pr_sublist (now : τ) (sid : Id) (un : List (RT2 τ)) (ids : List Id) (c : Cyc2 τ) :
    (removeOp now sid un ids c).2.pr.Sublist c.pr := by
  simp only [removeOp]
  exact List.filter_sublist

theorem applyOps_noExtend (pool : List (Spec2 τ)) (now : τ) (sid : Id) (un : List (RT2 τ)) :
    ∀ (ops : List Op) (c : Cyc2 τ), ops.all (fun o => !o.isExtend) = true →
      (applyOps pool now sid un ops c).2.2 = none ∧ (applyOps pool now sid un ops c).2.1.pr.Sublist c.pr
  | [], c, _ => by simp [applyOps]
  | .extend ks :: ops, c, h => by simp [Op.isExtend] at h
  | .remove ids :: ops, c, h => by
      have h' : ops.all (fun o => !o.isExtend) = true := by
        simp only [List.all_cons] at h
        exact (Bool.and_eq_true _ _ ▸ h).2
      have h1 := removeOp_pr_sublist now sid un ids c
      unfold applyOps
      generalize removeOp now sid un ids c = R at h1 ⊢
      obtain ⟨e, c1⟩ := R
      dsimp only at h1 ⊢
      have h2 := applyOps_noExtend pool now sid un ops c1 h'
      generalize applyOps pool now sid un ops c1 = R2 at h2 ⊢
      obtain ⟨e2, c2, b⟩ := R2
      exact ⟨h2.1, h2.2.trans h1⟩

theorem headStep_noExtend (steps : List (Step2 τ)) (h : stepsNoExtend steps = true) :
    (headStep steps).1.ops.all (fun o => !o.isExtend) = true ∧ stepsNoExtend (headStep steps).2 = true := by
  cases steps with
  | nil => simp [headStep, stepsNoExtend]
  | cons s ss =>
      simp only [stepsNoExtend, List.all_cons, Bool.and_eq_true] at h
      exact ⟨h.1, h.2⟩

theorem sub_mid {α} {a' a : List α} (x : α) (u : List α) (h : a'.Sublist a) :
    (a' ++ x :: u).Sublist (a ++ x :: u) := h.append (List.Sublist.refl _)
theorem sub_drop {α} {a' a u' u : List α} (x : α) (h : a'.Sublist a) (hu : u'.Sublist u) :
    (a' ++ u').Sublist (a ++ x :: u) := h.append (hu.cons x)

theorem liveUn_sublist (c : Cyc2 τ) (un : List (RT2 τ)) : (liveUn c un).Sublist un := List.filter_sublist


theorem enterSpec_some_shape (now : τ) (s : Spec2 τ) (rt : RT2 τ) (h : (enterSpec now s).2.1 = some rt) :
    rt.id = s.id ∧ (specNoExtend s = true → leafNoExtend rt = true) := by
  cases s with
  | leaf i act steps cf =>
      cases act with
      | ok =>
          simp [enterSpec] at h
          subst h
          simp [RT2.id, Spec2.id, specNoExtend, leafNoExtend]
      | fail x => simp [enterSpec] at h
      | done v => cases cf <;> simp [enterSpec] at h
  | group i tock always kids pool cf =>
      unfold enterSpec at h
      generalize enterList now kids = R at h
      obtain ⟨e, deeds, b⟩ := R
      cases b <;> simp at h
      subst h
      simp [RT2.id, Spec2.id, specNoExtend, leafNoExtend]

theorem enterList_order (now : τ) : ∀ ss : List (Spec2 τ),
    ((enterList now ss).2.1.map RT2.id).Sublist (ss.map Spec2.id)
    ∧ (topNoExtend ss = true → levelNoExtend (enterList now ss).2.1 = true)
  | [] => by simp [enterList, levelNoExtend]
  | s :: ss => by
      have ih := enterList_order now ss
      have hs := enterSpec_some_shape now s
      unfold enterList
      generalize enterSpec now s = R at hs ⊢
      obtain ⟨e, r, b⟩ := R
      cases b with
      | some x0 => simp [levelNoExtend]
      | none =>
          dsimp only at hs ⊢
          generalize enterList now ss = R2 at ih ⊢
          obtain ⟨e2, rs, b2⟩ := R2
          dsimp only at ih ⊢
          cases r with
          | none =>
              simp only [Option.toList_none, List.nil_append, List.map_cons]
              refine ⟨ih.1.cons _, fun ht => ih.2 ?_⟩
              simp only [topNoExtend, List.all_cons, Bool.and_eq_true] at ht ⊢; exact ht.2
          | some rt =>
              obtain ⟨hid, hg⟩ := hs rt rfl
              simp only [Option.toList_some, List.singleton_append, List.map_cons, hid]
              refine ⟨ih.1.cons_cons _, fun ht => ?_⟩
              simp only [topNoExtend, List.all_cons, Bool.and_eq_true] at ht
              simp only [levelNoExtend, List.all_cons, Bool.and_eq_true]
              exact ⟨hg ht.1, ih.2 ht.2⟩

section Timed3
variable [Add τ] [LE τ] [DecidableRel (α := τ) (· ≤ ·)] [OfNat τ 0] [BEq τ]

theorem resumeGroup_yielded_shape (now : τ) (i : Id) (r tock : τ) (always : Bool) (pool : List (Spec2 τ))
    (doers : List Id) (deeds : List (RT2 τ)) (cf : Bool) (es : List (Ev τ)) (rt : RT2 τ) (t : τ)
    (h : resumeGroup now (.group i r tock always pool doers deeds cf) = (es, .yielded rt t)) :
    ∃ d' ds', rt = .group i r tock always pool d' ds' cf := by
  unfold resumeGroup at h
  generalize runCycle pool now tock i deeds { doers := doers } = R at h
  obtain ⟨e, un, c, ox⟩ := R
  cases ox with
  | some y => simp at h
  | none =>
      dsimp only at h
      split at h
      · simp only [Prod.mk.injEq, Res2.yielded.injEq] at h
        exact ⟨_, _, h.2.1.symm⟩
      · split at h <;> simp at h

theorem runCycle_order (pool : List (Spec2 τ)) (now stock : τ) (sid : Id) :
    ∀ (un : List (RT2 τ)) (c : Cyc2 τ), levelNoExtend un = true →
      (((runCycle pool now stock sid un c).2.2.1.pr ++ (runCycle pool now stock sid un c).2.1).map RT2.id).Sublist
          ((c.pr ++ un).map RT2.id)
      ∧ (levelNoExtend c.pr = true →
          levelNoExtend ((runCycle pool now stock sid un c).2.2.1.pr ++ (runCycle pool now stock sid un c).2.1) = true)
  | [], c, _ => by simp [runCycle, levelNoExtend]
  | .leaf i r steps cf :: un, c, hl => by
      have hun : levelNoExtend un = true := by
        simp only [levelNoExtend, List.all_cons, Bool.and_eq_true] at hl ⊢; exact hl.2
      have hst : stepsNoExtend steps = true := by
        simp only [levelNoExtend, List.all_cons, Bool.and_eq_true, leafNoExtend] at hl; exact hl.1
      have ih := fun c => runCycle_order pool now stock sid un c hun
      have hh := headStep_noExtend steps hst
      have ho := applyOps_noExtend pool now sid un (headStep steps).1.ops c hh.1
      unfold runCycle
      dsimp only
      split
      · have := ih c
        generalize runCycle pool now stock sid un c = R at this ⊢
        obtain ⟨e2, un2, c2, x⟩ := R
        simp only [List.map_append, List.map_cons] at this ⊢
        exact ⟨this.1.trans ((List.Sublist.refl _).append (List.sublist_cons_self _ _)), this.2⟩
      · split
        · generalize applyOps pool now sid un (headStep steps).1.ops c = A at ho ⊢
          obtain ⟨eo, c1, b⟩ := A
          dsimp only at ho ⊢
          obtain ⟨hb, hs⟩ := ho
          subst hb
          dsimp only
          have hraise : ((c1.pr ++ liveUn c1 un).map RT2.id).Sublist
                ((c.pr ++ RT2.leaf i r steps cf :: un).map RT2.id)
              ∧ (levelNoExtend c.pr = true → levelNoExtend (c1.pr ++ liveUn c1 un) = true) := by
            simp only [List.map_append, List.map_cons]
            refine ⟨sub_drop _ (hs.map _) ((liveUn_sublist c1 un).map _), ?_⟩
            intro hc
            rw [levelNoExtend_append]
            simp [levelNoExtend_sublist hs hc, levelNoExtend_sublist (liveUn_sublist c1 un) hun]
          split
          · exact hraise
          · split
            · exact hraise
            · have := ih c1
              generalize runCycle pool now stock sid un c1 = R at this ⊢
              obtain ⟨e2, un2, c2, x⟩ := R
              simp only [List.map_append, List.map_cons] at this ⊢
              exact ⟨this.1.trans (sub_drop _ (hs.map _) (List.Sublist.refl _)),
                fun hc => this.2 (levelNoExtend_sublist hs hc)⟩
          · rename_i t _
            have := ih { pr := c1.pr ++ [.leaf i (nextDue now stock r t) (headStep steps).2 cf],
                         doers := c1.doers, gone := c1.gone }
            generalize runCycle pool now stock sid un _ = R at this ⊢
            obtain ⟨e2, un2, c2, x⟩ := R
            simp only [List.map_append, List.map_cons, List.map_nil, List.append_assoc, List.singleton_append,
              RT2.id] at this ⊢
            refine ⟨this.1.trans (sub_mid _ _ (hs.map _)), fun hc => this.2 ?_⟩
            rw [levelNoExtend_snoc, levelNoExtend_sublist hs hc]
            simp [leafNoExtend, hh.2]
        · have := ih { pr := c.pr ++ [.leaf i r steps cf], doers := c.doers, gone := c.gone }
          generalize runCycle pool now stock sid un _ = R at this ⊢
          obtain ⟨e2, un2, c2, x⟩ := R
          simp only [List.map_append, List.map_cons, List.map_nil, List.append_assoc, List.singleton_append,
            RT2.id] at this ⊢
          refine ⟨this.1, fun hc => this.2 ?_⟩
          rw [levelNoExtend_snoc, hc]
          simp [leafNoExtend, hst]
  | .group i r tock always gpool doers deeds cf :: un, c, hl => by
      have hun : levelNoExtend un = true := by
        simp only [levelNoExtend, List.all_cons, Bool.and_eq_true] at hl ⊢; exact hl.2
      have ih := fun c => runCycle_order pool now stock sid un c hun
      have hy := resumeGroup_yielded_shape now i r tock always gpool doers deeds cf
      unfold runCycle
      dsimp only
      split
      · have := ih c
        generalize runCycle pool now stock sid un c = R at this ⊢
        obtain ⟨e2, un2, c2, x⟩ := R
        simp only [List.map_append, List.map_cons] at this ⊢
        exact ⟨this.1.trans ((List.Sublist.refl _).append (List.sublist_cons_self _ _)), this.2⟩
      · split
        · generalize resumeGroup now (.group i r tock always gpool doers deeds cf) = G at hy ⊢
          obtain ⟨eg, res⟩ := G
          cases res with
          | raised x =>
              dsimp only
              simp only [List.map_append, List.map_cons]
              refine ⟨sub_drop _ (List.Sublist.refl _) ((liveUn_sublist c un).map _), ?_⟩
              intro hc
              rw [levelNoExtend_append, hc, levelNoExtend_sublist (liveUn_sublist c un) hun]
              rfl
          | finished =>
              dsimp only
              have := ih c
              generalize runCycle pool now stock sid un c = R at this ⊢
              obtain ⟨e2, un2, c2, x⟩ := R
              simp only [List.map_append, List.map_cons] at this ⊢
              exact ⟨this.1.trans (sub_drop _ (List.Sublist.refl _) (List.Sublist.refl _)), this.2⟩
          | yielded rt t =>
              dsimp only
              obtain ⟨d', ds', hrt⟩ := hy eg rt t rfl
              subst hrt
              have := ih { pr := c.pr ++ [(RT2.group i r tock always gpool d' ds' cf).setRetyme
                              (nextDue now stock r (some t))],
                           doers := c.doers, gone := c.gone }
              generalize runCycle pool now stock sid un _ = R at this ⊢
              obtain ⟨e2, un2, c2, x⟩ := R
              simp only [List.map_append, List.map_cons, List.map_nil, List.append_assoc, List.singleton_append,
                RT2.id, RT2.setRetyme] at this ⊢
              refine ⟨this.1, fun hc => this.2 ?_⟩
              rw [levelNoExtend_snoc, hc]
              rfl
        · have := ih { pr := c.pr ++ [.group i r tock always gpool doers deeds cf], doers := c.doers, gone := c.gone }
          generalize runCycle pool now stock sid un _ = R at this ⊢
          obtain ⟨e2, un2, c2, x⟩ := R
          simp only [List.map_append, List.map_cons, List.map_nil, List.append_assoc, List.singleton_append,
            RT2.id] at this ⊢
          refine ⟨this.1, fun hc => this.2 ?_⟩
          rw [levelNoExtend_snoc, hc]
          rfl

theorem doLoop_order (pool : List (Spec2 τ)) (tock : τ) (stopAt : Option τ) :
    ∀ (fuel n : Nat) (now : τ) (deeds : List (RT2 τ)) (doers : List Id), levelNoExtend deeds = true →
    ∃ pre ds, (doLoop pool tock stopAt fuel n now deeds doers).evs
                = pre ++ stopEvs (doLoop pool tock stopAt fuel n now deeds doers).tyme ds
      ∧ (ds.map RT2.id).Sublist (deeds.map RT2.id)
  | 0, n, now, deeds, doers, _ => ⟨[], deeds, by simp [doLoop], List.Sublist.refl _⟩
  | fuel+1, n, now, deeds, doers, hl => by
      have h := runCycle_order pool now tock 0 deeds { doers := doers } hl
      have hn := runCycle_none_un pool now tock 0 deeds { doers := doers }
      unfold doLoop
      generalize runCycle pool now tock 0 deeds { doers := doers } = R at h hn ⊢
      obtain ⟨es, un, c, x⟩ := R
      simp only [List.nil_append] at h
      cases x with
      | some x => exact ⟨es, c.pr ++ un, rfl, h.1⟩
      | none =>
          simp at hn
          subst hn
          simp only [List.append_nil] at h
          dsimp only
          split
          · exact ⟨es, [], rfl, List.nil_sublist _⟩
          · have ih := doLoop_order pool tock stopAt fuel (n+1) (now + tock) c.pr c.doers (h.2 rfl)
            split <;> (try split)
            all_goals first
              | exact ⟨es, c.pr, rfl, h.1⟩
              | (obtain ⟨pre, ds, h1, h2⟩ := ih
                 exact ⟨es ++ pre, ds, by simp only [h1, List.append_assoc], h2.trans h.1⟩)

theorem doistDo_order (pool : List (Spec2 τ)) (tock start : τ) (limit : Option τ) (fuel : Nat)
    (specs : List (Spec2 τ)) (hg : topNoExtend specs = true) :
    ∃ pre ds, (doistDo pool tock start limit fuel specs).evs
                = pre ++ stopEvs (doistDo pool tock start limit fuel specs).tyme ds
      ∧ (ds.map RT2.id).Sublist (specs.map Spec2.id) := by
  have h := enterList_order start specs
  unfold doistDo
  generalize enterList start specs = R at h ⊢
  obtain ⟨es, deeds, b⟩ := R
  cases b with
  | some x0 => exact ⟨es, deeds, rfl, h.1⟩
  | none =>
      dsimp only at h ⊢
      obtain ⟨pre, ds, h1, h2⟩ := doLoop_order pool tock (limit.map (start + ·)) fuel 0 start deeds
        (specs.map Spec2.id) (h.2 hg)
      exact ⟨es ++ pre, ds, by simp only [h1, List.append_assoc], h2.trans h.1⟩
end Timed3


/-! ### the closed deeds against the order of the `enter` events -/
/-- ids of the `enter` events of a trace, in trace order -/
def enterIds (es : List (Ev τ)) : List Id := (es.filter (fun e => e.kind == .enter)).map (·.id)

theorem enterIds_append (a b : List (Ev τ)) : enterIds (a ++ b) = enterIds a ++ enterIds b := by
  simp [enterIds]

theorem enterSpec_enterIds (now : τ) (s : Spec2 τ) :
    ∃ rest, enterIds (enterSpec now s).1 = s.id :: rest := by
  cases s with
  | leaf i act steps cf =>
      cases act with
      | ok => simp [enterSpec, enterIds, ev, Spec2.id]
      | fail x => simp [enterSpec, enterIds, ev, Spec2.id]
      | done v => cases cf <;> simp [enterSpec, enterIds, ev, Spec2.id]
  | group i tock always kids pool cf =>
      unfold enterSpec
      generalize enterList now kids = R
      obtain ⟨e, deeds, b⟩ := R
      cases b <;> simp [enterIds, ev, Spec2.id]

theorem enterList_enterIds (now : τ) : ∀ ss : List (Spec2 τ),
    ((enterList now ss).2.1.map RT2.id).Sublist (enterIds (enterList now ss).1)
  | [] => by simp [enterList]
  | s :: ss => by
      have ih := enterList_enterIds now ss
      have hs := enterSpec_some_shape now s
      obtain ⟨rest, he⟩ := enterSpec_enterIds now s
      unfold enterList
      generalize enterSpec now s = R at hs he ⊢
      obtain ⟨e, r, b⟩ := R
      cases b with
      | some x0 => simp
      | none =>
          dsimp only at hs he ⊢
          generalize enterList now ss = R2 at ih ⊢
          obtain ⟨e2, rs, b2⟩ := R2
          dsimp only at ih ⊢
          rw [enterIds_append, he]
          cases r with
          | none =>
              simp only [Option.toList_none, List.nil_append]
              exact ih.trans (List.sublist_append_right _ _)
          | some rt =>
              obtain ⟨hid, _⟩ := hs rt rfl
              simp only [Option.toList_some, List.singleton_append, List.map_cons, hid, List.cons_append]
              exact (ih.trans (List.sublist_append_right _ _)).cons_cons _

section Timed5
variable [Add τ] [LE τ] [DecidableRel (α := τ) (· ≤ ·)] [OfNat τ 0] [BEq τ]

theorem doistDo_order_enter (pool : List (Spec2 τ)) (tock start : τ) (limit : Option τ) (fuel : Nat)
    (specs : List (Spec2 τ)) (hg : topNoExtend specs = true) :
    ∃ pre ds, (doistDo pool tock start limit fuel specs).evs
                = pre ++ stopEvs (doistDo pool tock start limit fuel specs).tyme ds
      ∧ (ds.map RT2.id).Sublist (specs.map Spec2.id)
      ∧ (ds.map RT2.id).Sublist (enterIds pre) := by
  have h := enterList_order start specs
  have he := enterList_enterIds start specs
  unfold doistDo
  generalize enterList start specs = R at h he ⊢
  obtain ⟨es, deeds, b⟩ := R
  cases b with
  | some x0 => exact ⟨es, deeds, rfl, h.1, he⟩
  | none =>
      dsimp only at h he ⊢
      obtain ⟨pre, ds, h1, h2⟩ := doLoop_order pool tock (limit.map (start + ·)) fuel 0 start deeds
        (specs.map Spec2.id) (h.2 hg)
      refine ⟨es ++ pre, ds, by simp only [h1, List.append_assoc], h2.trans h.1, ?_⟩
      rw [enterIds_append]
      exact (h2.trans he).trans (List.sublist_append_left _ _)
end Timed5

/-! ### concrete programs used by the witness and the non-vacuity examples of `Props/C02.lean` -/
/-- a step that does nothing and yields `tock = 0` (run again next cycle) -/
def y0 : Step2 Nat := ⟨[], .yieldT (some 0)⟩
/-- guard-satisfying program: the top-level leaves never extend (leaf 4 removes an absent doer);
the nested DoDoer 2 has a kid that extends (allowed: its own deque; the extended doer's clean would
fail) and raises SystemExit in mid cycle 2 -/
def okSpecs : List (Spec2 Nat) :=
  [.leaf 1 .ok [y0, y0, y0] false,
   .group 2 0 false [.leaf 3 .ok [y0, ⟨[.extend [0]], .raise .sysexit⟩] false] [.leaf 6 .ok [y0] true] false,
   .leaf 4 .ok [⟨[.remove [9]], .yieldT none⟩, y0, y0] false]
/-- a live DoDoer whose second deed raises KeyboardInterrupt with one deed done and one unvisited -/
def gRaise : RT2 Nat :=
  .group 2 0 0 false [] [3, 7, 8]
    [.leaf 3 0 [y0] false, .leaf 7 0 [⟨[], .raise .kbint⟩] false, .leaf 8 0 [y0] false] false
/-- a live DoDoer whose first deed returns but its clean action raises, one deed unvisited -/
def gLeafCleanFail : RT2 Nat :=
  .group 2 0 0 false [] [3, 8] [.leaf 3 0 [⟨[], .ret none⟩] true, .leaf 8 0 [y0] false] false
/-- a live DoDoer whose only deed returns -/
def gFinish : RT2 Nat := .group 2 0 0 false [] [3] [.leaf 3 0 [⟨[], .ret none⟩] false] false
/-- the same DoDoer with a failing clean action of its own -/
def gCleanFail : RT2 Nat := .group 2 0 0 false [] [3] [.leaf 3 0 [⟨[], .ret none⟩] false] true
/-- a DoDoer spec whose second kid raises KeyboardInterrupt in its enter -/
def gFailSpec : Spec2 Nat :=
  .group 2 0 false [.leaf 3 .ok [y0] false, .leaf 4 (.fail .kbint) [] false] [] false

/-! ### nested order invariant: a live doer tree embeds, order preserving, into its spec tree -/
mutual
/-- `Fits s rt`: the live doer `rt` stems from spec `s`: same id, same sort, and for a DoDoer the live
deeds embed in order into the kids of the spec (recursively) -/
def Fits : Spec2 τ → RT2 τ → Prop
  | .leaf i _ _ _, rt => match rt with
      | .leaf j _ _ _ => j = i
      | .group .. => False
  | .group i _ _ kids _ _, rt => match rt with
      | .leaf .. => False
      | .group j _ _ _ _ _ deeds _ => j = i ∧ FitsL kids deeds
/-- `FitsL ss ds`: `ds` is, in order, a sub-selection of `ss` with every deed fitting its spec -/
def FitsL : List (Spec2 τ) → List (RT2 τ) → Prop
  | [], ds => ds = []
  | s :: ss, ds => FitsL ss ds ∨ (match ds with
      | [] => False
      | d :: ds' => Fits s d ∧ FitsL ss ds')
end

theorem FitsL_nil : ∀ ss : List (Spec2 τ), FitsL ss []
  | [] => by simp [FitsL]
  | s :: ss => by unfold FitsL; exact Or.inl (FitsL_nil ss)

theorem FitsL_cons_cons {s : Spec2 τ} {ss : List (Spec2 τ)} {d : RT2 τ} {ds : List (RT2 τ)}
    (h1 : Fits s d) (h2 : FitsL ss ds) : FitsL (s :: ss) (d :: ds) := by
  unfold FitsL; exact Or.inr ⟨h1, h2⟩

theorem FitsL_skip {s : Spec2 τ} {ss : List (Spec2 τ)} {ds : List (RT2 τ)}
    (h : FitsL ss ds) : FitsL (s :: ss) ds := by
  unfold FitsL; exact Or.inl h

theorem FitsL_sublist : ∀ (ss : List (Spec2 τ)) {ds' ds : List (RT2 τ)},
    ds'.Sublist ds → FitsL ss ds → FitsL ss ds'
  | [], ds', ds, hs, h => by
      simp only [FitsL] at h ⊢
      subst h
      exact List.sublist_nil.mp hs
  | s :: ss, ds', ds, hs, h => by
      unfold FitsL at h
      rcases h with h | h
      · exact FitsL_skip (FitsL_sublist ss hs h)
      · cases ds with
        | nil => exact h.elim
        | cons d ds0 =>
            dsimp only at h
            cases hs with
            | cons _ hs' => exact FitsL_skip (FitsL_sublist ss hs' h.2)
            | cons_cons _ hs' => exact FitsL_cons_cons h.1 (FitsL_sublist ss hs' h.2)

theorem Fits_id : ∀ (s : Spec2 τ) (d : RT2 τ), Fits s d → d.id = s.id
  | .leaf i _ _ _, .leaf j _ _ _, h => by simpa [Fits, RT2.id, Spec2.id] using h
  | .leaf i _ _ _, .group .., h => by simp [Fits] at h
  | .group i _ _ kids _ _, .leaf .., h => by simp [Fits] at h
  | .group i _ _ kids _ _, .group j _ _ _ _ _ deeds _, h => by
      simp only [Fits] at h; simpa [RT2.id, Spec2.id] using h.1

theorem FitsL_ids : ∀ (ss : List (Spec2 τ)) (ds : List (RT2 τ)),
    FitsL ss ds → (ds.map RT2.id).Sublist (ss.map Spec2.id)
  | [], ds, h => by simp only [FitsL] at h; subst h; simp
  | s :: ss, ds, h => by
      unfold FitsL at h
      rcases h with h | h
      · exact (FitsL_ids ss ds h).cons _
      · cases ds with
        | nil => exact h.elim
        | cons d ds0 =>
            dsimp only at h
            simp only [List.map_cons, Fits_id s d h.1]
            exact (FitsL_ids ss ds0 h.2).cons_cons _

/-- replace one deed by another that fits whatever the first fitted -/
theorem FitsL_replace {d d' : RT2 τ} (hd : ∀ s, Fits s d → Fits s d') (u : List (RT2 τ)) :
    ∀ (ss : List (Spec2 τ)) (a : List (RT2 τ)), FitsL ss (a ++ d :: u) → FitsL ss (a ++ d' :: u)
  | [], a, h => by simp [FitsL] at h
  | s :: ss, a, h => by
      unfold FitsL at h
      rcases h with h | h
      · exact FitsL_skip (FitsL_replace hd u ss a h)
      · cases a with
        | nil =>
            simp only [List.nil_append] at h ⊢
            exact FitsL_cons_cons (hd s h.1) h.2
        | cons x a0 =>
            simp only [List.cons_append] at h ⊢
            exact FitsL_cons_cons h.1 (FitsL_replace hd u ss a0 h.2)

theorem allStepsL_append (p : List (Step2 τ) → Bool) : ∀ (a b : List (RT2 τ)),
    rtAllStepsL p (a ++ b) = (rtAllStepsL p a && rtAllStepsL p b)
  | [], b => by simp [rtAllStepsL]
  | d :: a, b => by simp [rtAllStepsL, allStepsL_append p a b, Bool.and_assoc]

theorem allStepsL_sublist (p : List (Step2 τ) → Bool) {a b : List (RT2 τ)} (h : a.Sublist b) :
    rtAllStepsL p b = true → rtAllStepsL p a = true := by
  induction h with
  | slnil => exact id
  | cons d _ ih =>
      intro hb; simp only [rtAllStepsL, Bool.and_eq_true] at hb; exact ih hb.2
  | cons_cons d _ ih =>
      intro hb; simp only [rtAllStepsL, Bool.and_eq_true] at hb ⊢; exact ⟨hb.1, ih hb.2⟩

mutual
theorem enterSpec_fits (now : τ) (p : List (Step2 τ) → Bool) : ∀ (s : Spec2 τ) (rt : RT2 τ),
    (enterSpec now s).2.1 = some rt → Fits s rt ∧ (specAllSteps p s = true → rtAllSteps p rt = true)
  | .leaf i act steps cf, rt, h => by
      cases act with
      | ok =>
          simp [enterSpec] at h
          subst h
          simp [Fits, specAllSteps, rtAllSteps]
      | fail x => simp [enterSpec] at h
      | done v => cases cf <;> simp [enterSpec] at h
  | .group i tock always kids pool cf, rt, h => by
      have hk := enterList_fits now p kids
      unfold enterSpec at h
      generalize enterList now kids = R at h hk
      obtain ⟨e, deeds, b⟩ := R
      cases b <;> simp at h
      subst h
      simp only [Fits, specAllSteps, rtAllSteps, true_and]
      exact hk
theorem enterList_fits (now : τ) (p : List (Step2 τ) → Bool) : ∀ ss : List (Spec2 τ),
    FitsL ss (enterList now ss).2.1
    ∧ (specAllStepsL p ss = true → rtAllStepsL p (enterList now ss).2.1 = true)
  | [] => by simp [enterList, FitsL, rtAllStepsL]
  | s :: ss => by
      have ih := enterList_fits now p ss
      have hs := enterSpec_fits now p s
      unfold enterList
      generalize enterSpec now s = R at hs ⊢
      obtain ⟨e, r, b⟩ := R
      cases b with
      | some x0 => exact ⟨FitsL_nil _, fun _ => rfl⟩
      | none =>
          dsimp only at hs ⊢
          generalize enterList now ss = R2 at ih ⊢
          obtain ⟨e2, rs, b2⟩ := R2
          dsimp only at ih ⊢
          cases r with
          | none =>
              simp only [Option.toList_none, List.nil_append]
              refine ⟨FitsL_skip ih.1, fun hp => ih.2 ?_⟩
              simp only [specAllStepsL, Bool.and_eq_true] at hp; exact hp.2
          | some rt =>
              obtain ⟨hf, hg⟩ := hs rt rfl
              simp only [Option.toList_some, List.singleton_append]
              refine ⟨FitsL_cons_cons hf ih.1, fun hp => ?_⟩
              simp only [specAllStepsL, Bool.and_eq_true] at hp
              simp only [rtAllStepsL, Bool.and_eq_true]
              exact ⟨hg hp.1, ih.2 hp.2⟩
end

theorem allStepsL_snoc (p : List (Step2 τ) → Bool) (a : List (RT2 τ)) (d : RT2 τ) :
    rtAllStepsL p (a ++ [d]) = (rtAllStepsL p a && rtAllSteps p d) := by
  simp [allStepsL_append, rtAllStepsL]

theorem sub_app_cons {α} {a' a u' u : List α} (x : α) (h : a'.Sublist a) (hu : u'.Sublist u) :
    (a' ++ u').Sublist (a ++ x :: u) := h.append (hu.cons x)

theorem enterSpec_group_fail_fits (now : τ) (i : Id) (t : τ) (a : Bool) (kids pool : List (Spec2 τ))
    (cf : Bool) (es : List (Ev τ)) (r : Option (RT2 τ)) (x : Exn2)
    (h : enterSpec now (.group i t a kids pool cf) = (es, r, some x)) :
    ∃ pre ds, es = pre ++ [ev i .exit now] ++ closeAllRev now ds ++ [ev i .exitEnd now]
      ∧ FitsL kids ds := by
  unfold enterSpec at h
  have hf := (enterList_fits now stepsNoExtend kids).1
  generalize enterList now kids = R at h hf
  obtain ⟨e, deeds, b⟩ := R
  cases b with
  | none => simp at h
  | some y =>
      simp only [Prod.mk.injEq] at h
      refine ⟨[ev i (.flag false) now, ev i .enter now] ++ e ++ abortEvs i y now, deeds, ?_, hf⟩
      rw [← h.1]

theorem removeOp_closes_sublist (now : τ) (sid : Id) (un : List (RT2 τ)) (ids : List Id) (c : Cyc2 τ) :
    ∃ ds, (removeOp now sid un ids c).1
            = ev sid .rmBeg now :: (closeAllRev now ds ++ [ev sid .rmEnd now])
      ∧ ds.Sublist (c.pr ++ un) := by
  refine ⟨_, by simp only [removeOp, List.singleton_append, List.cons_append]; rfl, ?_⟩
  exact List.filter_sublist.append (List.filter_sublist.trans (liveUn_sublist c un))

section Timed6
variable [Add τ] [LE τ] [DecidableRel (α := τ) (· ≤ ·)] [OfNat τ 0] [BEq τ]

mutual
theorem resumeGroup_fits (now : τ) : ∀ rt : RT2 τ,
    match rt with
    | .leaf .. => True
    | .group _ _ _ _ _ _ deeds _ =>
        rtAllStepsL stepsNoExtend deeds = true →
        ∀ rt' t, (resumeGroup now rt).2 = .yielded rt' t →
          rtAllSteps stepsNoExtend rt' = true ∧ ∀ s, Fits s rt → Fits s rt'
  | .leaf .. => trivial
  | .group i r tock always pool doers deeds cf => by
      have h := runCycle_fits now pool tock i deeds { doers := doers }
      dsimp only
      intro hg rt' t hy
      specialize h hg rfl
      unfold resumeGroup at hy
      generalize runCycle pool now tock i deeds { doers := doers } = R at h hy
      obtain ⟨es, un, c, x⟩ := R
      cases x with
      | some x => simp at hy
      | none =>
          dsimp only at hy h
          split at hy
          · simp only [Res2.yielded.injEq] at hy
            obtain ⟨hrt, _⟩ := hy
            subst hrt
            refine ⟨?_, ?_⟩
            · simp only [rtAllSteps]
              exact allStepsL_sublist _ (List.sublist_append_left _ _) h.1
            · intro s hs
              cases s with
              | leaf => simp [Fits] at hs
              | group i' t' a' kids pool' =>
                  simp only [Fits] at hs ⊢
                  exact ⟨hs.1, FitsL_sublist kids (List.sublist_append_left _ _) (h.2 kids hs.2)⟩
          · split at hy <;> simp at hy
theorem runCycle_fits (now : τ) (pool : List (Spec2 τ)) (stock : τ) (sid : Id) :
    ∀ (un : List (RT2 τ)) (c : Cyc2 τ),
      rtAllStepsL stepsNoExtend un = true → rtAllStepsL stepsNoExtend c.pr = true →
      rtAllStepsL stepsNoExtend
          ((runCycle pool now stock sid un c).2.2.1.pr ++ (runCycle pool now stock sid un c).2.1) = true
      ∧ ∀ ss, FitsL ss (c.pr ++ un) →
          FitsL ss ((runCycle pool now stock sid un c).2.2.1.pr ++ (runCycle pool now stock sid un c).2.1)
  | [], c, _, hpr => by
      simp only [runCycle, List.append_nil]
      exact ⟨hpr, fun ss h => h⟩
  | .leaf i r steps cf :: un, c, hl, hpr => by
      simp only [rtAllStepsL, rtAllSteps, Bool.and_eq_true] at hl
      obtain ⟨hst, hun⟩ := hl
      have ih := fun c => runCycle_fits now pool stock sid un c hun
      have hh := headStep_noExtend steps hst
      have ho := applyOps_noExtend pool now sid un (headStep steps).1.ops c hh.1
      unfold runCycle
      dsimp only
      split
      · have := ih c hpr
        generalize runCycle pool now stock sid un c = R at this ⊢
        obtain ⟨e2, un2, c2, x⟩ := R
        exact ⟨this.1, fun ss h => this.2 ss
          (FitsL_sublist ss (sub_app_cons _ (List.Sublist.refl _) (List.Sublist.refl _)) h)⟩
      · split
        · generalize applyOps pool now sid un (headStep steps).1.ops c = A at ho ⊢
          obtain ⟨eo, c1, b⟩ := A
          dsimp only at ho ⊢
          obtain ⟨hb, hs⟩ := ho
          subst hb
          dsimp only
          have hpr1 := allStepsL_sublist stepsNoExtend hs hpr
          have hraise : rtAllStepsL stepsNoExtend (c1.pr ++ liveUn c1 un) = true
              ∧ ∀ ss, FitsL ss (c.pr ++ RT2.leaf i r steps cf :: un) → FitsL ss (c1.pr ++ liveUn c1 un) := by
            refine ⟨?_, fun ss h => FitsL_sublist ss (sub_app_cons _ hs (liveUn_sublist c1 un)) h⟩
            rw [allStepsL_append, hpr1, allStepsL_sublist _ (liveUn_sublist c1 un) hun]
            rfl
          split
          · exact hraise
          · split
            · exact hraise
            · have := ih c1 hpr1
              generalize runCycle pool now stock sid un c1 = R at this ⊢
              obtain ⟨e2, un2, c2, x⟩ := R
              exact ⟨this.1, fun ss h => this.2 ss
                (FitsL_sublist ss (sub_app_cons _ hs (List.Sublist.refl _)) h)⟩
          · rename_i t _
            have := ih { pr := c1.pr ++ [.leaf i (nextDue now stock r t) (headStep steps).2 cf],
                         doers := c1.doers, gone := c1.gone }
              (by rw [allStepsL_snoc, hpr1]; simp [rtAllSteps, hh.2])
            generalize runCycle pool now stock sid un _ = R at this ⊢
            obtain ⟨e2, un2, c2, x⟩ := R
            refine ⟨this.1, fun ss h => this.2 ss ?_⟩
            simp only [List.append_assoc, List.singleton_append]
            refine FitsL_replace ?_ un ss c1.pr
              (FitsL_sublist ss (hs.append (List.Sublist.refl _)) h)
            intro s hs'
            cases s with
            | leaf => simp only [Fits] at hs' ⊢; exact hs'
            | group => simp [Fits] at hs'
        · have := ih { pr := c.pr ++ [.leaf i r steps cf], doers := c.doers, gone := c.gone }
            (by rw [allStepsL_snoc, hpr]; simp [rtAllSteps, hst])
          generalize runCycle pool now stock sid un _ = R at this ⊢
          obtain ⟨e2, un2, c2, x⟩ := R
          refine ⟨this.1, fun ss h => this.2 ss ?_⟩
          simpa only [List.append_assoc, List.singleton_append] using h
  | .group i r tock always gpool doers deeds cf :: un, c, hl, hpr => by
      simp only [rtAllStepsL, rtAllSteps, Bool.and_eq_true] at hl
      obtain ⟨hdeeds, hun⟩ := hl
      have ih := fun c => runCycle_fits now pool stock sid un c hun
      have hg := resumeGroup_fits now (.group i r tock always gpool doers deeds cf)
      dsimp only at hg
      specialize hg hdeeds
      have hy := resumeGroup_yielded_shape now i r tock always gpool doers deeds cf
      unfold runCycle
      dsimp only
      split
      · have := ih c hpr
        generalize runCycle pool now stock sid un c = R at this ⊢
        obtain ⟨e2, un2, c2, x⟩ := R
        exact ⟨this.1, fun ss h => this.2 ss
          (FitsL_sublist ss (sub_app_cons _ (List.Sublist.refl _) (List.Sublist.refl _)) h)⟩
      · split
        · generalize resumeGroup now (.group i r tock always gpool doers deeds cf) = G at hg hy ⊢
          obtain ⟨eg, res⟩ := G
          cases res with
          | raised x =>
              dsimp only
              refine ⟨?_, fun ss h =>
                FitsL_sublist ss (sub_app_cons _ (List.Sublist.refl _) (liveUn_sublist c un)) h⟩
              rw [allStepsL_append, hpr, allStepsL_sublist _ (liveUn_sublist c un) hun]
              rfl
          | finished =>
              dsimp only
              have := ih c hpr
              generalize runCycle pool now stock sid un c = R at this ⊢
              obtain ⟨e2, un2, c2, x⟩ := R
              exact ⟨this.1, fun ss h => this.2 ss
                (FitsL_sublist ss (sub_app_cons _ (List.Sublist.refl _) (List.Sublist.refl _)) h)⟩
          | yielded rt t =>
              dsimp only
              obtain ⟨hrt, hfit⟩ := hg rt t rfl
              obtain ⟨d', ds', hshape⟩ := hy eg rt t rfl
              subst hshape
              have := ih { pr := c.pr ++ [(RT2.group i r tock always gpool d' ds' cf).setRetyme
                              (nextDue now stock r (some t))],
                           doers := c.doers, gone := c.gone }
                (by rw [allStepsL_snoc, hpr]; simpa [RT2.setRetyme, rtAllSteps] using hrt)
              generalize runCycle pool now stock sid un _ = R at this ⊢
              obtain ⟨e2, un2, c2, x⟩ := R
              refine ⟨this.1, fun ss h => this.2 ss ?_⟩
              simp only [List.append_assoc, List.singleton_append]
              refine FitsL_replace ?_ un ss c.pr h
              intro s hs'
              have := hfit s hs'
              cases s with
              | leaf => simp [Fits] at this
              | group => simp only [Fits, RT2.setRetyme] at this ⊢; exact this
        · have := ih { pr := c.pr ++ [.group i r tock always gpool doers deeds cf], doers := c.doers, gone := c.gone }
            (by rw [allStepsL_snoc, hpr]; simp [rtAllSteps, hdeeds])
          generalize runCycle pool now stock sid un _ = R at this ⊢
          obtain ⟨e2, un2, c2, x⟩ := R
          refine ⟨this.1, fun ss h => this.2 ss ?_⟩
          simpa only [List.append_assoc, List.singleton_append] using h
end

theorem resumeGroup_raised_fits (now : τ) (i : Id) (r tock : τ) (always : Bool) (pool : List (Spec2 τ))
    (doers : List Id) (deeds : List (RT2 τ)) (cf : Bool) (es : List (Ev τ)) (x : Exn2) (kids : List (Spec2 τ))
    (hg : rtAllStepsL stepsNoExtend deeds = true) (hf : FitsL kids deeds)
    (h : resumeGroup now (.group i r tock always pool doers deeds cf) = (es, .raised x)) :
    ∃ pre ds, es = pre ++ [ev i .exit now] ++ closeAllRev now ds ++ [ev i .exitEnd now]
      ∧ FitsL kids ds ∧ rtAllStepsL stepsNoExtend ds = true := by
  unfold resumeGroup at h
  have hc := runCycle_fits now pool tock i deeds { doers := doers } hg rfl
  generalize runCycle pool now tock i deeds { doers := doers } = R at h hc
  obtain ⟨e, un, c, ox⟩ := R
  cases ox with
  | none =>
      dsimp only at h
      split at h
      · simp at h
      · split at h
        · simp only [Prod.mk.injEq] at h
          refine ⟨[ev i .recur now] ++ e ++ [ev i (.flag c.pr.isEmpty) now] ++ [ev i .clean now], [],
            ?_, FitsL_nil _, rfl⟩
          rw [← h.1]; simp [closeAllRev]
        · simp at h
  | some y =>
      simp only [Prod.mk.injEq] at h
      refine ⟨[ev i .recur now] ++ e ++ abortEvs i y now, c.pr ++ un, ?_, hc.2 kids hf, hc.1⟩
      rw [← h.1]

theorem doLoop_fits (pool : List (Spec2 τ)) (tock : τ) (stopAt : Option τ) (ss : List (Spec2 τ)) :
    ∀ (fuel n : Nat) (now : τ) (deeds : List (RT2 τ)) (doers : List Id),
      rtAllStepsL stepsNoExtend deeds = true → FitsL ss deeds →
    ∃ pre ds, (doLoop pool tock stopAt fuel n now deeds doers).evs
                = pre ++ stopEvs (doLoop pool tock stopAt fuel n now deeds doers).tyme ds
      ∧ FitsL ss ds ∧ rtAllStepsL stepsNoExtend ds = true
  | 0, n, now, deeds, doers, hg, hf => ⟨[], deeds, by simp [doLoop], hf, hg⟩
  | fuel+1, n, now, deeds, doers, hg, hf => by
      have h := runCycle_fits now pool tock 0 deeds { doers := doers } hg rfl
      have hn := runCycle_none_un pool now tock 0 deeds { doers := doers }
      unfold doLoop
      generalize runCycle pool now tock 0 deeds { doers := doers } = R at h hn ⊢
      obtain ⟨es, un, c, x⟩ := R
      simp only [List.nil_append] at h
      cases x with
      | some x => exact ⟨es, c.pr ++ un, rfl, h.2 ss hf, h.1⟩
      | none =>
          simp at hn
          subst hn
          simp only [List.append_nil] at h
          dsimp only
          split
          · exact ⟨es, [], rfl, FitsL_nil _, rfl⟩
          · have ih := doLoop_fits pool tock stopAt ss fuel (n+1) (now + tock) c.pr c.doers h.1 (h.2 ss hf)
            split <;> (try split)
            all_goals first
              | exact ⟨es, c.pr, rfl, h.2 ss hf, h.1⟩
              | (obtain ⟨pre, ds, h1, h2⟩ := ih
                 exact ⟨es ++ pre, ds, by simp only [h1, List.append_assoc], h2⟩)

theorem doistDo_fits (pool : List (Spec2 τ)) (tock start : τ) (limit : Option τ) (fuel : Nat)
    (specs : List (Spec2 τ)) (hg : specAllStepsL stepsNoExtend specs = true) :
    ∃ pre ds, (doistDo pool tock start limit fuel specs).evs
                = pre ++ stopEvs (doistDo pool tock start limit fuel specs).tyme ds
      ∧ FitsL specs ds ∧ rtAllStepsL stepsNoExtend ds = true := by
  have h := enterList_fits start stepsNoExtend specs
  unfold doistDo
  generalize enterList start specs = R at h ⊢
  obtain ⟨es, deeds, b⟩ := R
  cases b with
  | some x0 => exact ⟨es, deeds, rfl, h.1, h.2 hg⟩
  | none =>
      dsimp only at h ⊢
      obtain ⟨pre, ds, h1, h2⟩ := doLoop_fits pool tock (limit.map (start + ·)) specs fuel 0 start deeds
        (specs.map Spec2.id) (h.2 hg) h.1
      exact ⟨es ++ pre, ds, by simp only [h1, List.append_assoc], h2⟩
end Timed6

theorem FitsL_mem : ∀ (ss : List (Spec2 τ)) (ds : List (RT2 τ)), FitsL ss ds →
    ∀ d, d ∈ ds → ∃ s, s ∈ ss ∧ Fits s d
  | [], ds, h, d, hd => by simp only [FitsL] at h; subst h; cases hd
  | s :: ss, ds, h, d, hd => by
      unfold FitsL at h
      rcases h with h | h
      · obtain ⟨s', hs', hf⟩ := FitsL_mem ss ds h d hd
        exact ⟨s', List.mem_cons_of_mem _ hs', hf⟩
      · cases ds with
        | nil => exact h.elim
        | cons d0 ds0 =>
            dsimp only at h
            rcases List.mem_cons.mp hd with rfl | hd'
            · exact ⟨s, List.mem_cons_self, h.1⟩
            · obtain ⟨s', hs', hf⟩ := FitsL_mem ss ds0 h.2 d hd'
              exact ⟨s', List.mem_cons_of_mem _ hs', hf⟩

theorem Fits_group_inv (i : Id) (t : τ) (a : Bool) (kids pool : List (Spec2 τ)) (cf : Bool) (g : RT2 τ)
    (h : Fits (.group i t a kids pool cf) g) :
    ∃ r t' a' p d deeds cf', g = .group i r t' a' p d deeds cf' ∧ FitsL kids deeds := by
  cases g with
  | leaf => simp [Fits] at h
  | group j r t' a' p d deeds cf' =>
      simp only [Fits] at h
      obtain ⟨rfl, hf⟩ := h
      exact ⟨r, t', a', p, d, deeds, cf', rfl, hf⟩

/-- two-level program, deep guard holds; in cycle 2 leaf 6 (inside DoDoer 4 inside DoDoer 2) removes its
sibling 5 and returns, but its clean action raises; DoDoer 2's own clean would fail too (never reached) -/
def nestSpecs : List (Spec2 Nat) :=
  [.leaf 1 .ok [y0, y0, y0] false,
   .group 2 0 false
     [.leaf 3 .ok [y0, y0, y0] false,
      .group 4 0 false
        [.leaf 5 .ok [y0, y0] false, .leaf 6 .ok [y0, ⟨[.remove [5]], .ret none⟩] true, .leaf 7 .ok [y0, y0] false]
        [] false,
      .leaf 8 .ok [y0, y0, y0] false] [] true,
   .leaf 9 .ok [y0, y0, y0] false]
/-- kids of an outer DoDoer whose inner DoDoer 4 raises SystemExit at its first resume -/
def nestKids : List (Spec2 Nat) :=
  [.leaf 3 .ok [y0] false,
   .group 4 0 false
     [.leaf 5 .ok [y0, y0] false, .leaf 6 .ok [⟨[.remove [5]], .raise .sysexit⟩] false, .leaf 7 .ok [y0, y0] false]
     [] false,
   .leaf 8 .ok [y0] false]
/-- the deeds `enterList 0 nestKids` produces -/
def nestDeeds : List (RT2 Nat) :=
  [.leaf 3 0 [y0] false,
   .group 4 0 0 false [] [5, 6, 7]
     [.leaf 5 0 [y0, y0] false, .leaf 6 0 [⟨[.remove [5]], .raise .sysexit⟩] false, .leaf 7 0 [y0, y0] false] false,
   .leaf 8 0 [y0] false]

theorem topNoExtend_of_deep : ∀ specs : List (Spec2 τ),
    specAllStepsL stepsNoExtend specs = true → topNoExtend specs = true
  | [], _ => rfl
  | s :: ss, h => by
      simp only [specAllStepsL, Bool.and_eq_true] at h
      simp only [topNoExtend, List.all_cons, Bool.and_eq_true]
      refine ⟨?_, topNoExtend_of_deep ss h.2⟩
      cases s with
      | leaf i act steps => simpa [specNoExtend, specAllSteps] using h.1
      | group => rfl

end Hio.Sched2.C02
