import HioModel.Sched.Model
/-!
# Several runs on ONE Doist object (`doist.do(...)` / `doist.ado(...)` called again and again)

What a later run inherits from the earlier ones: the tyme (unless `tyme=` is given) and the limit (unless `limit=`
is given — `self.limit` is sticky).  Nothing else: `done` is reset to False at the start of every run, `deeds` is
empty after every run (exit() pops everything), and a doer that is entered again gets `done = False` at enter.
`ado` in virtual time is the same loop as `do` (HioModel/Sched/TimeAdo.lean), so one definition serves both.
Import-free apart from the model.
-/
namespace Hio.Sched
variable {τ : Type} [Add τ] [LE τ] [DecidableRel (α := τ) (· ≤ ·)] [OfNat τ 0] [BEq τ]

/-- the arguments of one `do()` / `ado()` call -/
structure RunSpec (τ : Type) where
  start : Option τ          -- `tyme=`; none: keep the Doist's tyme
  limit : Option τ          -- `limit=`; none: keep the Doist's limit
  pool : List (Spec τ)
  specs : List (Spec τ)     -- `doers=`

/-- the limit in force for a run -/
def effLimit (carried : Option τ) (r : RunSpec τ) : Option τ :=
  match r.limit with
  | some l => some l
  | none => carried

/-- one run on a Doist whose tyme is `now` and whose limit is `lim` -/
def runOne (tock : τ) (fuel : Nat) (now : τ) (lim : Option τ) (r : RunSpec τ) : Final τ :=
  doistDo r.pool tock (r.start.getD now) (effLimit lim r) fuel r.specs

/-- the runs of a sequence of calls on one Doist created with tyme `now` and limit `lim` -/
def runSeq (tock : τ) (fuel : Nat) : τ → Option τ → List (RunSpec τ) → List (Final τ)
  | _, _, [] => []
  | now, lim, r :: rs =>
      let f := runOne tock fuel now lim r
      f :: runSeq tock fuel f.tyme (effLimit lim r) rs

/-- what the Doist carries after a sequence of calls: its tyme and its limit -/
def carry (tock : τ) (fuel : Nat) : τ → Option τ → List (RunSpec τ) → τ × Option τ
  | now, lim, [] => (now, lim)
  | now, lim, r :: rs => carry tock fuel (runOne tock fuel now lim r).tyme (effLimit lim r) rs

end Hio.Sched
