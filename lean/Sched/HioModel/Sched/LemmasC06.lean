import HioModel.Sched.LemmasC05
/-!
# Helpers for C06 (runtime extend / remove)
-/
namespace Hio.Sched
variable {τ : Type}

def Kind.isDoers : Kind → Bool
  | .doers _ => true
  | _ => false

/-- kinds emitted while entering a doer (and, when the enter fails, closing what was entered) -/
def Kind.isEnterKind : Kind → Bool
  | .flag _ | .enter | .abort | .exit | .clean | .cease | .exitEnd => true
  | _ => false

theorem isCloseKind_enterKind {k : Kind} (h : k.isCloseKind = true) : k.isEnterKind = true := by
  cases k <;> first | rfl | exact ff_ne_tt h

mutual
theorem enterSpec_kinds (now : τ) : ∀ s : Spec τ, ∀ e ∈ (enterSpec now s).1, e.kind.isEnterKind = true ∧ e.tyme = now
  | .leaf i act steps => by
      intro e he
      cases act with
      | ok =>
          simp only [enterSpec, List.mem_cons, List.not_mem_nil, or_false] at he
          rcases he with h | h <;> subst h <;> exact ⟨rfl, rfl⟩
      | fail =>
          simp only [enterSpec, List.mem_append, List.mem_cons, List.not_mem_nil, or_false] at he
          rcases he with (h | h) | (h | h) <;> subst h <;> exact ⟨rfl, rfl⟩
      | done v =>
          simp only [enterSpec, List.mem_append, List.mem_cons, List.not_mem_nil, or_false] at he
          rcases he with ((h | h) | (h | h)) | h
          · subst h; exact ⟨rfl, rfl⟩
          · subst h; exact ⟨rfl, rfl⟩
          · subst h; exact ⟨rfl, rfl⟩
          · subst h; exact ⟨rfl, rfl⟩
          · cases v with
            | none => simp [flagEvs] at h
            | some b => simp [flagEvs] at h; subst h; exact ⟨rfl, rfl⟩
  | .group i tock always kids pool => by
      intro e he
      have ih := enterList_kinds now kids
      unfold enterSpec at he
      rcases h : enterList now kids with ⟨es, deeds, b⟩
      rw [h] at he ih
      cases b with
      | true =>
          simp only [List.mem_append, List.mem_cons, List.not_mem_nil, or_false] at he
          rcases he with ((((h | h) | h) | (h | h)) | h) | h
          · subst h; exact ⟨rfl, rfl⟩
          · subst h; exact ⟨rfl, rfl⟩
          · exact ih e h
          · subst h; exact ⟨rfl, rfl⟩
          · subst h; exact ⟨rfl, rfl⟩
          · have := closeAllRev_kinds now deeds e h
            exact ⟨isCloseKind_enterKind this.1, this.2⟩
          · subst h; exact ⟨rfl, rfl⟩
      | false =>
          simp only [List.mem_append, List.mem_cons, List.not_mem_nil, or_false] at he
          rcases he with (h | h) | h
          · subst h; exact ⟨rfl, rfl⟩
          · subst h; exact ⟨rfl, rfl⟩
          · exact ih e h
theorem enterList_kinds (now : τ) : ∀ ss : List (Spec τ), ∀ e ∈ (enterList now ss).1, e.kind.isEnterKind = true ∧ e.tyme = now
  | [] => by intro e he; simp [enterList] at he
  | s :: ss => by
      intro e he
      have ih1 := enterSpec_kinds now s
      have ih2 := enterList_kinds now ss
      unfold enterList at he
      rcases h1 : enterSpec now s with ⟨e1, r, b⟩
      rw [h1] at he ih1
      cases b with
      | true => exact ih1 e he
      | false =>
          rcases h2 : enterList now ss with ⟨e2, rs, b2⟩
          rw [h2] at he ih2
          simp only [List.mem_append] at he
          rcases he with h | h
          · exact ih1 e h
          · exact ih2 e h
end

/-- a live deed produced by an enter at `now` is first due at `now` -/
theorem enterSpec_retyme {now : τ} {s : Spec τ} {e r b} (h : enterSpec now s = (e, some r, b)) :
    r.retyme = now ∧ r.id = s.id := by
  cases s with
  | leaf i act steps =>
      cases act <;> simp only [enterSpec, Prod.mk.injEq, Option.some.injEq, reduceCtorEq, false_and, and_false] at h
      obtain ⟨_, rfl, _⟩ := h
      exact ⟨rfl, rfl⟩
  | group i tock always kids pool =>
      unfold enterSpec at h
      rcases h' : enterList now kids with ⟨es, deeds, b'⟩
      rw [h'] at h
      cases b' <;> simp only [Prod.mk.injEq, Option.some.injEq, reduceCtorEq, false_and, and_false] at h
      obtain ⟨_, rfl, _⟩ := h
      exact ⟨rfl, rfl⟩

/-! ### the specification of the doers list -/

/-- `extend`: append, in call order, the ids of the valid pool indices that are not yet present
(nor added earlier in the same call) -/
def specExtend (pool : List (Spec τ)) : List Id → List Nat → List Id
  | ds, [] => ds
  | ds, k :: ks =>
      match pool[k]? with
      | none => specExtend pool ds ks
      | some s => if ds.contains s.id then specExtend pool ds ks else specExtend pool (ds ++ [s.id]) ks

/-- the doers list after one runtime op: added-and-not-removed, insertion order -/
def specOp (pool : List (Spec τ)) : List Id → Op → List Id
  | ds, .extend ks => specExtend pool ds ks
  | ds, .remove ids => ds.filter (fun i => !ids.contains i)

/-- the successive doers lists after each op of a list -/
def specScan (pool : List (Spec τ)) : List Id → List Op → List (List Id)
  | _, [] => []
  | ds, op :: ops => specOp pool ds op :: specScan pool (specOp pool ds op) ops

/-- declarative reading of `specExtend`: the old list is kept as a prefix; what is appended has no duplicates,
and consists exactly of the ids of valid pool indices of the call that were not present -/
theorem specExtend_char (pool : List (Spec τ)) : ∀ (ks : List Nat) (ds : List Id),
    ∃ added, specExtend pool ds ks = ds ++ added ∧ added.Nodup
      ∧ ∀ i, i ∈ added ↔ (i ∉ ds ∧ ∃ k ∈ ks, ∃ s, pool[k]? = some s ∧ s.id = i)
  | [], ds => ⟨[], by simp [specExtend], List.nodup_nil, by simp⟩
  | k :: ks, ds => by
      rw [specExtend]
      cases hk : pool[k]? with
      | none =>
          obtain ⟨added, h1, h2, h3⟩ := specExtend_char pool ks ds
          refine ⟨added, h1, h2, fun i => ?_⟩
          rw [h3 i]
          simp only [List.mem_cons, exists_eq_or_imp, hk, reduceCtorEq, false_and, exists_false, false_or]
      | some s =>
          simp only
          split
          · rename_i hc
            obtain ⟨added, h1, h2, h3⟩ := specExtend_char pool ks ds
            refine ⟨added, h1, h2, fun i => ?_⟩
            rw [h3 i]
            have hm : s.id ∈ ds := List.contains_iff_mem.mp hc
            simp only [List.mem_cons, exists_eq_or_imp, hk, Option.some.injEq, exists_eq_left']
            constructor
            · rintro ⟨a, b⟩; exact ⟨a, Or.inr b⟩
            · rintro ⟨a, b | b⟩
              · subst b; exact absurd hm a
              · exact ⟨a, b⟩
          · rename_i hc
            have hm : s.id ∉ ds := fun h => hc (List.contains_iff_mem.mpr h)
            obtain ⟨added, h1, h2, h3⟩ := specExtend_char pool ks (ds ++ [s.id])
            refine ⟨s.id :: added, by rw [h1]; simp, ?_, fun i => ?_⟩
            · refine List.nodup_cons.mpr ⟨fun h => ?_, h2⟩
              have := ((h3 _).mp h).1
              simp at this
            · simp only [List.mem_cons, h3 i, List.mem_append, List.not_mem_nil, or_false, not_or,
                exists_eq_or_imp, hk, Option.some.injEq, exists_eq_left']
              constructor
              · rintro (a | ⟨⟨a, a'⟩, b⟩)
                · subst a; exact ⟨hm, Or.inl rfl⟩
                · exact ⟨a, Or.inr b⟩
              · rintro ⟨a, b | b⟩
                · exact Or.inl b.symm
                · by_cases hi : i = s.id
                  · exact Or.inl hi
                  · exact Or.inr ⟨⟨a, hi⟩, b⟩
/-- the `.doers` snapshots in a trace -/
def snaps (es : List (Ev τ)) : List (List Id) :=
  es.filterMap (fun e => match e.kind with | .doers l => some l | _ => none)

theorem snaps_append (a b : List (Ev τ)) : snaps (a ++ b) = snaps a ++ snaps b := by
  simp [snaps, List.filterMap_append]

theorem snaps_nil_of_noDoers {es : List (Ev τ)} (h : ∀ e ∈ es, e.kind.isDoers = false) : snaps es = [] := by
  induction es with
  | nil => rfl
  | cons e es ih =>
      have he := h e (List.mem_cons_self ..)
      have ih := ih (fun e' he' => h e' (List.mem_cons_of_mem _ he'))
      cases hk : e.kind <;> rw [hk] at he <;> first | exact tt_ne_ff he | simp [snaps, hk] at ih ⊢; exact ih

theorem extendList_doers (pool : List (Spec τ)) (now : τ) (ks : List Nat) (c : Cyc τ) : ∀ {es c'},
    extendList pool now ks c = (es, c', false) → c'.doers = specExtend pool c.doers ks := by
  fun_induction extendList pool now ks c with
  | case1 c =>
      intro es c' h
      simp only [Prod.mk.injEq] at h
      rw [← h.2.1]; rfl
  | case2 k ks c hk ih =>
      intro es c' h
      rw [specExtend, hk]; exact ih h
  | case3 k ks c s hk hc ih =>
      intro es c' h
      rw [specExtend, hk]; simp only [hc, if_true]; exact ih h
  | case4 k ks c s hk hc e r he =>
      intro es c' h
      simp only [Prod.mk.injEq, reduceCtorEq, and_false] at h
  | case5 k ks c s hk hc e r he e2 c2 b h2 ih =>
      intro es c' h
      simp only [Prod.mk.injEq] at h
      obtain ⟨_, rfl, rfl⟩ := h
      rw [specExtend, hk]; simp only [hc]
      exact ih h2

/-- adding only doers that are already present does nothing -/
theorem extendList_noop (pool : List (Spec τ)) (now : τ) (ks : List Nat) (c : Cyc τ)
    (hp : ∀ k s, k ∈ ks → pool[k]? = some s → c.doers.contains s.id = true) :
    extendList pool now ks c = ([], c, false) := by
  induction ks with
  | nil => rfl
  | cons k ks ih =>
      have ih := ih (fun k' s hk' => hp k' s (List.mem_cons_of_mem _ hk'))
      unfold extendList
      cases hk : pool[k]? with
      | none => exact ih
      | some s =>
          simp only [hp k s (List.mem_cons_self ..) hk, if_true]
          exact ih

/-- events of an extend are enter-time events stamped `now` -/
theorem extendList_kinds (pool : List (Spec τ)) (now : τ) (ks : List Nat) (c : Cyc τ) : ∀ {es c' b},
    extendList pool now ks c = (es, c', b) → ∀ e ∈ es, e.kind.isEnterKind = true ∧ e.tyme = now := by
  fun_induction extendList pool now ks c with
  | case1 c =>
      intro es c' b h
      simp only [Prod.mk.injEq] at h
      rw [← h.1]; intro e he; cases he
  | case2 k ks c hk ih => intro es c' b h; exact ih h
  | case3 k ks c s hk hc ih => intro es c' b h; exact ih h
  | case4 k ks c s hk hc e r he =>
      intro es c' b h
      simp only [Prod.mk.injEq] at h
      rw [← h.1]
      have := enterSpec_kinds now s
      rw [he] at this; exact this
  | case5 k ks c s hk hc e r he e2 c2 b h2 ih =>
      intro es c' b' h
      simp only [Prod.mk.injEq] at h
      rw [← h.1]
      intro x hx
      rcases List.mem_append.mp hx with hx | hx
      · have := enterSpec_kinds now s
        rw [he] at this; exact this x hx
      · exact ih h2 x hx

/-- new deeds are queued right of the marker, due `now`; nothing else of the cycle state changes -/
theorem extendList_pr (pool : List (Spec τ)) (now : τ) (ks : List Nat) (c : Cyc τ) : ∀ {es c' b},
    extendList pool now ks c = (es, c', b) →
      c'.gone = c.gone ∧ ∃ news, c'.pr = c.pr ++ news ∧ ∀ d ∈ news, d.retyme = now := by
  fun_induction extendList pool now ks c with
  | case1 c =>
      intro es c' b h
      simp only [Prod.mk.injEq] at h
      rw [← h.2.1]; exact ⟨rfl, [], by simp, by intro d hd; cases hd⟩
  | case2 k ks c hk ih => intro es c' b h; exact ih h
  | case3 k ks c s hk hc ih => intro es c' b h; exact ih h
  | case4 k ks c s hk hc e r he =>
      intro es c' b h
      simp only [Prod.mk.injEq] at h
      rw [← h.2.1]; exact ⟨rfl, [], by simp, by intro d hd; cases hd⟩
  | case5 k ks c s hk hc e r he e2 c2 b h2 ih =>
      intro es c' b' h
      simp only [Prod.mk.injEq] at h
      obtain ⟨_, rfl, _⟩ := h
      obtain ⟨hg, news, hpr, hn⟩ := ih h2
      refine ⟨hg, r.toList ++ news, by rw [hpr]; simp only [List.append_assoc], ?_⟩
      intro d hd
      rcases List.mem_append.mp hd with hd | hd
      · cases r with
        | none => cases hd
        | some r' =>
            simp only [Option.toList, List.mem_cons, List.not_mem_nil, or_false] at hd
            subst hd; exact (enterSpec_retyme he).1
      · exact hn d hd

/-- every doer the call added was entered now (its `enter` event is in the call's events) -/
theorem extendList_enter (pool : List (Spec τ)) (now : τ) (ks : List Nat) (c : Cyc τ) : ∀ {es c' b},
    extendList pool now ks c = (es, c', b) → ∀ i ∈ c'.doers, i ∈ c.doers ∨ ev i .enter now ∈ es := by
  fun_induction extendList pool now ks c with
  | case1 c =>
      intro es c' b h
      simp only [Prod.mk.injEq] at h
      rw [← h.2.1]; intro i hi; exact Or.inl hi
  | case2 k ks c hk ih => intro es c' b h; exact ih h
  | case3 k ks c s hk hc ih => intro es c' b h; exact ih h
  | case4 k ks c s hk hc e r he =>
      intro es c' b h
      simp only [Prod.mk.injEq] at h
      rw [← h.2.1]; intro i hi; exact Or.inl hi
  | case5 k ks c s hk hc e r he e2 c2 b h2 ih =>
      intro es c' b' h
      simp only [Prod.mk.injEq] at h
      obtain ⟨rfl, rfl, _⟩ := h
      intro i hi
      rcases ih h2 i hi with h' | h'
      · simp only [List.mem_append, List.mem_cons, List.not_mem_nil, or_false] at h'
        rcases h' with h' | h'
        · exact Or.inl h'
        · right
          subst h'
          obtain ⟨rest, hr⟩ := enterSpec_begins now s
          rw [he] at hr
          simp only at hr
          rw [hr]; simp
      · exact Or.inr (List.mem_append_right _ h')

/-- an extend whose enter raised: exactly the doers before the failing one were added -/
theorem extendList_raised (pool : List (Spec τ)) (now : τ) (ks : List Nat) (c : Cyc τ) : ∀ {es c'},
    extendList pool now ks c = (es, c', true) →
      ∃ ks1 k ks2 s, ks = ks1 ++ k :: ks2 ∧ c'.doers = specExtend pool c.doers ks1 ∧ pool[k]? = some s
        ∧ c'.doers.contains s.id = false ∧ (enterSpec now s).2.2 = true := by
  fun_induction extendList pool now ks c with
  | case1 c => intro es c' h; simp only [Prod.mk.injEq, reduceCtorEq, and_false] at h
  | case2 k ks c hk ih =>
      intro es c' h
      obtain ⟨ks1, k', ks2, s, h1, h2, h3⟩ := ih h
      exact ⟨k :: ks1, k', ks2, s, by rw [h1]; rfl, by rw [specExtend, hk]; exact h2, h3⟩
  | case3 k ks c s hk hc ih =>
      intro es c' h
      obtain ⟨ks1, k', ks2, s', h1, h2, h3⟩ := ih h
      exact ⟨k :: ks1, k', ks2, s', by rw [h1]; rfl, by rw [specExtend, hk]; simp only [hc, if_true]; exact h2, h3⟩
  | case4 k ks c s hk hc e r he =>
      intro es c' h
      simp only [Prod.mk.injEq, and_true] at h
      obtain ⟨_, rfl⟩ := h
      exact ⟨[], k, ks, s, rfl, rfl, hk, by simpa using hc, by rw [he]⟩
  | case5 k ks c s hk hc e r he e2 c2 b h2 ih =>
      intro es c' h
      simp only [Prod.mk.injEq] at h
      obtain ⟨_, rfl, rfl⟩ := h
      obtain ⟨ks1, k', ks2, s', h1, h2', h3⟩ := ih h2
      exact ⟨k :: ks1, k', ks2, s', by rw [h1]; rfl, by rw [specExtend, hk]; simp only [hc]; exact h2', h3⟩

/-! ### remove -/

theorem contains_filter_id (l : List Id) (p : Id → Bool) (a : Id) :
    (l.filter p).contains a = (l.contains a && p a) := by
  rw [Bool.eq_iff_iff]
  simp [List.mem_filter]

/-- the deeds a `remove(ids)` hits: id named in the call and currently a doer of the scheduler -/
def rmHit (ids : List Id) (c : Cyc τ) (d : RT τ) : Bool := ids.contains d.id && c.doers.contains d.id

theorem removeOp_eq (now : τ) (sid : Id) (un : List (RT τ)) (ids : List Id) (c : Cyc τ) :
    removeOp now sid un ids c =
      (ev sid .rmBeg now ::
          (closeAllRev now (c.pr.filter (rmHit ids c) ++ (liveUn c un).filter (rmHit ids c)) ++ [ev sid .rmEnd now]),
        { pr := c.pr.filter (fun d => !rmHit ids c d),
          doers := c.doers.filter (fun i => !ids.contains i),
          gone := c.gone ++ ((liveUn c un).filter (rmHit ids c)).map RT.id }) := by
  have hh : (fun d : RT τ => (ids.filter (fun i => c.doers.contains i)).contains d.id) = rmHit ids c := by
    funext d; rw [contains_filter_id]; rfl
  have hd : c.doers.filter (fun i => !(ids.filter (fun i => c.doers.contains i)).contains i)
      = c.doers.filter (fun i => !ids.contains i) := by
    apply List.filter_congr
    intro i hi
    rw [contains_filter_id]
    have : c.doers.contains i = true := List.contains_iff_mem.mpr hi
    rw [this, Bool.and_true]
  have hh' : (fun d : RT τ => !(ids.filter (fun i => c.doers.contains i)).contains d.id)
      = fun d => !rmHit ids c d := by
    funext d; rw [contains_filter_id]; rfl
  unfold removeOp
  simp only [hh, hh', hd, List.cons_append, List.nil_append]

/-- after `remove(ids)` returned no hit deed is left in the deque (right of the marker, or live left of it) -/
theorem removeOp_never_again (now : τ) (sid : Id) (un : List (RT τ)) (ids : List Id) (c : Cyc τ) :
    ∀ d ∈ (removeOp now sid un ids c).2.pr ++ liveUn (removeOp now sid un ids c).2 un, rmHit ids c d = false := by
  rw [removeOp_eq]
  intro d hd
  simp only [List.mem_append, liveUn, List.mem_filter] at hd
  rcases hd with ⟨_, h⟩ | ⟨hun, h⟩
  · simpa using h
  · cases hh : rmHit ids c d with
    | false => rfl
    | true =>
        exfalso
        simp only [List.contains_append, Bool.not_or, Bool.and_eq_true, Bool.not_eq_true'] at h
        have hm : d.id ∈ List.map RT.id (List.filter (rmHit ids c) (List.filter (fun d => !c.gone.contains d.id) un)) :=
          List.mem_map.mpr ⟨d, List.mem_filter.mpr ⟨List.mem_filter.mpr ⟨hun, by simpa using h.1⟩, hh⟩, rfl⟩
        have := List.contains_iff_mem.mpr hm
        rw [this] at h
        exact tt_ne_ff h.2

theorem isCloseKind_noDoers {k : Kind} (h : k.isCloseKind = true) : k.isDoers = false := by
  cases k <;> first | rfl | exact ff_ne_tt h
theorem isEnterKind_noDoers {k : Kind} (h : k.isEnterKind = true) : k.isDoers = false := by
  cases k <;> first | rfl | exact ff_ne_tt h

theorem removeOp_noDoers (now : τ) (sid : Id) (un : List (RT τ)) (ids : List Id) (c : Cyc τ) :
    ∀ e ∈ (removeOp now sid un ids c).1, e.kind.isDoers = false := by
  rw [removeOp_eq]
  intro e he
  simp only [List.mem_cons, List.mem_append, List.not_mem_nil, or_false] at he
  rcases he with h | h | h
  · subst h; rfl
  · exact isCloseKind_noDoers (closeAllRev_kinds now _ e h).1
  · subst h; rfl

theorem removeOp_doers (now : τ) (sid : Id) (un : List (RT τ)) (ids : List Id) (c : Cyc τ) :
    (removeOp now sid un ids c).2.doers = c.doers.filter (fun i => !ids.contains i) := by
  rw [removeOp_eq]

/-! ### op lists -/

theorem snaps_doers_single (sid : Id) (l : List Id) (now : τ) : snaps [ev sid (.doers l) now] = [l] := rfl

theorem applyOps_doers (pool : List (Spec τ)) (now : τ) (sid : Id) (un : List (RT τ)) (ops : List Op) (c : Cyc τ) :
    ∀ {es c'}, applyOps pool now sid un ops c = (es, c', false) →
      c'.doers = ops.foldl (specOp pool) c.doers ∧ snaps es = specScan pool c.doers ops := by
  fun_induction applyOps pool now sid un ops c with
  | case1 c =>
      intro es c' h
      simp only [Prod.mk.injEq, and_true] at h
      obtain ⟨rfl, rfl⟩ := h
      exact ⟨rfl, rfl⟩
  | case2 ks ops c e c1 he =>
      intro es c' h
      simp only [Prod.mk.injEq, reduceCtorEq, and_false] at h
  | case3 ks ops c e c1 he e2 c2 b h2 ih =>
      intro es c' h
      simp only [Prod.mk.injEq] at h
      obtain ⟨rfl, rfl, rfl⟩ := h
      obtain ⟨ih1, ih2⟩ := ih h2
      have hd := extendList_doers pool now ks c he
      have hs : snaps e = [] :=
        snaps_nil_of_noDoers (fun x hx => isEnterKind_noDoers (extendList_kinds pool now ks c he x hx).1)
      refine ⟨?_, ?_⟩
      · rw [ih1, hd]; rfl
      · rw [snaps_append, snaps_append, hs, snaps_doers_single, ih2, hd]; rfl
  | case4 ids ops c e c1 he e2 c2 b h2 ih =>
      intro es c' h
      simp only [Prod.mk.injEq] at h
      obtain ⟨rfl, rfl, rfl⟩ := h
      obtain ⟨ih1, ih2⟩ := ih h2
      have hd : c1.doers = c.doers.filter (fun i => !ids.contains i) := by
        have := removeOp_doers now sid un ids c; rw [he] at this; exact this
      have hs : snaps e = [] := by
        have := removeOp_noDoers now sid un ids c; rw [he] at this
        exact snaps_nil_of_noDoers this
      refine ⟨?_, ?_⟩
      · rw [ih1, hd]; rfl
      · rw [snaps_append, snaps_append, hs, snaps_doers_single, ih2, hd]; rfl

/-- an op list stopped by a raising enter: the ops before the failing `extend` took effect exactly, and of the
failing `extend` exactly the doers before the failing one were added; later ops are not executed -/
theorem applyOps_raised (pool : List (Spec τ)) (now : τ) (sid : Id) (un : List (RT τ)) (ops : List Op) (c : Cyc τ) :
    ∀ {es c'}, applyOps pool now sid un ops c = (es, c', true) →
      ∃ ops1 ks1 k ks2 ops2 s, ops = ops1 ++ Op.extend (ks1 ++ k :: ks2) :: ops2
        ∧ c'.doers = specExtend pool (ops1.foldl (specOp pool) c.doers) ks1
        ∧ snaps es = specScan pool c.doers ops1
        ∧ pool[k]? = some s ∧ c'.doers.contains s.id = false ∧ (enterSpec now s).2.2 = true := by
  fun_induction applyOps pool now sid un ops c with
  | case1 c =>
      intro es c' h
      simp only [Prod.mk.injEq, reduceCtorEq, and_false] at h
  | case2 ks ops c e c1 he =>
      intro es c' h
      simp only [Prod.mk.injEq, and_true] at h
      obtain ⟨rfl, rfl⟩ := h
      obtain ⟨ks1, k, ks2, s, h1, h2, h3, h4, h5⟩ := extendList_raised pool now ks c he
      have hs : snaps e = [] :=
        snaps_nil_of_noDoers (fun x hx => isEnterKind_noDoers (extendList_kinds pool now ks c he x hx).1)
      exact ⟨[], ks1, k, ks2, ops, s, by rw [h1]; rfl, h2, hs, h3, h4, h5⟩
  | case3 ks ops c e c1 he e2 c2 b h2 ih =>
      intro es c' h
      simp only [Prod.mk.injEq] at h
      obtain ⟨rfl, rfl, rfl⟩ := h
      obtain ⟨ops1, ks1, k, ks2, ops2, s, g1, g2, g3, g4⟩ := ih h2
      have hd := extendList_doers pool now ks c he
      have hs : snaps e = [] :=
        snaps_nil_of_noDoers (fun x hx => isEnterKind_noDoers (extendList_kinds pool now ks c he x hx).1)
      refine ⟨Op.extend ks :: ops1, ks1, k, ks2, ops2, s, by rw [g1]; rfl, ?_, ?_, g4⟩
      · rw [g2, hd]; rfl
      · rw [snaps_append, snaps_append, hs, snaps_doers_single, g3, hd]; rfl
  | case4 ids ops c e c1 he e2 c2 b h2 ih =>
      intro es c' h
      simp only [Prod.mk.injEq] at h
      obtain ⟨rfl, rfl, rfl⟩ := h
      obtain ⟨ops1, ks1, k, ks2, ops2, s, g1, g2, g3, g4⟩ := ih h2
      have hd : c1.doers = c.doers.filter (fun i => !ids.contains i) := by
        have := removeOp_doers now sid un ids c; rw [he] at this; exact this
      have hs : snaps e = [] := by
        have := removeOp_noDoers now sid un ids c; rw [he] at this
        exact snaps_nil_of_noDoers this
      refine ⟨Op.remove ids :: ops1, ks1, k, ks2, ops2, s, by rw [g1]; rfl, ?_, ?_, g4⟩
      · rw [g2, hd]; rfl
      · rw [snaps_append, snaps_append, hs, snaps_doers_single, g3, hd]; rfl

/-! ### ids of events vs. live ids -/

theorem liveIdsL_append (a b : List (RT τ)) : RT.liveIdsL (a ++ b) = RT.liveIdsL a ++ RT.liveIdsL b := by
  induction a with
  | nil => rfl
  | cons d a ih => simp only [List.cons_append, RT.liveIdsL, ih, List.append_assoc]

theorem mem_liveIdsL {i : Id} {l : List (RT τ)} : i ∈ RT.liveIdsL l ↔ ∃ d ∈ l, i ∈ d.liveIds := by
  induction l with
  | nil => simp [RT.liveIdsL]
  | cons d l ih => simp [RT.liveIdsL, ih]

theorem liveIdsL_filter {i : Id} {l : List (RT τ)} {p : RT τ → Bool} (h : i ∈ RT.liveIdsL (l.filter p)) :
    i ∈ RT.liveIdsL l := by
  obtain ⟨d, hd, hi⟩ := mem_liveIdsL.mp h
  exact mem_liveIdsL.mpr ⟨d, (List.mem_filter.mp hd).1, hi⟩

mutual
theorem closeRT_ids (now : τ) : ∀ rt : RT τ, ∀ e ∈ closeRT now rt, e.id ∈ rt.liveIds
  | .leaf i _ _ => by
      intro e he
      simp only [closeRT, List.mem_cons, List.not_mem_nil, or_false] at he
      rcases he with h | h <;> subst h <;> simp [RT.liveIds, ev]
  | .group i _ _ _ _ _ deeds => by
      intro e he
      simp only [closeRT, List.mem_append, List.mem_cons, List.not_mem_nil, or_false] at he
      rcases he with (h | h) | h
      · rcases h with h | h <;> subst h <;> simp [RT.liveIds, ev]
      · exact List.mem_cons_of_mem _ (closeAllRev_ids now deeds e h)
      · subst h; simp [RT.liveIds, ev]
theorem closeAllRev_ids (now : τ) : ∀ ds : List (RT τ), ∀ e ∈ closeAllRev now ds, e.id ∈ RT.liveIdsL ds
  | [] => by intro e he; simp [closeAllRev] at he
  | d :: ds => by
      intro e he
      simp only [closeAllRev, List.mem_append] at he
      simp only [RT.liveIdsL, List.mem_append]
      rcases he with h | h
      · exact Or.inr (closeAllRev_ids now ds e h)
      · exact Or.inl (closeRT_ids now d e h)
end

/-! ### a doer removing itself -/

def Op.allRemove (ops : List Op) : Bool := ops.all (fun o => !o.isExtend)

/-- `remove`s issued by the running leaf `i` (popped off the deque while it runs, so not among the live ids of
the deque) emit no lifecycle event for `i`, cannot raise, and only shrink `pr` -/
theorem applyOps_self_remove (pool : List (Spec τ)) (now : τ) (sid : Id) (un : List (RT τ)) (i : Id)
    (ops : List Op) (c : Cyc τ) :
    Op.allRemove ops = true → i ∉ RT.liveIdsL (c.pr ++ un) →
    ∀ {es c' b}, applyOps pool now sid un ops c = (es, c', b) →
      b = false ∧ (∀ e ∈ es, e.id = i → e.kind.isLife = false) ∧ i ∉ RT.liveIdsL (c'.pr ++ un) := by
  fun_induction applyOps pool now sid un ops c with
  | case1 c =>
      intro _ hi es c' b h
      simp only [Prod.mk.injEq] at h
      obtain ⟨rfl, rfl, rfl⟩ := h
      exact ⟨rfl, (fun e he => nomatch he), hi⟩
  | case2 ks ops c e c1 he => intro ha; simp [Op.allRemove, Op.isExtend] at ha
  | case3 ks ops c e c1 he e2 c2 b h2 ih => intro ha; simp [Op.allRemove, Op.isExtend] at ha
  | case4 ids ops c e c1 he e2 c2 b h2 ih =>
      intro ha hi es c' b' h
      simp only [Prod.mk.injEq] at h
      obtain ⟨rfl, rfl, rfl⟩ := h
      have ha' : Op.allRemove ops = true := by
        simp only [Op.allRemove, List.all_cons, Bool.and_eq_true] at ha; exact ha.2
      rw [removeOp_eq, Prod.mk.injEq] at he
      obtain ⟨rfl, rfl⟩ := he
      have hi1 : i ∉ RT.liveIdsL (c.pr.filter (fun d => !rmHit ids c d) ++ un) := by
        intro hm
        apply hi
        rw [liveIdsL_append, List.mem_append] at hm ⊢
        rcases hm with hm | hm
        · exact Or.inl (liveIdsL_filter hm)
        · exact Or.inr hm
      obtain ⟨hb, hev, hi2⟩ := ih ha' hi1 h2
      refine ⟨hb, ?_, hi2⟩
      intro x hx hxi
      simp only [List.mem_append, List.mem_cons, List.not_mem_nil, or_false] at hx
      rcases hx with ((hx | hx | hx) | hx) | hx
      · subst hx; rfl
      · exfalso
        apply hi
        have := closeAllRev_ids now _ x hx
        rw [hxi, liveIdsL_append, List.mem_append] at this
        rw [liveIdsL_append, List.mem_append]
        rcases this with h' | h'
        · exact Or.inl (liveIdsL_filter h')
        · exact Or.inr (liveIdsL_filter (liveIdsL_filter h'))
      · subst hx; rfl
      · subst hx; rfl
      · exact hev x hx hxi

theorem foldl_remove_not_mem (pool : List (Spec τ)) (i : Id) : ∀ (ops : List Op) (ds : List Id),
    Op.allRemove ops = true → i ∉ ds → i ∉ ops.foldl (specOp pool) ds
  | [], ds => fun _ h => h
  | .extend ks :: ops, ds => fun ha => by simp [Op.allRemove, Op.isExtend] at ha
  | .remove ids :: ops, ds => fun ha h => by
      have ha' : Op.allRemove ops = true := by
        simp only [Op.allRemove, List.all_cons, Bool.and_eq_true] at ha; exact ha.2
      exact foldl_remove_not_mem pool i ops _ ha' (fun hm => h (List.mem_filter.mp hm).1)

/-- after a list of `remove`s one of which names `i`, `i` is no longer in the doers list -/
theorem foldl_remove_self (pool : List (Spec τ)) (i : Id) : ∀ (ops : List Op) (ds : List Id),
    Op.allRemove ops = true → (∃ ids, Op.remove ids ∈ ops ∧ i ∈ ids) → i ∉ ops.foldl (specOp pool) ds
  | [], ds => fun _ ⟨ids, h, _⟩ => by cases h
  | .extend ks :: ops, ds => fun ha => by simp [Op.allRemove, Op.isExtend] at ha
  | .remove ids :: ops, ds => fun ha ⟨ids', hm, hi⟩ => by
      have ha' : Op.allRemove ops = true := by
        simp only [Op.allRemove, List.all_cons, Bool.and_eq_true] at ha; exact ha.2
      rcases List.mem_cons.mp hm with hm | hm
      · injection hm with hm
        subst hm
        apply foldl_remove_not_mem pool i ops _ ha'
        intro h
        have := (List.mem_filter.mp h).2
        simp [hi] at this
      · exact foldl_remove_self pool i ops _ ha' ⟨ids', hm, hi⟩

/-! ### what a cycle resumes -/

theorem isCloseKind_ne_recur {k : Kind} (h : k.isCloseKind = true) : k ≠ .recur := by
  intro hk; subst hk; exact ff_ne_tt h
theorem isEnterKind_ne_recur {k : Kind} (h : k.isEnterKind = true) : k ≠ .recur := by
  intro hk; subst hk; exact ff_ne_tt h

/-- runtime ops resume nobody -/
theorem applyOps_noRecur (pool : List (Spec τ)) (now : τ) (sid : Id) (un : List (RT τ)) (ops : List Op) (c : Cyc τ) :
    ∀ {es c' b}, applyOps pool now sid un ops c = (es, c', b) → ∀ e ∈ es, e.kind ≠ .recur := by
  fun_induction applyOps pool now sid un ops c with
  | case1 c =>
      intro es c' b h
      simp only [Prod.mk.injEq] at h
      obtain ⟨rfl, _⟩ := h
      intro e he; cases he
  | case2 ks ops c e c1 he =>
      intro es c' b h
      simp only [Prod.mk.injEq] at h
      obtain ⟨rfl, _⟩ := h
      exact fun x hx => isEnterKind_ne_recur (extendList_kinds pool now ks c he x hx).1
  | case3 ks ops c e c1 he e2 c2 b h2 ih =>
      intro es c' b' h
      simp only [Prod.mk.injEq] at h
      obtain ⟨rfl, _⟩ := h
      intro x hx
      simp only [List.mem_append, List.mem_cons, List.not_mem_nil, or_false] at hx
      rcases hx with (hx | hx) | hx
      · exact isEnterKind_ne_recur (extendList_kinds pool now ks c he x hx).1
      · subst hx; intro h; cases h
      · exact ih h2 x hx
  | case4 ids ops c e c1 he e2 c2 b h2 ih =>
      intro es c' b' h
      simp only [Prod.mk.injEq] at h
      obtain ⟨rfl, _⟩ := h
      rw [removeOp_eq, Prod.mk.injEq] at he
      obtain ⟨rfl, _⟩ := he
      intro x hx
      simp only [List.mem_append, List.mem_cons, List.not_mem_nil, or_false] at hx
      rcases hx with ((hx | hx | hx) | hx) | hx
      · subst hx; intro h; cases h
      · exact isCloseKind_ne_recur (closeAllRev_kinds now _ x hx).1
      · subst hx; intro h; cases h
      · subst hx; intro h; cases h
      · exact ih h2 x hx

/-- every `recur` event of the trace `es` belongs to an id of `S` -/
def RecIn (S : List Id) (es : List (Ev τ)) : Prop := ∀ e ∈ es, e.kind = .recur → e.id ∈ S

theorem RecIn.nil (S : List Id) : RecIn S ([] : List (Ev τ)) := fun _ h => nomatch h
theorem RecIn.append {S : List Id} {a b : List (Ev τ)} (ha : RecIn S a) (hb : RecIn S b) : RecIn S (a ++ b) :=
  fun e he => (List.mem_append.mp he).elim (ha e) (hb e)
theorem RecIn.mono {S S' : List Id} {a : List (Ev τ)} (h : ∀ i ∈ S, i ∈ S') (ha : RecIn S a) : RecIn S' a :=
  fun e he hk => h _ (ha e he hk)
theorem RecIn.of_noRecur {S : List Id} {a : List (Ev τ)} (h : ∀ e ∈ a, e.kind ≠ .recur) : RecIn S a :=
  fun e he hk => absurd hk (h e he)
theorem RecIn.single {S : List Id} (i : Id) (k : Kind) (now : τ) (h : k = .recur → i ∈ S) : RecIn S [ev i k now] := by
  intro e he hk
  simp only [List.mem_cons, List.not_mem_nil, or_false] at he
  subst he; exact h hk
theorem RecIn.cons {S : List Id} (i : Id) (k : Kind) (now : τ) {es : List (Ev τ)} (h : k = .recur → i ∈ S)
    (hes : RecIn S es) : RecIn S (ev i k now :: es) :=
  RecIn.append (RecIn.single i k now h) hes
theorem RecIn.close {S : List Id} (now : τ) (ds : List (RT τ)) : RecIn S (closeAllRev now ds) :=
  RecIn.of_noRecur (fun e he => isCloseKind_ne_recur (closeAllRev_kinds now ds e he).1)
theorem RecIn.abort {S : List Id} (i : Id) (x : Exn) (now : τ) : RecIn S (abortEvs i x now) := by
  cases x
  · exact RecIn.single i .abort now (fun h => nomatch h)
  · exact RecIn.nil S
theorem RecIn.flag {S : List Id} (i : Id) (v : Option Bool) (now : τ) : RecIn S (flagEvs i v now) := by
  cases v
  · exact RecIn.nil S
  · exact RecIn.single i _ now (fun h => nomatch h)

section cyc
variable [Add τ] [LE τ] [DecidableRel (α := τ) (· ≤ ·)] [OfNat τ 0] [BEq τ]

/-- a deed whose id was closed by a `remove` earlier in this cycle is skipped -/
theorem runCycle_skip_gone (pool : List (Spec τ)) (now stock : τ) (sid : Id) (d : RT τ) (un : List (RT τ)) (c : Cyc τ)
    (h : c.gone.contains d.id = true) :
    runCycle pool now stock sid (d :: un) c = runCycle pool now stock sid un c := by
  rw [runCycle.eq_def]; simp only [h, if_true]

/-- the running leaf yields after its ops: it is re-queued right of the marker whatever its ops did to `doers` -/
theorem runCycle_leaf_yield (pool : List (Spec τ)) (now stock : τ) (sid : Id) (i : Id) (r : τ) (steps : List (Step τ))
    (un : List (RT τ)) (c : Cyc τ) {ops t rest eo c1}
    (hg : c.gone.contains i = false) (hdue : r ≤ now)
    (hs : headStep steps = (⟨ops, .yieldT t⟩, rest))
    (ha : applyOps pool now sid un ops c = (eo, c1, false)) :
    runCycle pool now stock sid (.leaf i r steps :: un) c =
      ([ev i .recur now] ++ eo ++
          (runCycle pool now stock sid un { c1 with pr := c1.pr ++ [.leaf i (nextDue now stock r t) rest] }).1,
        (runCycle pool now stock sid un { c1 with pr := c1.pr ++ [.leaf i (nextDue now stock r t) rest] }).2) := by
  rw [runCycle.eq_def]
  simp only [RT.id, RT.retyme, hg, hdue, hs, ha, Bool.false_eq_true, if_false, if_true]

mutual
theorem resumeGroup_recIn (now : τ) : ∀ rt : RT τ, RecIn rt.liveIds (resumeGroup now rt).1
  | .leaf _ _ _ => by rw [resumeGroup]; exact RecIn.nil _
  | .group i r tock always pool doers deeds => by
      have ih := runCycle_recIn pool now tock i deeds { doers := doers }
      have hi : ∀ j ∈ RT.liveIdsL deeds, j ∈ (RT.group i r tock always pool doers deeds).liveIds :=
        fun j hj => by rw [RT.liveIds]; exact List.mem_cons_of_mem _ hj
      have hself : i ∈ (RT.group i r tock always pool doers deeds).liveIds := by
        rw [RT.liveIds]; exact List.mem_cons_self ..
      rw [resumeGroup]
      rcases h : runCycle pool now tock i deeds { doers := doers } with ⟨es, un, c, x⟩
      rw [h] at ih
      cases x with
      | some x =>
          simp only
          exact (((((RecIn.single i .recur now (fun _ => hself)).append (ih.mono hi)).append
            (RecIn.abort i x now)).append (RecIn.single i .exit now (fun h => nomatch h))).append
            (RecIn.close now _)).append (RecIn.single i .exitEnd now (fun h => nomatch h))
      | none =>
          have h1 : RecIn (RT.group i r tock always pool doers deeds).liveIds
              ([ev i .recur now] ++ es ++ [ev i (.flag c.pr.isEmpty) now]) :=
            ((RecIn.single i .recur now (fun _ => hself)).append (ih.mono hi)).append
              (RecIn.single i _ now (fun h => nomatch h))
          simp only
          split
          · exact h1
          · exact h1.append (RecIn.cons i .clean now (fun h => nomatch h)
              (RecIn.cons i .exit now (fun h => nomatch h) (RecIn.single i .exitEnd now (fun h => nomatch h))))
theorem runCycle_recIn (pool : List (Spec τ)) (now stock : τ) (sid : Id) :
    ∀ (un : List (RT τ)) (c : Cyc τ), RecIn (RT.liveIdsL un) (runCycle pool now stock sid un c).1
  | [], c => by rw [runCycle]; exact RecIn.nil _
  | .leaf i r steps :: un, c => by
      have ihu := runCycle_recIn pool now stock sid un
      have hu : ∀ j ∈ RT.liveIdsL un, j ∈ RT.liveIdsL (RT.leaf i r steps :: un) :=
        fun j hj => by rw [RT.liveIdsL]; exact List.mem_append_right _ hj
      have hself : i ∈ RT.liveIdsL (RT.leaf i r steps :: un) := by
        rw [RT.liveIdsL, RT.liveIds]; exact List.mem_append_left _ (List.mem_cons_self ..)
      rw [runCycle.eq_def]
      simp only
      split
      · exact (ihu c).mono hu
      · split
        · generalize hA : applyOps pool now sid un (headStep steps).fst.ops c = A
          have hnr : RecIn (RT.liveIdsL (RT.leaf i r steps :: un)) A.1 :=
            RecIn.of_noRecur (applyOps_noRecur pool now sid un _ c (es := A.1) (c' := A.2.1) (b := A.2.2) hA)
          have h0 : RecIn (RT.liveIdsL (RT.leaf i r steps :: un)) ([ev i .recur now] ++ A.1) :=
            (RecIn.single i .recur now (fun _ => hself)).append hnr
          generalize (if A.2.2 = true then Out.raise Exn.err else (headStep steps).1.out) = out
          cases out with
          | raise x => exact (h0.append (RecIn.abort i x now)).append (RecIn.single i .exit now (fun h => nomatch h))
          | ret v =>
              exact ((h0.append (RecIn.cons i .clean now (fun h => nomatch h)
                (RecIn.single i .exit now (fun h => nomatch h)))).append (RecIn.flag i v now)).append ((ihu _).mono hu)
          | yieldT t => exact h0.append ((ihu _).mono hu)
        · exact (ihu _).mono hu
  | .group i r tock always gpool doers deeds :: un, c => by
      have ihu := runCycle_recIn pool now stock sid un
      have ihd := resumeGroup_recIn now (.group i r tock always gpool doers deeds)
      have hu : ∀ j ∈ RT.liveIdsL un, j ∈ RT.liveIdsL (RT.group i r tock always gpool doers deeds :: un) :=
        fun j hj => by rw [RT.liveIdsL]; exact List.mem_append_right _ hj
      have hd : ∀ j ∈ (RT.group i r tock always gpool doers deeds).liveIds,
          j ∈ RT.liveIdsL (RT.group i r tock always gpool doers deeds :: un) :=
        fun j hj => by rw [RT.liveIdsL]; exact List.mem_append_left _ hj
      rw [runCycle.eq_def]
      simp only
      split
      · exact (ihu c).mono hu
      · split
        · rcases hg : resumeGroup now (.group i r tock always gpool doers deeds) with ⟨eg, res⟩
          rw [hg] at ihd
          cases res with
          | raised x => exact ihd.mono hd
          | finished =>
              exact ((ihd.mono hd).append (RecIn.single i (.flag true) now (fun h => nomatch h))).append ((ihu _).mono hu)
          | yielded rt t => exact (ihd.mono hd).append ((ihu _).mono hu)
        · exact (ihu _).mono hu
end
end cyc

end Hio.Sched
