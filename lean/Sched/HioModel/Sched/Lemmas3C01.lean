import HioModel.Sched.Model3
import HioModel.Sched.Lemmas2C01
import HioModel.Sched.Embed3
/-!
# Helper lemmas for property C01 on the third-generation model (`Hio.Sched3`): invariants, closing, entering, ops

Port of the invariant layer of `Lemmas2C01.lean` (`RT3.foot`, `RT3.WF`, `SInv`, the `Tr` calculus is reused from
`Hio.Sched2`).  New: every close transforms the scheduler state, so the statements about `closeRT / closeLoop /
closeList / removeOp / applyOps` are state-to-state and proved in one fuel-indexed block (`close_block`), under the
static guard `closeOpsOK`: close-time ops (`ceaseOps`, `exitOps`) are `remove`s that do not name a pool doer of the
doer's own scheduler.  Everything is conditional on "the result is not starved".
-/
namespace Hio.Sched3
open Hio.Sched hiding abortEvs closeRT closeAllRev enterSpec enterList liveUn extendList removeOp applyOps headStep
  resumeGroup runCycle stopEvs doLoop doistDo
open Hio.Sched2 (Exn2 Out2 Step2 EnterAct2 abortEvs loopRaises Tr stOf stOf_mem stOf_not_mem stOf_congr Noop noop_one
  noop_flagEvs lifeRun_nil lifeRun_cons lifeRun_append lifeRun_untouched Disj stepsNoSelfRm kbOK actOK actOK_fail
  run_recur run_cleanExit run_cleanExitEnd run_raiseExit ids_raiseExit)
variable {τ : Type}

/-! ### vocabulary for `Spec3` / `RT3` -/
mutual
/-- ids of all live (entered, not exited) doers in a run-time subtree -/
def RT3.liveIds : RT3 τ → List Id
  | .leaf i _ _ _ _ _ => [i]
  | .group i _ _ _ _ _ deeds _ => i :: RT3.liveIdsL deeds
def RT3.liveIdsL : List (RT3 τ) → List Id
  | [] => []
  | d :: ds => d.liveIds ++ RT3.liveIdsL ds
end

mutual
/-- every id the subtree may ever touch: itself, its live deeds, everything enterable from its pool -/
def RT3.foot : RT3 τ → List Id
  | .leaf i _ _ _ _ _ => [i]
  | .group i _ _ _ pool _ deeds _ => i :: (RT3.footL deeds ++ Spec3.idsL pool)
def RT3.footL : List (RT3 τ) → List Id
  | [] => []
  | d :: ds => d.foot ++ RT3.footL ds
end

/-- close-time ops (cease / exit action) of a doer of a scheduler whose pool members have ids `P`:
only `remove`s, and they do not name a pool doer -/
def closeOpsOK (P : List Id) (ops : List Op) : Bool :=
  ops.all (fun o => match o with | .remove ids => ids.all (fun i => !P.contains i) | .extend _ => false)

def Spec3.closeOK (P : List Id) : Spec3 τ → Bool
  | .leaf _ _ _ _ co eo => closeOpsOK P co && closeOpsOK P eo
  | .group .. => true
def RT3.closeOK (P : List Id) : RT3 τ → Bool
  | .leaf _ _ _ _ co eo => closeOpsOK P co && closeOpsOK P eo
  | .group .. => true

/-- a doer that sits in a pool must not remove itself (from its step ops) -/
def Spec3.selfOK : Spec3 τ → Bool
  | .leaf i _ steps _ _ _ => stepsNoSelfRm i steps
  | .group .. => true
def RT3.selfOK : RT3 τ → Bool
  | .leaf i _ steps _ _ _ => stepsNoSelfRm i steps
  | .group .. => true

mutual
def Spec3.good (w : Bool) : Spec3 τ → Bool
  | .leaf _ act steps _ _ _ => actOK w act && kbOK w steps
  | .group _ _ _ kids pool _ =>
      Spec3.goodL w kids && Spec3.goodL w pool && pool.all Spec3.selfOK &&
        (kids.all (Spec3.closeOK (pool.map Spec3.id)) && pool.all (Spec3.closeOK (pool.map Spec3.id)))
def Spec3.goodL (w : Bool) : List (Spec3 τ) → Bool
  | [] => true
  | s :: ss => s.good w && Spec3.goodL w ss
end

def PoolOK (w : Bool) (pool : List (Spec3 τ)) : Prop :=
  (Spec3.idsL pool).Nodup ∧ Spec3.goodL w pool = true ∧ pool.all Spec3.selfOK = true ∧
    pool.all (Spec3.closeOK (pool.map Spec3.id)) = true

def DeedOK (pool : List (Spec3 τ)) (doers : List Id) (d : RT3 τ) : Prop :=
  Disj d.foot (Spec3.idsL pool) ∨
    ∃ s, s ∈ pool ∧ s.id = d.id ∧ (∀ i ∈ d.foot, i ∈ s.ids) ∧ d.id ∈ doers ∧ d.selfOK = true

mutual
def RT3.WF (w : Bool) : RT3 τ → Prop
  | .leaf _ _ st _ _ _ => kbOK w st = true
  | .group i _ _ _ pool doers deeds _ =>
      i ∉ RT3.footL deeds ∧ i ∉ Spec3.idsL pool ∧ PoolOK w pool ∧
      deeds.Pairwise (fun a b => Disj a.foot b.foot) ∧ (∀ d ∈ deeds, DeedOK pool doers d) ∧
      (∀ d ∈ deeds, d.closeOK (pool.map Spec3.id) = true) ∧ RT3.WFL w deeds
def RT3.WFL (w : Bool) : List (RT3 τ) → Prop
  | [] => True
  | d :: ds => d.WF w ∧ RT3.WFL w ds
end

/-- what closing needs of a set of live deeds of one scheduler -/
structure PInv (w : Bool) (pool : List (Spec3 τ)) (ds : List (RT3 τ)) : Prop where
  pw : ds.Pairwise (fun a b => Disj a.foot b.foot)
  wf : ∀ d ∈ ds, d.WF w
  cl : ∀ d ∈ ds, d.closeOK (pool.map Spec3.id) = true

/-- the scheduler invariant: additionally, deeds entered from the pool are registered in `doers` -/
structure SInv (w : Bool) (pool : List (Spec3 τ)) (doers : List Id) (ds : List (RT3 τ)) : Prop extends PInv w pool ds where
  ok : ∀ d ∈ ds, DeedOK pool doers d

theorem RT3.liveIdsL_nil : RT3.liveIdsL ([] : List (RT3 τ)) = [] := by simp [RT3.liveIdsL]
theorem RT3.liveIdsL_cons (d : RT3 τ) (ds : List (RT3 τ)) :
    RT3.liveIdsL (d :: ds) = d.liveIds ++ RT3.liveIdsL ds := by simp [RT3.liveIdsL]
theorem RT3.liveIds_leaf (i : Id) (r : τ) (st : List (Step2 τ)) (cf : Bool) (co eo : List Op) :
    (RT3.leaf i r st cf co eo).liveIds = [i] := by simp [RT3.liveIds]
theorem RT3.liveIds_group (i : Id) (r t : τ) (a : Bool) (p : List (Spec3 τ)) (d : List Id) (ds : List (RT3 τ))
    (cf : Bool) : (RT3.group i r t a p d ds cf).liveIds = i :: RT3.liveIdsL ds := by
  simp [RT3.liveIds]
theorem RT3.foot_leaf (i : Id) (r : τ) (st : List (Step2 τ)) (cf : Bool) (co eo : List Op) :
    (RT3.leaf i r st cf co eo).foot = [i] := by simp [RT3.foot]
theorem RT3.foot_group (i : Id) (r t : τ) (a : Bool) (p : List (Spec3 τ)) (d : List Id) (ds : List (RT3 τ))
    (cf : Bool) : (RT3.group i r t a p d ds cf).foot = i :: (RT3.footL ds ++ Spec3.idsL p) := by
  simp [RT3.foot]

theorem RT3.liveIdsL_append (a b : List (RT3 τ)) :
    RT3.liveIdsL (a ++ b) = RT3.liveIdsL a ++ RT3.liveIdsL b := by
  induction a with
  | nil => simp [RT3.liveIdsL_nil]
  | cons d ds ih => simp [RT3.liveIdsL_cons, ih, List.append_assoc]

theorem RT3.liveIdsL_singleton (d : RT3 τ) : RT3.liveIdsL [d] = d.liveIds := by
  simp [RT3.liveIdsL_cons, RT3.liveIdsL_nil]

theorem RT3.liveIds_setRetyme (r : τ) (d : RT3 τ) : (d.setRetyme r).liveIds = d.liveIds := by
  cases d <;> simp [RT3.setRetyme, RT3.liveIds]

theorem RT3.footL_nil : RT3.footL ([] : List (RT3 τ)) = [] := by simp [RT3.footL]
theorem RT3.footL_cons (d : RT3 τ) (ds : List (RT3 τ)) : RT3.footL (d :: ds) = d.foot ++ RT3.footL ds := by
  simp [RT3.footL]
theorem RT3.mem_footL {j : Id} : ∀ {ds : List (RT3 τ)}, j ∈ RT3.footL ds ↔ ∃ d, d ∈ ds ∧ j ∈ d.foot
  | [] => by simp [RT3.footL_nil]
  | d :: ds => by simp [RT3.footL_cons, RT3.mem_footL (ds := ds)]
theorem RT3.WFL_iff {w : Bool} : ∀ {ds : List (RT3 τ)}, RT3.WFL w ds ↔ ∀ d, d ∈ ds → d.WF w
  | [] => by simp [RT3.WFL]
  | d :: ds => by simp [RT3.WFL, RT3.WFL_iff (ds := ds)]
theorem RT3.mem_liveIdsL {j : Id} : ∀ {ds : List (RT3 τ)}, j ∈ RT3.liveIdsL ds ↔ ∃ d, d ∈ ds ∧ j ∈ d.liveIds
  | [] => by simp [RT3.liveIdsL_nil]
  | d :: ds => by simp [RT3.liveIdsL_cons, RT3.mem_liveIdsL (ds := ds)]

mutual
theorem RT3.liveIds_sub_foot : ∀ (d : RT3 τ) (j : Id), j ∈ d.liveIds → j ∈ d.foot
  | .leaf i _ _ _ _ _, j, h => by simpa [RT3.liveIds, RT3.foot] using h
  | .group i _ _ _ pool _ deeds _, j, h => by
      simp only [RT3.liveIds, RT3.foot, List.mem_cons, List.mem_append] at h ⊢
      rcases h with h | h
      · exact Or.inl h
      · exact Or.inr (Or.inl (RT3.liveIdsL_sub_footL deeds j h))
theorem RT3.liveIdsL_sub_footL : ∀ (ds : List (RT3 τ)) (j : Id), j ∈ RT3.liveIdsL ds → j ∈ RT3.footL ds
  | [], j, h => by simp [RT3.liveIdsL] at h
  | d :: ds, j, h => by
      simp only [RT3.liveIdsL, RT3.footL, List.mem_append] at h ⊢
      rcases h with h | h
      · exact Or.inl (RT3.liveIds_sub_foot d j h)
      · exact Or.inr (RT3.liveIdsL_sub_footL ds j h)
end

/-! ### static facts about specs -/
theorem Spec3.idsL_nil : Spec3.idsL ([] : List (Spec3 τ)) = [] := by simp [Spec3.idsL]
theorem Spec3.idsL_cons (s : Spec3 τ) (ss : List (Spec3 τ)) : Spec3.idsL (s :: ss) = s.ids ++ Spec3.idsL ss := by
  simp [Spec3.idsL]
theorem Spec3.ids_group (i : Id) (t : τ) (a : Bool) (kids pool : List (Spec3 τ)) (cf : Bool) :
    (Spec3.group i t a kids pool cf).ids = i :: (Spec3.idsL kids ++ Spec3.idsL pool) := by simp [Spec3.ids]
theorem Spec3.mem_idsL {j : Id} : ∀ {ss : List (Spec3 τ)}, j ∈ Spec3.idsL ss ↔ ∃ s, s ∈ ss ∧ j ∈ s.ids
  | [] => by simp [Spec3.idsL_nil]
  | s :: ss => by simp [Spec3.idsL_cons, Spec3.mem_idsL (ss := ss)]
theorem Spec3.id_mem_ids (s : Spec3 τ) : s.id ∈ s.ids := by
  cases s <;> simp [Spec3.ids, Spec3.id]
theorem Spec3.idsL_append (a b : List (Spec3 τ)) : Spec3.idsL (a ++ b) = Spec3.idsL a ++ Spec3.idsL b := by
  induction a with
  | nil => simp [Spec3.idsL_nil]
  | cons s ss ih => simp [Spec3.idsL_cons, ih, List.append_assoc]

theorem Spec3.ids_sublist_idsL {s : Spec3 τ} : ∀ {ss : List (Spec3 τ)}, s ∈ ss → s.ids.Sublist (Spec3.idsL ss)
  | a :: ss, h => by
      rw [Spec3.idsL_cons]
      rcases List.mem_cons.1 h with h | h
      · rw [h]; exact List.sublist_append_left _ _
      · exact (Spec3.ids_sublist_idsL h).trans (List.sublist_append_right _ _)

theorem Spec3.eq_of_common {j : Id} {s1 s2 : Spec3 τ} : ∀ {ss : List (Spec3 τ)}, (Spec3.idsL ss).Nodup →
    s1 ∈ ss → s2 ∈ ss → j ∈ s1.ids → j ∈ s2.ids → s1 = s2
  | a :: ss, hN, h1, h2, hj1, hj2 => by
      rw [Spec3.idsL_cons, List.nodup_append] at hN
      rcases List.mem_cons.1 h1 with h1 | h1 <;> rcases List.mem_cons.1 h2 with h2 | h2
      · rw [h1, h2]
      · exact absurd rfl (hN.2.2 j (h1 ▸ hj1) j (Spec3.mem_idsL.2 ⟨s2, h2, hj2⟩))
      · exact absurd rfl (hN.2.2 j (h2 ▸ hj2) j (Spec3.mem_idsL.2 ⟨s1, h1, hj1⟩))
      · exact Spec3.eq_of_common hN.2.1 h1 h2 hj1 hj2

theorem Spec3.goodL_mem {w : Bool} {s : Spec3 τ} : ∀ {ss : List (Spec3 τ)}, Spec3.goodL w ss = true → s ∈ ss →
    s.good w = true
  | a :: ss, h, hs => by
      simp only [Spec3.goodL, Bool.and_eq_true] at h
      rcases List.mem_cons.1 hs with hs | hs
      · rw [hs]; exact h.1
      · exact Spec3.goodL_mem h.2 hs

/-! ### plumbing for the scheduler invariant -/

theorem RT3.footL_append (a b : List (RT3 τ)) : RT3.footL (a ++ b) = RT3.footL a ++ RT3.footL b := by
  induction a with
  | nil => simp [RT3.footL_nil]
  | cons d ds ih => simp [RT3.footL_cons, ih, List.append_assoc]



theorem RT3.liveIdsL_perm {ds ds' : List (RT3 τ)} (p : ds.Perm ds') (j : Id) :
    j ∈ RT3.liveIdsL ds ↔ j ∈ RT3.liveIdsL ds' := by
  simp only [RT3.mem_liveIdsL, p.mem_iff]

theorem RT3.footL_perm {ds ds' : List (RT3 τ)} (p : ds.Perm ds') (j : Id) :
    j ∈ RT3.footL ds ↔ j ∈ RT3.footL ds' := by
  simp only [RT3.mem_footL, p.mem_iff]

theorem RT3.footL_sublist {ds ds' : List (RT3 τ)} (p : ds'.Sublist ds) (j : Id) (h : j ∈ RT3.footL ds') :
    j ∈ RT3.footL ds := by
  obtain ⟨d, hd, hj⟩ := RT3.mem_footL.1 h
  exact RT3.mem_footL.2 ⟨d, p.subset hd, hj⟩

theorem RT3.liveIdsL_sublist {ds ds' : List (RT3 τ)} (p : ds'.Sublist ds) (j : Id) (h : j ∈ RT3.liveIdsL ds') :
    j ∈ RT3.liveIdsL ds := by
  obtain ⟨d, hd, hj⟩ := RT3.mem_liveIdsL.1 h
  exact RT3.mem_liveIdsL.2 ⟨d, p.subset hd, hj⟩

/-! ### plumbing for the invariants -/
section inv
variable {w : Bool} {pool : List (Spec3 τ)} {doers : List Id}

theorem PInv.perm {ds ds' : List (RT3 τ)} (h : PInv w pool ds) (p : ds.Perm ds') : PInv w pool ds' :=
  ⟨(p.pairwise_iff (fun h => Disj.symm h)).1 h.pw, fun d hd => h.wf d (p.mem_iff.2 hd),
   fun d hd => h.cl d (p.mem_iff.2 hd)⟩

theorem PInv.sublist {ds ds' : List (RT3 τ)} (h : PInv w pool ds) (p : ds'.Sublist ds) : PInv w pool ds' :=
  ⟨h.pw.sublist p, fun d hd => h.wf d (p.subset hd), fun d hd => h.cl d (p.subset hd)⟩

/-- feet of the two halves of an invariant list are disjoint -/
theorem PInv.disj {A B : List (RT3 τ)} (h : PInv w pool (A ++ B)) : ∀ j, j ∈ RT3.footL A → j ∉ RT3.footL B := by
  intro j ha hb
  obtain ⟨a, ha', hja⟩ := RT3.mem_footL.1 ha
  obtain ⟨b, hb', hjb⟩ := RT3.mem_footL.1 hb
  exact (List.pairwise_append.1 h.pw).2.2 a ha' b hb' j hja hjb

theorem SInv.perm {ds ds' : List (RT3 τ)} (h : SInv w pool doers ds) (p : ds.Perm ds') : SInv w pool doers ds' :=
  ⟨h.toPInv.perm p, fun d hd => h.ok d (p.mem_iff.2 hd)⟩

theorem SInv.sublist {ds ds' : List (RT3 τ)} (h : SInv w pool doers ds) (p : ds'.Sublist ds) : SInv w pool doers ds' :=
  ⟨h.toPInv.sublist p, fun d hd => h.ok d (p.subset hd)⟩

theorem DeedOK.mono {doers' : List Id} {d : RT3 τ} (h : DeedOK pool doers d)
    (hd : d.id ∈ pool.map Spec3.id → d.id ∈ doers → d.id ∈ doers') : DeedOK pool doers' d := by
  rcases h with h | ⟨s, h1, h2, h3, h4, h5⟩
  · exact Or.inl h
  · exact Or.inr ⟨s, h1, h2, h3, hd (h2 ▸ List.mem_map.2 ⟨s, h1, rfl⟩) h4, h5⟩

theorem SInv.mono {doers' : List Id} {ds : List (RT3 τ)} (h : SInv w pool doers ds)
    (hd : ∀ d ∈ ds, d.id ∈ pool.map Spec3.id → d.id ∈ doers → d.id ∈ doers') : SInv w pool doers' ds :=
  ⟨h.toPInv, fun d hdd => (h.ok d hdd).mono (hd d hdd)⟩

theorem SInv.cons {ds : List (RT3 τ)} {r : RT3 τ} (h : SInv w pool doers ds)
    (h1 : ∀ j ∈ r.foot, j ∉ RT3.footL ds) (h2 : DeedOK pool doers r) (h3 : r.WF w)
    (h4 : r.closeOK (pool.map Spec3.id) = true) : SInv w pool doers (r :: ds) := by
  refine ⟨⟨List.pairwise_cons.2 ⟨?_, h.pw⟩, ?_, ?_⟩, ?_⟩
  · intro d hd j hj hj'
    exact h1 j hj (RT3.mem_footL.2 ⟨d, hd, hj'⟩)
  · intro d hd
    rcases List.mem_cons.1 hd with hd | hd
    · rw [hd]; exact h3
    · exact h.wf d hd
  · intro d hd
    rcases List.mem_cons.1 hd with hd | hd
    · rw [hd]; exact h4
    · exact h.cl d hd
  · intro d hd
    rcases List.mem_cons.1 hd with hd | hd
    · rw [hd]; exact h2
    · exact h.ok d hd

theorem SInv.uncons {ds : List (RT3 τ)} {r : RT3 τ} (h : SInv w pool doers (r :: ds)) :
    SInv w pool doers ds ∧ (∀ j ∈ r.foot, j ∉ RT3.footL ds) ∧ DeedOK pool doers r ∧ r.WF w ∧
      r.closeOK (pool.map Spec3.id) = true := by
  refine ⟨h.sublist (List.sublist_cons_self _ _), ?_, h.ok r (List.mem_cons_self ..), h.wf r (List.mem_cons_self ..),
    h.cl r (List.mem_cons_self ..)⟩
  intro j hj hj'
  obtain ⟨d, hd, hjd⟩ := RT3.mem_footL.1 hj'
  exact (List.pairwise_cons.1 h.pw).1 d hd j hj hjd

/-- the deed in the middle of the zipper: what the invariant says about it -/
theorem SInv.mid {A B : List (RT3 τ)} {d : RT3 τ} (h : SInv w pool doers (A ++ d :: B)) :
    SInv w pool doers (A ++ B) ∧ (∀ j ∈ d.foot, j ∉ RT3.footL (A ++ B)) ∧ DeedOK pool doers d ∧ d.WF w ∧
      d.closeOK (pool.map Spec3.id) = true :=
  (h.perm List.perm_middle).uncons

theorem SInv.replace {A B : List (RT3 τ)} {d d' : RT3 τ} (h : SInv w pool doers (A ++ d :: B))
    (h1 : ∀ j ∈ d'.foot, j ∈ d.foot) (h2 : DeedOK pool doers d → DeedOK pool doers d') (h3 : d'.WF w)
    (h4 : d'.closeOK (pool.map Spec3.id) = true) :
    SInv w pool doers ((A ++ [d']) ++ B) := by
  obtain ⟨h0, hf, hok, _, _⟩ := h.mid
  have := h0.cons (r := d') (fun j hj => hf j (h1 j hj)) (h2 hok) h3 h4
  refine this.perm ?_
  rw [List.append_assoc, List.singleton_append]
  exact List.perm_middle.symm

/-- a pool spec that is not registered in `doers` shares no id with any live deed -/
theorem SInv.fresh {ds : List (RT3 τ)} (h : SInv w pool doers ds) (hp : PoolOK w pool) {s : Spec3 τ}
    (hs : s ∈ pool) (hnd : s.id ∉ doers) : ∀ j ∈ s.ids, j ∉ RT3.footL ds := by
  intro j hj hj'
  obtain ⟨d, hd, hjd⟩ := RT3.mem_footL.1 hj'
  rcases h.ok d hd with hok | ⟨s', hs', hid, hsub, hin, _⟩
  · exact hok j hjd (Spec3.mem_idsL.2 ⟨s, hs, hj⟩)
  · have : s' = s := Spec3.eq_of_common hp.1 hs' hs (hsub j hjd) hj
    rw [this] at hid
    exact hnd (hid ▸ hin)

end inv

/-! ### more of the `Tr` calculus -/
theorem Tr.congrAll {w : Bool} {es : List (Ev τ)} {F G L L' M M' : List Id} (h : Tr w es F L L')
    (hF : ∀ j, j ∈ G ↔ j ∈ F) (h1 : ∀ j, j ∈ M ↔ j ∈ L) (h2 : ∀ j, j ∈ M' ↔ j ∈ L') : Tr w es G M M' :=
  ⟨fun i hi s => h.1 i (fun hh => hi ((hF i).2 hh)) s,
   fun i hi => by rw [stOf_congr (h1 i), stOf_congr (h2 i)]; exact h.2 i ((hF i).1 hi)⟩

/-- forced close of the leaf `i`: `cease`, the cease action's ops `e1`, `exit` -/
theorem Tr.wrapClose {w : Bool} {e1 : List (Ev τ)} {i : Id} {now : τ} {F L L1 : List Id} (h : Tr w e1 F L L1)
    (hi : i ∉ F) (hL1 : ∀ j, j ∈ L1 → j ∈ F) :
    Tr w ([ev i .cease now] ++ e1 ++ [ev i .exit now]) (i :: F) (i :: L) L1 := by
  constructor
  · intro j hj s
    have hji : j ≠ i := fun hh => hj (hh ▸ List.mem_cons_self ..)
    have hjF : j ∉ F := fun hh => hj (List.mem_cons_of_mem _ hh)
    rw [lifeRun_append, lifeRun_append, h.1 j hjF]
    simp [lifeRun_cons, lifeRun_nil, ev, Ne.symm hji]
  · intro j hj
    by_cases hji : j = i
    · subst hji
      rw [lifeRun_append, lifeRun_append, stOf_mem (List.mem_cons_self ..)]
      have : lifeRun w j .live [ev j .cease now] = .closing := by simp [lifeRun_cons, lifeRun_nil, ev, lstep]
      rw [this, h.1 j hi, stOf_not_mem (fun hh => hi (hL1 j hh))]
      simp [lifeRun_cons, lifeRun_nil, ev, lstep]
    · have hjF : j ∈ F := by
        rcases List.mem_cons.1 hj with hh | hh
        · exact absurd hh hji
        · exact hh
      rw [lifeRun_append, lifeRun_append]
      have e1' : lifeRun w j (stOf (i :: L) j) [ev i .cease now] = stOf L j := by
        simp [lifeRun_cons, lifeRun_nil, ev, Ne.symm hji, stOf, hji]
      rw [e1', h.2 j hjF]
      simp [lifeRun_cons, lifeRun_nil, ev, Ne.symm hji]


/-- close one deed (`e`, footprint `fD ++ fS`), then the waiting ones and what is left (`e2`) -/
theorem Tr.chain {w : Bool} {e e2 : List (Ev τ)} {fD fS fW fS1 D S W S1 S2 G M : List Id}
    (t1 : Tr w e (fD ++ fS) (D ++ S) S1) (t2 : Tr w e2 (fW ++ fS1) (W ++ S1) S2)
    (hD : ∀ j, j ∈ D → j ∈ fD) (hS : ∀ j, j ∈ S → j ∈ fS) (hW : ∀ j, j ∈ W → j ∈ fW)
    (hS1 : ∀ j, j ∈ S1 → j ∈ fS1) (hS2 : ∀ j, j ∈ S2 → j ∈ fS1) (hF1 : ∀ j, j ∈ fS1 → j ∈ fS)
    (hdis : ∀ j, j ∈ fW → j ∉ fD ∧ j ∉ fS)
    (hG : ∀ j, j ∈ G ↔ (j ∈ fW ∨ j ∈ fD ∨ j ∈ fS)) (hM : ∀ j, j ∈ M ↔ (j ∈ W ∨ j ∈ D ∨ j ∈ S)) :
    Tr w (e ++ e2) G M S2 := by
  have T1 : Tr w e G M (W ++ S1) := by
    refine t1.loc ?_ ?_ ?_ ?_
    · intro j hj; simp only [List.mem_append] at hj; grind
    · intro j hj; simp only [List.mem_append] at hj ⊢; grind
    · intro j hj; simp only [List.mem_append] at hj ⊢; grind
    · intro j hj; simp only [List.mem_append] at hj ⊢; grind
  have T2 : Tr w e2 G (W ++ S1) S2 := by
    refine t2.weaken ?_ ?_ ?_
    · intro j hj; simp only [List.mem_append] at hj; grind
    · intro j hj; simp only [List.mem_append] at hj ⊢; grind
    · intro j hj; simp only [List.mem_append]; grind
  exact T1.seq T2

/-! ### closing: state-to-state statements, one fuel block -/
theorem liveUn_nil (c : Cyc3 τ) : liveUn c ([] : List (RT3 τ)) = [] := by simp [liveUn]
theorem liveUn_starved (c : Cyc3 τ) (b : Bool) (un : List (RT3 τ)) :
    liveUn { c with starved := b } un = liveUn c un := rfl
theorem liveUn_setpr (c : Cyc3 τ) (p : List (RT3 τ)) (un : List (RT3 τ)) :
    liveUn { c with pr := p } un = liveUn c un := rfl

/-- `c'` is what is left of the scheduler state `c` after some closing: fewer deeds, no pool doer lost from `doers` -/
def Sub (P : List Id) (un : List (RT3 τ)) (c c' : Cyc3 τ) : Prop :=
  c'.pr.Sublist c.pr ∧ (liveUn c' un).Sublist (liveUn c un) ∧ (∀ i, i ∈ c'.doers → i ∈ c.doers) ∧
    (∀ i, i ∈ c.doers → i ∈ P → i ∈ c'.doers)

theorem Sub.refl (P : List Id) (un : List (RT3 τ)) (c : Cyc3 τ) : Sub P un c c :=
  ⟨List.Sublist.refl _, List.Sublist.refl _, fun _ h => h, fun _ h _ => h⟩

theorem Sub.trans {P : List Id} {un : List (RT3 τ)} {c c1 c2 : Cyc3 τ} (h1 : Sub P un c c1) (h2 : Sub P un c1 c2) :
    Sub P un c c2 :=
  ⟨h2.1.trans h1.1, h2.2.1.trans h1.2.1, fun i h => h1.2.2.1 i (h2.2.2.1 i h),
   fun i h hp => h2.2.2.2 i (h1.2.2.2 i h hp) hp⟩

theorem Sub.sublist {P : List Id} {un : List (RT3 τ)} {c c' : Cyc3 τ} (h : Sub P un c c') :
    (c'.pr ++ liveUn c' un).Sublist (c.pr ++ liveUn c un) := h.1.append h.2.1

theorem run_ceaseExit {w : Bool} {i : Id} {now : τ} : lifeRun w i .live [ev i .cease now, ev i .exit now] = .idle := by
  simp [lifeRun_cons, lifeRun_nil, ev, lstep]

def CcloseRT (τ : Type) (w : Bool) (f : Nat) : Prop :=
  ∀ (pool : List (Spec3 τ)) (now : τ) (sid : Id) (un : List (RT3 τ)) (d : RT3 τ) (c : Cyc3 τ),
    PInv w pool (d :: (c.pr ++ liveUn c un)) → (closeRT pool now sid un f d c).2.starved = false →
    Tr w (closeRT pool now sid un f d c).1 (d.foot ++ RT3.footL (c.pr ++ liveUn c un))
      (d.liveIds ++ RT3.liveIdsL (c.pr ++ liveUn c un))
      (RT3.liveIdsL ((closeRT pool now sid un f d c).2.pr ++ liveUn (closeRT pool now sid un f d c).2 un)) ∧
    Sub (pool.map Spec3.id) un c (closeRT pool now sid un f d c).2

def CcloseLoop (τ : Type) (w : Bool) (f : Nat) : Prop :=
  ∀ (pool : List (Spec3 τ)) (now : τ) (sid : Id) (c : Cyc3 τ),
    PInv w pool c.pr → (closeLoop pool now sid f c).2.starved = false →
    Tr w (closeLoop pool now sid f c).1 (RT3.footL c.pr) (RT3.liveIdsL c.pr) []

def CcloseList (τ : Type) (w : Bool) (f : Nat) : Prop :=
  ∀ (pool : List (Spec3 τ)) (now : τ) (sid : Id) (un : List (RT3 τ)) (l : List (RT3 τ)) (c : Cyc3 τ),
    PInv w pool (l ++ (c.pr ++ liveUn c un)) → (closeList pool now sid un f l c).2.starved = false →
    Tr w (closeList pool now sid un f l c).1 (RT3.footL l ++ RT3.footL (c.pr ++ liveUn c un))
      (RT3.liveIdsL l ++ RT3.liveIdsL (c.pr ++ liveUn c un))
      (RT3.liveIdsL ((closeList pool now sid un f l c).2.pr ++ liveUn (closeList pool now sid un f l c).2 un)) ∧
    Sub (pool.map Spec3.id) un c (closeList pool now sid un f l c).2

def CremoveOp (τ : Type) (w : Bool) (f : Nat) : Prop :=
  ∀ (pool : List (Spec3 τ)) (now : τ) (sid : Id) (un : List (RT3 τ)) (ids : List Id) (c : Cyc3 τ),
    (∀ i, i ∈ ids → i ∉ pool.map Spec3.id) →
    PInv w pool (c.pr ++ liveUn c un) → (removeOp pool now sid un f ids c).2.starved = false →
    Tr w (removeOp pool now sid un f ids c).1 (RT3.footL (c.pr ++ liveUn c un))
      (RT3.liveIdsL (c.pr ++ liveUn c un))
      (RT3.liveIdsL ((removeOp pool now sid un f ids c).2.pr ++ liveUn (removeOp pool now sid un f ids c).2 un)) ∧
    Sub (pool.map Spec3.id) un c (removeOp pool now sid un f ids c).2

def CapplyOps (τ : Type) (w : Bool) (f : Nat) : Prop :=
  ∀ (pool : List (Spec3 τ)) (now : τ) (sid : Id) (un : List (RT3 τ)) (ops : List Op) (c : Cyc3 τ),
    closeOpsOK (pool.map Spec3.id) ops = true →
    PInv w pool (c.pr ++ liveUn c un) → (applyOps pool now sid un f ops c).2.1.starved = false →
    Tr w (applyOps pool now sid un f ops c).1 (RT3.footL (c.pr ++ liveUn c un))
      (RT3.liveIdsL (c.pr ++ liveUn c un))
      (RT3.liveIdsL ((applyOps pool now sid un f ops c).2.1.pr ++ liveUn (applyOps pool now sid un f ops c).2.1 un)) ∧
    Sub (pool.map Spec3.id) un c (applyOps pool now sid un f ops c).2.1

section closing
variable {w : Bool}

theorem liveSub {ds : List (RT3 τ)} : ∀ j, j ∈ RT3.liveIdsL ds → j ∈ RT3.footL ds :=
  fun j hj => RT3.liveIdsL_sub_footL ds j hj

theorem closeRT_succ (f : Nat) (hA : CapplyOps τ w f) (hL : CcloseLoop τ w f) : CcloseRT τ w (f+1) := by
  intro pool now sid un d c hP h
  have hP0 : PInv w pool (c.pr ++ liveUn c un) := hP.sublist (List.sublist_cons_self _ _)
  have hdis := hP.disj (A := [d])
  cases d with
  | leaf i r steps clf co eo =>
      have hcl := hP.cl _ (List.mem_cons_self ..)
      simp only [RT3.closeOK, Bool.and_eq_true] at hcl
      have hi : i ∉ RT3.footL (c.pr ++ liveUn c un) := hdis i (by simp [RT3.footL, RT3.foot])
      have hmono := (mono_all (τ := τ) f).2.2.2.2.2
      simp only [closeRT] at h ⊢
      have h1 := hA pool now sid un co c hcl.1 hP0
      generalize applyOps pool now sid un f co c = A1 at h h1 ⊢
      obtain ⟨e1, c1, x1⟩ := A1
      dsimp only at h h1 ⊢
      have h2 := hA pool now sid un eo c1 hcl.2
      have hm2 := hmono pool now sid un eo c1
      generalize applyOps pool now sid un f eo c1 = A2 at h h2 hm2 ⊢
      obtain ⟨e2, c2, x2⟩ := A2
      dsimp only at h h2 hm2 ⊢
      obtain ⟨t1, s1⟩ := h1 (hm2 h)
      obtain ⟨t2, s2⟩ := h2 (hP0.sublist s1.sublist) h
      refine ⟨?_, s1.trans s2⟩
      rw [RT3.foot_leaf, RT3.liveIds_leaf, List.singleton_append, List.singleton_append]
      have T1 := Tr.wrapClose (now := now) t1 hi (fun j hj => RT3.footL_sublist s1.sublist j (liveSub j hj))
      have T2 := t2.weaken (G := i :: RT3.footL (c.pr ++ liveUn c un))
        (fun j hj => List.mem_cons_of_mem _ (RT3.footL_sublist s1.sublist j hj)) liveSub
        (fun j hj => RT3.footL_sublist s2.sublist j (liveSub j hj))
      exact T1.seq T2
  | group i r tock always gpool doers deeds clf =>
      have hwf := hP.wf _ (List.mem_cons_self ..)
      simp only [RT3.WF] at hwf
      obtain ⟨hi1, hi2, hp, hpw, hok, hcl, hwfl⟩ := hwf
      have hPd : PInv w gpool deeds := ⟨hpw, RT3.WFL_iff.1 hwfl, hcl⟩
      simp only [closeRT] at h ⊢
      have h1 := hL gpool now i { pr := deeds, doers := doers } hPd
      generalize closeLoop gpool now i f { pr := deeds, doers := doers } = G at h h1 ⊢
      obtain ⟨e, g⟩ := G
      dsimp only at h h1 ⊢
      simp only [Bool.or_eq_false_iff] at h
      have t1 := h1 h.2
      rw [liveUn_starved]
      refine ⟨?_, List.Sublist.refl _, by rw [liveUn_starved]; exact List.Sublist.refl _, fun _ h => h, fun _ h _ => h⟩
      rw [RT3.foot_group, RT3.liveIds_group]
      have hdis' : ∀ j, j ∈ i :: (RT3.footL deeds ++ Spec3.idsL gpool) → j ∉ RT3.footL (c.pr ++ liveUn c un) := by
        intro j hj; exact hdis j (by simpa [RT3.footL_cons, RT3.footL_nil, RT3.foot_group] using hj)
      have hK : ∀ j, j ∈ RT3.liveIdsL deeds → j ∈ RT3.footL deeds := liveSub
      have hS : ∀ j, j ∈ RT3.liveIdsL (c.pr ++ liveUn c un) → j ∈ RT3.footL (c.pr ++ liveUn c un) := liveSub
      have TA : Tr w [ev i .cease now, ev i .exit now]
          ((i :: (RT3.footL deeds ++ Spec3.idsL gpool)) ++ RT3.footL (c.pr ++ liveUn c un))
          ((i :: RT3.liveIdsL deeds) ++ RT3.liveIdsL (c.pr ++ liveUn c un))
          (RT3.liveIdsL deeds ++ RT3.liveIdsL (c.pr ++ liveUn c un)) := by
        refine Tr.single (i := i) (by simp [ev]) (by simp) ?_ (fun j hj => by simp [hj])
        rw [stOf_mem (by simp), stOf_not_mem ?_]
        · exact run_ceaseExit
        · intro hh
          rcases List.mem_append.1 hh with hh | hh
          · exact hi1 (hK i hh)
          · exact hdis' i (List.mem_cons_self ..) (hS i hh)
      have TB : Tr w e ((i :: (RT3.footL deeds ++ Spec3.idsL gpool)) ++ RT3.footL (c.pr ++ liveUn c un))
          (RT3.liveIdsL deeds ++ RT3.liveIdsL (c.pr ++ liveUn c un)) (RT3.liveIdsL (c.pr ++ liveUn c un)) := by
        refine t1.loc ?_ ?_ ?_ ?_
        · intro j hj; simp [hj]
        · intro j hj
          have : j ∉ RT3.liveIdsL (c.pr ++ liveUn c un) := fun hh =>
            hdis' j (List.mem_cons_of_mem _ (List.mem_append_left _ hj)) (hS j hh)
          simp [this]
        · intro j hj
          have : j ∉ RT3.liveIdsL (c.pr ++ liveUn c un) := fun hh =>
            hdis' j (List.mem_cons_of_mem _ (List.mem_append_left _ hj)) (hS j hh)
          simp [this]
        · intro j hj
          have : j ∉ RT3.liveIdsL deeds := fun hh => hj (hK j hh)
          simp [this]
      exact (TA.seq TB).seq (Tr.noop (noop_one rfl))

theorem closeLoop_zero : CcloseLoop τ w 0 := by
  intro pool now sid c _ h
  simp only [closeLoop] at h ⊢
  split at h
  · rename_i hemp
    have hpr : c.pr = [] := by simpa using hemp
    rw [hpr, RT3.liveIdsL_nil]
    exact Tr.noop (fun _ _ => rfl)
  · exact Bool.noConfusion h

theorem perm_of_getLast? {α : Type} {l : List α} {d : α} (hg : l.getLast? = some d) : l.Perm (d :: l.dropLast) := by
  obtain ⟨ys, rfl⟩ := List.getLast?_eq_some_iff.mp hg
  simp

theorem closeLoop_succ (f : Nat) (hR : CcloseRT τ w f) (hL : CcloseLoop τ w f) : CcloseLoop τ w (f+1) := by
  intro pool now sid c hP h
  simp only [closeLoop] at h ⊢
  cases hg : c.pr.getLast? with
  | none =>
      simp only [hg] at h ⊢
      have hpr : c.pr = [] := by simpa using hg
      rw [hpr, RT3.liveIdsL_nil]
      exact Tr.noop (fun _ _ => rfl)
  | some d =>
      simp only [hg] at h ⊢
      have hperm := perm_of_getLast? hg
      have hPd : PInv w pool (d :: (c.pr.dropLast ++ liveUn { c with pr := c.pr.dropLast } [])) := by
        rw [liveUn_nil, List.append_nil]; exact hP.perm hperm
      have hmonoL := (mono_all (τ := τ) f).2.1
      have h1 := hR pool now sid [] d { c with pr := c.pr.dropLast } hPd
      generalize closeRT pool now sid [] f d { c with pr := c.pr.dropLast } = R at h h1 ⊢
      obtain ⟨e, c1⟩ := R
      dsimp only at h h1 ⊢
      have h2 := hL pool now sid c1
      have hm := hmonoL pool now sid c1
      generalize closeLoop pool now sid f c1 = R2 at h h2 hm ⊢
      obtain ⟨e2, c2⟩ := R2
      dsimp only at h h2 hm ⊢
      obtain ⟨t1, s1⟩ := h1 (hm h)
      simp only [liveUn_nil, List.append_nil] at t1
      have hPdl : PInv w pool c.pr.dropLast := hP.sublist (List.dropLast_sublist _)
      have t2 := h2 (hPdl.sublist s1.1) h
      have hdisj := (hP.perm hperm).disj (A := [d])
      refine Tr.chain (fD := d.foot) (fS := RT3.footL c.pr.dropLast) (fW := []) (fS1 := RT3.footL c1.pr)
        (D := d.liveIds) (S := RT3.liveIdsL c.pr.dropLast) (W := []) (S1 := RT3.liveIdsL c1.pr) t1 t2
        (RT3.liveIds_sub_foot d) liveSub (by simp) liveSub (by simp)
        (fun j hj => RT3.footL_sublist s1.1 j hj) (by simp) ?_ ?_
      · intro j; rw [RT3.footL_perm hperm j, RT3.footL_cons]; simp
      · intro j; rw [RT3.liveIdsL_perm hperm j, RT3.liveIdsL_cons]; simp

theorem closeList_zero : CcloseList τ w 0 := by
  intro pool now sid un l c _ h
  simp only [closeList] at h ⊢
  split at h
  · rename_i hemp
    have hl : l = [] := by simpa using hemp
    subst hl
    simp only [List.isEmpty_nil, if_true, RT3.footL_nil, RT3.liveIdsL_nil, List.nil_append]
    exact ⟨Tr.noop (fun _ _ => rfl), Sub.refl _ _ _⟩
  · exact Bool.noConfusion h

theorem closeList_succ (f : Nat) (hR : CcloseRT τ w f) (hLi : CcloseList τ w f) : CcloseList τ w (f+1) := by
  intro pool now sid un l c hP h
  simp only [closeList] at h ⊢
  cases hg : l.getLast? with
  | none =>
      simp only [hg] at h ⊢
      have hl : l = [] := by simpa using hg
      subst hl
      simp only [RT3.footL_nil, RT3.liveIdsL_nil, List.nil_append]
      exact ⟨Tr.noop (fun _ _ => rfl), Sub.refl _ _ _⟩
  | some d =>
      simp only [hg] at h ⊢
      have hperm := perm_of_getLast? hg
      have hP' : PInv w pool (l.dropLast ++ (d :: (c.pr ++ liveUn c un))) := by
        refine hP.perm ?_
        have := (hperm.append_right (c.pr ++ liveUn c un)).trans (List.perm_middle (l₁ := l.dropLast)).symm
        simpa using this
      have hPd : PInv w pool (d :: (c.pr ++ liveUn c un)) := hP'.sublist (List.sublist_append_right _ _)
      have hmonoL := (mono_all (τ := τ) f).2.2.1
      have h1 := hR pool now sid un d c hPd
      generalize closeRT pool now sid un f d c = R at h h1 ⊢
      obtain ⟨e, c1⟩ := R
      dsimp only at h h1 ⊢
      have h2 := hLi pool now sid un l.dropLast c1
      have hm := hmonoL pool now sid un l.dropLast c1
      generalize closeList pool now sid un f l.dropLast c1 = R2 at h h2 hm ⊢
      obtain ⟨e2, c2⟩ := R2
      dsimp only at h h2 hm ⊢
      obtain ⟨t1, s1⟩ := h1 (hm h)
      have hP2 : PInv w pool (l.dropLast ++ (c1.pr ++ liveUn c1 un)) :=
        hP'.sublist ((List.Sublist.refl _).append (s1.sublist.trans (List.sublist_cons_self _ _)))
      obtain ⟨t2, s2⟩ := h2 hP2 h
      refine ⟨?_, s1.trans s2⟩
      have hdisj := hP'.disj
      refine Tr.chain (fD := d.foot) (fS := RT3.footL (c.pr ++ liveUn c un)) (fW := RT3.footL l.dropLast)
        (fS1 := RT3.footL (c1.pr ++ liveUn c1 un)) (D := d.liveIds) (S := RT3.liveIdsL (c.pr ++ liveUn c un))
        (W := RT3.liveIdsL l.dropLast) (S1 := RT3.liveIdsL (c1.pr ++ liveUn c1 un)) t1 t2
        (RT3.liveIds_sub_foot d) liveSub liveSub liveSub
        (fun j hj => RT3.footL_sublist s2.sublist j (liveSub j hj))
        (fun j hj => RT3.footL_sublist s1.sublist j hj) ?_ ?_ ?_
      · intro j hj
        have := hdisj j hj
        rw [RT3.footL_cons, List.mem_append, not_or] at this
        exact this
      · intro j; rw [List.mem_append, RT3.footL_perm hperm j, RT3.footL_cons, List.mem_append]; grind
      · intro j; rw [List.mem_append, RT3.liveIdsL_perm hperm j, RT3.liveIdsL_cons, List.mem_append]; grind


/-! `remove` -/
def rmIds (c : Cyc3 τ) (ids : List Id) : List Id := ids.filter (fun i => c.doers.contains i)

/-- the scheduler state after the unlinking step of `remove(ids)` -/
def rmState (c : Cyc3 τ) (un : List (RT3 τ)) (ids : List Id) : Cyc3 τ :=
  { pr := c.pr.filter (fun d => !(rmIds c ids).contains d.id),
    doers := c.doers.filter (fun i => !(rmIds c ids).contains i),
    gone := c.gone ++ ((liveUn c un).filter (fun d => (rmIds c ids).contains d.id)).map RT3.id,
    starved := c.starved }

/-- the deeds `remove(ids)` closes -/
def rmList (c : Cyc3 τ) (un : List (RT3 τ)) (ids : List Id) : List (RT3 τ) :=
  c.pr.filter (fun d => (rmIds c ids).contains d.id) ++ (liveUn c un).filter (fun d => (rmIds c ids).contains d.id)

theorem removeOp_succ_eq (pool : List (Spec3 τ)) (now : τ) (sid : Id) (un : List (RT3 τ)) (f : Nat) (ids : List Id)
    (c : Cyc3 τ) :
    removeOp pool now sid un (f+1) ids c =
      ([ev sid .rmBeg now] ++ (closeList pool now sid un f (rmList c un ids) (rmState c un ids)).1 ++ [ev sid .rmEnd now],
       (closeList pool now sid un f (rmList c un ids) (rmState c un ids)).2) := by
  simp only [removeOp, rmList, rmState, rmIds]

theorem liveUn_rmState (c : Cyc3 τ) (un : List (RT3 τ)) (ids : List Id) :
    liveUn (rmState c un ids) un = (liveUn c un).filter (fun d => !(rmIds c ids).contains d.id) := by
  simp only [rmState, liveUn, List.filter_filter]
  apply List.filter_congr
  intro d hd
  by_cases hg : d.id ∈ c.gone
  · simp [hg]
  · rw [Bool.eq_iff_iff]
    simp [hg]
    constructor
    · intro h hr
      exact h d hd hr hg rfl
    · intro h x _ hx _ he
      rw [he] at hx
      exact h hx

theorem rm_perm (c : Cyc3 τ) (un : List (RT3 τ)) (ids : List Id) :
    (rmList c un ids ++ ((rmState c un ids).pr ++ liveUn (rmState c un ids) un)).Perm (c.pr ++ liveUn c un) := by
  rw [liveUn_rmState]
  simp only [rmList, rmState]
  have p1 := List.filter_append_perm (fun d : RT3 τ => (rmIds c ids).contains d.id) c.pr
  have p2 := List.filter_append_perm (fun d : RT3 τ => (rmIds c ids).contains d.id) (liveUn c un)
  refine List.Perm.trans ?_ (p1.append p2)
  simp only [List.append_assoc]
  refine List.Perm.append_left _ ?_
  exact List.perm_append_comm_assoc _ _ _

section closing2
variable {w : Bool}

theorem removeOp_zero : CremoveOp τ w 0 := by
  intro pool now sid un ids c _ _ h
  simp only [removeOp] at h
  exact Bool.noConfusion h

theorem Sub.rmState (P : List Id) (c : Cyc3 τ) (un : List (RT3 τ)) (ids : List Id) (hids : ∀ i, i ∈ ids → i ∉ P) :
    Sub P un c (rmState c un ids) := by
  refine ⟨List.filter_sublist, by rw [liveUn_rmState]; exact List.filter_sublist, ?_, ?_⟩
  · intro i hi; exact (List.mem_filter.1 hi).1
  · intro i hi hp
    refine List.mem_filter.2 ⟨hi, ?_⟩
    simp only [rmIds, Bool.not_eq_true', List.contains_eq_mem, List.mem_filter, decide_eq_false_iff_not]
    exact fun hh => hids i hh.1 hp

theorem removeOp_succ (f : Nat) (hLi : CcloseList τ w f) : CremoveOp τ w (f+1) := by
  intro pool now sid un ids c hids hP h
  rw [removeOp_succ_eq] at h ⊢
  dsimp only at h ⊢
  have hperm := rm_perm c un ids
  have hts := hLi pool now sid un (rmList c un ids) (rmState c un ids) (hP.perm hperm.symm) h
  refine ⟨?_, (Sub.rmState _ c un ids hids).trans hts.2⟩
  have t : Tr w (closeList pool now sid un f (rmList c un ids) (rmState c un ids)).1
      (RT3.footL (rmList c un ids) ++ RT3.footL ((rmState c un ids).pr ++ liveUn (rmState c un ids) un))
      (RT3.liveIdsL (rmList c un ids) ++ RT3.liveIdsL ((rmState c un ids).pr ++ liveUn (rmState c un ids) un))
      (RT3.liveIdsL ((closeList pool now sid un f (rmList c un ids) (rmState c un ids)).2.pr ++
        liveUn (closeList pool now sid un f (rmList c un ids) (rmState c un ids)).2 un)) := hts.1
  refine ((Tr.noop (noop_one rfl)).seq (Tr.congrAll t ?_ ?_ (fun _ => Iff.rfl))).seq (Tr.noop (noop_one rfl))
  · intro j; rw [← RT3.footL_append]; exact (RT3.footL_perm hperm j).symm
  · intro j; rw [← RT3.liveIdsL_append]; exact (RT3.liveIdsL_perm hperm j).symm

theorem applyOps_zero : CapplyOps τ w 0 := by
  intro pool now sid un ops c _ _ h
  cases ops with
  | nil => simp only [applyOps]; exact ⟨Tr.noop (fun _ _ => rfl), Sub.refl _ _ _⟩
  | cons o ops => simp only [applyOps] at h; exact Bool.noConfusion h

theorem applyOps_succ (f : Nat) (hRm : CremoveOp τ w f) (hA : CapplyOps τ w f) : CapplyOps τ w (f+1) := by
  intro pool now sid un ops c hok hP h
  cases ops with
  | nil => rw [applyOps_nil] at h ⊢; exact ⟨Tr.noop (fun _ _ => rfl), Sub.refl _ _ _⟩
  | cons o ops =>
    cases o with
    | extend ks => simp [closeOpsOK] at hok
    | remove ids =>
      simp only [closeOpsOK, List.all_cons, Bool.and_eq_true] at hok
      have hids : ∀ i, i ∈ ids → i ∉ pool.map Spec3.id := by
        intro i hi
        have := List.all_eq_true.1 hok.1 i hi
        simpa using this
      have hmono := (mono_all (τ := τ) f).2.2.2.2.2
      simp only [applyOps] at h ⊢
      have h1 := hRm pool now sid un ids c hids hP
      generalize removeOp pool now sid un f ids c = R at h h1 ⊢
      obtain ⟨e, c1⟩ := R
      dsimp only at h h1 ⊢
      have h2 := hA pool now sid un ops c1 (by simpa [closeOpsOK] using hok.2)
      have hm := hmono pool now sid un ops c1
      generalize applyOps pool now sid un f ops c1 = A at h h2 hm ⊢
      obtain ⟨e2, c2, b⟩ := A
      dsimp only at h h2 hm ⊢
      obtain ⟨t1, s1⟩ := h1 (hm h)
      obtain ⟨t2, s2⟩ := h2 (hP.sublist s1.sublist) h
      refine ⟨?_, s1.trans s2⟩
      exact (t1.seq (Tr.noop (noop_one rfl))).seq
        (t2.weaken (fun j hj => RT3.footL_sublist s1.sublist j hj) liveSub
          (fun j hj => RT3.footL_sublist s2.sublist j (liveSub j hj)))

theorem closeRT_zero : CcloseRT τ w 0 := by
  intro pool now sid un d c _ h
  simp only [closeRT] at h
  exact Bool.noConfusion h

/-- all five state-to-state close statements, for every fuel -/
theorem close_block : ∀ f : Nat,
    CcloseRT τ w f ∧ CcloseLoop τ w f ∧ CcloseList τ w f ∧ CremoveOp τ w f ∧ CapplyOps τ w f
  | 0 => ⟨closeRT_zero, closeLoop_zero, closeList_zero, removeOp_zero, applyOps_zero⟩
  | f+1 =>
    have ih := close_block f
    ⟨closeRT_succ f ih.2.2.2.2 ih.2.1, closeLoop_succ f ih.1 ih.2.1, closeList_succ f ih.1 ih.2.2.1,
     removeOp_succ f ih.2.2.1, applyOps_succ f ih.2.2.2.1 ih.2.2.2.2⟩

end closing2

end closing


/-! ### entering -/
section entering
variable {w : Bool}

theorem run_pre {i : Id} {now : τ} : lifeRun w i .idle [ev i (.flag false) now, ev i .enter now] = .live := by
  simp [lifeRun_cons, lifeRun_nil, ev, lstep, Kind.isLife]

/-- events of the single, so far idle, doer `i` -/
theorem Tr.leafEnter {es : List (Ev τ)} {i : Id} {L' : List Id} (hid : ∀ e ∈ es, e.id = i)
    (hr : lifeRun w i .idle es = stOf L' i) (hL : ∀ j, j ≠ i → j ∉ L') : Tr w es [i] [] L' :=
  Tr.single hid (List.mem_singleton.2 rfl) (by rw [stOf_not_mem (by simp)]; exact hr)
    (fun j hj => by simp [hL j hj])

def EnterSpecOK (τ : Type) (w : Bool) (f : Nat) : Prop :=
  ∀ (now : τ) (s : Spec3 τ) (es : List (Ev τ)) (r : Option (RT3 τ)) (b : Option Exn2) (sv : Bool),
    enterSpec now f s = (es, r, b, sv) → s.ids.Nodup → s.good w = true → sv = false →
    Tr w es s.ids [] (RT3.liveIdsL r.toList) ∧ (∀ x, b = some x → r = none ∧ (x.aborts = false → w = true)) ∧
    (∀ r0, r = some r0 → r0.WF w ∧ r0.id = s.id ∧ (∀ j, j ∈ r0.foot → j ∈ s.ids) ∧
      (s.selfOK = true → r0.selfOK = true) ∧ (∀ P, s.closeOK P = true → r0.closeOK P = true))

def EnterListOK (τ : Type) (w : Bool) (f : Nat) : Prop :=
  ∀ (now : τ) (ss : List (Spec3 τ)) (es : List (Ev τ)) (rs : List (RT3 τ)) (b : Option Exn2) (sv : Bool),
    enterList now f ss = (es, rs, b, sv) → (Spec3.idsL ss).Nodup → Spec3.goodL w ss = true → sv = false →
    Tr w es (Spec3.idsL ss) [] (RT3.liveIdsL rs) ∧ (∀ x, b = some x → x.aborts = false → w = true) ∧
    (∀ d, d ∈ rs → d.WF w) ∧ rs.Pairwise (fun a b => Disj a.foot b.foot) ∧
    (∀ d, d ∈ rs → ∀ j, j ∈ d.foot → j ∈ Spec3.idsL ss) ∧
    (∀ P, ss.all (Spec3.closeOK P) = true → ∀ d, d ∈ rs → d.closeOK P = true)

theorem enterSpec_zero : EnterSpecOK τ w 0 := by
  intro now s es r b sv h _ _ hsv
  simp only [enterSpec, Prod.mk.injEq] at h
  rw [← h.2.2.2] at hsv
  exact Bool.noConfusion hsv

theorem enterList_zero : EnterListOK τ w 0 := by
  intro now ss es rs b sv h _ _ hsv
  cases ss with
  | nil =>
    simp only [enterList, Prod.mk.injEq] at h
    obtain ⟨rfl, rfl, rfl, rfl⟩ := h
    simp only [Spec3.idsL_nil, RT3.liveIdsL_nil]
    exact ⟨Tr.noop (fun _ _ => rfl), by simp, by simp, List.Pairwise.nil, by simp, by simp⟩
  | cons s ss =>
    simp only [enterList, Prod.mk.injEq] at h
    rw [← h.2.2.2] at hsv
    exact Bool.noConfusion hsv

theorem enterSpec_succ (f : Nat) (hE : EnterListOK τ w f) : EnterSpecOK τ w (f+1) := by
  intro now s es r b sv h hN hg hsv
  cases s with
  | leaf i act steps cf co eo =>
    simp only [Spec3.good, Bool.and_eq_true] at hg
    simp only [Spec3.ids]
    cases act with
    | ok =>
      simp only [enterSpec, Prod.mk.injEq] at h; obtain ⟨rfl, rfl, rfl, rfl⟩ := h
      refine ⟨?_, by simp, ?_⟩
      · simp only [Option.toList, RT3.liveIdsL_cons, RT3.liveIdsL_nil, RT3.liveIds_leaf, List.append_nil]
        exact Tr.leafEnter (by simp [ev]) (by rw [stOf_mem (by simp)]; exact run_pre) (fun j hj => by simp [hj])
      · intro r0 hr0
        simp only [Option.some.injEq] at hr0; subst hr0
        refine ⟨by simpa [RT3.WF] using hg.2, rfl, by simp [RT3.foot], by simp [Spec3.selfOK, RT3.selfOK],
          by simp [Spec3.closeOK, RT3.closeOK]⟩
    | fail x =>
      simp only [enterSpec, Prod.mk.injEq] at h; obtain ⟨rfl, rfl, rfl, rfl⟩ := h
      have hx := actOK_fail hg.1
      refine ⟨?_, fun y hy => ⟨rfl, by cases hy; exact hx⟩, by simp⟩
      simp only [Option.toList, RT3.liveIdsL_nil]
      refine Tr.leafEnter ?_ ?_ (by simp)
      · cases hxa : x.aborts <;> simp [abortEvs, hxa, ev]
      · rw [List.append_assoc, lifeRun_append, run_pre, stOf_not_mem (by simp)]
        exact run_raiseExit hx
    | done v =>
      cases cf with
      | true =>
        simp only [enterSpec, if_true, Prod.mk.injEq] at h; obtain ⟨rfl, rfl, rfl, rfl⟩ := h
        refine ⟨?_, fun y hy => ⟨rfl, by cases hy; simp [Exn2.aborts]⟩, by simp⟩
        simp only [Option.toList, RT3.liveIdsL_nil]
        refine Tr.leafEnter (by simp [ev]) ?_ (by simp)
        rw [lifeRun_append, run_pre, stOf_not_mem (by simp)]
        exact run_cleanExit
      | false =>
        simp only [enterSpec, Bool.false_eq_true, if_false, Prod.mk.injEq] at h; obtain ⟨rfl, rfl, rfl, rfl⟩ := h
        refine ⟨?_, by simp, by simp⟩
        simp only [Option.toList, RT3.liveIdsL_nil]
        refine Tr.leafEnter ?_ ?_ (by simp)
        · cases v <;> simp [flagEvs, ev]
        · rw [lifeRun_append, lifeRun_append, run_pre, run_cleanExit, noop_flagEvs v, stOf_not_mem (by simp)]
  | group i tock always kids pool cf =>
    simp only [Spec3.good, Bool.and_eq_true] at hg
    rw [Spec3.ids_group, List.nodup_cons, List.nodup_append] at hN
    rw [Spec3.ids_group]
    simp only [enterSpec] at h
    rcases hEL : enterList now f kids with ⟨es', deeds, b', sv'⟩
    rw [hEL] at h
    have hi : i ∉ Spec3.idsL kids := fun hh => hN.1 (List.mem_append_left _ hh)
    have T1 : Tr w [ev i (.flag false) now, ev i .enter now] (i :: (Spec3.idsL kids ++ Spec3.idsL pool)) [] [i] :=
      Tr.single (i := i) (by simp [ev]) (by simp) (by rw [stOf_not_mem (by simp), stOf_mem (by simp)]; exact run_pre)
        (fun j hj => by simp [hj])
    cases b' with
    | none =>
      dsimp only at h
      simp only [Prod.mk.injEq] at h; obtain ⟨rfl, rfl, rfl, rfl⟩ := h
      obtain ⟨t, _, hwf, hpw, hfoot, hclo⟩ := hE now kids es' deeds none sv' hEL hN.2.1 hg.1.1.1 hsv
      have hfootL : ∀ j, j ∈ RT3.footL deeds → j ∈ Spec3.idsL kids := by
        intro j hj; obtain ⟨d, hd, hjd⟩ := RT3.mem_footL.1 hj; exact hfoot d hd j hjd
      have hK : ∀ j, j ∈ RT3.liveIdsL deeds → j ∈ Spec3.idsL kids := fun j hj => hfootL j (liveSub j hj)
      refine ⟨?_, by simp, ?_⟩
      · simp only [Option.toList, RT3.liveIdsL_cons, RT3.liveIdsL_nil, RT3.liveIds_group, List.append_nil]
        refine T1.seq (Tr.loc (F := Spec3.idsL kids) t ?_ ?_ ?_ ?_)
        · intro j hj; simp [hj]
        · intro j hj; have : j ≠ i := fun hh => hi (hh ▸ hj); simp [this]
        · intro j hj; have : j ≠ i := fun hh => hi (hh ▸ hj); simp [this]
        · intro j hj; have : j ∉ RT3.liveIdsL deeds := fun hh => hj (hK j hh); simp [this]
      · intro r0 hr0
        simp only [Option.some.injEq] at hr0; subst hr0
        refine ⟨?_, rfl, ?_, fun _ => rfl, fun _ _ => rfl⟩
        · simp only [RT3.WF]
          refine ⟨fun hh => hi (hfootL i hh), fun hh => hN.1 (List.mem_append_right _ hh),
            ⟨hN.2.2.1, hg.1.1.2, hg.1.2, hg.2.2⟩, hpw, ?_, hclo _ hg.2.1, RT3.WFL_iff.2 hwf⟩
          intro d hd
          exact Or.inl (fun j hj hj' => hN.2.2.2 j (hfoot d hd j hj) j hj' rfl)
        · intro j hj
          simp only [RT3.foot, List.mem_cons, List.mem_append] at hj ⊢
          rcases hj with hj | hj | hj
          · exact Or.inl hj
          · exact Or.inr (Or.inl (hfootL j hj))
          · exact Or.inr (Or.inr hj)
    | some x =>
      dsimp only at h
      rcases hCL : closeLoop pool now i f { pr := deeds, doers := kids.map Spec3.id } with ⟨ec, g⟩
      rw [hCL] at h
      simp only [Prod.mk.injEq] at h; obtain ⟨rfl, rfl, rfl, rfl⟩ := h
      simp only [Bool.or_eq_false_iff] at hsv
      obtain ⟨t, hx, hwf, hpw, hfoot, hclo⟩ := hE now kids es' deeds (some x) sv' hEL hN.2.1 hg.1.1.1 hsv.1
      have hx' := hx x rfl
      have hfootL : ∀ j, j ∈ RT3.footL deeds → j ∈ Spec3.idsL kids := by
        intro j hj; obtain ⟨d, hd, hjd⟩ := RT3.mem_footL.1 hj; exact hfoot d hd j hjd
      have hK : ∀ j, j ∈ RT3.liveIdsL deeds → j ∈ Spec3.idsL kids := fun j hj => hfootL j (liveSub j hj)
      have hiK : i ∉ RT3.liveIdsL deeds := fun hh => hi (hK i hh)
      have tc := (close_block (τ := τ) (w := w) f).2.1 pool now i { pr := deeds, doers := kids.map Spec3.id }
        ⟨hpw, hwf, hclo _ hg.2.1⟩ (by rw [hCL]; exact hsv.2)
      rw [hCL] at tc
      refine ⟨?_, fun y hy => ⟨rfl, by cases hy; exact hx'⟩, by simp⟩
      simp only [Option.toList, RT3.liveIdsL_nil]
      have T2 : Tr w es' (i :: (Spec3.idsL kids ++ Spec3.idsL pool)) [i] (i :: RT3.liveIdsL deeds) := by
        refine Tr.loc (F := Spec3.idsL kids) t ?_ ?_ ?_ ?_
        · intro j hj; simp [hj]
        · intro j hj; have : j ≠ i := fun hh => hi (hh ▸ hj); simp [this]
        · intro j hj; have : j ≠ i := fun hh => hi (hh ▸ hj); simp [this]
        · intro j hj; have : j ∉ RT3.liveIdsL deeds := fun hh => hj (hK j hh); simp [this]
      have T3 : Tr w (abortEvs i x now ++ [ev i .exit now]) (i :: (Spec3.idsL kids ++ Spec3.idsL pool))
          (i :: RT3.liveIdsL deeds) (RT3.liveIdsL deeds) :=
        Tr.single ids_raiseExit (List.mem_cons_self ..)
          (by rw [stOf_mem (List.mem_cons_self ..), stOf_not_mem hiK]; exact run_raiseExit hx')
          (fun j hj => by simp [hj])
      have T4 : Tr w ec (i :: (Spec3.idsL kids ++ Spec3.idsL pool)) (RT3.liveIdsL deeds) [] :=
        tc.weaken (fun j hj => List.mem_cons_of_mem _ (List.mem_append_left _ (hfootL j hj))) liveSub (by simp)
      exact ((((T1.seq T2).seq2 T3).seq T4).seq (Tr.noop (noop_one rfl)))

theorem enterList_succ (f : Nat) (hS : EnterSpecOK τ w f) (hE : EnterListOK τ w f) : EnterListOK τ w (f+1) := by
  intro now ss es rs b sv h hN hg hsv
  cases ss with
  | nil =>
    simp only [enterList, Prod.mk.injEq] at h
    obtain ⟨rfl, rfl, rfl, rfl⟩ := h
    simp only [Spec3.idsL_nil, RT3.liveIdsL_nil]
    exact ⟨Tr.noop (fun _ _ => rfl), by simp, by simp, List.Pairwise.nil, by simp, by simp⟩
  | cons s ss =>
    rw [Spec3.idsL_cons, List.nodup_append] at hN
    simp only [Spec3.goodL, Bool.and_eq_true] at hg
    rw [Spec3.idsL_cons]
    simp only [enterList] at h
    rcases hES : enterSpec now f s with ⟨e, r', b1, sv1⟩
    rw [hES] at h
    cases b1 with
    | some x =>
      dsimp only at h
      simp only [Prod.mk.injEq] at h; obtain ⟨rfl, rfl, rfl, rfl⟩ := h
      obtain ⟨t, hb, _⟩ := hS now s e r' (some x) sv1 hES hN.1 hg.1 hsv
      obtain ⟨hr, hx⟩ := hb x rfl
      subst hr
      simp only [Option.toList, RT3.liveIdsL_nil] at t ⊢
      exact ⟨t.weaken (fun j hj => List.mem_append_left _ hj) (by simp) (by simp),
        fun y hy => by cases hy; exact hx, by simp, List.Pairwise.nil, by simp, by simp⟩
    | none =>
      dsimp only at h
      rcases hEL : enterList now f ss with ⟨e2, rs', b2, sv2⟩
      rw [hEL] at h
      simp only [Prod.mk.injEq] at h; obtain ⟨rfl, rfl, rfl, rfl⟩ := h
      simp only [Bool.or_eq_false_iff] at hsv
      obtain ⟨t1, _, hr0⟩ := hS now s e r' none sv1 hES hN.1 hg.1 hsv.1
      obtain ⟨t2, hb2, hwf, hpw, hfoot, hclo⟩ := hE now ss e2 rs' b2 sv2 hEL hN.2.1 hg.2 hsv.2
      have hfootL : ∀ j, j ∈ RT3.footL rs' → j ∈ Spec3.idsL ss := by
        intro j hj; obtain ⟨d, hd, hjd⟩ := RT3.mem_footL.1 hj; exact hfoot d hd j hjd
      have hL2 : ∀ j, j ∈ RT3.liveIdsL rs' → j ∈ Spec3.idsL ss := fun j hj => hfootL j (liveSub j hj)
      have hL1 : ∀ j, j ∈ RT3.liveIdsL r'.toList → j ∈ s.ids := by
        intro j hj
        cases r' with
        | none => simp [RT3.liveIdsL_nil] at hj
        | some r0 =>
          simp only [Option.toList, RT3.liveIdsL_cons, RT3.liveIdsL_nil, List.append_nil] at hj
          exact (hr0 r0 rfl).2.2.1 j (RT3.liveIds_sub_foot r0 j hj)
      have hdisj : ∀ j, j ∈ s.ids → j ∉ Spec3.idsL ss := fun j h1 h2 => hN.2.2 j h1 j h2 rfl
      refine ⟨?_, hb2, ?_, ?_, ?_, ?_⟩
      · rw [RT3.liveIdsL_append]
        refine (t1.weaken (fun j hj => List.mem_append_left _ hj) (by simp) hL1).seq
          (Tr.loc (F := Spec3.idsL ss) t2 (fun j hj => List.mem_append_right _ hj) ?_ ?_ ?_)
        · intro j hj
          have : j ∉ RT3.liveIdsL r'.toList := fun hh => hdisj j (hL1 j hh) hj
          simp [this]
        · intro j hj
          have : j ∉ RT3.liveIdsL r'.toList := fun hh => hdisj j (hL1 j hh) hj
          simp [this]
        · intro j hj
          have : j ∉ RT3.liveIdsL rs' := fun hh => hj (hL2 j hh)
          simp [this]
      · intro d hd
        rcases List.mem_append.1 hd with hd | hd
        · cases r' with
          | none => simp at hd
          | some r0 => simp only [Option.toList, List.mem_singleton] at hd; rw [hd]; exact (hr0 r0 rfl).1
        · exact hwf d hd
      · cases r' with
        | none => simpa using hpw
        | some r0 =>
          simp only [Option.toList, List.singleton_append, List.pairwise_cons]
          exact ⟨fun d hd j hj hj' => hdisj j ((hr0 r0 rfl).2.2.1 j hj) (hfoot d hd j hj'), hpw⟩
      · intro d hd j hj
        rcases List.mem_append.1 hd with hd | hd
        · cases r' with
          | none => simp at hd
          | some r0 =>
            simp only [Option.toList, List.mem_singleton] at hd; rw [hd] at hj
            exact List.mem_append_left _ ((hr0 r0 rfl).2.2.1 j hj)
        · exact List.mem_append_right _ (hfoot d hd j hj)
      · intro P hP d hd
        simp only [List.all_cons, Bool.and_eq_true] at hP
        rcases List.mem_append.1 hd with hd | hd
        · cases r' with
          | none => simp at hd
          | some r0 =>
            simp only [Option.toList, List.mem_singleton] at hd; rw [hd]
            exact (hr0 r0 rfl).2.2.2.2 P hP.1
        · exact hclo P hP.2 d hd

theorem enter_block : ∀ f : Nat, EnterSpecOK τ w f ∧ EnterListOK τ w f
  | 0 => ⟨enterSpec_zero, enterList_zero⟩
  | f+1 =>
    have ih := enter_block f
    ⟨enterSpec_succ f ih.2, enterList_succ f ih.1 ih.2⟩

end entering


/-! ### step-time ops: `remove`, `extend` -/
section ops
variable {w : Bool} {pool : List (Spec3 τ)}

theorem liveUn_ext (c : Cyc3 τ) (p : List (RT3 τ)) (ds : List Id) (sv : Bool) (un : List (RT3 τ)) :
    liveUn { c with pr := p, doers := ds, starved := sv } un = liveUn c un := rfl

theorem SInv.sub {c c' : Cyc3 τ} {un mid : List (RT3 τ)}
    (h : SInv w pool c.doers (c.pr ++ mid ++ liveUn c un)) (s : Sub (pool.map Spec3.id) un c c') :
    SInv w pool c'.doers (c'.pr ++ mid ++ liveUn c' un) :=
  (h.sublist ((s.1.append (List.Sublist.refl mid)).append s.2.1)).mono (fun d _ hp hd => s.2.2.2 d.id hd hp)

theorem removeOp_inv (now : τ) (sid : Id) (un : List (RT3 τ)) (f : Nat) (ids : List Id) (c : Cyc3 τ)
    (mid : List (RT3 τ)) (G0 : List Id) (hI : SInv w pool c.doers (c.pr ++ mid ++ liveUn c un))
    (hself : ∀ d ∈ mid, d.id ∈ pool.map Spec3.id → d.id ∉ ids)
    (hG : ∀ j, j ∈ RT3.footL (c.pr ++ mid ++ liveUn c un) → j ∈ G0)
    (hs : (removeOp pool now sid un f ids c).2.starved = false) :
    Tr w (removeOp pool now sid un f ids c).1 G0 (RT3.liveIdsL (c.pr ++ mid ++ liveUn c un))
      (RT3.liveIdsL ((removeOp pool now sid un f ids c).2.pr ++ mid ++ liveUn (removeOp pool now sid un f ids c).2 un)) ∧
    SInv w pool (removeOp pool now sid un f ids c).2.doers
      ((removeOp pool now sid un f ids c).2.pr ++ mid ++ liveUn (removeOp pool now sid un f ids c).2 un) ∧
    ((removeOp pool now sid un f ids c).2.pr ++ mid ++ liveUn (removeOp pool now sid un f ids c).2 un).Sublist
      (c.pr ++ mid ++ liveUn c un) := by
  cases f with
  | zero => simp only [removeOp] at hs; exact Bool.noConfusion hs
  | succ f =>
    rw [removeOp_succ_eq] at hs ⊢
    dsimp only at hs ⊢
    have hsub0 : ((rmState c un ids).pr ++ mid ++ liveUn (rmState c un ids) un).Sublist (c.pr ++ mid ++ liveUn c un) := by
      rw [liveUn_rmState]
      exact ((List.filter_sublist (l := c.pr)).append (List.Sublist.refl mid)).append List.filter_sublist
    have hI0 : SInv w pool (rmState c un ids).doers ((rmState c un ids).pr ++ mid ++ liveUn (rmState c un ids) un) := by
      refine ⟨hI.toPInv.sublist hsub0, ?_⟩
      intro d hd
      rcases hI.ok d (hsub0.subset hd) with h | ⟨s, hs', hid, hsub', hin, hself'⟩
      · exact Or.inl h
      · refine Or.inr ⟨s, hs', hid, hsub', ?_, hself'⟩
        refine List.mem_filter.2 ⟨hin, ?_⟩
        rw [liveUn_rmState] at hd
        simp only [rmState, List.mem_append, List.mem_filter] at hd
        rcases hd with (hd | hd) | hd
        · exact hd.2
        · have := hself d hd (hid ▸ List.mem_map.2 ⟨s, hs', rfl⟩)
          simp only [rmIds, Bool.not_eq_true', List.contains_eq_mem, List.mem_filter, decide_eq_false_iff_not]
          exact fun hh => this hh.1
        · exact hd.2
    have hperm := rm_perm c un ids
    have hPls : PInv w pool (c.pr ++ liveUn c un) :=
      hI.toPInv.sublist (((List.sublist_append_left c.pr mid)).append (List.Sublist.refl _))
    have hts := (close_block (τ := τ) (w := w) f).2.2.1 pool now sid un (rmList c un ids) (rmState c un ids)
      (hPls.perm hperm.symm) hs
    have t : Tr w (closeList pool now sid un f (rmList c un ids) (rmState c un ids)).1
      (RT3.footL (rmList c un ids) ++ RT3.footL ((rmState c un ids).pr ++ liveUn (rmState c un ids) un))
      (RT3.liveIdsL (rmList c un ids) ++ RT3.liveIdsL ((rmState c un ids).pr ++ liveUn (rmState c un ids) un))
      (RT3.liveIdsL ((closeList pool now sid un f (rmList c un ids) (rmState c un ids)).2.pr ++
        liveUn (closeList pool now sid un f (rmList c un ids) (rmState c un ids)).2 un)) := hts.1
    have s := hts.2
    generalize closeList pool now sid un f (rmList c un ids) (rmState c un ids) = R at t s hs ⊢
    obtain ⟨e, c1⟩ := R
    dsimp only at t s hs ⊢
    have hsub1 : (c1.pr ++ mid ++ liveUn c1 un).Sublist ((rmState c un ids).pr ++ mid ++ liveUn (rmState c un ids) un) :=
      (s.1.append (List.Sublist.refl mid)).append s.2.1
    refine ⟨?_, hI0.sub s, hsub1.trans hsub0⟩
    -- membership facts
    have hF : ∀ j, j ∈ RT3.footL (rmList c un ids) ++ RT3.footL ((rmState c un ids).pr ++ liveUn (rmState c un ids) un) ↔
        (j ∈ RT3.footL c.pr ∨ j ∈ RT3.footL (liveUn c un)) := by
      intro j; rw [← RT3.footL_append, RT3.footL_perm hperm j, RT3.footL_append, List.mem_append]
    have hL : ∀ j, j ∈ RT3.liveIdsL (rmList c un ids) ++ RT3.liveIdsL ((rmState c un ids).pr ++ liveUn (rmState c un ids) un) ↔
        (j ∈ RT3.liveIdsL c.pr ∨ j ∈ RT3.liveIdsL (liveUn c un)) := by
      intro j; rw [← RT3.liveIdsL_append, RT3.liveIdsL_perm hperm j, RT3.liveIdsL_append, List.mem_append]
    have hpm : (c.pr ++ mid ++ liveUn c un).Perm (mid ++ (c.pr ++ liveUn c un)) := by
      rw [List.append_assoc]
      exact (List.perm_append_comm_assoc _ _ _)
    have hmid : ∀ j, j ∈ RT3.liveIdsL mid → j ∉ RT3.footL c.pr ∧ j ∉ RT3.footL (liveUn c un) := by
      intro j hj
      have := (hI.toPInv.perm hpm).disj j (liveSub j hj)
      rw [RT3.footL_append, List.mem_append, not_or] at this
      exact this
    have h1 : ∀ j, j ∈ RT3.liveIdsL c.pr → j ∈ RT3.footL c.pr := liveSub
    have h2 : ∀ j, j ∈ RT3.liveIdsL (liveUn c un) → j ∈ RT3.footL (liveUn c un) := liveSub
    have h3 : ∀ j, j ∈ RT3.liveIdsL c1.pr → j ∈ RT3.footL c.pr := fun j hj =>
      RT3.footL_sublist (s.1.trans List.filter_sublist) j (liveSub j hj)
    have h4 : ∀ j, j ∈ RT3.liveIdsL (liveUn c1 un) → j ∈ RT3.footL (liveUn c un) := fun j hj =>
      RT3.footL_sublist (s.2.1.trans (by rw [liveUn_rmState]; exact List.filter_sublist)) j (liveSub j hj)
    have hGG : ∀ j, j ∈ RT3.footL c.pr ∨ j ∈ RT3.footL (liveUn c un) → j ∈ G0 := by
      intro j hj; apply hG; simp only [RT3.footL_append, List.mem_append]; grind
    refine ((Tr.noop (noop_one rfl)).seq (Tr.loc t ?_ ?_ ?_ ?_)).seq (Tr.noop (noop_one rfl))
    · intro j hj; exact hGG j ((hF j).1 hj)
    · intro j hj; rw [hL]; have := (hF j).1 hj; simp only [RT3.liveIdsL_append, List.mem_append]; grind
    · intro j hj; have := (hF j).1 hj; simp only [RT3.liveIdsL_append, List.mem_append]; grind
    · intro j hj; rw [hF] at hj; simp only [RT3.liveIdsL_append, List.mem_append]; grind

theorem enterPool_inv (now : τ) (f : Nat) (hp : PoolOK w pool) {s : Spec3 τ} (hs : s ∈ pool) {doers : List Id}
    (hnd : s.id ∉ doers) {ds : List (RT3 τ)} (hI : SInv w pool doers ds) {G0 : List Id}
    (hGp : ∀ j, j ∈ Spec3.idsL pool → j ∈ G0) (hG : ∀ j, j ∈ RT3.footL ds → j ∈ G0)
    {e : List (Ev τ)} {r : Option (RT3 τ)} {b : Option Exn2} {sv : Bool} (he : enterSpec now f s = (e, r, b, sv))
    (hsv : sv = false) :
    Tr w e G0 (RT3.liveIdsL ds) (RT3.liveIdsL (r.toList ++ ds)) ∧ SInv w pool (doers ++ [s.id]) (r.toList ++ ds) ∧
      (∀ j, j ∈ RT3.footL (r.toList ++ ds) → j ∈ G0) ∧
      (∀ x, b = some x → r = none ∧ (x.aborts = false → w = true)) := by
  have hsN : s.ids.Nodup := hp.1.sublist (Spec3.ids_sublist_idsL hs)
  obtain ⟨t, hbn, hr0⟩ := (enter_block (τ := τ) (w := w) f).1 now s e r b sv he hsN (Spec3.goodL_mem hp.2.1 hs) hsv
  have hfresh := hI.fresh hp hs hnd
  have hlive : ∀ j, j ∈ s.ids → j ∉ RT3.liveIdsL ds := fun j hj hj' => hfresh j hj (liveSub j hj')
  have hsG : ∀ j, j ∈ s.ids → j ∈ G0 := fun j hj => hGp j (Spec3.mem_idsL.2 ⟨s, hs, hj⟩)
  have hrL : ∀ j, j ∈ RT3.liveIdsL r.toList → j ∈ s.ids := by
    intro j hj
    cases r with
    | none => simp [RT3.liveIdsL_nil] at hj
    | some r0 =>
      simp only [Option.toList, RT3.liveIdsL_cons, RT3.liveIdsL_nil, List.append_nil] at hj
      exact (hr0 r0 rfl).2.2.1 j (RT3.liveIds_sub_foot r0 j hj)
  refine ⟨?_, ?_, ?_, hbn⟩
  · refine Tr.loc t hsG ?_ ?_ ?_
    · intro j hj; simp [hlive j hj]
    · intro j hj; simp [RT3.liveIdsL_append, hlive j hj]
    · intro j hj
      have : j ∉ RT3.liveIdsL r.toList := fun hh => hj (hrL j hh)
      simp [RT3.liveIdsL_append, this]
  · have hI' : SInv w pool (doers ++ [s.id]) ds := hI.mono (fun _ _ _ h => List.mem_append_left _ h)
    cases r with
    | none => simpa using hI'
    | some r0 =>
      obtain ⟨h1, h2, h3, h4, h5⟩ := hr0 r0 rfl
      simp only [Option.toList, List.singleton_append]
      refine hI'.cons (fun j hj => hfresh j (h3 j hj)) (Or.inr ⟨s, hs, h2.symm, h3, ?_, h4 ?_⟩) h1
        (h5 _ (List.all_eq_true.1 hp.2.2.2 s hs))
      · rw [h2]; exact List.mem_append_right _ (List.mem_singleton.2 rfl)
      · exact List.all_eq_true.1 hp.2.2.1 s hs
  · intro j hj
    rw [RT3.footL_append, List.mem_append] at hj
    rcases hj with hj | hj
    · cases r with
      | none => simp [RT3.footL_nil] at hj
      | some r0 =>
        simp only [Option.toList, RT3.footL_cons, RT3.footL_nil, List.append_nil] at hj
        exact hsG j ((hr0 r0 rfl).2.2.1 j hj)
    · exact hG j hj

theorem extendList_inv (now : τ) (hp : PoolOK w pool) (un mid : List (RT3 τ)) (G0 : List Id)
    (hGp : ∀ j, j ∈ Spec3.idsL pool → j ∈ G0) :
    ∀ (f : Nat) (ks : List Nat) (c : Cyc3 τ) (e : List (Ev τ)) (c1 : Cyc3 τ) (b : Option Exn2),
      extendList pool now f ks c = (e, c1, b) →
      SInv w pool c.doers (c.pr ++ mid ++ liveUn c un) →
      (∀ j, j ∈ RT3.footL (c.pr ++ mid ++ liveUn c un) → j ∈ G0) → c1.starved = false →
      Tr w e G0 (RT3.liveIdsL (c.pr ++ mid ++ liveUn c un)) (RT3.liveIdsL (c1.pr ++ mid ++ liveUn c1 un)) ∧
      SInv w pool c1.doers (c1.pr ++ mid ++ liveUn c1 un) ∧
      (∀ j, j ∈ RT3.footL (c1.pr ++ mid ++ liveUn c1 un) → j ∈ G0) ∧
      (∀ x, b = some x → x.aborts = false → w = true)
  | 0, [], c, e, c1, b, h, hI, hG, _ => by
      simp only [extendList, Prod.mk.injEq] at h; obtain ⟨rfl, rfl, rfl⟩ := h
      exact ⟨Tr.noop (fun _ _ => rfl), hI, hG, by simp⟩
  | 0, _ :: _, c, e, c1, b, h, _, _, hs => by
      simp only [extendList, Prod.mk.injEq] at h
      rw [← h.2.1] at hs
      exact Bool.noConfusion hs
  | _+1, [], c, e, c1, b, h, hI, hG, _ => by
      simp only [extendList, Prod.mk.injEq] at h; obtain ⟨rfl, rfl, rfl⟩ := h
      exact ⟨Tr.noop (fun _ _ => rfl), hI, hG, by simp⟩
  | f+1, k :: ks, c, e, c1, b, h, hI, hG, hs => by
      simp only [extendList] at h
      split at h
      · exact extendList_inv now hp un mid G0 hGp f ks c e c1 b h hI hG hs
      · rename_i s hk
        have hsp : s ∈ pool := List.mem_of_getElem? hk
        split at h
        · exact extendList_inv now hp un mid G0 hGp f ks c e c1 b h hI hG hs
        · rename_i hnd
          have hnd' : s.id ∉ c.doers := by simpa using hnd
          rcases hES : enterSpec now f s with ⟨e1, r, b1, sv⟩
          rw [hES] at h
          cases b1 with
          | some x =>
            dsimp only at h
            simp only [Prod.mk.injEq] at h; obtain ⟨rfl, rfl, rfl⟩ := h
            dsimp only at hs
            simp only [Bool.or_eq_false_iff] at hs
            obtain ⟨h1, _, _, h4⟩ := enterPool_inv now f hp hsp hnd' hI hGp hG hES hs.2
            obtain ⟨hr, hx⟩ := h4 x rfl
            subst hr
            dsimp only
            have hlu : liveUn ({ pr := c.pr, doers := c.doers, gone := c.gone, starved := c.starved || sv } : Cyc3 τ) un
                = liveUn c un := rfl
            rw [hlu]
            exact ⟨by simpa using h1, hI, hG, fun y hy => by cases hy; exact hx⟩
          | none =>
            dsimp only at h
            rcases hXL : extendList pool now f ks
              { c with pr := c.pr ++ r.toList, doers := c.doers ++ [s.id], starved := c.starved || sv } with ⟨e2, c2, b'⟩
            rw [hXL] at h
            simp only [Prod.mk.injEq] at h; obtain ⟨rfl, rfl, rfl⟩ := h
            have hm := (mono_all (τ := τ) f).2.2.2.1 pool now ks
              { c with pr := c.pr ++ r.toList, doers := c.doers ++ [s.id], starved := c.starved || sv }
            rw [hXL] at hm
            have hsv := hm hs
            dsimp only at hsv
            simp only [Bool.or_eq_false_iff] at hsv
            obtain ⟨h1, h2, h3, _⟩ := enterPool_inv now f hp hsp hnd' hI hGp hG hES hsv.2
            have p : (r.toList ++ (c.pr ++ mid ++ liveUn c un)).Perm ((c.pr ++ r.toList) ++ mid ++ liveUn c un) := by
              simp only [List.append_assoc]
              rw [← List.append_assoc, ← List.append_assoc c.pr]
              exact List.perm_append_comm.append_right _
            obtain ⟨g1, g2, g3, g4⟩ := extendList_inv now hp un mid G0 hGp f ks _ e2 c2 b' hXL
              (h2.perm p) (fun j hj => h3 j ((RT3.footL_perm p j).2 hj)) hs
            exact ⟨(h1.congr (fun _ => Iff.rfl) (fun j => (RT3.liveIdsL_perm p j).symm)).seq g1, g2, g3, g4⟩

theorem applyOps_inv (now : τ) (sid : Id) (hp : PoolOK w pool) (un mid : List (RT3 τ)) (G0 : List Id)
    (hGp : ∀ j, j ∈ Spec3.idsL pool → j ∈ G0) :
    ∀ (f : Nat) (ops : List Op) (c : Cyc3 τ) (eo : List (Ev τ)) (c1 : Cyc3 τ) (b : Option Exn2),
      applyOps pool now sid un f ops c = (eo, c1, b) →
      (∀ d ∈ mid, d.id ∈ pool.map Spec3.id → ∀ ids, Op.remove ids ∈ ops → d.id ∉ ids) →
      SInv w pool c.doers (c.pr ++ mid ++ liveUn c un) →
      (∀ j, j ∈ RT3.footL (c.pr ++ mid ++ liveUn c un) → j ∈ G0) → c1.starved = false →
      Tr w eo G0 (RT3.liveIdsL (c.pr ++ mid ++ liveUn c un)) (RT3.liveIdsL (c1.pr ++ mid ++ liveUn c1 un)) ∧
      SInv w pool c1.doers (c1.pr ++ mid ++ liveUn c1 un) ∧
      (∀ j, j ∈ RT3.footL (c1.pr ++ mid ++ liveUn c1 un) → j ∈ G0) ∧
      (∀ x, b = some x → x.aborts = false → w = true)
  | f, [], c, eo, c1, b, h, _, hI, hG, _ => by
      rw [applyOps_nil] at h
      simp only [Prod.mk.injEq] at h; obtain ⟨rfl, rfl, rfl⟩ := h
      exact ⟨Tr.noop (fun _ _ => rfl), hI, hG, by simp⟩
  | 0, _ :: _, c, eo, c1, b, h, _, _, _, hs => by
      simp only [applyOps, Prod.mk.injEq] at h
      rw [← h.2.1] at hs
      exact Bool.noConfusion hs
  | f+1, .extend ks :: ops, c, eo, c1, b, h, hself, hI, hG, hs => by
      simp only [applyOps] at h
      rcases hXL : extendList pool now f ks c with ⟨e, c', b1⟩
      rw [hXL] at h
      cases b1 with
      | some x =>
        dsimp only at h
        simp only [Prod.mk.injEq] at h; obtain ⟨rfl, rfl, rfl⟩ := h
        exact extendList_inv now hp un mid G0 hGp f ks c _ _ (some x) hXL hI hG hs
      | none =>
        dsimp only at h
        rcases hAO : applyOps pool now sid un f ops c' with ⟨e2, c2, b'⟩
        rw [hAO] at h
        simp only [Prod.mk.injEq] at h; obtain ⟨rfl, rfl, rfl⟩ := h
        have hm := (mono_all (τ := τ) f).2.2.2.2.2 pool now sid un ops c'
        rw [hAO] at hm
        obtain ⟨h1, h2, h3, _⟩ := extendList_inv now hp un mid G0 hGp f ks c _ _ none hXL hI hG (hm hs)
        obtain ⟨g1, g2, g3, g4⟩ := applyOps_inv now sid hp un mid G0 hGp f ops c' e2 c2 b' hAO
          (fun d hd hdp ids hin => hself d hd hdp ids (List.mem_cons_of_mem _ hin)) h2 h3 hs
        exact ⟨(h1.seq (Tr.noop (noop_one rfl))).seq g1, g2, g3, g4⟩
  | f+1, .remove ids :: ops, c, eo, c1, b, h, hself, hI, hG, hs => by
      simp only [applyOps] at h
      have hm0 := (mono_all (τ := τ) f).2.2.2.2.2 pool now sid un ops
      have hr := removeOp_inv (w := w) (pool := pool) now sid un f ids c mid G0 hI
        (fun d hd hdp => hself d hd hdp ids (List.mem_cons_self ..)) hG
      rcases hRM : removeOp pool now sid un f ids c with ⟨e, c'⟩
      rw [hRM] at h hr
      dsimp only at h hr
      rcases hAO : applyOps pool now sid un f ops c' with ⟨e2, c2, b'⟩
      rw [hAO] at h
      simp only [Prod.mk.injEq] at h; obtain ⟨rfl, rfl, rfl⟩ := h
      have hm := hm0 c'
      rw [hAO] at hm
      obtain ⟨h1, h2, h3⟩ := hr (hm hs)
      obtain ⟨g1, g2, g3, g4⟩ := applyOps_inv now sid hp un mid G0 hGp f ops c' e2 c2 b' hAO
        (fun d hd hdp ids' hin => hself d hd hdp ids' (List.mem_cons_of_mem _ hin)) h2
        (fun j hj => hG j (RT3.footL_sublist h3 j hj)) hs
      exact ⟨(h1.seq (Tr.noop (noop_one rfl))).seq g1, g2, g3, g4⟩

end ops

end Hio.Sched3
