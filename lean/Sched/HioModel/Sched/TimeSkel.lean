import HioModel.Gen.DoSkeleton
/-!
# C30 translator side: normalising `Doist.ado`'s statement skeleton to `Doist.do`'s

`Hio.Gen.doSkel` / `adoSkel` / `initTimer` are regenerated from `src/hio/base/doing.py` on every run
(item = token list, see `harness/extract/sched_skeleton.py`).  `normAdo` is the claimed difference of the two loops:

1. the local timer `atimer` plays the role of `self.timer` (token `atimer` ↦ `self . timer`);
2. `await asyncio.sleep(x)` plays the role of `time.sleep(x)`;
3. the branch `else: await asyncio.sleep(0.0)` (give the event loop a turn in non-real-time mode) is removed;
4. the construction `atimer = timing.AsyncTimer(..)` is removed (`do` uses the `MonoTimer` built in `__init__`;
   `ado_timer_is_init_timer` in `Props/C30.lean` checks that it is the same statement up to the class name).

`modelledTry` is the hand-written skeleton of the `try` statement that `doLoop` (Model.lean) and `adoLoop`
(TimeModel.lean) were written from: order `recur` · real-time wait · deeds-empty test · limit test, the three
handlers, `finally: exit()`.
-/
namespace Hio.Sched.Skel

abbrev Item := List String

/-- (1) `atimer` ↦ `self.timer` -/
def renameTimer (it : Item) : Item :=
  it.flatMap (fun t => if t = "atimer" then ["self", ".", "timer"] else [t])

/-- (2) `await asyncio.sleep(..)` ↦ `call time.sleep(..)` -/
def awaitToSleep : Item → Item
  | "await" :: "asyncio" :: "." :: "sleep" :: rest => "call" :: "time" :: "." :: "sleep" :: rest
  | it => it

def elseSleep0 : List Item := [["else"], ["{"], ["call", "time", ".", "sleep", "(", "0.0", ")"], ["}"]]

/-- (3) drop every occurrence of the block `else { time.sleep(0.0) }` -/
def dropElseSleep0 : List Item → List Item
  | [] => []
  | a :: rest =>
      match a :: rest with
      | ["else"] :: ["{"] :: ["call", "time", ".", "sleep", "(", "0.0", ")"] :: ["}"] :: rest' => dropElseSleep0Aux rest'
      | _ => a :: dropElseSleep0 rest
where
  /-- continue after a dropped block (kept separate so that the recursion is structural on the tail) -/
  dropElseSleep0Aux : List Item → List Item
    | [] => []
    | a :: rest => a :: dropElseSleep0Aux rest

def asyncTimerCtor : Item := ["assign", "self", ".", "timer", "=", "timing", ".", "AsyncTimer"]

/-- (4) drop the construction of the local timer -/
def dropTimerCtor (l : List Item) : List Item := l.filter (fun it => it ≠ asyncTimerCtor)

def normAdo (l : List Item) : List Item :=
  dropTimerCtor (dropElseSleep0 ((l.map renameTimer).map awaitToSleep))

/-- the items from the first `["try"]` on -/
def fromTry : List Item → List Item
  | [] => []
  | a :: rest => if a = ["try"] then a :: rest else fromTry rest

/-- what `doLoop` / `adoLoop` model: the `try` statement of `Doist.do` -/
def modelledTry : List Item := [
  ["try"], ["{"],
    ["call", "self", ".", "enter", "(", ")"],
    ["assign", "tymer", "=", "tyming", ".", "Tymer"],
    ["call", "self", ".", "timer", ".", "start", "(", ")"],
    ["while", "True"], ["{"],
      ["try"], ["{"],
        ["call", "self", ".", "recur", "(", ")"],
        ["if", "self", ".", "real"], ["{"],
          ["while", "not", "self", ".", "timer", ".", "expired"], ["{"],
            ["call", "time", ".", "sleep", "(", "max", "(", "0.0", ",", "self", ".", "timer", ".", "remaining", ")", ")"],
          ["}"],
          ["call", "self", ".", "timer", ".", "restart", "(", ")"],
        ["}"],
        ["if", "not", "self", ".", "deeds"], ["{"],
          ["assign", "self", ".", "done", "=", "True"],
          ["break"],
        ["}"],
        ["if", "self", ".", "limit", "is", "not", "None", "and", "tymer", ".", "expired"], ["{"],
          ["break"],
        ["}"],
      ["}"],
      ["except", "KeyboardInterrupt"], ["{"], ["break"], ["}"],
      ["except", "SystemExit"], ["{"], ["raise"], ["}"],
      ["except", "Exception"], ["{"], ["raise"], ["}"],
    ["}"],
  ["}"],
  ["finally"], ["{"],
    ["call", "self", ".", "exit", "(", ")"],
  ["}"]]

/-- where ado's extra await sits: directly after the real-time block that follows `recur()`, before the deeds-empty test -/
def awaitContext : List Item := [
  ["call", "self", ".", "timer", ".", "restart", "(", ")"], ["}"],
  ["else"], ["{"], ["call", "time", ".", "sleep", "(", "0.0", ")"], ["}"],
  ["if", "not", "self", ".", "deeds"]]

def isInfixB : List Item → List Item → Bool
  | pat, [] => pat.isEmpty
  | pat, a :: rest => pat.isPrefixOf (a :: rest) || isInfixB pat rest

end Hio.Sched.Skel
