import HioModel.Sched.Defs
import HioModel.Sched.Model3
/-!
# C02 on the third-generation model `Hio.Sched3` (`Model3.lean`): forced exit before `do()` returns

Pure counting, no id-distinctness hypothesis.  For every model function
`#enter i (events) + #i (live ids of the inputs) = #exit i (events) + #i (live ids of the outputs)`
PROVIDED the output is not starved (and then the input and every intermediate state is not starved either).
The eight mutually recursive close / enter / op functions are handled by one induction on their fuel
(`block`: predicates `PcloseRT … PapplyOps`, a `_zero` and a `_succ` lemma each), then `resumeGroup`/`runCycle`
(mutual structural), `doLoop`, `doistDo`.  `exitEnd ≤ exit` (`le_block`, `*_le`) needs no starvation hypothesis.
Helpers live in `Hio.Sched3.C02`; the theorems `forced_exit_before_return3`, `group_exit_balanced3(_all)` in `Hio.Sched3`.
-/
namespace Hio.Sched3.C02
open Hio.Sched (Id Kind Ev ev Op flagEvs countK nextDue)
open Hio.Sched2 (Exn2 Out2 Step2 EnterAct2 abortEvs loopRaises)
variable {τ : Type}
set_option linter.unusedSimpArgs false

mutual
def liveIds : RT3 τ → List Id
  | .leaf i _ _ _ _ _ => [i]
  | .group i _ _ _ _ _ deeds _ => i :: liveIdsL deeds
def liveIdsL : List (RT3 τ) → List Id
  | [] => []
  | d :: ds => liveIds d ++ liveIdsL ds
end

theorem countK_append (k : Kind) (i : Id) (a b : List (Ev τ)) :
    countK k i (a ++ b) = countK k i a + countK k i b := by
  simp [countK]

theorem countK_nil (k : Kind) (i : Id) : countK k i ([] : List (Ev τ)) = 0 := rfl

theorem countK_cons (k : Kind) (j : Id) (i : Id) (k' : Kind) (t : τ) (l : List (Ev τ)) :
    countK k j (ev i k' t :: l) = (if i = j ∧ k' = k then 1 else 0) + countK k j l := by
  simp only [countK, ev, List.filter_cons]
  by_cases h : i = j ∧ k' = k
  · obtain ⟨rfl, rfl⟩ := h; simp; omega
  · rw [if_neg h]
    have : ((i == j) && (k' == k)) = false := by
      simp; intro h1; exact fun h2 => h ⟨h1, h2⟩
    simp [this]

theorem liveIdsL_append : ∀ (a b : List (RT3 τ)), liveIdsL (a ++ b) = liveIdsL a ++ liveIdsL b
  | [], b => by simp [liveIdsL]
  | d :: a, b => by simp [liveIdsL, liveIdsL_append a b]

theorem abortEvs_count (k : Kind) (hk : k ≠ .abort) (i : Id) (x : Exn2) (now : τ) (j : Id) :
    countK k j (abortEvs i x now) = 0 := by
  unfold abortEvs
  split
  · simp [countK_cons, countK_nil]
    intro _ h; exact hk h.symm
  · rfl

theorem flagEvs_count (k : Kind) (hk : ∀ b, k ≠ .flag b) (i : Id) (v : Option Bool) (now : τ) (j : Id) :
    countK k j (flagEvs i v now) = 0 := by
  cases v <;> simp [flagEvs, countK_cons, countK_nil]
  intro _ h; exact hk _ h.symm

theorem liveIdsL_filter_count (j : Id) (p : RT3 τ → Bool) : ∀ ds : List (RT3 τ),
    (liveIdsL (ds.filter p)).count j + (liveIdsL (ds.filter (fun d => !p d))).count j
      = (liveIdsL ds).count j
  | [] => by simp [liveIdsL]
  | d :: ds => by
      have := liveIdsL_filter_count j p ds
      cases h : p d <;> simp [List.filter_cons, h, liveIdsL] <;> omega

theorem liveIdsL_dropLast (j : Id) (l : List (RT3 τ)) (d : RT3 τ) (h : l.getLast? = some d) :
    (liveIdsL l).count j = (liveIdsL l.dropLast).count j + (liveIds d).count j := by
  obtain ⟨ys, rfl⟩ := List.getLast?_eq_some_iff.mp h
  simp [liveIdsL_append, liveIdsL]

@[simp] theorem starve_starved (c : Cyc3 τ) : c.starve.starved = true := rfl

/-! predicates -/
def PcloseRT (τ : Type) (j : Id) (f : Nat) : Prop :=
  ∀ (pool : List (Spec3 τ)) (now : τ) (sid : Id) (un : List (RT3 τ)) (d : RT3 τ) (c : Cyc3 τ),
    (closeRT pool now sid un f d c).2.starved = false →
      c.starved = false ∧
      countK .enter j (closeRT pool now sid un f d c).1 + (liveIds d).count j + (liveIdsL (c.pr ++ liveUn c un)).count j
        = countK .exit j (closeRT pool now sid un f d c).1
          + (liveIdsL ((closeRT pool now sid un f d c).2.pr ++ liveUn (closeRT pool now sid un f d c).2 un)).count j

def PcloseLoop (τ : Type) (j : Id) (f : Nat) : Prop :=
  ∀ (pool : List (Spec3 τ)) (now : τ) (sid : Id) (c : Cyc3 τ),
    (closeLoop pool now sid f c).2.starved = false →
      c.starved = false ∧
      countK .enter j (closeLoop pool now sid f c).1 + (liveIdsL c.pr).count j
        = countK .exit j (closeLoop pool now sid f c).1

def PcloseList (τ : Type) (j : Id) (f : Nat) : Prop :=
  ∀ (pool : List (Spec3 τ)) (now : τ) (sid : Id) (un : List (RT3 τ)) (l : List (RT3 τ)) (c : Cyc3 τ),
    (closeList pool now sid un f l c).2.starved = false →
      c.starved = false ∧
      countK .enter j (closeList pool now sid un f l c).1 + (liveIdsL l).count j + (liveIdsL (c.pr ++ liveUn c un)).count j
        = countK .exit j (closeList pool now sid un f l c).1
          + (liveIdsL ((closeList pool now sid un f l c).2.pr ++ liveUn (closeList pool now sid un f l c).2 un)).count j

def PenterSpec (τ : Type) (j : Id) (f : Nat) : Prop :=
  ∀ (now : τ) (s : Spec3 τ),
    ((enterSpec now f s).2.2.1.isSome = true → (enterSpec now f s).2.1 = none) ∧
    ((enterSpec now f s).2.2.2 = false →
      countK .enter j (enterSpec now f s).1
        = countK .exit j (enterSpec now f s).1 + (liveIdsL (enterSpec now f s).2.1.toList).count j)

def PenterList (τ : Type) (j : Id) (f : Nat) : Prop :=
  ∀ (now : τ) (ss : List (Spec3 τ)),
    (enterList now f ss).2.2.2 = false →
      countK .enter j (enterList now f ss).1
        = countK .exit j (enterList now f ss).1 + (liveIdsL (enterList now f ss).2.1).count j

def PextendList (τ : Type) (j : Id) (f : Nat) : Prop :=
  ∀ (pool : List (Spec3 τ)) (now : τ) (ks : List Nat) (c : Cyc3 τ),
    (extendList pool now f ks c).2.1.gone = c.gone ∧
    ((extendList pool now f ks c).2.1.starved = false →
      c.starved = false ∧
      countK .enter j (extendList pool now f ks c).1 + (liveIdsL c.pr).count j
        = countK .exit j (extendList pool now f ks c).1 + (liveIdsL (extendList pool now f ks c).2.1.pr).count j)

def PremoveOp (τ : Type) (j : Id) (f : Nat) : Prop :=
  ∀ (pool : List (Spec3 τ)) (now : τ) (sid : Id) (un : List (RT3 τ)) (ids : List Id) (c : Cyc3 τ),
    (removeOp pool now sid un f ids c).2.starved = false →
      c.starved = false ∧
      countK .enter j (removeOp pool now sid un f ids c).1 + (liveIdsL (c.pr ++ liveUn c un)).count j
        = countK .exit j (removeOp pool now sid un f ids c).1
          + (liveIdsL ((removeOp pool now sid un f ids c).2.pr ++ liveUn (removeOp pool now sid un f ids c).2 un)).count j

def PapplyOps (τ : Type) (j : Id) (f : Nat) : Prop :=
  ∀ (pool : List (Spec3 τ)) (now : τ) (sid : Id) (un : List (RT3 τ)) (ops : List Op) (c : Cyc3 τ),
    (applyOps pool now sid un f ops c).2.1.starved = false →
      c.starved = false ∧
      countK .enter j (applyOps pool now sid un f ops c).1 + (liveIdsL (c.pr ++ liveUn c un)).count j
        = countK .exit j (applyOps pool now sid un f ops c).1
          + (liveIdsL ((applyOps pool now sid un f ops c).2.1.pr ++ liveUn (applyOps pool now sid un f ops c).2.1 un)).count j

/-! fuel 0 -/
theorem closeRT_zero (j : Id) : PcloseRT τ j 0 := by
  intro pool now sid un d c h
  simp [closeRT] at h

theorem closeLoop_zero (j : Id) : PcloseLoop τ j 0 := by
  intro pool now sid c h
  unfold closeLoop at h ⊢
  split at h
  · rename_i hp
    have hpr : c.pr = [] := by simpa using hp
    simp [hp, hpr, liveIdsL, countK_nil] at h ⊢
    exact h
  · simp at h


theorem closeList_zero (j : Id) : PcloseList τ j 0 := by
  intro pool now sid un l c h
  simp only [closeList] at h ⊢
  split at h
  · rename_i hp
    have hl : l = [] := by simpa using hp
    subst hl
    simp [liveIdsL, countK_nil] at h ⊢
    exact h
  · simp at h

theorem enterSpec_zero (j : Id) : PenterSpec τ j 0 := by
  intro now s
  simp [enterSpec, countK_nil, liveIdsL]

theorem enterList_zero (j : Id) : PenterList τ j 0 := by
  intro now ss
  cases ss <;> simp [enterList, countK_nil, liveIdsL]

theorem extendList_zero (j : Id) : PextendList τ j 0 := by
  intro pool now ks c
  cases ks <;> simp [extendList, countK_nil, Cyc3.starve]

theorem removeOp_zero (j : Id) : PremoveOp τ j 0 := by
  intro pool now sid un ids c h
  simp [removeOp] at h

theorem applyOps_zero (j : Id) : PapplyOps τ j 0 := by
  intro pool now sid un ops c h
  cases ops with
  | nil => simp [applyOps, countK_nil] at h ⊢; exact h
  | cons o ops => simp [applyOps] at h

/-! successor steps -/
theorem closeRT_succ (j : Id) (f : Nat) (hA : PapplyOps τ j f) (hL : PcloseLoop τ j f) : PcloseRT τ j (f+1) := by
  intro pool now sid un d c h
  cases d with
  | leaf i r steps clf co eo =>
      have h1 := hA pool now sid un co c
      simp only [closeRT] at h ⊢
      generalize applyOps pool now sid un f co c = A1 at h h1 ⊢
      obtain ⟨e1, c1, x1⟩ := A1
      dsimp only at h h1 ⊢
      have h2 := hA pool now sid un eo c1
      generalize applyOps pool now sid un f eo c1 = A2 at h h2 ⊢
      obtain ⟨e2, c2, x2⟩ := A2
      dsimp only at h h2 ⊢
      obtain ⟨h2a, h2b⟩ := h2 h
      obtain ⟨h1a, h1b⟩ := h1 h2a
      refine ⟨h1a, ?_⟩
      simp [countK_append, countK_cons, countK_nil, liveIds, List.count_cons, liveIdsL_append] at h1b h2b ⊢
      omega
  | group i r tock always gpool doers deeds clf =>
      have h1 := hL gpool now i { pr := deeds, doers := doers }
      simp only [closeRT] at h ⊢
      generalize closeLoop gpool now i f { pr := deeds, doers := doers } = G at h h1 ⊢
      obtain ⟨e, g⟩ := G
      dsimp only at h h1 ⊢
      simp only [Bool.or_eq_false_iff] at h
      obtain ⟨_, h1b⟩ := h1 h.2
      refine ⟨h.1, ?_⟩
      simp [countK_append, countK_cons, countK_nil, liveIds, List.count_cons, liveUn, liveIdsL_append] at h1b ⊢
      omega

theorem closeLoop_succ (j : Id) (f : Nat) (hR : PcloseRT τ j f) (hL : PcloseLoop τ j f) : PcloseLoop τ j (f+1) := by
  intro pool now sid c h
  simp only [closeLoop] at h ⊢
  cases hg : c.pr.getLast? with
  | none =>
      simp only [hg] at h ⊢
      have hpr : c.pr = [] := by simpa using hg
      simp [hpr, liveIdsL, countK_nil, h]
  | some d =>
      simp only [hg] at h ⊢
      have h1 := hR pool now sid [] d { c with pr := c.pr.dropLast }
      generalize closeRT pool now sid [] f d { c with pr := c.pr.dropLast } = R at h h1 ⊢
      obtain ⟨e, c1⟩ := R
      dsimp only at h h1 ⊢
      have h2 := hL pool now sid c1
      generalize closeLoop pool now sid f c1 = R2 at h h2 ⊢
      obtain ⟨e2, c2⟩ := R2
      dsimp only at h h2 ⊢
      obtain ⟨h2a, h2b⟩ := h2 h
      obtain ⟨h1a, h1b⟩ := h1 h2a
      have hd := liveIdsL_dropLast j c.pr d hg
      refine ⟨h1a, ?_⟩
      simp [countK_append, liveIdsL_append, liveUn, liveIdsL] at h1b h2b ⊢
      omega

theorem closeList_succ (j : Id) (f : Nat) (hR : PcloseRT τ j f) (hLi : PcloseList τ j f) : PcloseList τ j (f+1) := by
  intro pool now sid un l c h
  simp only [closeList] at h ⊢
  cases hg : l.getLast? with
  | none =>
      simp only [hg] at h ⊢
      have hl : l = [] := by simpa using hg
      simp [hl, liveIdsL, countK_nil, h]
  | some d =>
      simp only [hg] at h ⊢
      have h1 := hR pool now sid un d c
      generalize closeRT pool now sid un f d c = R at h h1 ⊢
      obtain ⟨e, c1⟩ := R
      dsimp only at h h1 ⊢
      have h2 := hLi pool now sid un l.dropLast c1
      generalize closeList pool now sid un f l.dropLast c1 = R2 at h h2 ⊢
      obtain ⟨e2, c2⟩ := R2
      dsimp only at h h2 ⊢
      obtain ⟨h2a, h2b⟩ := h2 h
      obtain ⟨h1a, h1b⟩ := h1 h2a
      have hd := liveIdsL_dropLast j l d hg
      refine ⟨h1a, ?_⟩
      simp [countK_append, liveIdsL_append] at h1b h2b hd ⊢
      omega

theorem enterSpec_succ (j : Id) (f : Nat) (hE : PenterList τ j f) (hL : PcloseLoop τ j f) : PenterSpec τ j (f+1) := by
  intro now s
  cases s with
  | leaf i act steps cf co eo =>
      cases act with
      | ok => simp [enterSpec, liveIdsL, liveIds, countK_cons, countK_nil, List.count_cons]
      | fail x => simp [enterSpec, liveIdsL, countK_cons, countK_nil, countK_append, abortEvs_count]
      | done v => cases cf <;> simp [enterSpec, liveIdsL, countK_cons, countK_nil, countK_append, flagEvs_count]
  | group i tock always kids pool cf =>
      have h1 := hE now kids
      simp only [enterSpec]
      generalize enterList now f kids = R at h1 ⊢
      obtain ⟨es, deeds, x, sv⟩ := R
      cases x with
      | some x =>
          dsimp only at h1 ⊢
          have h2 := hL pool now i { pr := deeds, doers := kids.map Spec3.id }
          generalize closeLoop pool now i f { pr := deeds, doers := kids.map Spec3.id } = G at h2 ⊢
          obtain ⟨ec, g⟩ := G
          dsimp only at h2 ⊢
          refine ⟨fun _ => rfl, fun h => ?_⟩
          simp only [Bool.or_eq_false_iff] at h
          have h1b := h1 h.1
          obtain ⟨_, h2b⟩ := h2 h.2
          simp [countK_append, countK_cons, countK_nil, abortEvs_count, liveIdsL] at h1b h2b ⊢
          omega
      | none =>
          dsimp only at h1 ⊢
          refine ⟨fun h => by simp at h, fun h => ?_⟩
          have h1b := h1 h
          simp [countK_append, countK_cons, countK_nil, liveIdsL, liveIds, List.count_cons] at h1b ⊢
          omega

theorem enterList_succ (j : Id) (f : Nat) (hS : PenterSpec τ j f) (hE : PenterList τ j f) : PenterList τ j (f+1) := by
  intro now ss h
  cases ss with
  | nil => simp [enterList, countK_nil, liveIdsL]
  | cons s ss =>
      obtain ⟨h0, h1⟩ := hS now s
      have h2 := hE now ss
      simp only [enterList] at h ⊢
      generalize enterSpec now f s = R at h h0 h1 ⊢
      obtain ⟨e, r, x, sv⟩ := R
      cases x with
      | some x =>
          dsimp only at h h0 h1 ⊢
          have hr := h0 rfl
          subst hr
          have := h1 h
          simp [liveIdsL] at this ⊢
          omega
      | none =>
          dsimp only at h h0 h1 ⊢
          generalize enterList now f ss = R2 at h h2 ⊢
          obtain ⟨e2, rs, b, sv2⟩ := R2
          dsimp only at h h2 ⊢
          simp only [Bool.or_eq_false_iff] at h
          have a := h1 h.1
          have b' := h2 h.2
          simp [countK_append, liveIdsL_append] at a b' ⊢
          omega


theorem extendList_succ (j : Id) (f : Nat) (hS : PenterSpec τ j f) (hX : PextendList τ j f) : PextendList τ j (f+1) := by
  intro pool now ks c
  cases ks with
  | nil => simp [extendList, countK_nil]
  | cons k ks =>
      simp only [extendList]
      split
      · exact hX pool now ks c
      · rename_i s _
        split
        · exact hX pool now ks c
        · obtain ⟨h0, h1⟩ := hS now s
          generalize enterSpec now f s = R at h0 h1 ⊢
          obtain ⟨e, r, x, sv⟩ := R
          cases x with
          | some x =>
              dsimp only at h0 h1 ⊢
              refine ⟨rfl, fun h => ?_⟩
              simp only [Bool.or_eq_false_iff] at h
              have hr := h0 rfl
              subst hr
              have := h1 h.2
              refine ⟨h.1, ?_⟩
              simp [liveIdsL] at this ⊢
              omega
          | none =>
              dsimp only at h0 h1 ⊢
              have h2 := hX pool now ks
                { c with pr := c.pr ++ r.toList, doers := c.doers ++ [s.id], starved := c.starved || sv }
              generalize extendList pool now f ks
                { c with pr := c.pr ++ r.toList, doers := c.doers ++ [s.id], starved := c.starved || sv } = R2 at h2 ⊢
              obtain ⟨e2, c2, b⟩ := R2
              dsimp only at h2 ⊢
              refine ⟨h2.1, fun h => ?_⟩
              obtain ⟨h2a, h2b⟩ := h2.2 h
              simp only [Bool.or_eq_false_iff] at h2a
              have := h1 h2a.2
              refine ⟨h2a.1, ?_⟩
              simp [countK_append, liveIdsL_append] at this h2b ⊢
              omega

theorem liveUn_remove (rids : List Id) (c : Cyc3 τ) (un p : List (RT3 τ)) (ds : List Id) (s : Bool) :
    liveUn { pr := p, doers := ds,
             gone := c.gone ++ ((liveUn c un).filter (fun d => rids.contains d.id)).map RT3.id, starved := s } un
      = (liveUn c un).filter (fun d => !rids.contains d.id) := by
  simp only [liveUn, List.filter_filter]
  apply List.filter_congr
  intro d hd
  by_cases hg : d.id ∈ c.gone
  · simp [hg]
  · rw [Bool.eq_iff_iff]
    simp [hg]
    constructor
    · intro h hr
      exact h d hd hr hg rfl
    · intro h x _ hx _ he
      rw [he] at hx
      exact h hx

theorem PcloseList.eqn {j : Id} {f : Nat} (hp : PcloseList τ j f) {pool : List (Spec3 τ)} {now : τ} {sid : Id}
    {un l : List (RT3 τ)} {c : Cyc3 τ} {es : List (Ev τ)} {c' : Cyc3 τ}
    (h : closeList pool now sid un f l c = (es, c')) (hs : c'.starved = false) :
    c.starved = false ∧
      countK .enter j es + (liveIdsL l).count j + (liveIdsL (c.pr ++ liveUn c un)).count j
        = countK .exit j es + (liveIdsL (c'.pr ++ liveUn c' un)).count j := by
  have := hp pool now sid un l c
  rw [h] at this
  exact this hs

theorem removeOp_succ (j : Id) (f : Nat) (hLi : PcloseList τ j f) : PremoveOp τ j (f+1) := by
  intro pool now sid un ids c h
  simp only [removeOp] at h ⊢
  generalize hR : closeList pool now sid un f _ _ = R at h ⊢
  obtain ⟨e, c1⟩ := R
  dsimp only at h ⊢
  obtain ⟨h1a, h1b⟩ := hLi.eqn hR h
  dsimp only at h1a
  refine ⟨h1a, ?_⟩
  rw [liveUn_remove] at h1b
  have f1 := liveIdsL_filter_count j (fun d => (ids.filter (fun i => c.doers.contains i)).contains d.id) c.pr
  have f2 := liveIdsL_filter_count j (fun d => (ids.filter (fun i => c.doers.contains i)).contains d.id) (liveUn c un)
  simp [countK_cons, countK_nil, countK_append, liveIdsL_append] at f1 f2 h1b ⊢
  omega

theorem applyOps_succ (j : Id) (f : Nat) (hX : PextendList τ j f) (hRm : PremoveOp τ j f) (hA : PapplyOps τ j f) :
    PapplyOps τ j (f+1) := by
  intro pool now sid un ops c h
  cases ops with
  | nil => simp [applyOps, countK_nil] at h ⊢; exact h
  | cons o ops =>
    cases o with
    | extend ks =>
        obtain ⟨hg, h1⟩ := hX pool now ks c
        simp only [applyOps] at h ⊢
        generalize extendList pool now f ks c = R at h hg h1 ⊢
        obtain ⟨e, c1, x⟩ := R
        cases x with
        | some x =>
            dsimp only at h hg h1 ⊢
            obtain ⟨h1a, h1b⟩ := h1 h
            refine ⟨h1a, ?_⟩
            have hl : liveUn c1 un = liveUn c un := by simp only [liveUn, hg]
            simp [liveIdsL_append, hl] at h1b ⊢
            omega
        | none =>
            dsimp only at h hg h1 ⊢
            have h2 := hA pool now sid un ops c1
            generalize applyOps pool now sid un f ops c1 = R2 at h h2 ⊢
            obtain ⟨e2, c2, b⟩ := R2
            dsimp only at h h2 ⊢
            obtain ⟨h2a, h2b⟩ := h2 h
            obtain ⟨h1a, h1b⟩ := h1 h2a
            refine ⟨h1a, ?_⟩
            have hl : liveUn c1 un = liveUn c un := by simp only [liveUn, hg]
            simp [liveIdsL_append, hl, countK_append, countK_cons, countK_nil] at h1b h2b ⊢
            omega
    | remove ids =>
        have h1 := hRm pool now sid un ids c
        simp only [applyOps] at h ⊢
        generalize removeOp pool now sid un f ids c = R at h h1 ⊢
        obtain ⟨e, c1⟩ := R
        dsimp only at h h1 ⊢
        have h2 := hA pool now sid un ops c1
        generalize applyOps pool now sid un f ops c1 = R2 at h h2 ⊢
        obtain ⟨e2, c2, b⟩ := R2
        dsimp only at h h2 ⊢
        obtain ⟨h2a, h2b⟩ := h2 h
        obtain ⟨h1a, h1b⟩ := h1 h2a
        refine ⟨h1a, ?_⟩
        simp [liveIdsL_append, countK_append, countK_cons, countK_nil] at h1b h2b ⊢
        omega

theorem block (j : Id) : ∀ f : Nat,
    PcloseRT τ j f ∧ PcloseLoop τ j f ∧ PcloseList τ j f ∧ PenterSpec τ j f ∧ PenterList τ j f ∧
      PextendList τ j f ∧ PremoveOp τ j f ∧ PapplyOps τ j f
  | 0 => ⟨closeRT_zero j, closeLoop_zero j, closeList_zero j, enterSpec_zero j, enterList_zero j,
          extendList_zero j, removeOp_zero j, applyOps_zero j⟩
  | f+1 => by
      obtain ⟨h1, h2, h3, h4, h5, h6, h7, h8⟩ := block j f
      exact ⟨closeRT_succ j f h8 h2, closeLoop_succ j f h1 h2, closeList_succ j f h1 h3,
        enterSpec_succ j f h5 h2, enterList_succ j f h4 h5, extendList_succ j f h4 h6,
        removeOp_succ j f h3, applyOps_succ j f h6 h7 h8⟩


/-! ### `exitEnd` never outnumbers `exit` (unconditional: no starvation hypothesis needed) -/
def LE8 (τ : Type) (j : Id) (f : Nat) : Prop :=
  (∀ (pool : List (Spec3 τ)) (now : τ) (sid : Id) (un : List (RT3 τ)) (d : RT3 τ) (c : Cyc3 τ),
    countK .exitEnd j (closeRT pool now sid un f d c).1 ≤ countK .exit j (closeRT pool now sid un f d c).1) ∧
  (∀ (pool : List (Spec3 τ)) (now : τ) (sid : Id) (c : Cyc3 τ),
    countK .exitEnd j (closeLoop pool now sid f c).1 ≤ countK .exit j (closeLoop pool now sid f c).1) ∧
  (∀ (pool : List (Spec3 τ)) (now : τ) (sid : Id) (un : List (RT3 τ)) (l : List (RT3 τ)) (c : Cyc3 τ),
    countK .exitEnd j (closeList pool now sid un f l c).1 ≤ countK .exit j (closeList pool now sid un f l c).1) ∧
  (∀ (now : τ) (s : Spec3 τ),
    countK .exitEnd j (enterSpec now f s).1 ≤ countK .exit j (enterSpec now f s).1) ∧
  (∀ (now : τ) (ss : List (Spec3 τ)),
    countK .exitEnd j (enterList now f ss).1 ≤ countK .exit j (enterList now f ss).1) ∧
  (∀ (pool : List (Spec3 τ)) (now : τ) (ks : List Nat) (c : Cyc3 τ),
    countK .exitEnd j (extendList pool now f ks c).1 ≤ countK .exit j (extendList pool now f ks c).1) ∧
  (∀ (pool : List (Spec3 τ)) (now : τ) (sid : Id) (un : List (RT3 τ)) (ids : List Id) (c : Cyc3 τ),
    countK .exitEnd j (removeOp pool now sid un f ids c).1 ≤ countK .exit j (removeOp pool now sid un f ids c).1) ∧
  (∀ (pool : List (Spec3 τ)) (now : τ) (sid : Id) (un : List (RT3 τ)) (ops : List Op) (c : Cyc3 τ),
    countK .exitEnd j (applyOps pool now sid un f ops c).1 ≤ countK .exit j (applyOps pool now sid un f ops c).1)

theorem le_block (j : Id) : ∀ f : Nat, LE8 τ j f
  | 0 => by
      refine ⟨?_, ?_, ?_, ?_, ?_, ?_, ?_, ?_⟩
      · intros; simp [closeRT, countK_nil]
      · intros; simp [closeLoop, countK_nil]
      · intros; simp [closeList, countK_nil]
      · intros; simp [enterSpec, countK_nil]
      · intro now ss; cases ss <;> simp [enterList, countK_nil]
      · intro pool now ks c; cases ks <;> simp [extendList, countK_nil]
      · intros; simp [removeOp, countK_nil]
      · intro pool now sid un ops c; cases ops <;> simp [applyOps, countK_nil]
  | f+1 => by
      obtain ⟨hR, hL, hLi, hS, hE, hX, hRm, hA⟩ := le_block j f
      refine ⟨?_, ?_, ?_, ?_, ?_, ?_, ?_, ?_⟩
      · intro pool now sid un d c
        cases d with
        | leaf i r steps clf co eo =>
            have h1 := hA pool now sid un co c
            simp only [closeRT]
            generalize applyOps pool now sid un f co c = A1 at h1 ⊢
            obtain ⟨e1, c1, x1⟩ := A1
            have h2 := hA pool now sid un eo c1
            generalize applyOps pool now sid un f eo c1 = A2 at h2 ⊢
            obtain ⟨e2, c2, x2⟩ := A2
            simp [countK_append, countK_cons, countK_nil] at h1 h2 ⊢
            omega
        | group i r tock always gpool doers deeds clf =>
            have h1 := hL gpool now i { pr := deeds, doers := doers }
            simp only [closeRT]
            generalize closeLoop gpool now i f { pr := deeds, doers := doers } = G at h1 ⊢
            obtain ⟨e, g⟩ := G
            simp [countK_append, countK_cons, countK_nil] at h1 ⊢
            omega
      · intro pool now sid c
        simp only [closeLoop]
        cases c.pr.getLast? with
        | none => simp [countK_nil]
        | some d =>
            dsimp only
            have h1 := hR pool now sid [] d { c with pr := c.pr.dropLast }
            generalize closeRT pool now sid [] f d { c with pr := c.pr.dropLast } = R at h1 ⊢
            obtain ⟨e, c1⟩ := R
            have h2 := hL pool now sid c1
            generalize closeLoop pool now sid f c1 = R2 at h2 ⊢
            obtain ⟨e2, c2⟩ := R2
            simp [countK_append] at h1 h2 ⊢
            omega
      · intro pool now sid un l c
        simp only [closeList]
        cases l.getLast? with
        | none => simp [countK_nil]
        | some d =>
            dsimp only
            have h1 := hR pool now sid un d c
            generalize closeRT pool now sid un f d c = R at h1 ⊢
            obtain ⟨e, c1⟩ := R
            have h2 := hLi pool now sid un l.dropLast c1
            generalize closeList pool now sid un f l.dropLast c1 = R2 at h2 ⊢
            obtain ⟨e2, c2⟩ := R2
            simp [countK_append] at h1 h2 ⊢
            omega
      · intro now s
        cases s with
        | leaf i act steps cf co eo =>
            cases act with
            | ok => simp [enterSpec, countK_cons, countK_nil]
            | fail x => simp [enterSpec, countK_cons, countK_nil, countK_append, abortEvs_count]
            | done v => cases cf <;> simp [enterSpec, countK_cons, countK_nil, countK_append, flagEvs_count]
        | group i tock always kids pool cf =>
            have h1 := hE now kids
            simp only [enterSpec]
            generalize enterList now f kids = R at h1 ⊢
            obtain ⟨es, deeds, x, sv⟩ := R
            cases x with
            | some x =>
                dsimp only at h1 ⊢
                have h2 := hL pool now i { pr := deeds, doers := kids.map Spec3.id }
                generalize closeLoop pool now i f { pr := deeds, doers := kids.map Spec3.id } = G at h2 ⊢
                obtain ⟨ec, g⟩ := G
                simp [countK_append, countK_cons, countK_nil, abortEvs_count] at h1 h2 ⊢
                omega
            | none =>
                simp [countK_append, countK_cons, countK_nil] at h1 ⊢
                omega
      · intro now ss
        cases ss with
        | nil => simp [enterList, countK_nil]
        | cons s ss =>
            have h1 := hS now s
            have h2 := hE now ss
            simp only [enterList]
            generalize enterSpec now f s = R at h1 ⊢
            obtain ⟨e, r, x, sv⟩ := R
            generalize enterList now f ss = R2 at h2 ⊢
            obtain ⟨e2, rs, b, sv2⟩ := R2
            cases x <;> simp [countK_append] at h1 h2 ⊢ <;> omega
      · intro pool now ks c
        cases ks with
        | nil => simp [extendList, countK_nil]
        | cons k ks =>
            simp only [extendList]
            split
            · exact hX pool now ks c
            · rename_i s _
              split
              · exact hX pool now ks c
              · have h1 := hS now s
                generalize enterSpec now f s = R at h1 ⊢
                obtain ⟨e, r, x, sv⟩ := R
                cases x with
                | some x => exact h1
                | none =>
                    dsimp only at h1 ⊢
                    have h2 := hX pool now ks
                      { c with pr := c.pr ++ r.toList, doers := c.doers ++ [s.id], starved := c.starved || sv }
                    generalize extendList pool now f ks _ = R2 at h2 ⊢
                    obtain ⟨e2, c2, b⟩ := R2
                    simp [countK_append] at h1 h2 ⊢
                    omega
      · intro pool now sid un ids c
        simp only [removeOp]
        generalize hR' : closeList pool now sid un f _ _ = R
        have h1 : countK .exitEnd j R.1 ≤ countK .exit j R.1 := by
          rw [← hR']; exact hLi _ _ _ _ _ _
        obtain ⟨e, c1⟩ := R
        simp [countK_append, countK_cons, countK_nil] at h1 ⊢
        omega
      · intro pool now sid un ops c
        cases ops with
        | nil => simp [applyOps, countK_nil]
        | cons o ops =>
          cases o with
          | extend ks =>
              have h1 := hX pool now ks c
              simp only [applyOps]
              generalize extendList pool now f ks c = R at h1 ⊢
              obtain ⟨e, c1, x⟩ := R
              cases x with
              | some x => exact h1
              | none =>
                  dsimp only at h1 ⊢
                  have h2 := hA pool now sid un ops c1
                  generalize applyOps pool now sid un f ops c1 = R2 at h2 ⊢
                  obtain ⟨e2, c2, b⟩ := R2
                  simp [countK_append, countK_cons, countK_nil] at h1 h2 ⊢
                  omega
          | remove ids =>
              have h1 := hRm pool now sid un ids c
              simp only [applyOps]
              generalize removeOp pool now sid un f ids c = R at h1 ⊢
              obtain ⟨e, c1⟩ := R
              dsimp only at h1 ⊢
              have h2 := hA pool now sid un ops c1
              generalize applyOps pool now sid un f ops c1 = R2 at h2 ⊢
              obtain ⟨e2, c2, b⟩ := R2
              simp [countK_append, countK_cons, countK_nil] at h1 h2 ⊢
              omega

theorem stopEvs_le (cf : Nat) (pool : List (Spec3 τ)) (now : τ) (ds : List (RT3 τ)) (doers : List Id) (j : Id) :
    countK .exitEnd j (stopEvs cf pool now ds doers) ≤ countK .exit j (stopEvs cf pool now ds doers) := by
  have h := (le_block (τ := τ) j cf).2.1 pool now 0 { pr := ds, doers := doers }
  unfold stopEvs
  simp [countK_append, countK_cons, countK_nil] at h ⊢
  omega

/-! ### cycles (fixed close fuel `cf`) -/
def resLive : Res3 τ → List Id
  | .yielded rt _ => liveIds rt
  | _ => []

theorem liveIds_setRetyme (r : τ) : ∀ rt : RT3 τ, liveIds (rt.setRetyme r) = liveIds rt
  | .leaf .. => by simp [RT3.setRetyme, liveIds]
  | .group .. => by simp [RT3.setRetyme, liveIds]

theorem liveUn_nil_gone (doers : List Id) (pr un : List (RT3 τ)) (s : Bool) :
    liveUn { pr := pr, doers := doers, gone := [], starved := s } un = un := by
  simp [liveUn]

theorem liveUn_cons (c : Cyc3 τ) (d : RT3 τ) (un : List (RT3 τ)) :
    liveUn c (d :: un) = if c.gone.contains d.id then liveUn c un else d :: liveUn c un := by
  simp only [liveUn, List.filter_cons]
  cases c.gone.contains d.id <;> simp

theorem liveUn_mk (c : Cyc3 τ) (p : List (RT3 τ)) (ds : List Id) (s : Bool) (un : List (RT3 τ)) :
    liveUn { pr := p, doers := ds, gone := c.gone, starved := s } un = liveUn c un := rfl

theorem stopEvs_count (cf : Nat) (pool : List (Spec3 τ)) (now : τ) (ds : List (RT3 τ)) (doers : List Id) (j : Id)
    (hs : stopStarved cf pool now ds doers = false) :
    countK .enter j (stopEvs cf pool now ds doers) + (liveIdsL ds).count j
      = countK .exit j (stopEvs cf pool now ds doers) := by
  have h := (block (τ := τ) j cf).2.1 pool now 0 { pr := ds, doers := doers }
  unfold stopStarved at hs
  unfold stopEvs
  obtain ⟨_, hb⟩ := h hs
  simp [countK_append, countK_cons, countK_nil] at hb ⊢
  omega

section Timed
variable [Add τ] [LE τ] [DecidableRel (α := τ) (· ≤ ·)] [OfNat τ 0] [BEq τ]

theorem runCycle_none_un (cf : Nat) (pool : List (Spec3 τ)) (now stock : τ) (sid : Id) :
    ∀ (un : List (RT3 τ)) (c : Cyc3 τ),
    (runCycle cf pool now stock sid un c).2.2.2 = none → (runCycle cf pool now stock sid un c).2.1 = []
  | [], c => by simp [runCycle]
  | d :: un, c => by
      have ih := runCycle_none_un cf pool now stock sid un
      unfold runCycle
      dsimp only
      repeat' split
      all_goals first | exact ih _ | simp


mutual
theorem resumeGroup_count (cf : Nat) (now : τ) (j : Id) : ∀ rt : RT3 τ,
    match rt with
    | .leaf .. => True
    | .group .. =>
      (resumeGroup cf now rt).2.2 = false →
      countK .enter j (resumeGroup cf now rt).1 + (liveIds rt).count j
        = countK .exit j (resumeGroup cf now rt).1 + (resLive (resumeGroup cf now rt).2.1).count j
  | .leaf .. => trivial
  | .group i r tock always pool doers deeds clf => by
      have h := runCycle_count cf now j pool tock i deeds { doers := doers }
      have hn := runCycle_none_un cf pool now tock i deeds { doers := doers }
      have hL := (block (τ := τ) j cf).2.1
      simp only
      unfold resumeGroup
      generalize runCycle cf pool now tock i deeds { doers := doers } = R at h hn ⊢
      obtain ⟨es, un, c, x⟩ := R
      cases x with
      | some x =>
          dsimp only at h ⊢
          have h2 := hL pool now i { c with pr := c.pr ++ un }
          generalize closeLoop pool now i cf { c with pr := c.pr ++ un } = G at h2 ⊢
          obtain ⟨ec, g⟩ := G
          dsimp only at h2 ⊢
          intro hs
          obtain ⟨h2a, h2b⟩ := h2 hs
          obtain ⟨_, hb⟩ := h h2a
          simp [countK_append, countK_cons, countK_nil, abortEvs_count, resLive, liveIds,
            List.count_cons, liveUn_nil_gone, liveIdsL_append] at hb h2b ⊢
          omega
      | none =>
          simp at hn
          subst hn
          dsimp only at h ⊢
          split
          · intro hs
            obtain ⟨_, hb⟩ := h hs
            simp [countK_append, countK_cons, countK_nil, resLive, liveIds,
              List.count_cons, liveUn_nil_gone, liveIdsL_append] at hb ⊢
            omega
          · rename_i hne
            have hpr : c.pr = [] := by
              cases hp : c.pr with
              | nil => rfl
              | cons a b => simp [hp] at hne
            split <;>
            · intro hs
              obtain ⟨_, hb⟩ := h hs
              simp [countK_append, countK_cons, countK_nil, resLive, liveIds,
                List.count_cons, liveUn_nil_gone, hpr, liveIdsL] at hb ⊢
              omega
theorem runCycle_count (cf : Nat) (now : τ) (j : Id) (pool : List (Spec3 τ)) (stock : τ) (sid : Id) :
    ∀ (un : List (RT3 τ)) (c : Cyc3 τ),
    (runCycle cf pool now stock sid un c).2.2.1.starved = false →
    c.starved = false ∧
    countK .enter j (runCycle cf pool now stock sid un c).1 + (liveIdsL (c.pr ++ liveUn c un)).count j
      = countK .exit j (runCycle cf pool now stock sid un c).1
        + (liveIdsL ((runCycle cf pool now stock sid un c).2.2.1.pr ++ (runCycle cf pool now stock sid un c).2.1)).count j
  | [], c => by simp [runCycle, countK_nil, liveUn]
  | .leaf i r steps clf co eo :: un, c => by
      have ih := runCycle_count cf now j pool stock sid un
      have hA := (block (τ := τ) j cf).2.2.2.2.2.2.2
      unfold runCycle
      dsimp only
      rw [liveUn_cons]
      split
      · exact ih c
      · split
        · have ho := hA pool now sid un (headStep steps).1.ops c
          generalize applyOps pool now sid un cf (headStep steps).1.ops c = A at ho ⊢
          obtain ⟨eo1, c1, b⟩ := A
          dsimp only at ho ⊢
          split
          · have h3 := hA pool now sid un eo c1
            generalize applyOps pool now sid un cf eo c1 = A3 at h3 ⊢
            obtain ⟨e3, c3, b3⟩ := A3
            dsimp only at h3 ⊢
            intro hs
            obtain ⟨h3a, h3b⟩ := h3 hs
            obtain ⟨hoa, hob⟩ := ho h3a
            refine ⟨hoa, ?_⟩
            simp [countK_append, countK_cons, countK_nil, abortEvs_count, liveIdsL_append, liveIdsL,
              liveIds, List.count_cons] at hob h3b ⊢
            omega
          · split
            · have h3 := hA pool now sid un eo c1
              generalize applyOps pool now sid un cf eo c1 = A3 at h3 ⊢
              obtain ⟨e3, c3, b3⟩ := A3
              dsimp only at h3 ⊢
              intro hs
              obtain ⟨h3a, h3b⟩ := h3 hs
              obtain ⟨hoa, hob⟩ := ho h3a
              refine ⟨hoa, ?_⟩
              simp [countK_append, countK_cons, countK_nil, liveIdsL_append, liveIdsL,
                liveIds, List.count_cons] at hob h3b ⊢
              omega
            · have h3 := hA pool now sid un eo c1
              generalize applyOps pool now sid un cf eo c1 = A3 at h3 ⊢
              obtain ⟨e3, c3, b3⟩ := A3
              dsimp only at h3 ⊢
              have h4 := ih c3
              generalize runCycle cf pool now stock sid un c3 = R at h4 ⊢
              obtain ⟨e2, un2, c2, x⟩ := R
              dsimp only at h4 ⊢
              intro hs
              obtain ⟨h4a, h4b⟩ := h4 hs
              obtain ⟨h3a, h3b⟩ := h3 h4a
              obtain ⟨hoa, hob⟩ := ho h3a
              refine ⟨hoa, ?_⟩
              simp [countK_append, countK_cons, countK_nil, flagEvs_count, liveIdsL_append, liveIdsL,
                liveIds, List.count_cons] at hob h3b h4b ⊢
              omega
          · rename_i t _
            have h4 := ih { c1 with pr := c1.pr ++ [.leaf i (nextDue now stock r t) (headStep steps).2 clf co eo] }
            generalize runCycle cf pool now stock sid un _ = R at h4 ⊢
            obtain ⟨e2, un2, c2, x⟩ := R
            dsimp only at h4 ⊢
            intro hs
            obtain ⟨h4a, h4b⟩ := h4 hs
            obtain ⟨hoa, hob⟩ := ho h4a
            refine ⟨hoa, ?_⟩
            simp [countK_append, countK_cons, countK_nil, liveIdsL_append, liveIdsL,
              liveIds, List.count_cons, liveUn_mk] at hob h4b ⊢
            omega
        · have h4 := ih { c with pr := c.pr ++ [.leaf i r steps clf co eo] }
          generalize runCycle cf pool now stock sid un _ = R at h4 ⊢
          obtain ⟨e2, un2, c2, x⟩ := R
          dsimp only at h4 ⊢
          intro hs
          obtain ⟨h4a, h4b⟩ := h4 hs
          refine ⟨h4a, ?_⟩
          simp [liveIdsL_append, liveIdsL, liveIds, List.count_cons, liveUn_mk] at h4b ⊢
          omega
  | .group i r tock always gpool doers deeds clf :: un, c => by
      have ih := runCycle_count cf now j pool stock sid un
      have hg := resumeGroup_count cf now j (.group i r tock always gpool doers deeds clf)
      simp only at hg
      unfold runCycle
      dsimp only
      rw [liveUn_cons]
      split
      · exact ih c
      · split
        · generalize resumeGroup cf now (.group i r tock always gpool doers deeds clf) = G at hg ⊢
          obtain ⟨eg, res, sv⟩ := G
          cases res with
          | raised x =>
              dsimp only at hg ⊢
              intro hs
              simp only [Bool.or_eq_false_iff] at hs
              have hgb := hg hs.2
              refine ⟨hs.1, ?_⟩
              simp [liveIdsL_append, liveIdsL, resLive, List.count_cons, liveUn_mk] at hgb ⊢
              omega
          | finished =>
              dsimp only at hg ⊢
              have h4 := ih { c with starved := c.starved || sv }
              generalize runCycle cf pool now stock sid un _ = R at h4 ⊢
              obtain ⟨e2, un2, c2, x⟩ := R
              dsimp only at h4 ⊢
              intro hs
              obtain ⟨h4a, h4b⟩ := h4 hs
              simp only [Bool.or_eq_false_iff] at h4a
              have hgb := hg h4a.2
              refine ⟨h4a.1, ?_⟩
              simp [countK_append, countK_cons, countK_nil, liveIdsL_append, liveIdsL, resLive,
                List.count_cons, liveUn_mk] at hgb h4b ⊢
              omega
          | yielded rt t =>
              dsimp only at hg ⊢
              have h4 := ih { c with pr := c.pr ++ [rt.setRetyme (nextDue now stock r (some t))],
                                     starved := c.starved || sv }
              generalize runCycle cf pool now stock sid un _ = R at h4 ⊢
              obtain ⟨e2, un2, c2, x⟩ := R
              dsimp only at h4 ⊢
              intro hs
              obtain ⟨h4a, h4b⟩ := h4 hs
              simp only [Bool.or_eq_false_iff] at h4a
              have hgb := hg h4a.2
              refine ⟨h4a.1, ?_⟩
              simp [countK_append, countK_cons, countK_nil, liveIdsL_append, liveIdsL, resLive,
                List.count_cons, liveUn_mk, liveIds_setRetyme] at hgb h4b ⊢
              omega
        · have h4 := ih { c with pr := c.pr ++ [.group i r tock always gpool doers deeds clf] }
          generalize runCycle cf pool now stock sid un _ = R at h4 ⊢
          obtain ⟨e2, un2, c2, x⟩ := R
          dsimp only at h4 ⊢
          intro hs
          obtain ⟨h4a, h4b⟩ := h4 hs
          refine ⟨h4a, ?_⟩
          simp [liveIdsL_append, liveIdsL, List.count_cons, liveUn_mk] at h4b ⊢
          omega
end


theorem doLoop_count (cf : Nat) (pool : List (Spec3 τ)) (tock : τ) (stopAt : Option τ) (j : Id) :
    ∀ (fuel n : Nat) (now : τ) (deeds : List (RT3 τ)) (doers : List Id),
    (doLoop cf pool tock stopAt fuel n now deeds doers).starved = false →
    countK .enter j (doLoop cf pool tock stopAt fuel n now deeds doers).evs + (liveIdsL deeds).count j
      = countK .exit j (doLoop cf pool tock stopAt fuel n now deeds doers).evs
  | 0, n, now, deeds, doers => by
      intro hs
      simp only [doLoop] at hs ⊢
      exact stopEvs_count cf pool now deeds doers j hs
  | fuel+1, n, now, deeds, doers => by
      have h := runCycle_count cf now j pool tock 0 deeds { doers := doers }
      have hn := runCycle_none_un cf pool now tock 0 deeds { doers := doers }
      unfold doLoop
      generalize runCycle cf pool now tock 0 deeds { doers := doers } = R at h hn ⊢
      obtain ⟨es, un, c, x⟩ := R
      cases x with
      | some x =>
          dsimp only at h ⊢
          intro hs
          simp only [Bool.or_eq_false_iff] at hs
          have hst := stopEvs_count cf pool now (c.pr ++ un) c.doers j hs.2
          obtain ⟨_, hb⟩ := h hs.1
          simp [countK_append, liveUn_nil_gone, liveIdsL_append] at hb hst ⊢
          omega
      | none =>
          simp at hn
          subst hn
          dsimp only at h ⊢
          split
          · rename_i hp
            have hpr : c.pr = [] := by
              cases hq : c.pr with
              | nil => rfl
              | cons a b => simp [hq] at hp
            intro hs
            have hst := stopEvs_count cf pool (now + tock) ([] : List (RT3 τ)) c.doers j
              (by simp [stopStarved, closeLoop]; cases cf <;> simp [closeLoop])
            obtain ⟨_, hb⟩ := h hs
            simp [countK_append, liveUn_nil_gone, hpr, liveIdsL] at hb hst ⊢
            omega
          · have ih := doLoop_count cf pool tock stopAt j fuel (n+1) (now + tock) c.pr c.doers
            repeat' split
            all_goals
              intro hs
              simp only [Bool.or_eq_false_iff] at hs
              obtain ⟨_, hb⟩ := h hs.1
              first
                | (have hst := stopEvs_count cf pool (now + tock) c.pr c.doers j hs.2
                   simp [countK_append, liveUn_nil_gone] at hb hst ⊢
                   omega)
                | (have ih' := ih hs.2
                   simp [countK_append, liveUn_nil_gone] at hb ih' ⊢
                   omega)

theorem doistDo_count (cf : Nat) (pool : List (Spec3 τ)) (tock start : τ) (limit : Option τ) (fuel : Nat)
    (specs : List (Spec3 τ)) (j : Id)
    (hs : (doistDo cf pool tock start limit fuel specs).starved = false) :
    countK .enter j (doistDo cf pool tock start limit fuel specs).evs
      = countK .exit j (doistDo cf pool tock start limit fuel specs).evs := by
  have h := (block (τ := τ) j cf).2.2.2.2.1 start specs
  revert hs
  unfold doistDo
  generalize enterList start cf specs = R at h ⊢
  obtain ⟨es, deeds, x, sv⟩ := R
  cases x with
  | some x =>
      dsimp only at h ⊢
      intro hs
      simp only [Bool.or_eq_false_iff] at hs
      have hst := stopEvs_count cf pool start deeds (specs.map Spec3.id) j hs.2
      have hb := h hs.1
      simp [countK_append] at hb hst ⊢
      omega
  | none =>
      dsimp only at h ⊢
      intro hs
      simp only [Bool.or_eq_false_iff] at hs
      have hl := doLoop_count cf pool tock (limit.map (start + ·)) j fuel 0 start deeds (specs.map Spec3.id) hs.2
      have hb := h hs.1
      simp [countK_append] at hb hl ⊢
      omega


mutual
theorem resumeGroup_le (cf : Nat) (now : τ) (j : Id) : ∀ rt : RT3 τ,
    countK .exitEnd j (resumeGroup cf now rt).1 ≤ countK .exit j (resumeGroup cf now rt).1
  | .leaf .. => by simp [resumeGroup, countK_nil]
  | .group i r tock always pool doers deeds clf => by
      have h := runCycle_le cf now j pool tock i deeds { doers := doers }
      have hL := (le_block (τ := τ) j cf).2.1
      unfold resumeGroup
      generalize runCycle cf pool now tock i deeds { doers := doers } = R at h ⊢
      obtain ⟨es, un, c, x⟩ := R
      cases x with
      | some x =>
          dsimp only at h ⊢
          have h2 := hL pool now i { c with pr := c.pr ++ un }
          generalize closeLoop pool now i cf { c with pr := c.pr ++ un } = G at h2 ⊢
          obtain ⟨ec, g⟩ := G
          simp [countK_append, countK_cons, countK_nil, abortEvs_count] at h h2 ⊢
          omega
      | none =>
          dsimp only at h ⊢
          split <;> (try split) <;> simp [countK_append, countK_cons, countK_nil] at h ⊢ <;> omega
theorem runCycle_le (cf : Nat) (now : τ) (j : Id) (pool : List (Spec3 τ)) (stock : τ) (sid : Id) :
    ∀ (un : List (RT3 τ)) (c : Cyc3 τ),
    countK .exitEnd j (runCycle cf pool now stock sid un c).1 ≤ countK .exit j (runCycle cf pool now stock sid un c).1
  | [], c => by simp [runCycle, countK_nil]
  | .leaf i r steps clf co eo :: un, c => by
      have ih := runCycle_le cf now j pool stock sid un
      have hA := (le_block (τ := τ) j cf).2.2.2.2.2.2.2
      unfold runCycle
      dsimp only
      split
      · exact ih c
      · split
        · have ho := hA pool now sid un (headStep steps).1.ops c
          generalize applyOps pool now sid un cf (headStep steps).1.ops c = A at ho ⊢
          obtain ⟨eo1, c1, b⟩ := A
          dsimp only at ho ⊢
          have h3 := hA pool now sid un eo c1
          generalize applyOps pool now sid un cf eo c1 = A3 at h3 ⊢
          obtain ⟨e3, c3, b3⟩ := A3
          dsimp only at h3 ⊢
          split
          · simp [countK_append, countK_cons, countK_nil, abortEvs_count] at ho h3 ⊢
            omega
          · split
            · simp [countK_append, countK_cons, countK_nil] at ho h3 ⊢
              omega
            · have h4 := ih c3
              generalize runCycle cf pool now stock sid un c3 = R at h4 ⊢
              obtain ⟨e2, un2, c2, x⟩ := R
              simp [countK_append, countK_cons, countK_nil, flagEvs_count] at ho h3 h4 ⊢
              omega
          · rename_i t _
            have h4 := ih { c1 with pr := c1.pr ++ [.leaf i (nextDue now stock r t) (headStep steps).2 clf co eo] }
            generalize runCycle cf pool now stock sid un _ = R at h4 ⊢
            obtain ⟨e2, un2, c2, x⟩ := R
            simp [countK_append, countK_cons, countK_nil] at ho h4 ⊢
            omega
        · exact ih _
  | .group i r tock always gpool doers deeds clf :: un, c => by
      have ih := runCycle_le cf now j pool stock sid un
      have hg := resumeGroup_le cf now j (.group i r tock always gpool doers deeds clf)
      unfold runCycle
      dsimp only
      split
      · exact ih c
      · split
        · generalize resumeGroup cf now (.group i r tock always gpool doers deeds clf) = G at hg ⊢
          obtain ⟨eg, res, sv⟩ := G
          cases res with
          | raised x => exact hg
          | finished =>
              dsimp only at hg ⊢
              have h4 := ih { c with starved := c.starved || sv }
              generalize runCycle cf pool now stock sid un _ = R at h4 ⊢
              obtain ⟨e2, un2, c2, x⟩ := R
              simp [countK_append, countK_cons, countK_nil] at hg h4 ⊢
              omega
          | yielded rt t =>
              dsimp only at hg ⊢
              have h4 := ih { c with pr := c.pr ++ [rt.setRetyme (nextDue now stock r (some t))],
                                     starved := c.starved || sv }
              generalize runCycle cf pool now stock sid un _ = R at h4 ⊢
              obtain ⟨e2, un2, c2, x⟩ := R
              simp [countK_append, countK_cons, countK_nil] at hg h4 ⊢
              omega
        · exact ih _
end

theorem doLoop_le (cf : Nat) (pool : List (Spec3 τ)) (tock : τ) (stopAt : Option τ) (j : Id) :
    ∀ (fuel n : Nat) (now : τ) (deeds : List (RT3 τ)) (doers : List Id),
    countK .exitEnd j (doLoop cf pool tock stopAt fuel n now deeds doers).evs
      ≤ countK .exit j (doLoop cf pool tock stopAt fuel n now deeds doers).evs
  | 0, n, now, deeds, doers => by
      simp only [doLoop]
      exact stopEvs_le cf pool now deeds doers j
  | fuel+1, n, now, deeds, doers => by
      have h := runCycle_le cf now j pool tock 0 deeds { doers := doers }
      unfold doLoop
      generalize runCycle cf pool now tock 0 deeds { doers := doers } = R at h ⊢
      obtain ⟨es, un, c, x⟩ := R
      cases x with
      | some x =>
          have hs := stopEvs_le cf pool now (c.pr ++ un) c.doers j
          simp [countK_append] at h hs ⊢
          omega
      | none =>
          dsimp only at h ⊢
          have hs0 := stopEvs_le cf pool (now + tock) ([] : List (RT3 τ)) c.doers j
          have hs := stopEvs_le cf pool (now + tock) c.pr c.doers j
          have ih := doLoop_le cf pool tock stopAt j fuel (n+1) (now + tock) c.pr c.doers
          repeat' split
          all_goals (simp [countK_append] at h ih ⊢; omega)

theorem doistDo_le (cf : Nat) (pool : List (Spec3 τ)) (tock start : τ) (limit : Option τ) (fuel : Nat)
    (specs : List (Spec3 τ)) (j : Id) :
    countK .exitEnd j (doistDo cf pool tock start limit fuel specs).evs
      ≤ countK .exit j (doistDo cf pool tock start limit fuel specs).evs := by
  have h := (le_block (τ := τ) j cf).2.2.2.2.1 start specs
  unfold doistDo
  generalize enterList start cf specs = R at h ⊢
  obtain ⟨es, deeds, x, sv⟩ := R
  cases x with
  | some x =>
      have hs := stopEvs_le cf pool start deeds (specs.map Spec3.id) j
      simp [countK_append] at h hs ⊢
      omega
  | none =>
      have hl := doLoop_le cf pool tock (limit.map (start + ·)) j fuel 0 start deeds (specs.map Spec3.id)
      simp [countK_append] at h hl ⊢
      omega

end Timed

end Hio.Sched3.C02

namespace Hio.Sched3
open Hio.Sched (Id Kind Ev ev Op countK)
variable {τ : Type} [Add τ] [LE τ] [DecidableRel (α := τ) (· ≤ ·)] [OfNat τ 0] [BEq τ]

/-- C02 on the third-generation model: whenever `do()` returns or raises and no close / enter / op ran out of
its fuel, every doer that was entered has been exited -/
theorem forced_exit_before_return3 (cf : Nat) (pool : List (Spec3 τ)) (tock start : τ) (limit : Option τ)
    (fuel : Nat) (specs : List (Spec3 τ)) :
    (doistDo cf pool tock start limit fuel specs).starved = false →
    ∀ i, countK .enter i (doistDo cf pool tock start limit fuel specs).evs
          = countK .exit i (doistDo cf pool tock start limit fuel specs).evs :=
  fun hs i => C02.doistDo_count cf pool tock start limit fuel specs i hs

/-- a DoDoer's `exit()` never returns more often than it was started — on EVERY run, starved or not -/
theorem group_exit_balanced3_all (cf : Nat) (pool : List (Spec3 τ)) (tock start : τ) (limit : Option τ)
    (fuel : Nat) (specs : List (Spec3 τ)) :
    ∀ i, countK .exitEnd i (doistDo cf pool tock start limit fuel specs).evs
          ≤ countK .exit i (doistDo cf pool tock start limit fuel specs).evs :=
  fun i => C02.doistDo_le cf pool tock start limit fuel specs i

theorem group_exit_balanced3 (cf : Nat) (pool : List (Spec3 τ)) (tock start : τ) (limit : Option τ)
    (fuel : Nat) (specs : List (Spec3 τ)) :
    (doistDo cf pool tock start limit fuel specs).starved = false →
    ∀ i, countK .exitEnd i (doistDo cf pool tock start limit fuel specs).evs
          ≤ countK .exit i (doistDo cf pool tock start limit fuel specs).evs :=
  fun _ => group_exit_balanced3_all cf pool tock start limit fuel specs

end Hio.Sched3
