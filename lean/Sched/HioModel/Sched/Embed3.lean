import HioModel.Sched.Model2
import HioModel.Sched.Model3
/-!
# `Model3` on scripts without close-time ops, when nothing starved, IS `Model2`

`emb3Spec` / `emb3RT` embed the scripts and run-time doers of `Hio.Sched2` into `Hio.Sched3` with
`ceaseOps := []`, `exitOps := []`; `emb3Cyc` embeds a cycle state with `starved := false`.

* `mono_all`, `runCycle_mono` — for ARBITRARY Model3 scripts: an unstarved result comes from an unstarved state
  (starvation is never reset), for closeRT / closeLoop / closeList / extendList / removeOp / applyOps / runCycle.
* For embedded data, "the Model3 result is unstarved → it equals the embedded Model2 result":
  `agreeClose_all` (closeRT, closeLoop), `closeList_agree`, `agreeEnter_all` (enterSpec, enterList),
  `extendList_agree`, `removeOp_agree`, `applyOps_agree`, `resumeGroup_agree` / `runCycle_agree` (mutual),
  `stop_agree`, `doLoop_agree`.
* `doistDo3_embed` — the whole run: `g.starved = false → g.toFinal2 = Sched2.doistDo …`.  The only hypothesis is
  `starved = false` (any close-fuel `cf`, no bound): every out-of-fuel case of Model3 is flagged.
Imports Model2 and Model3 only.
-/
namespace Hio.Sched3
open Hio.Sched (Id Kind Ev ev Op flagEvs nextDue)
open Hio.Sched2 (Exn2 Out2 Step2 EnterAct2 abortEvs loopRaises Spec2 RT2 Cyc2 Res2 Final2)

variable {τ : Type}

/-! ### the embedding -/
mutual
def emb3Spec : Spec2 τ → Spec3 τ
  | .leaf i act steps cf => .leaf i act steps cf [] []
  | .group i tock always kids pool cf => .group i tock always (emb3SpecL kids) (emb3SpecL pool) cf
def emb3SpecL : List (Spec2 τ) → List (Spec3 τ)
  | [] => []
  | s :: ss => emb3Spec s :: emb3SpecL ss
end

mutual
def emb3RT : RT2 τ → RT3 τ
  | .leaf i r steps cf => .leaf i r steps cf [] []
  | .group i r tock always pool doers deeds cf => .group i r tock always (emb3SpecL pool) doers (emb3RTL deeds) cf
def emb3RTL : List (RT2 τ) → List (RT3 τ)
  | [] => []
  | d :: ds => emb3RT d :: emb3RTL ds
end

/-- embed a cycle state, with a given starvation flag -/
def emb3CycS (b : Bool) (c : Cyc2 τ) : Cyc3 τ := ⟨emb3RTL c.pr, c.doers, c.gone, b⟩
def emb3Cyc (c : Cyc2 τ) : Cyc3 τ := emb3CycS false c

def emb3Res : Res2 τ → Res3 τ
  | .yielded rt t => .yielded (emb3RT rt) t
  | .finished => .finished
  | .raised e => .raised e

/-! ### ids are preserved -/
mutual
theorem emb3Spec_ids : ∀ s : Spec2 τ, Spec3.ids (emb3Spec s) = Hio.Sched2.Spec2.ids s
  | .leaf i act steps cf => by rw [emb3Spec, Spec3.ids, Hio.Sched2.Spec2.ids]
  | .group i tock always kids pool cf => by
      rw [emb3Spec, Spec3.ids, Hio.Sched2.Spec2.ids, emb3SpecL_ids kids, emb3SpecL_ids pool]
theorem emb3SpecL_ids : ∀ l : List (Spec2 τ), Spec3.idsL (emb3SpecL l) = Hio.Sched2.Spec2.idsL l
  | [] => by rw [emb3SpecL, Spec3.idsL, Hio.Sched2.Spec2.idsL]
  | s :: ss => by rw [emb3SpecL, Spec3.idsL, Hio.Sched2.Spec2.idsL, emb3Spec_ids s, emb3SpecL_ids ss]
end

/-! ### list facts -/
theorem emb3SpecL_eq_map (l : List (Spec2 τ)) : emb3SpecL l = l.map emb3Spec := by
  induction l with
  | nil => rfl
  | cons s l ih => rw [emb3SpecL, ih]; rfl
theorem emb3RTL_eq_map (l : List (RT2 τ)) : emb3RTL l = l.map emb3RT := by
  induction l with
  | nil => rfl
  | cons s l ih => rw [emb3RTL, ih]; rfl
theorem emb3RTL_append (a b : List (RT2 τ)) : emb3RTL (a ++ b) = emb3RTL a ++ emb3RTL b := by
  simp only [emb3RTL_eq_map, List.map_append]
theorem emb3RTL_toList (r : Option (RT2 τ)) : emb3RTL r.toList = (r.map emb3RT).toList := by cases r <;> rfl
theorem emb3RT_id (d : RT2 τ) : (emb3RT d).id = d.id := by cases d <;> rfl
theorem emb3RT_retyme (d : RT2 τ) : (emb3RT d).retyme = d.retyme := by cases d <;> rfl
theorem emb3RT_setRetyme (r : τ) (d : RT2 τ) : (emb3RT d).setRetyme r = emb3RT (d.setRetyme r) := by cases d <;> rfl
theorem emb3Spec_id (s : Spec2 τ) : (emb3Spec s).id = s.id := by cases s <;> rfl
theorem emb3SpecL_map_id (l : List (Spec2 τ)) : (emb3SpecL l).map Spec3.id = l.map Spec2.id := by
  induction l with
  | nil => rfl
  | cons s l ih => rw [emb3SpecL, List.map_cons, List.map_cons, ih, emb3Spec_id]
theorem emb3SpecL_getElem? (l : List (Spec2 τ)) (k : Nat) : (emb3SpecL l)[k]? = l[k]?.map emb3Spec := by
  rw [emb3SpecL_eq_map, List.getElem?_map]
theorem emb3RTL_filter (p : Id → Bool) (l : List (RT2 τ)) :
    (emb3RTL l).filter (fun d => p d.id) = emb3RTL (l.filter (fun d => p d.id)) := by
  induction l with
  | nil => rfl
  | cons d l ih =>
      rw [emb3RTL, List.filter_cons, List.filter_cons, emb3RT_id]
      cases p d.id
      · simpa using ih
      · simp only [if_true, emb3RTL, ih]
theorem emb3RTL_map_id (l : List (RT2 τ)) : (emb3RTL l).map RT3.id = l.map RT2.id := by
  induction l with
  | nil => rfl
  | cons s l ih => rw [emb3RTL, List.map_cons, List.map_cons, ih, emb3RT_id]
theorem emb3RTL_isEmpty (l : List (RT2 τ)) : (emb3RTL l).isEmpty = l.isEmpty := by cases l <;> rfl
theorem emb3RTL_concat (l : List (RT2 τ)) (d : RT2 τ) : emb3RTL (l ++ [d]) = emb3RTL l ++ [emb3RT d] := by
  rw [emb3RTL_append]; rfl

theorem closeAllRev2_append (now : τ) (a b : List (RT2 τ)) :
    Hio.Sched2.closeAllRev now (a ++ b) = Hio.Sched2.closeAllRev now b ++ Hio.Sched2.closeAllRev now a := by
  induction a with
  | nil => simp [Hio.Sched2.closeAllRev]
  | cons d a ih => simp only [List.cons_append, Hio.Sched2.closeAllRev, ih, List.append_assoc]

/-! ### starvation is monotone (arbitrary scripts) -/

theorem applyOps_nil (P : List (Spec3 τ)) (now : τ) (sid : Id) (un : List (RT3 τ)) (f : Nat) (c : Cyc3 τ) :
    applyOps P now sid un f [] c = ([], c, none) := by
  cases f <;> simp [applyOps]

theorem starve_starved (c : Cyc3 τ) : c.starve.starved = true := rfl

theorem or_false_left {a b : Bool} (h : (a || b) = false) : a = false := by cases a <;> simp_all
theorem or_false_right {a b : Bool} (h : (a || b) = false) : b = false := by cases a <;> simp_all

/-- for all six state-threading functions: an unstarved result comes from an unstarved state -/
def Mono (f : Nat) : Prop :=
  (∀ (P : List (Spec3 τ)) (now : τ) sid un d c, (closeRT P now sid un f d c).2.starved = false → c.starved = false) ∧
  (∀ (P : List (Spec3 τ)) (now : τ) sid c, (closeLoop P now sid f c).2.starved = false → c.starved = false) ∧
  (∀ (P : List (Spec3 τ)) (now : τ) sid un l c, (closeList P now sid un f l c).2.starved = false → c.starved = false) ∧
  (∀ (P : List (Spec3 τ)) (now : τ) ks c, (extendList P now f ks c).2.1.starved = false → c.starved = false) ∧
  (∀ (P : List (Spec3 τ)) (now : τ) sid un ids c, (removeOp P now sid un f ids c).2.starved = false → c.starved = false) ∧
  (∀ (P : List (Spec3 τ)) (now : τ) sid un ops c, (applyOps P now sid un f ops c).2.1.starved = false → c.starved = false)

theorem mono_zero : Mono (τ := τ) 0 := by
  refine ⟨?_, ?_, ?_, ?_, ?_, ?_⟩
  · intro P now sid un d c h; rw [closeRT] at h; exact Bool.noConfusion h
  · intro P now sid c h
    rw [closeLoop] at h
    split at h
    · exact h
    · exact Bool.noConfusion h
  · intro P now sid un l c h
    rw [closeList] at h
    split at h
    · exact h
    · exact Bool.noConfusion h
  · intro P now ks c h
    cases ks with
    | nil => rw [extendList] at h; exact h
    | cons k ks => rw [extendList] at h; exact Bool.noConfusion h
  · intro P now sid un ids c h; rw [removeOp] at h; exact Bool.noConfusion h
  · intro P now sid un ops c h
    cases ops with
    | nil => rw [applyOps] at h; exact h
    | cons o ops => rw [applyOps] at h; exact Bool.noConfusion h

theorem mono_succ (f : Nat) (ih : Mono (τ := τ) f) : Mono (τ := τ) (f+1) := by
  obtain ⟨hRT, hLoop, hList, hExt, hRm, hOps⟩ := ih
  refine ⟨?_, ?_, ?_, ?_, ?_, ?_⟩
  · intro P now sid un d c h
    cases d with
    | leaf i r steps cf co eo =>
        rw [closeRT] at h
        exact hOps _ _ _ _ _ _ (hOps _ _ _ _ _ _ h)
    | group i r tock always gpool doers deeds cf =>
        rw [closeRT] at h
        exact or_false_left h
  · intro P now sid c h
    rw [closeLoop] at h
    split at h
    next => exact h
    next d hd =>
      have h' : (closeLoop P now sid f (closeRT P now sid [] f d { c with pr := c.pr.dropLast }).2).2.starved = false := h
      exact hRT P now sid [] d { c with pr := c.pr.dropLast } (hLoop _ _ _ _ h')
  · intro P now sid un l c h
    rw [closeList] at h
    split at h
    next => exact h
    next d hd =>
      have h' : (closeList P now sid un f l.dropLast (closeRT P now sid un f d c).2).2.starved = false := h
      exact hRT _ _ _ _ _ _ (hList _ _ _ _ _ _ h')
  · intro P now ks c h
    cases ks with
    | nil => rw [extendList] at h; exact h; exact Nat.succ_ne_zero f
    | cons k ks =>
        rw [extendList] at h
        split at h
        · exact hExt _ _ _ _ h
        · split at h
          · exact hExt _ _ _ _ h
          · split at h
            · exact or_false_left h
            · exact or_false_left (hExt _ _ _ _ h)
  · intro P now sid un ids c h
    rw [removeOp] at h
    split at h
    next e c1 he =>
      have h2 := congrArg (fun r => r.2.starved) he
      simp only at h h2
      have h3 := hList _ _ _ _ _ _ (h2.trans h)
      exact h3
  · intro P now sid un ops c h
    cases ops with
    | nil => rw [applyOps] at h; exact h; exact Nat.succ_ne_zero f
    | cons o ops =>
        cases o with
        | extend ks =>
            rw [applyOps] at h
            split at h
            · rename_i e c1 x he
              have := hExt P now ks c; rw [he] at this; exact this h
            · rename_i e c1 he
              have := hExt P now ks c; rw [he] at this; exact this (hOps _ _ _ _ _ _ h)
        | remove ids =>
            rw [applyOps] at h
            exact hRm _ _ _ _ _ _ (hOps _ _ _ _ _ _ h)

theorem mono_all : ∀ f, Mono (τ := τ) f
  | 0 => mono_zero
  | f+1 => mono_succ f (mono_all f)

/-! ### close: unstarved results agree with Model2 -/

theorem snoc_cases {α : Type} (l : List α) : l = [] ∨ ∃ init d, l = init ++ [d] := by
  induction l with
  | nil => exact Or.inl rfl
  | cons a l ih =>
      rcases ih with rfl | ⟨i, d, rfl⟩
      · exact Or.inr ⟨[], a, rfl⟩
      · exact Or.inr ⟨a :: i, d, rfl⟩

theorem cyc_eta_pr (c : Cyc3 τ) (h : c.pr = []) : ({ c with pr := [] } : Cyc3 τ) = c := by
  cases c; simp_all

theorem cyc_eta_starved (c : Cyc3 τ) (b : Bool) (h : c.starved = false) (hb : b = false) :
    ({ c with starved := c.starved || b } : Cyc3 τ) = c := by
  cases c; simp_all

theorem emb3RTL_eq_nil {l : List (RT2 τ)} (h : emb3RTL l = []) : l = [] := by
  cases l with
  | nil => rfl
  | cons a l => simp [emb3RTL] at h

def AgreeClose (f : Nat) : Prop :=
  (∀ (P : List (Spec3 τ)) (now : τ) sid un (d : RT2 τ) (c : Cyc3 τ),
      (closeRT P now sid un f (emb3RT d) c).2.starved = false →
      closeRT P now sid un f (emb3RT d) c = (Hio.Sched2.closeRT now d, c)) ∧
  (∀ (P : List (Spec3 τ)) (now : τ) sid (ds : List (RT2 τ)) (c : Cyc3 τ), c.pr = emb3RTL ds →
      (closeLoop P now sid f c).2.starved = false →
      closeLoop P now sid f c = (Hio.Sched2.closeAllRev now ds, { c with pr := [] }))

theorem agreeClose_zero : AgreeClose (τ := τ) 0 := by
  refine ⟨?_, ?_⟩
  · intro P now sid un d c h; rw [closeRT] at h; exact Bool.noConfusion h
  · intro P now sid ds c hpr h
    rw [closeLoop] at h ⊢
    split at h
    next he =>
      have : ds = [] := by
        rw [hpr, emb3RTL_isEmpty] at he
        cases ds with
        | nil => rfl
        | cons a l => exact Bool.noConfusion he
      subst this
      rw [if_pos he, cyc_eta_pr c hpr]; rfl
    next => exact Bool.noConfusion h

theorem agreeClose_succ (f : Nat) (ih : AgreeClose (τ := τ) f) : AgreeClose (τ := τ) (f+1) := by
  obtain ⟨hRT, hLoop⟩ := ih
  refine ⟨?_, ?_⟩
  · intro P now sid un d c h
    cases d with
    | leaf i r steps cf =>
        rw [emb3RT, closeRT, applyOps_nil]; simp only; rw [applyOps_nil]; rfl
    | group i r tock always gpool doers deeds cf =>
        rw [emb3RT, closeRT] at h ⊢
        have h1 := or_false_left h
        have h2 := or_false_right h
        have := hLoop (emb3SpecL gpool) now i deeds { pr := emb3RTL deeds, doers := doers } rfl h2
        rw [this] at h ⊢
        simp only
        rw [Hio.Sched2.closeRT]
        congr 1
        exact cyc_eta_starved c _ h1 rfl
  · intro P now sid ds c hpr h
    rcases snoc_cases ds with rfl | ⟨init, d, rfl⟩
    · rw [closeLoop, hpr]; simp only [emb3RTL, List.getLast?_nil]
      rw [cyc_eta_pr c hpr]; rfl
    · have hl : c.pr.getLast? = some (emb3RT d) := by rw [hpr, emb3RTL_concat, List.getLast?_concat]
      have hd : c.pr.dropLast = emb3RTL init := by rw [hpr, emb3RTL_concat, List.dropLast_concat]
      rw [closeLoop, hl] at h ⊢
      simp only [hd] at h ⊢
      have hm := (mono_all f).2.1 P now sid (closeRT P now sid [] f (emb3RT d) { c with pr := emb3RTL init }).2 h
      have h1 := hRT P now sid [] d { c with pr := emb3RTL init } hm
      rw [h1] at h ⊢
      simp only at h ⊢
      have h2 := hLoop P now sid init { c with pr := emb3RTL init } rfl h
      rw [h2, closeAllRev2_append]
      rfl

theorem agreeClose_all : ∀ f, AgreeClose (τ := τ) f
  | 0 => agreeClose_zero
  | f+1 => agreeClose_succ f (agreeClose_all f)

theorem closeList_agree (P : List (Spec3 τ)) (now : τ) (sid : Id) (un : List (RT3 τ)) :
    ∀ (f : Nat) (l : List (RT2 τ)) (c : Cyc3 τ), (closeList P now sid un f (emb3RTL l) c).2.starved = false →
      closeList P now sid un f (emb3RTL l) c = (Hio.Sched2.closeAllRev now l, c)
  | 0, l, c => by
      intro h
      rw [closeList] at h ⊢
      split at h
      next he =>
        rw [emb3RTL_isEmpty] at he
        cases l with
        | nil => rfl
        | cons a l => exact Bool.noConfusion he
      next => exact Bool.noConfusion h
  | f+1, l, c => by
      intro h
      rcases snoc_cases l with rfl | ⟨init, d, rfl⟩
      · rw [closeList]; rfl
      · have hl : (emb3RTL (init ++ [d])).getLast? = some (emb3RT d) := by rw [emb3RTL_concat, List.getLast?_concat]
        have hd : (emb3RTL (init ++ [d])).dropLast = emb3RTL init := by rw [emb3RTL_concat, List.dropLast_concat]
        rw [closeList, hl] at h ⊢
        simp only [hd] at h ⊢
        have hm := (mono_all f).2.2.1 P now sid un _ (closeRT P now sid un f (emb3RT d) c).2 h
        have h1 := (agreeClose_all f).1 P now sid un d c hm
        rw [h1] at h ⊢
        simp only at h ⊢
        rw [closeList_agree P now sid un f init c h, closeAllRev2_append]
        rfl

/-! ### enter -/

def AgreeEnter (f : Nat) : Prop :=
  (∀ (now : τ) (s : Spec2 τ), (enterSpec now f (emb3Spec s)).2.2.2 = false →
      enterSpec now f (emb3Spec s) =
        ((Hio.Sched2.enterSpec now s).1, (Hio.Sched2.enterSpec now s).2.1.map emb3RT, (Hio.Sched2.enterSpec now s).2.2, false)) ∧
  (∀ (now : τ) (l : List (Spec2 τ)), (enterList now f (emb3SpecL l)).2.2.2 = false →
      enterList now f (emb3SpecL l) =
        ((Hio.Sched2.enterList now l).1, emb3RTL (Hio.Sched2.enterList now l).2.1, (Hio.Sched2.enterList now l).2.2, false))

theorem agreeEnter_zero : AgreeEnter (τ := τ) 0 := by
  refine ⟨?_, ?_⟩
  · intro now s h; rw [enterSpec] at h; exact Bool.noConfusion h
  · intro now l h
    cases l with
    | nil => rfl
    | cons a l => rw [emb3SpecL, enterList] at h; exact Bool.noConfusion h

theorem agreeEnter_succ (f : Nat) (ih : AgreeEnter (τ := τ) f) : AgreeEnter (τ := τ) (f+1) := by
  obtain ⟨hS, hL⟩ := ih
  refine ⟨?_, ?_⟩
  · intro now s h
    cases s with
    | leaf i act steps cf =>
        cases act with
        | ok => rfl
        | fail x => rfl
        | done v => cases cf <;> rfl
    | group i tock always kids pool cf =>
        have hk := hL now kids
        rw [emb3Spec, enterSpec] at h ⊢
        rw [Hio.Sched2.enterSpec]
        generalize Hio.Sched2.enterList now kids = q2 at hk ⊢
        rcases q2 with ⟨es2, deeds2, x2⟩
        generalize enterList now f (emb3SpecL kids) = q at h hk ⊢
        rcases q with ⟨es, deeds, x, sv⟩
        cases x with
        | none =>
            simp only at h hk ⊢
            have := hk h
            simp only [Prod.mk.injEq] at this
            obtain ⟨h1, h2, h3, h4⟩ := this
            subst h1 h2 h3 h4
            simp only [Option.map_some, emb3RT, emb3SpecL_map_id]
        | some x =>
            simp only at h hk ⊢
            have hsv := or_false_left h
            have hg := or_false_right h
            have := hk hsv
            simp only [Prod.mk.injEq] at this
            obtain ⟨h1, h2, h3, h4⟩ := this
            subst h1 h2 h3 h4
            have hc := (agreeClose_all f).2 (emb3SpecL pool) now i deeds2
              { pr := emb3RTL deeds2, doers := (emb3SpecL kids).map Spec3.id } rfl hg
            rw [hc]
            simp only [Option.map_none, Bool.false_or]
  · intro now l h
    cases l with
    | nil => rw [emb3SpecL, enterList]; rfl; exact Nat.succ_ne_zero f
    | cons s ss =>
        have hs := hS now s
        have hss := hL now ss
        rw [emb3SpecL, enterList] at h ⊢
        rw [Hio.Sched2.enterList]
        generalize Hio.Sched2.enterSpec now s = q2 at hs ⊢
        rcases q2 with ⟨e2, r2, x2⟩
        generalize enterSpec now f (emb3Spec s) = q at h hs ⊢
        rcases q with ⟨e, r, x, sv⟩
        cases x with
        | some x =>
            simp only at h hs ⊢
            have := hs h
            simp only [Prod.mk.injEq] at this
            obtain ⟨h1, h2, h3, h4⟩ := this
            subst h1 h3 h4
            rfl
        | none =>
            simp only at h hs ⊢
            generalize Hio.Sched2.enterList now ss = q3 at hss ⊢
            rcases q3 with ⟨e3, rs3, x3⟩
            generalize enterList now f (emb3SpecL ss) = q4 at h hss ⊢
            rcases q4 with ⟨e', rs, b, sv2⟩
            simp only at h hss ⊢
            have hsv := or_false_left h
            have hsv2 := or_false_right h
            have := hs hsv
            simp only [Prod.mk.injEq] at this
            obtain ⟨h1, h2, h3, h4⟩ := this
            have := hss hsv2
            simp only [Prod.mk.injEq] at this
            obtain ⟨g1, g2, g3, g4⟩ := this
            subst h1 h2 h3 h4 g1 g2 g3 g4
            simp only [emb3RTL_append, emb3RTL_toList, Bool.or_false]

theorem agreeEnter_all : ∀ f, AgreeEnter (τ := τ) f
  | 0 => agreeEnter_zero
  | f+1 => agreeEnter_succ f (agreeEnter_all f)

/-! ### extend / remove / ops -/

theorem extendList_agree (P : List (Spec2 τ)) (now : τ) : ∀ (f : Nat) (ks : List Nat) (c2 : Cyc2 τ),
    (extendList (emb3SpecL P) now f ks (emb3Cyc c2)).2.1.starved = false →
    extendList (emb3SpecL P) now f ks (emb3Cyc c2) =
      ((Hio.Sched2.extendList P now ks c2).1, emb3Cyc (Hio.Sched2.extendList P now ks c2).2.1,
        (Hio.Sched2.extendList P now ks c2).2.2)
  | 0, [], c2 => fun _ => rfl
  | 0, k :: ks, c2 => by intro h; rw [extendList] at h; exact Bool.noConfusion h
  | f+1, [], c2 => by intro _; rw [extendList]; rfl; exact Nat.succ_ne_zero f
  | f+1, k :: ks, c2 => by
      intro h
      have ih := extendList_agree P now f ks
      rw [extendList, emb3SpecL_getElem?] at h ⊢
      rw [Hio.Sched2.extendList]
      cases hk : P[k]? with
      | none => simp only [hk, Option.map_none] at h ⊢; exact ih c2 h
      | some s =>
          simp only [hk, Option.map_some, emb3Spec_id] at h ⊢
          have hd : (emb3Cyc c2).doers = c2.doers := rfl
          rw [hd] at h ⊢
          by_cases hc : c2.doers.contains s.id = true
          · simp only [hc, if_true] at h ⊢; exact ih c2 h
          · simp only [hc, Bool.false_eq_true, if_false] at h ⊢
            have hs := (agreeEnter_all f).1 now s
            generalize Hio.Sched2.enterSpec now s = q2 at hs ⊢
            rcases q2 with ⟨e2, r2, x2⟩
            generalize enterSpec now f (emb3Spec s) = q at h hs ⊢
            rcases q with ⟨e, r, x, sv⟩
            cases x with
            | some x =>
                simp only at h hs ⊢
                have hsv : sv = false := or_false_right h
                have := hs hsv
                simp only [Prod.mk.injEq] at this
                obtain ⟨h1, h2, h3, h4⟩ := this
                subst h1 h3 h4
                rfl
            | none =>
                simp only at h hs ⊢
                have hm := (mono_all f).2.2.2.1 _ _ _ _ h
                have hsv : sv = false := or_false_right (show ((emb3Cyc c2).starved || sv) = false from hm)
                have := hs hsv
                simp only [Prod.mk.injEq] at this
                obtain ⟨h1, h2, h3, h4⟩ := this
                subst h1 h2 h3 h4
                have key : (⟨(emb3Cyc c2).pr ++ (Option.map emb3RT r2).toList, c2.doers ++ [s.id], (emb3Cyc c2).gone,
                                (emb3Cyc c2).starved || false⟩ : Cyc3 τ)
                    = emb3Cyc ⟨c2.pr ++ r2.toList, c2.doers ++ [s.id], c2.gone⟩ := by
                  simp only [emb3Cyc, emb3CycS, emb3RTL_append, emb3RTL_toList, Bool.or_false]
                rw [key] at h ⊢
                rw [ih _ h]

theorem liveUn_emb3 (c : Cyc2 τ) (un : List (RT2 τ)) :
    liveUn (emb3Cyc c) (emb3RTL un) = emb3RTL (Hio.Sched2.liveUn c un) :=
  emb3RTL_filter (fun i => !c.gone.contains i) un

theorem removeOp_agree (P : List (Spec2 τ)) (now : τ) (sid : Id) (un : List (RT2 τ)) (f : Nat) (ids : List Id)
    (c2 : Cyc2 τ) (h : (removeOp (emb3SpecL P) now sid (emb3RTL un) f ids (emb3Cyc c2)).2.starved = false) :
    removeOp (emb3SpecL P) now sid (emb3RTL un) f ids (emb3Cyc c2) =
      ((Hio.Sched2.removeOp now sid un ids c2).1, emb3Cyc (Hio.Sched2.removeOp now sid un ids c2).2) := by
  cases f with
  | zero => rw [removeOp] at h; exact Bool.noConfusion h
  | succ f =>
      have hd : (emb3Cyc c2).doers = c2.doers := rfl
      have hp : (emb3Cyc c2).pr = emb3RTL c2.pr := rfl
      have hg : (emb3Cyc c2).gone = c2.gone := rfl
      have hs : (emb3Cyc c2).starved = false := rfl
      rw [removeOp] at h ⊢
      unfold Hio.Sched2.removeOp
      simp only [hd, hp, hg, hs, liveUn_emb3] at h ⊢
      rw [emb3RTL_filter (fun i => (ids.filter (fun i => c2.doers.contains i)).contains i),
        emb3RTL_filter (fun i => (ids.filter (fun i => c2.doers.contains i)).contains i),
        emb3RTL_filter (fun i => !(ids.filter (fun i => c2.doers.contains i)).contains i),
        ← emb3RTL_append, emb3RTL_map_id] at h ⊢
      rw [closeList_agree _ now sid _ f _ _ h]
      rfl

theorem applyOps_agree (P : List (Spec2 τ)) (now : τ) (sid : Id) (un : List (RT2 τ)) :
    ∀ (f : Nat) (ops : List Op) (c2 : Cyc2 τ),
    (applyOps (emb3SpecL P) now sid (emb3RTL un) f ops (emb3Cyc c2)).2.1.starved = false →
    applyOps (emb3SpecL P) now sid (emb3RTL un) f ops (emb3Cyc c2) =
      ((Hio.Sched2.applyOps P now sid un ops c2).1, emb3Cyc (Hio.Sched2.applyOps P now sid un ops c2).2.1,
        (Hio.Sched2.applyOps P now sid un ops c2).2.2)
  | 0, [], c2 => fun _ => rfl
  | 0, o :: ops, c2 => by intro h; rw [applyOps] at h; exact Bool.noConfusion h
  | f+1, [], c2 => by intro _; rw [applyOps]; rfl; exact Nat.succ_ne_zero f
  | f+1, .extend ks :: ops, c2 => by
      intro h
      have ih := applyOps_agree P now sid un f ops
      have he := extendList_agree P now f ks c2
      rw [applyOps] at h ⊢
      rw [Hio.Sched2.applyOps]
      generalize Hio.Sched2.extendList P now ks c2 = q2 at he ⊢
      rcases q2 with ⟨e2, c12, x2⟩
      generalize extendList (emb3SpecL P) now f ks (emb3Cyc c2) = q at h he ⊢
      rcases q with ⟨e, c1, x⟩
      cases x with
      | some x =>
          simp only at h he ⊢
          have := he h
          simp only [Prod.mk.injEq] at this
          obtain ⟨h1, h2, h3⟩ := this
          subst h1 h2 h3
          rfl
      | none =>
          simp only at h he ⊢
          have hm := (mono_all f).2.2.2.2.2 _ _ _ _ _ _ h
          have := he hm
          simp only [Prod.mk.injEq] at this
          obtain ⟨h1, h2, h3⟩ := this
          subst h1 h2 h3
          rw [ih c12 h]
          rfl
  | f+1, .remove ids :: ops, c2 => by
      intro h
      have ih := applyOps_agree P now sid un f ops
      have he := removeOp_agree P now sid un f ids c2
      rw [applyOps] at h ⊢
      rw [Hio.Sched2.applyOps]
      generalize Hio.Sched2.removeOp now sid un ids c2 = q2 at he ⊢
      rcases q2 with ⟨e2, c12⟩
      generalize removeOp (emb3SpecL P) now sid (emb3RTL un) f ids (emb3Cyc c2) = q at h he ⊢
      rcases q with ⟨e, c1⟩
      simp only at h he ⊢
      have hm := (mono_all f).2.2.2.2.2 _ _ _ _ _ _ h
      have := he hm
      simp only [Prod.mk.injEq] at this
      obtain ⟨h1, h2⟩ := this
      subst h1 h2
      rw [ih c12 h]
      rfl

theorem stop_agree (cf : Nat) (P : List (Spec3 τ)) (now : τ) (ds : List (RT2 τ)) (doers : List Id)
    (h : stopStarved cf P now (emb3RTL ds) doers = false) :
    stopEvs cf P now (emb3RTL ds) doers = Hio.Sched2.stopEvs now ds ∧ stopDoers cf P now (emb3RTL ds) doers = doers := by
  unfold stopStarved at h
  unfold stopEvs stopDoers Hio.Sched2.stopEvs
  rw [(agreeClose_all cf).2 P now 0 ds { pr := emb3RTL ds, doers := doers } rfl h]
  exact ⟨rfl, rfl⟩

/-! ### cycles -/
theorem emb3Cyc_init (doers : List Id) : ({ doers := doers } : Cyc3 τ) = emb3Cyc { doers := doers } := rfl

theorem headStep_eq (steps : List (Step2 τ)) : headStep steps = Hio.Sched2.headStep steps := by
  cases steps <;> rfl

section cyc
variable [Add τ] [LE τ] [DecidableRel (α := τ) (· ≤ ·)] [OfNat τ 0] [BEq τ]

theorem runCycle_mono (cf : Nat) (P : List (Spec3 τ)) (now stock : τ) (sid : Id) :
    ∀ (un : List (RT3 τ)) (c : Cyc3 τ), (runCycle cf P now stock sid un c).2.2.1.starved = false → c.starved = false
  | [], c => by intro h; rw [runCycle] at h; exact h
  | .leaf i r steps clf co eo :: un, c => by
      intro h
      have ih := runCycle_mono cf P now stock sid un
      have hops := (mono_all (τ := τ) cf).2.2.2.2.2
      rw [runCycle.eq_def] at h
      simp only at h
      split at h
      · exact (ih _ h :)
      · split at h
        · have hA := hops P now sid un (headStep steps).1.ops c
          generalize applyOps P now sid un cf (headStep steps).1.ops c = A at h hA
          rcases A with ⟨eo1, c1, opR⟩
          simp only at h hA
          apply hA
          have hB := hops P now sid un eo c1
          cases opR with
          | some x => exact hB h
          | none =>
              simp only at h
              generalize (headStep steps).1.out = out at h
              cases out with
              | raise x => exact hB h
              | ret v =>
                  simp only at h
                  split at h
                  · exact hB h
                  · exact hB (ih _ h :)
              | yieldT t => simp only at h; exact (ih _ h :)
        · exact (ih _ h :)
  | .group i r tock always gpool doers deeds clf :: un, c => by
      intro h
      have ih := runCycle_mono cf P now stock sid un
      rw [runCycle.eq_def] at h
      simp only at h
      split at h
      · exact (ih _ h :)
      · split at h
        · generalize resumeGroup cf now (.group i r tock always gpool doers deeds clf) = G at h
          rcases G with ⟨eg, res, sv⟩
          cases res with
          | raised x => exact or_false_left h
          | finished => exact or_false_left (ih _ h :)
          | yielded rt t => exact or_false_left (ih _ h :)
        · exact (ih _ h :)


/-- the result of a cycle, embedded (unstarved) -/
def emb3Run (r : List (Ev τ) × List (RT2 τ) × Cyc2 τ × Option Exn2) :
    List (Ev τ) × List (RT3 τ) × Cyc3 τ × Option Exn2 :=
  (r.1, emb3RTL r.2.1, emb3Cyc r.2.2.1, r.2.2.2)


mutual
theorem resumeGroup_agree (cf : Nat) (now : τ) : ∀ rt : RT2 τ, (resumeGroup cf now (emb3RT rt)).2.2 = false →
    resumeGroup cf now (emb3RT rt) =
      ((Hio.Sched2.resumeGroup now rt).1, emb3Res (Hio.Sched2.resumeGroup now rt).2, false)
  | .leaf _ _ _ _ => fun _ => rfl
  | .group i r tock always pool doers deeds clf => by
      intro h
      have ih := runCycle_agree cf pool now tock i deeds { doers := doers }
      rw [emb3RT, resumeGroup, emb3Cyc_init] at h ⊢
      rw [Hio.Sched2.resumeGroup]
      generalize Hio.Sched2.runCycle pool now tock i deeds { doers := doers } = R2 at ih ⊢
      rcases R2 with ⟨es2, un2, c2, x2⟩
      generalize runCycle cf (emb3SpecL pool) now tock i (emb3RTL deeds) (emb3Cyc { doers := doers }) = R3 at h ih ⊢
      rcases R3 with ⟨es, un, c, x⟩
      simp only [emb3Run] at h ih ⊢
      cases x with
      | some x =>
          simp only at h ih ⊢
          have hc : c.starved = false := (mono_all cf).2.1 _ _ _ { c with pr := c.pr ++ un } h
          have := ih hc
          simp only [Prod.mk.injEq] at this
          obtain ⟨h1, h2, h3, h4⟩ := this
          subst h1 h2 h3 h4
          have hcl := (agreeClose_all cf).2 (emb3SpecL pool) now i (c2.pr ++ un2)
            { emb3Cyc c2 with pr := (emb3Cyc c2).pr ++ emb3RTL un2 } (by rw [emb3RTL_append]; rfl) h
          rw [hcl]
          rfl
      | none =>
          simp only at h ih ⊢
          have hc : c.starved = false := by
            revert h
            split
            · exact id
            · split <;> exact id
          have := ih hc
          simp only [Prod.mk.injEq] at this
          obtain ⟨h1, h2, h3, h4⟩ := this
          subst h1 h2 h3 h4
          have hp : (emb3Cyc c2).pr = emb3RTL c2.pr := rfl
          have hd : (emb3Cyc c2).doers = c2.doers := rfl
          have hs : (emb3Cyc c2).starved = false := rfl
          simp only [hp, hd, hs, emb3RTL_isEmpty]
          split
          · simp only [emb3Res, emb3RT]
          · split <;> simp only [emb3Res]
theorem runCycle_agree (cf : Nat) (P : List (Spec2 τ)) (now stock : τ) (sid : Id) :
    ∀ (un : List (RT2 τ)) (c2 : Cyc2 τ),
    (runCycle cf (emb3SpecL P) now stock sid (emb3RTL un) (emb3Cyc c2)).2.2.1.starved = false →
    runCycle cf (emb3SpecL P) now stock sid (emb3RTL un) (emb3Cyc c2) =
      emb3Run (Hio.Sched2.runCycle P now stock sid un c2)
  | [], c2 => fun _ => rfl
  | .leaf i r steps clf :: un, c2 => by
      intro h
      have ih := runCycle_agree cf P now stock sid un
      have hmono := runCycle_mono cf (emb3SpecL P) now stock sid (emb3RTL un)
      have hg : (emb3Cyc c2).gone = c2.gone := rfl
      rw [emb3RTL, emb3RT, runCycle.eq_def] at h ⊢
      rw [Hio.Sched2.runCycle.eq_def]
      simp only [RT3.id, RT3.retyme, RT2.id, RT2.retyme, hg, headStep_eq, applyOps_nil] at h ⊢
      by_cases h1 : c2.gone.contains i = true
      · simp only [h1, if_true] at h ⊢; exact ih c2 h
      · simp only [h1, Bool.false_eq_true, if_false] at h ⊢
        by_cases h2 : r ≤ now
        · simp only [h2, if_true] at h ⊢
          have hAg := applyOps_agree P now sid un cf (Hio.Sched2.headStep steps).1.ops c2
          generalize Hio.Sched2.applyOps P now sid un (Hio.Sched2.headStep steps).1.ops c2 = A2 at hAg ⊢
          rcases A2 with ⟨eo2, c12, opR2⟩
          generalize applyOps (emb3SpecL P) now sid (emb3RTL un) cf (Hio.Sched2.headStep steps).1.ops (emb3Cyc c2)
            = A3 at h hAg ⊢
          rcases A3 with ⟨eo1, c1, opR⟩
          simp only at h hAg ⊢
          generalize (Hio.Sched2.headStep steps).1.out = out at h ⊢
          generalize (Hio.Sched2.headStep steps).2 = rest at h ⊢
          have hc1 : c1.starved = false := by
            cases opR with
            | some x => exact h
            | none =>
                cases out with
                | raise x => exact h
                | ret v =>
                    simp only at h
                    split at h
                    · exact h
                    · exact (hmono _ h :)
                | yieldT t => simp only at h; exact (hmono _ h :)
          have := hAg hc1
          simp only [Prod.mk.injEq] at this
          obtain ⟨g1, g2, g3⟩ := this
          subst g1 g2 g3
          cases opR with
          | some x =>
              simp only [liveUn_emb3, List.append_nil, emb3Run]
          | none =>
              cases out with
              | raise x => simp only [liveUn_emb3, List.append_nil, emb3Run]
              | ret v =>
                  simp only [List.append_nil] at h ⊢
                  split
                  · simp only [liveUn_emb3, emb3Run]
                  · rename_i hclf
                    simp only [hclf, Bool.false_eq_true, if_false] at h
                    rw [ih c12 h]
                    rfl
              | yieldT t =>
                  simp only at h ⊢
                  rw [show (⟨(emb3Cyc c12).pr ++ [RT3.leaf i (nextDue now stock r t) rest clf [] []],
                        (emb3Cyc c12).doers, (emb3Cyc c12).gone, (emb3Cyc c12).starved⟩ : Cyc3 τ)
                      = emb3Cyc ⟨c12.pr ++ [RT2.leaf i (nextDue now stock r t) rest clf], c12.doers, c12.gone⟩ from by
                    simp only [emb3Cyc, emb3CycS, emb3RTL_append, emb3RTL, emb3RT]] at h ⊢
                  rw [ih _ h]
                  rfl
        · simp only [h2, if_false] at h ⊢
          rw [show (⟨(emb3Cyc c2).pr ++ [RT3.leaf i r steps clf [] []], (emb3Cyc c2).doers, c2.gone,
                (emb3Cyc c2).starved⟩ : Cyc3 τ)
              = emb3Cyc ⟨c2.pr ++ [RT2.leaf i r steps clf], c2.doers, c2.gone⟩ from by
            simp only [emb3Cyc, emb3CycS, emb3RTL_append, emb3RTL, emb3RT]] at h ⊢
          exact ih _ h
  | .group i r tock always gpool doers deeds clf :: un, c2 => by
      intro h
      have ih := runCycle_agree cf P now stock sid un
      have ihg := resumeGroup_agree cf now (.group i r tock always gpool doers deeds clf)
      have hmono := runCycle_mono cf (emb3SpecL P) now stock sid (emb3RTL un)
      have hg : (emb3Cyc c2).gone = c2.gone := rfl
      have hs : (emb3Cyc c2).starved = false := rfl
      rw [emb3RT] at ihg
      rw [emb3RTL, emb3RT, runCycle.eq_def] at h ⊢
      rw [Hio.Sched2.runCycle.eq_def]
      simp only [RT3.id, RT3.retyme, RT2.id, RT2.retyme, hg, hs, Bool.false_or] at h ⊢
      by_cases h1 : c2.gone.contains i = true
      · simp only [h1, if_true] at h ⊢; exact ih c2 h
      · simp only [h1, Bool.false_eq_true, if_false] at h ⊢
        by_cases h2 : r ≤ now
        · simp only [h2, if_true] at h ⊢
          generalize Hio.Sched2.resumeGroup now (.group i r tock always gpool doers deeds clf) = G2 at ihg ⊢
          rcases G2 with ⟨eg2, res2⟩
          generalize resumeGroup cf now (.group i r tock always (emb3SpecL gpool) doers (emb3RTL deeds) clf) = G3
            at h ihg ⊢
          rcases G3 with ⟨eg, res, sv⟩
          simp only at h ihg ⊢
          have hsv : sv = false := by
            cases res with
            | raised x => exact h
            | finished => exact (hmono _ h :)
            | yielded rt t => exact (hmono _ h :)
          have := ihg hsv
          simp only [Prod.mk.injEq] at this
          obtain ⟨g1, g2, g3⟩ := this
          subst g1 g2 g3
          cases res2 with
          | raised x =>
              simp only [emb3Res, liveUn_emb3, emb3Run]
              rfl
          | finished =>
              simp only [emb3Res] at h ⊢
              rw [show (⟨(emb3Cyc c2).pr, (emb3Cyc c2).doers, c2.gone, false⟩ : Cyc3 τ) = emb3Cyc c2 from rfl] at h ⊢
              rw [ih c2 h]
              rfl
          | yielded rt t =>
              simp only [emb3Res, emb3RT_setRetyme] at h ⊢
              rw [show (⟨(emb3Cyc c2).pr ++ [emb3RT (rt.setRetyme (nextDue now stock r (some t)))],
                    (emb3Cyc c2).doers, c2.gone, false⟩ : Cyc3 τ)
                  = emb3Cyc ⟨c2.pr ++ [rt.setRetyme (nextDue now stock r (some t))], c2.doers, c2.gone⟩ from by
                simp only [emb3Cyc, emb3CycS, emb3RTL_append, emb3RTL]] at h ⊢
              rw [ih _ h]
              rfl
        · simp only [h2, if_false] at h ⊢
          rw [show (⟨(emb3Cyc c2).pr ++ [RT3.group i r tock always (emb3SpecL gpool) doers (emb3RTL deeds) clf],
                (emb3Cyc c2).doers, c2.gone, false⟩ : Cyc3 τ)
              = emb3Cyc ⟨c2.pr ++ [RT2.group i r tock always gpool doers deeds clf], c2.doers, c2.gone⟩ from by
            simp only [emb3Cyc, emb3CycS, emb3RTL_append, emb3RTL, emb3RT]] at h ⊢
          exact ih _ h
end

theorem doLoop_agree (cf : Nat) (P : List (Spec2 τ)) (tock : τ) (stopAt : Option τ) :
    ∀ (fuel n : Nat) (now : τ) (deeds : List (RT2 τ)) (doers : List Id),
    (doLoop cf (emb3SpecL P) tock stopAt fuel n now (emb3RTL deeds) doers).starved = false →
    (doLoop cf (emb3SpecL P) tock stopAt fuel n now (emb3RTL deeds) doers).toFinal2
      = Hio.Sched2.doLoop P tock stopAt fuel n now deeds doers
  | 0, n, now, deeds, doers => by
      intro h
      rw [doLoop] at h ⊢
      rw [Hio.Sched2.doLoop]
      obtain ⟨h1, h2⟩ := stop_agree cf (emb3SpecL P) now deeds doers h
      simp only [h1, h2]
  | fuel+1, n, now, deeds, doers => by
      intro h
      have ihc := runCycle_agree cf P now tock 0 deeds { doers := doers }
      rw [doLoop, emb3Cyc_init] at h ⊢
      rw [Hio.Sched2.doLoop]
      generalize Hio.Sched2.runCycle P now tock 0 deeds { doers := doers } = R2 at ihc ⊢
      rcases R2 with ⟨es2, un2, c2, x2⟩
      generalize runCycle cf (emb3SpecL P) now tock 0 (emb3RTL deeds) (emb3Cyc { doers := doers }) = R3 at h ihc ⊢
      rcases R3 with ⟨es, un, c, x⟩
      simp only [emb3Run] at h ihc ⊢
      have hc : c.starved = false := by
        cases x with
        | some x => exact or_false_left h
        | none =>
            simp only at h
            split at h
            · exact h
            · cases stopAt with
              | none => simp only [Bool.false_eq_true, if_false] at h; exact or_false_left h
              | some s => simp only at h; split at h <;> exact or_false_left h
      have := ihc hc
      simp only [Prod.mk.injEq] at this
      obtain ⟨g1, g2, g3, g4⟩ := this
      subst g1 g2 g3 g4
      have hp : (emb3Cyc c2).pr = emb3RTL c2.pr := rfl
      have hd : (emb3Cyc c2).doers = c2.doers := rfl
      cases x with
      | some x =>
          simp only [hp, hd, ← emb3RTL_append] at h ⊢
          obtain ⟨h1, h2⟩ := stop_agree cf (emb3SpecL P) now (c2.pr ++ un2) c2.doers (or_false_right h)
          simp only [h1, h2]
      | none =>
          simp only [hp, hd, emb3RTL_isEmpty] at h ⊢
          by_cases he : c2.pr.isEmpty = true
          · simp only [he, if_true] at h ⊢
            have hnil : stopStarved cf (emb3SpecL P) (now + tock) (emb3RTL ([] : List (RT2 τ))) c2.doers = false := by
              cases cf <;> rfl
            obtain ⟨h1, _⟩ := stop_agree cf (emb3SpecL P) (now + tock) [] c2.doers hnil
            rw [show ([] : List (RT3 τ)) = emb3RTL ([] : List (RT2 τ)) from rfl, h1]
          · simp only [he, Bool.false_eq_true, if_false] at h ⊢
            cases stopAt with
            | none =>
                simp only [Bool.false_eq_true, if_false] at h ⊢
                have := doLoop_agree cf P tock none fuel (n+1) (now + tock) c2.pr c2.doers (or_false_right h)
                rw [← this]
            | some s =>
                simp only at h ⊢
                by_cases h2 : s ≤ now + tock
                · simp only [h2, decide_true, if_true] at h ⊢
                  obtain ⟨h1, h2'⟩ := stop_agree cf (emb3SpecL P) (now + tock) c2.pr c2.doers (or_false_right h)
                  simp only [h1, h2']
                · simp only [h2, decide_false, Bool.false_eq_true, if_false] at h ⊢
                  have := doLoop_agree cf P tock (some s) fuel (n+1) (now + tock) c2.pr c2.doers (or_false_right h)
                  rw [← this]

/-- `Model3` on scripts without close-time ops, when nothing starved, IS `Model2` -/
theorem doistDo3_embed (cf : Nat) (pool : List (Spec2 τ)) (tock start : τ) (limit : Option τ) (fuel : Nat)
    (specs : List (Spec2 τ)) :
    let g := Hio.Sched3.doistDo cf (emb3SpecL pool) tock start limit fuel (emb3SpecL specs)
    g.starved = false → g.toFinal2 = Hio.Sched2.doistDo pool tock start limit fuel specs := by
  intro g h
  have he := (agreeEnter_all cf).2 start specs
  show (Hio.Sched3.doistDo cf (emb3SpecL pool) tock start limit fuel (emb3SpecL specs)).toFinal2 = _
  change (Hio.Sched3.doistDo cf (emb3SpecL pool) tock start limit fuel (emb3SpecL specs)).starved = false at h
  rw [doistDo] at h ⊢
  rw [Hio.Sched2.doistDo]
  generalize Hio.Sched2.enterList start specs = q2 at he ⊢
  rcases q2 with ⟨es2, deeds2, x2⟩
  generalize enterList start cf (emb3SpecL specs) = q at h he ⊢
  rcases q with ⟨es, deeds, x, sv⟩
  simp only [emb3SpecL_map_id] at h he ⊢
  have hsv : sv = false := by
    cases x with
    | some x => exact or_false_left h
    | none => exact or_false_left h
  have := he hsv
  simp only [Prod.mk.injEq] at this
  obtain ⟨g1, g2, g3, g4⟩ := this
  subst g1 g2 g3 g4
  cases x with
  | some x =>
      simp only at h ⊢
      obtain ⟨h1, h2⟩ := stop_agree cf (emb3SpecL pool) start deeds2 (specs.map Spec2.id) (or_false_right h)
      simp only [h1, h2]
  | none =>
      simp only at h ⊢
      have := doLoop_agree cf pool tock (limit.map (start + ·)) fuel 0 start deeds2 (specs.map Spec2.id) (or_false_right h)
      rw [← this]
end cyc

end Hio.Sched3
