import HioModel.Sched.TimeModel
namespace Hio.Sched
theorem c04_stub : (1 : Nat) = 1 := rfl
end Hio.Sched
