import HioModel.Sched.TimeFlags
import HioModel.Sched.TimeFlatten2
/-!
# C04 "Nesting doers inside a tock-0 DoDoer is observationally transparent"

Grouping consecutive doers under a DoDoer with tock 0 (not `always`) gives the same observable run as listing them
directly in the parent: same enter order, same sequence of (doer, tyme) recur steps, same completion cycle and done
flags, forced exits in the same order.

Vocabulary (`Sched/TimeDefs.lean`, `TimeFlatten.lean`, `TimeFlatL.lean`):
* `Flattens keep p q` — `q` is the forest `p` with every transparent group (`group i 0 false kids _`) spliced away, at
  any nesting depth; leaves are op-free, do not raise, enter does not fail; `keep` selects the observed doers
  (true on every leaf, false on every spliced group).  `Spec.flatL` is the function (used by the driver), `Spec.okTL`
  its Boolean precondition.
* `SameView keep a b` — equal kept-event sequences (`enter`, `recur`, `clean`/`cease`/`exit` and the done-flag
  assignments of every leaf, with their tymes, in trace order — hence enter order, recur steps, forced-exit order and
  final done flags), equal scheduler `done`, final `tyme` (completion cycle), `cycles`, `raised`, `fuelOut`.
* `g04` — guard G04: a script yields in the pattern `positive* asap*`.

FULL STATEMENT (`flatten_transparent`), wanted for every program:
    `Flattens keep p q → SameView keep (doistDo pool tock start limit fuel p) (doistDo pool tock start limit fuel q)`.
It is FALSE for the code as it is (pre-finding F46): `DoDoer.recur` sets the due tyme after an asap yield to
`tyme + its own tock (0)` where `Doist.recur` sets `tyme + tock`, and `retyme += t` then counts a following positive tock
from one scheduler tock too early.  `flatten_transparent_fails_at_asap_then_positive` is the decided witness on the model
(replayed on the real code by `harness/props/C04.py`, known finding C04-K1).  What IS proved, for every time type with
`LawfulTyme`, every `0 ≤ tock`, start, limit, fuel, pool and nesting depth, is the statement under G04.
-/
namespace Hio.Sched
variable {τ : Type}
variable [Add τ] [LE τ] [DecidableRel (α := τ) (· ≤ ·)] [OfNat τ 0] [BEq τ] [LawfulTyme τ]

/-- C04 under guard G04 (every leaf script yields `positive* asap*`): the nested run and the run of its flattening
are observationally equal.  Any nesting depth, any number of groups, empty groups, to completion or to a limit. -/
theorem flatten_transparent_partial (keep : Id → Bool) (pool : List (Spec τ)) (tock start : τ) (limit : Option τ)
    (fuel : Nat) {p q : List (Spec τ)} (h0 : 0 ≤ tock) (hF : Flattens keep p q) (hG : Spec.allStepsL g04 p = true) :
    SameView keep (doistDo pool tock start limit fuel p) (doistDo pool tock start limit fuel q) :=
  hF.sameView hG pool h0 start limit fuel

/-- spelled out for one observed doer `i`: same resumption tymes and same final done flag -/
theorem flatten_transparent_doer_partial (keep : Id → Bool) (pool : List (Spec τ)) (tock start : τ) (limit : Option τ)
    (fuel : Nat) {p q : List (Spec τ)} (h0 : 0 ≤ tock) (hF : Flattens keep p q) (hG : Spec.allStepsL g04 p = true)
    (i : Id) (hk : keep i = true) :
    recurTymes i (doistDo pool tock start limit fuel p).evs = recurTymes i (doistDo pool tock start limit fuel q).evs
    ∧ finalFlag (doistDo pool tock start limit fuel p).evs i = finalFlag (doistDo pool tock start limit fuel q).evs i := by
  have hv := (hF.sameView hG pool h0 start limit fuel).1
  constructor
  · rw [← keepView_recurTymes keep i hk, ← keepView_recurTymes keep i hk (doistDo pool tock start limit fuel q).evs, hv]
  · rw [← finalFlag_keepView keep i hk, ← finalFlag_keepView keep i hk (doistDo pool tock start limit fuel q).evs, hv]

/-- the same for the flattening FUNCTION the driver and the oracle use -/
theorem flatL_transparent_partial (keep : Id → Bool) (pool : List (Spec τ)) (tock start : τ) (limit : Option τ)
    (fuel : Nat) {p : List (Spec τ)} (h0 : 0 ≤ tock) (hT : Spec.okTL keep p = true) (hG : Spec.allStepsL g04 p = true) :
    SameView keep (doistDo pool tock start limit fuel p) (doistDo pool tock start limit fuel (Spec.flatL p)) :=
  flatten_transparent_partial keep pool tock start limit fuel h0 (flattens_flatL keep p hT) hG

/-- any two regroupings `p`, `p'` of the same flat program `q` (consecutive siblings wrapped in transparent groups in any
way, nested, with empty groups) run alike -/
theorem regroup_transparent_partial (keep : Id → Bool) (pool : List (Spec τ)) (tock start : τ) (limit : Option τ)
    (fuel : Nat) {p p' q : List (Spec τ)} (h0 : 0 ≤ tock) (hF : Flattens keep p q) (hF' : Flattens keep p' q)
    (hG : Spec.allStepsL g04 p = true) (hG' : Spec.allStepsL g04 p' = true) :
    SameView keep (doistDo pool tock start limit fuel p) (doistDo pool tock start limit fuel p') := by
  obtain ⟨a1, a2, a3, a4, a5, a6⟩ := flatten_transparent_partial keep pool tock start limit fuel h0 hF hG
  obtain ⟨b1, b2, b3, b4, b5, b6⟩ := flatten_transparent_partial keep pool tock start limit fuel h0 hF' hG'
  exact ⟨a1.trans b1.symm, a2.trans b2.symm, a3.trans b3.symm, a4.trans b4.symm, a5.trans b5.symm, a6.trans b6.symm⟩

/-- HETEROGENEOUS forests (guard G04 and: every KEPT DoDoer has tock `0` — e.g. an `always` one — or the scheduler's own
`tock`, so that it is resumed in every cycle): transparent groups beside, inside and around kept DoDoers, at any depth, are
transparent.  `Flattens2 keep tock p q` — `q` is `p` with the transparent groups spliced away, kept DoDoers (`keep i = true`)
stay on both sides with flattened kids.  For a kept DoDoer with any other tock the statement is false:
`transparent_under_lagging_dodoer_fails` (known finding C04-K2). -/
theorem flatten_transparent_hetero_partial (keep : Id → Bool) (pool : List (Spec τ)) (tock start : τ) (limit : Option τ)
    (fuel : Nat) {p q : List (Spec τ)} (h0 : 0 ≤ tock) (hF : Flattens2 keep tock p q) (hG : Spec.allStepsL g04 p = true) :
    SameView keep (doistDo pool tock start limit fuel p) (doistDo pool tock start limit fuel q) :=
  hF.sameView hG pool h0 start limit fuel

/-! ### non-vacuity and the witness (τ := Nat) -/

def yS (t : Option Nat) : Step Nat := ⟨[], .yieldT t⟩

/-- nested: `[9:[1, 8:[], 3], 2]`, leaf 1 yields 2 then asap twice (G04 holds) -/
def exNested : List (Spec Nat) :=
  [.group 9 0 false [.leaf 1 .ok [yS (some 2), yS (some 0), yS none], .group 8 0 false [] [], .leaf 3 .ok [yS (some 3), ⟨[], .ret (some false)⟩]] [],
   .leaf 2 .ok [yS (some 1), yS (some 1), yS (some 1)]]
def keepEx : Id → Bool := fun i => i != 9 && i != 8

/-- the hypotheses of `flatL_transparent_partial` are satisfiable by a two-level program with an empty group -/
example : SameView keepEx (doistDo [] 1 5 (some 4) 100 exNested) (doistDo [] 1 5 (some 4) 100 (Spec.flatL exNested)) :=
  flatL_transparent_partial keepEx [] 1 5 (some 4) 100 (by decide) (by decide) (by decide)

/-- test (one program, by evaluation): leaf 1 is resumed at 5, 7, 8, 9 in both runs -/
example : recurTymes 1 (doistDo [] 1 5 none 100 exNested).evs = [5, 7, 8, 9]
    ∧ recurTymes 1 (doistDo [] 1 5 none 100 (Spec.flatL exNested)).evs = [5, 7, 8, 9] := by decide

/-- pre-finding F46 as in DESIGN §7, scaled to integers: leaf 1 yields asap, then 3 -/
def f46Nested : List (Spec Nat) :=
  [.group 9 0 false [.leaf 1 .ok [yS (some 0), yS (some 3), yS (some 0), yS (some 0)]] [],
   .leaf 2 .ok [yS (some 0), yS (some 0), yS (some 0), yS (some 0), yS (some 0), yS (some 0), yS (some 0)]]
def f46Flat : List (Spec Nat) :=
  [.leaf 1 .ok [yS (some 0), yS (some 3), yS (some 0), yS (some 0)],
   .leaf 2 .ok [yS (some 0), yS (some 0), yS (some 0), yS (some 0), yS (some 0), yS (some 0), yS (some 0)]]

/-- the UNGUARDED statement fails on the model: `f46Flat` is the flattening of `f46Nested` (only G04 is violated), yet
leaf 1 is resumed at 0,1,4,5,6 flat and at 0,1,3,4,5 nested -/
theorem flatten_transparent_fails_at_asap_then_positive :
    Flattens (fun i => i != 9) f46Nested f46Flat
    ∧ ¬ SameView (fun i => i != 9) (doistDo [] 1 0 none 100 f46Nested) (doistDo [] 1 0 none 100 f46Flat) := by
  refine ⟨?_, ?_⟩
  · exact Flattens.group (q1 := [_]) (q2 := [_]) (by decide) (Flattens.leaf (by decide) (by decide) trivial Flattens.nil)
      (Flattens.leaf (by decide) (by decide) trivial Flattens.nil)
  · intro h
    have e := congrArg (recurTymes 1) h.1
    rw [keepView_recurTymes _ 1 (by decide), keepView_recurTymes _ 1 (by decide)] at e
    revert e
    decide

/-- test: the two schedules of the witness, spelled out -/
example : recurTymes 1 (doistDo [] 1 0 none 100 f46Flat).evs = [0, 1, 4, 5, 6]
    ∧ recurTymes 1 (doistDo [] 1 0 none 100 f46Nested).evs = [0, 1, 3, 4, 5] := by decide

def hetA : Spec Nat := .leaf 1 .ok [yS (some 2), yS (some 0)]
def hetB : Spec Nat := .leaf 2 .ok [yS (some 3), yS none, yS (some 0)]
def hetC : Spec Nat := .leaf 3 .ok [yS (some 0), yS (some 0)]
def hetNested : List (Spec Nat) :=
  [.group 7 0 true [.group 9 0 false [hetA] [], hetC] [], .group 6 2 false [.group 8 0 false [hetB] []] []]
def hetFlat : List (Spec Nat) := [.group 7 0 true [hetA, hetC] [], .group 6 2 false [hetB] []]
def keepHet : Id → Bool := fun i => i != 9 && i != 8

/-- non-vacuity of `flatten_transparent_hetero_partial`: an `always` DoDoer 7 (tock 0) holding a transparent group, next to a
DoDoer 6 with the scheduler's tock holding one, with a limit -/
example : SameView keepHet (doistDo [] 2 1 (some 9) 100 hetNested) (doistDo [] 2 1 (some 9) 100 hetFlat) := by
  have hF : Flattens2 keepHet 2 hetNested hetFlat := by
    unfold hetNested hetFlat
    refine Flattens2.kgroup (by decide) (Or.inl rfl) ?_ (Flattens2.kgroup (by decide) (Or.inr rfl) ?_ Flattens2.nil)
    · exact Flattens2.tgroup (q1 := [hetA]) (q2 := [hetC]) (by decide)
        (Flattens2.leaf (by decide) (by decide) trivial Flattens2.nil)
        (Flattens2.leaf (by decide) (by decide) trivial Flattens2.nil)
    · exact Flattens2.tgroup (q1 := [hetB]) (q2 := []) (by decide)
        (Flattens2.leaf (by decide) (by decide) trivial Flattens2.nil) Flattens2.nil
  exact flatten_transparent_hetero_partial keepHet [] 2 1 (some 9) 100 (by decide) hF (by decide)

/-- the guard on kept DoDoers is needed (known finding C04-K2): DoDoer 7 has tock 3 under a scheduler with tock 2, so it
comes round at 0, 4, 6, 10, 12 …; the transparent group 9 inside it is due at `tyme + 3` and skips the recurs at 6 and 12.
Leaf 1 (yields 1, a G04 script) is resumed at every recur of 7 when it is a direct child, not when it sits in group 9. -/
theorem transparent_under_lagging_dodoer_fails :
    let a : Spec Nat := .leaf 1 .ok [yS (some 1), yS (some 1), yS (some 1), yS (some 1), yS (some 1)]
    ¬ SameView (fun i => i != 9)
      (doistDo [] 2 0 none 100 [.group 7 3 false [.group 9 0 false [a] []] []])
      (doistDo [] 2 0 none 100 [.group 7 3 false [a] []]) := by
  intro a h
  have e := congrArg (recurTymes 1) h.1
  rw [keepView_recurTymes _ 1 (by decide), keepView_recurTymes _ 1 (by decide)] at e
  revert e
  decide

def k2Leaf : Spec Nat := .leaf 1 .ok [yS (some 1), yS (some 1), yS (some 1), yS (some 1), yS (some 1)]

/-- test: the two schedules of that witness -/
example : recurTymes 1 (doistDo [] 2 0 none 100 [.group 7 3 false [k2Leaf] []]).evs = [0, 4, 6, 10, 12, 16] := by decide
example : recurTymes 1 (doistDo [] 2 0 none 100 [.group 7 3 false [.group 9 0 false [k2Leaf] []] []]).evs
    = [0, 4, 10, 16, 22, 28] := by decide

/-! ### faults (tests only — NOT covered by a theorem)

With a fault the nested run closes a group's survivors before the parent's later siblings (children before parent, C02), so
nested = flat can only be expected when the failing doer's group comes LAST at every level.  The simulation proof above is for
fault-free programs; extending `Sim` by the raise path (`runCycle` returning `some x`, `closeAllRev (c.pr ++ un)` on both sides)
is not done.  The two evaluations below are TESTS on one program each; the general case under the "last group" guard is covered by
the oracle (two real runs) and the correspondence in `harness/props/C04.py`. -/

def faultLeaf : Spec Nat := .leaf 4 .ok [yS (some 0), yS (some 0), ⟨[], .raise .err⟩]
def longLeaf (i : Id) : Spec Nat := .leaf i .ok [yS (some 0), yS (some 0), yS (some 0), yS (some 0), yS (some 0)]
def ceaseIds (evs : List (Ev Nat)) : List Id := (evs.filter (fun e => e.kind == .cease && e.id != 9)).map Ev.id

/-- test: the failing doer's group is last: survivors are closed 5, 3, 2, 1 nested and flat -/
example : ceaseIds (doistDo [] 1 0 none 50 [longLeaf 1, longLeaf 2, .group 9 0 false [longLeaf 3, faultLeaf, longLeaf 5] []]).evs = [5, 3, 2, 1]
    ∧ ceaseIds (doistDo [] 1 0 none 50 [longLeaf 1, longLeaf 2, longLeaf 3, faultLeaf, longLeaf 5]).evs = [5, 3, 2, 1] := by decide

/-- test: the group is NOT last: nested closes its survivors first (5, 3, then 2), flat closes in reverse enter order (2, 5, 3) — by design -/
example : ceaseIds (doistDo [] 1 0 none 50 [.group 9 0 false [longLeaf 3, faultLeaf, longLeaf 5] [], longLeaf 2]).evs = [5, 3, 2]
    ∧ ceaseIds (doistDo [] 1 0 none 50 [longLeaf 3, faultLeaf, longLeaf 5, longLeaf 2]).evs = [2, 5, 3] := by decide

end Hio.Sched
