import HioModel.Sched.LemmasC06b
/-!
# C06 "Runtime extend/remove take effect exactly and preserve membership"

Doers added while a run is in progress are entered immediately, first recur in the next cycle (not the current
one), and adding a doer that is already present does nothing.  Doers removed while running are force-closed
(cease then exit) before remove() returns and never recur again, except a doer removing itself, which keeps
running until it returns.  The scheduler's doer list always equals the added-and-not-removed doers in
insertion order.

Vocabulary (`Sched/LemmasC06.lean`):
* `specExtend pool ds ks` — `ds` with, appended in call order, the ids of `pool[k]` for the valid `k ∈ ks` that
  are not yet present (nor added earlier in the same call); `specOp pool ds op` — the doers list after one op
  (`extend ks`: `specExtend`; `remove ids`: `ds.filter (· ∉ ids)`); `specScan pool ds ops` — the successive lists.
* `snaps es` — the `.doers` snapshots of a trace, in order.
* `rmHit ids c d` — deed `d` is hit by `remove(ids)`: `d.id ∈ ids` and `d.id ∈ c.doers`.
* `Op.allRemove ops` — every op of the list is a `remove`.

"First recur in the next cycle" is proved in two halves.  Not in the current cycle: the new deed is queued right
of the marker with retyme `now` (`extend_queues_right_of_marker`) and a cycle resumes only doers left of the marker
(`cycle_resumes_only_left_of_marker`, `extend_runs_next_cycle`).  In the next cycle: a deed that is due and left of
the marker IS resumed (`due_head_recurs`, `due_deed_recurs`), hence so is an extended deed in any later cycle of
that scheduler at `now' ≥ now` in whose deque it still is (`extended_doer_recurs_next_cycle`; for the Doist, whose
next cycle runs at `now + tock`, under `LawfulTyme τ` (Sched/TimeDefs.lean) and `0 ≤ tock`:
`extended_doer_recurs_next_doist_cycle`).  "Unless removed before / no earlier deed raises" is stated on the outcome
of that cycle: it returned no exception, and the deed's id is not in its final `gone` set (ids closed by a `remove`
while still left of the marker; `gone` only grows during a cycle).  Not claimed: anything for a time type violating
`LawfulTyme` (e.g. a negative tock).
-/
namespace Hio.Sched
variable {τ : Type}

/-! ### (1) the doers list -/

/-- (1) after a list of runtime ops (none of whose enters raised) the scheduler's doers list is the specified
added-and-not-removed list in insertion order, and the snapshot taken after each op is the specified
intermediate list -/
theorem doers_list_exact (pool : List (Spec τ)) (now : τ) (sid : Id) (un : List (RT τ)) (ops : List Op)
    (c c' : Cyc τ) (es : List (Ev τ)) (h : applyOps pool now sid un ops c = (es, c', false)) :
    c'.doers = ops.foldl (specOp pool) c.doers ∧ snaps es = specScan pool c.doers ops :=
  applyOps_doers pool now sid un ops c h

/-- (1) what the `extend` part of the specification means, without recursion: the old list stays as a prefix (so
insertion order of the present doers is kept), what is appended has no duplicates, and it consists exactly of the
ids of the valid pool indices of the call that were not present -/
theorem extend_spec_meaning (pool : List (Spec τ)) (ks : List Nat) (ds : List Id) :
    ∃ added, specOp pool ds (.extend ks) = ds ++ added ∧ added.Nodup
      ∧ ∀ i, i ∈ added ↔ (i ∉ ds ∧ ∃ k ∈ ks, ∃ s, pool[k]? = some s ∧ s.id = i) :=
  specExtend_char pool ks ds

/-- (1, proviso) entering a doer and force-closing one emit no `.doers` snapshot of their own -/
theorem enter_emits_no_snapshot (now : τ) (s : Spec τ) : ∀ e ∈ (enterSpec now s).1, e.kind.isDoers = false :=
  fun e he => isEnterKind_noDoers (enterSpec_kinds now s e he).1

theorem close_emits_no_snapshot (now : τ) (rt : RT τ) : ∀ e ∈ closeRT now rt, e.kind.isDoers = false :=
  fun e he => isCloseKind_noDoers (closeRT_kinds now rt e he).1

/-- (1, raised) when an enter inside an `extend` raises: the ops before that `extend` took effect exactly (list
and snapshots), of the failing `extend (ks1 ++ k :: ks2)` exactly the doers of `ks1` were added, the failing doer
`pool[k]` is not listed, and the remaining ops are not executed (no further snapshot) -/
theorem doers_list_exact_raised (pool : List (Spec τ)) (now : τ) (sid : Id) (un : List (RT τ)) (ops : List Op)
    (c c' : Cyc τ) (es : List (Ev τ)) (h : applyOps pool now sid un ops c = (es, c', true)) :
    ∃ ops1 ks1 k ks2 ops2 s, ops = ops1 ++ Op.extend (ks1 ++ k :: ks2) :: ops2
      ∧ c'.doers = specExtend pool (ops1.foldl (specOp pool) c.doers) ks1
      ∧ snaps es = specScan pool c.doers ops1
      ∧ pool[k]? = some s ∧ c'.doers.contains s.id = false ∧ (enterSpec now s).2.2 = true :=
  applyOps_raised pool now sid un ops c h

/-! ### (3) extend of present doers -/

/-- (3) adding doers that are all already present does nothing: no event, no state change, no exception -/
theorem extend_present_noop (pool : List (Spec τ)) (now : τ) (ks : List Nat) (c : Cyc τ)
    (hp : ∀ k s, k ∈ ks → pool[k]? = some s → c.doers.contains s.id = true) :
    extendList pool now ks c = ([], c, false) :=
  extendList_noop pool now ks c hp

/-! ### (4) remove -/

/-- (4) `remove(ids)` force-closes every live hit deed (right of the marker, then live ones left of it; closed
last-first) between its `rmBeg` and `rmEnd`, i.e. before it returns -/
theorem remove_closes_before_return (now : τ) (sid : Id) (un : List (RT τ)) (ids : List Id) (c : Cyc τ) :
    (removeOp now sid un ids c).1 =
      ev sid .rmBeg now ::
        (closeAllRev now (c.pr.filter (rmHit ids c) ++ (liveUn c un).filter (rmHit ids c)) ++ [ev sid .rmEnd now]) := by
  rw [removeOp_eq]

/-- a forced close is `cease` then `exit` (for a DoDoer followed by closing its own deeds) -/
theorem close_is_cease_exit (now : τ) (rt : RT τ) :
    ∃ rest, closeRT now rt = ev rt.id .cease now :: ev rt.id .exit now :: rest := by
  cases rt with
  | leaf i r s => exact ⟨[], rfl⟩
  | group i r t a p d ds => exact ⟨_, rfl⟩

/-- (4) no hit deed is left in the deque when `remove` returns (`runCycle` only visits `liveUn`, next cycle only `pr`) -/
theorem removed_never_recurs (now : τ) (sid : Id) (un : List (RT τ)) (ids : List Id) (c : Cyc τ) :
    ∀ d ∈ (removeOp now sid un ids c).2.pr ++ liveUn (removeOp now sid un ids c).2 un,
      ¬ (d.id ∈ ids ∧ d.id ∈ c.doers) := by
  intro d hd
  have := removeOp_never_again now sid un ids c d hd
  simpa [rmHit] using this

/-- (4) the doers list loses exactly the named ids -/
theorem remove_doers (now : τ) (sid : Id) (un : List (RT τ)) (ids : List Id) (c : Cyc τ) :
    (removeOp now sid un ids c).2.doers = c.doers.filter (fun i => !ids.contains i) :=
  removeOp_doers now sid un ids c

/-! ### (2) extend: entered now, first recur in the next cycle -/

/-- (2) `extend` queues the new deeds right of the marker, due at `now`, and touches nothing else of the deque -/
theorem extend_queues_right_of_marker (pool : List (Spec τ)) (now : τ) (ks : List Nat) (c c' : Cyc τ)
    (es : List (Ev τ)) (raised : Bool) (h : extendList pool now ks c = (es, c', raised)) :
    c'.gone = c.gone ∧ ∃ news, c'.pr = c.pr ++ news ∧ ∀ d ∈ news, d.retyme = now :=
  extendList_pr pool now ks c h

/-- (2) every doer the call added to the doers list was entered inside the call, at `now`; and the call emits
nothing but enter-time events stamped `now` (in particular no `recur`) -/
theorem extend_enters_now (pool : List (Spec τ)) (now : τ) (ks : List Nat) (c c' : Cyc τ)
    (es : List (Ev τ)) (raised : Bool) (h : extendList pool now ks c = (es, c', raised)) :
    (∀ i ∈ c'.doers, i ∉ c.doers → ev i .enter now ∈ es)
    ∧ ∀ e ∈ es, e.kind.isEnterKind = true ∧ e.tyme = now :=
  ⟨fun i hi hn => (extendList_enter pool now ks c h i hi).resolve_left hn, extendList_kinds pool now ks c h⟩

/-! ### (5) a doer removing itself -/

/-- (5) the running leaf `i` is popped off the deque while it runs (`i` not among the live ids of `c.pr ++ un`):
`remove`s it issues — even of itself — emit no lifecycle event for `i`, cannot raise, and `i` stays off the deque -/
theorem self_remove_no_lifecycle_event (pool : List (Spec τ)) (now : τ) (sid : Id) (un : List (RT τ)) (i : Id)
    (ops : List Op) (c c' : Cyc τ) (es : List (Ev τ)) (b : Bool)
    (hops : Op.allRemove ops = true) (hi : i ∉ RT.liveIdsL (c.pr ++ un))
    (h : applyOps pool now sid un ops c = (es, c', b)) :
    b = false ∧ (∀ e ∈ es, e.id = i → e.kind.isLife = false) ∧ i ∉ RT.liveIdsL (c'.pr ++ un) :=
  applyOps_self_remove pool now sid un i ops c hops hi h

section cyc
variable [Add τ] [LE τ] [DecidableRel (α := τ) (· ≤ ·)] [OfNat τ 0] [BEq τ]

/-- (2) a cycle resumes only deeds left of the marker: every `recur` event of `runCycle … un c` belongs to a live
doer of `un` (top level or nested) — whatever is in `c.pr`, or is added to it by an `extend` during the cycle,
is not resumed in this cycle (it is in `pr`, i.e. in the next cycle's `un`, due `now`) -/
theorem cycle_resumes_only_left_of_marker (pool : List (Spec τ)) (now stock : τ) (sid : Id)
    (un : List (RT τ)) (c : Cyc τ) :
    ∀ e ∈ (runCycle pool now stock sid un c).1, e.kind = .recur → e.id ∈ RT.liveIdsL un :=
  runCycle_recIn pool now stock sid un c

/-- (2) in particular for the step that extends: after leaf `i` ran `ops`, the rest of the cycle is
`runCycle … un c1'` with the extended `pr`, so all later `recur`s of the cycle are of doers in `un` -/
theorem extend_runs_next_cycle (pool : List (Spec τ)) (now stock : τ) (sid i : Id) (r : τ) (steps : List (Step τ))
    (un : List (RT τ)) (c c1 : Cyc τ) (ops : List Op) (t : Option τ) (rest : List (Step τ)) (eo : List (Ev τ))
    (hg : c.gone.contains i = false) (hdue : r ≤ now)
    (hs : headStep steps = (⟨ops, .yieldT t⟩, rest))
    (ha : applyOps pool now sid un ops c = (eo, c1, false)) :
    ∃ e2, (runCycle pool now stock sid (.leaf i r steps :: un) c).1 = ev i .recur now :: (eo ++ e2)
      ∧ (∀ e ∈ eo, e.kind ≠ .recur)
      ∧ ∀ e ∈ e2, e.kind = .recur → e.id ∈ RT.liveIdsL un := by
  rw [runCycle_leaf_yield pool now stock sid i r steps un c hg hdue hs ha]
  exact ⟨(runCycle pool now stock sid un { c1 with pr := c1.pr ++ [.leaf i (nextDue now stock r t) rest] }).1,
    by simp only [List.cons_append, List.nil_append], applyOps_noRecur pool now sid un ops c ha,
    runCycle_recIn pool now stock sid un _⟩

/-- (4) a deed whose id was closed by `remove` while still left of the marker is skipped by the cycle -/
theorem cycle_skips_removed (pool : List (Spec τ)) (now stock : τ) (sid : Id) (d : RT τ) (un : List (RT τ))
    (c : Cyc τ) (h : c.gone.contains d.id = true) :
    runCycle pool now stock sid (d :: un) c = runCycle pool now stock sid un c :=
  runCycle_skip_gone pool now stock sid d un c h

/-- (5) … and when its step then yields, the leaf is re-queued right of the marker (so it recurs again in later
cycles until it returns) although, having removed itself, it is no longer in the doers list -/
theorem self_remove_keeps_running (pool : List (Spec τ)) (now stock : τ) (sid i : Id) (r : τ) (steps : List (Step τ))
    (un : List (RT τ)) (c c1 : Cyc τ) (ops : List Op) (t : Option τ) (rest : List (Step τ)) (eo : List (Ev τ))
    (hg : c.gone.contains i = false) (hdue : r ≤ now)
    (hs : headStep steps = (⟨ops, .yieldT t⟩, rest))
    (ha : applyOps pool now sid un ops c = (eo, c1, false))
    (hops : Op.allRemove ops = true) (hself : ∃ ids, Op.remove ids ∈ ops ∧ i ∈ ids) :
    i ∉ c1.doers ∧
    runCycle pool now stock sid (.leaf i r steps :: un) c =
      ([ev i .recur now] ++ eo ++
          (runCycle pool now stock sid un { c1 with pr := c1.pr ++ [.leaf i (nextDue now stock r t) rest] }).1,
        (runCycle pool now stock sid un { c1 with pr := c1.pr ++ [.leaf i (nextDue now stock r t) rest] }).2) := by
  refine ⟨?_, runCycle_leaf_yield pool now stock sid i r steps un c hg hdue hs ha⟩
  rw [(applyOps_doers pool now sid un ops c ha).1]
  exact foldl_remove_self pool i ops c.doers hops hself
end cyc

/-! ### (2, second half) a due deed left of the marker is resumed -/
section due
variable [Add τ] [LE τ] [DecidableRel (α := τ) (· ≤ ·)] [OfNat τ 0] [BEq τ]

/-- a due deed at the head of the unvisited part, whose id was not closed by a `remove` earlier in the cycle, is
resumed first thing (leaf or DoDoer) -/
theorem due_head_recurs (pool : List (Spec τ)) (now stock : τ) (sid : Id) (d : RT τ) (un : List (RT τ)) (c : Cyc τ)
    (hdue : d.retyme ≤ now) (hg : c.gone.contains d.id = false) :
    ∃ rest, (runCycle pool now stock sid (d :: un) c).1 = ev d.id .recur now :: rest :=
  runCycle_head_recur pool now stock sid d un c hdue hg

/-- a due deed anywhere left of the marker is resumed in this cycle, provided the cycle is not stopped by an
exception (no earlier deed raises) and the deed's id is not closed by a `remove` during the cycle -/
theorem due_deed_recurs (pool : List (Spec τ)) (now stock : τ) (sid : Id) (d : RT τ) (un : List (RT τ)) (c : Cyc τ)
    (hdue : d.retyme ≤ now) (hmem : d ∈ un)
    (hx : (runCycle pool now stock sid un c).2.2.2 = none)
    (hg : (runCycle pool now stock sid un c).2.2.1.gone.contains d.id = false) :
    ev d.id .recur now ∈ (runCycle pool now stock sid un c).1 :=
  runCycle_due_recurs pool now stock sid d hdue un c hmem hx hg

/-- (2) every deed an `extend` at `now` queued is resumed in any later cycle (`now ≤ now'`) of a scheduler whose
deque still holds it, unless that cycle is stopped by an exception or removes it before its turn -/
theorem extended_doer_recurs_next_cycle (pool : List (Spec τ)) (now : τ) (ks : List Nat) (c c' : Cyc τ)
    (es : List (Ev τ)) (raised : Bool) (h : extendList pool now ks c = (es, c', raised)) :
    ∃ news, c'.pr = c.pr ++ news ∧ ∀ d ∈ news,
      ∀ (pool' : List (Spec τ)) (now' stock : τ) (sid : Id) (deeds' : List (RT τ)) (c0 : Cyc τ),
        now ≤ now' → d ∈ deeds' →
        (runCycle pool' now' stock sid deeds' c0).2.2.2 = none →
        (runCycle pool' now' stock sid deeds' c0).2.2.1.gone.contains d.id = false →
        ev d.id .recur now' ∈ (runCycle pool' now' stock sid deeds' c0).1 := by
  obtain ⟨_, news, hpr, hn⟩ := extendList_pr pool now ks c h
  refine ⟨news, hpr, fun d hd pool' now' stock sid deeds' c0 hle hmem hx hg => ?_⟩
  exact runCycle_due_recurs pool' now' stock sid d (by rw [hn d hd]; exact hle) deeds' c0 hmem hx hg

/-- (2) the Doist corollary: the next cycle runs at `now + tock`; with lawful time and `0 ≤ tock` the extended deed
is due then -/
theorem extended_doer_recurs_next_doist_cycle [LawfulTyme τ] (pool : List (Spec τ)) (now tock : τ) (htock : 0 ≤ tock)
    (ks : List Nat) (c c' : Cyc τ) (es : List (Ev τ)) (raised : Bool)
    (h : extendList pool now ks c = (es, c', raised)) :
    ∃ news, c'.pr = c.pr ++ news ∧ ∀ d ∈ news, ∀ (deeds' : List (RT τ)) (doers' : List Id), d ∈ deeds' →
      (runCycle pool (now + tock) tock 0 deeds' { doers := doers' }).2.2.2 = none →
      (runCycle pool (now + tock) tock 0 deeds' { doers := doers' }).2.2.1.gone.contains d.id = false →
      ev d.id .recur (now + tock) ∈ (runCycle pool (now + tock) tock 0 deeds' { doers := doers' }).1 := by
  obtain ⟨news, hpr, hn⟩ := extended_doer_recurs_next_cycle pool now ks c c' es raised h
  exact ⟨news, hpr, fun d hd deeds' doers' hmem hx hg =>
    hn d hd pool (now + tock) tock 0 deeds' _ (LawfulTyme.le_add now tock htock) hmem hx hg⟩
end due

/-! ### non-vacuity (τ := Nat); the `decide`d facts are tests of the model, not part of the claims -/
section examples
private def exPool : List (Spec Nat) := [.leaf 10 .ok [], .leaf 11 .ok [], .leaf 12 .fail []]
private def exC : Cyc Nat := { pr := [.leaf 7 0 []], doers := [1, 7] }
private def exUn : List (RT Nat) := [.leaf 1 0 []]

-- doers_list_exact: an op list that does not raise; test: the resulting list and the snapshots
example : (applyOps exPool 5 0 exUn [.extend [0, 1, 0], .remove [10, 1], .extend [3, 0]] exC).2.2 = false := by decide
example : (applyOps exPool 5 0 exUn [.extend [0, 1, 0], .remove [10, 1], .extend [3, 0]] exC).2.1.doers = [7, 11, 10]
    ∧ snaps (applyOps exPool 5 0 exUn [.extend [0, 1, 0], .remove [10, 1], .extend [3, 0]] exC).1
        = [[1, 7, 10, 11], [7, 11], [7, 11, 10]] := by decide
-- doers_list_exact_raised: the enter of pool[2] fails; test: 10 was added, 12 and 11 were not
example : (applyOps exPool 5 0 exUn [.extend [0, 2, 1], .remove [7]] exC).2.2 = true
    ∧ (applyOps exPool 5 0 exUn [.extend [0, 2, 1], .remove [7]] exC).2.1.doers = [1, 7, 10] := by decide
-- extend_present_noop: its hypothesis holds for a non-empty call
example : ∀ k s, k ∈ [0, 5, 0] → exPool[k]? = some s → ([3, 10] : List Id).contains s.id = true := by
  intro k s hk hs
  simp only [List.mem_cons, List.not_mem_nil, or_false] at hk
  rcases hk with rfl | rfl | rfl
  · simp only [exPool, List.getElem?_cons_zero, Option.some.injEq] at hs; subst hs; decide
  · simp [exPool] at hs
  · simp only [exPool, List.getElem?_cons_zero, Option.some.injEq] at hs; subst hs; decide
-- extend_queues_right_of_marker / extend_enters_now: a call that really adds (test: two new deeds, one present)
example : (extendList exPool 5 [0, 1, 0] exC).2.1.doers = [1, 7, 10, 11]
    ∧ (extendList exPool 5 [0, 1, 0] exC).2.1.pr.length = 3 := by decide
-- remove (test): the hit deeds 7 (right of the marker) and 1 (left of it) are closed inside rmBeg … rmEnd; 9 is no doer
example : ((removeOp 5 0 exUn [1, 7, 9] exC).1.map (fun e => (e.id, e.kind)))
    = [(0, .rmBeg), (1, .cease), (1, .exit), (7, .cease), (7, .exit), (0, .rmEnd)]
    ∧ (removeOp 5 0 exUn [1, 7, 9] exC).2.doers = [] ∧ (removeOp 5 0 exUn [1, 7, 9] exC).2.gone = [1] := by decide
-- cycle_skips_removed
example : ({ gone := [1] } : Cyc Nat).gone.contains (RT.leaf 1 0 ([] : List (Step Nat))).id = true := by decide
-- self_remove_no_lifecycle_event / self_remove_keeps_running: leaf 7 runs (popped), removes itself and 1, then yields
example : Op.allRemove [.remove [7, 1]] = true ∧ (7 : Id) ∉ RT.liveIdsL (({ doers := [1, 7] } : Cyc Nat).pr ++ exUn)
    ∧ (applyOps exPool 5 0 exUn [.remove [7, 1]] { doers := [1, 7] }).2.2 = false
    ∧ (∃ ids, Op.remove ids ∈ [Op.remove [7, 1]] ∧ 7 ∈ ids) := by
  refine ⟨by decide, by decide, by decide, [7, 1], by simp, by simp⟩
example : ({ doers := [1, 7] } : Cyc Nat).gone.contains 7 = false ∧ (0 : Nat) ≤ 5
    ∧ headStep [(⟨[.remove [7, 1]], .yieldT none⟩ : Step Nat)] = (⟨[.remove [7, 1]], .yieldT none⟩, []) :=
  ⟨by decide, by decide, rfl⟩
-- test: in that cycle the removed doer 1 (still left of the marker) is closed and skipped, 7 is re-queued
example : ((runCycle exPool 5 1 0 (.leaf 7 0 [⟨[.remove [7, 1]], .yieldT none⟩] :: exUn) { doers := [1, 7] }).1.map
      (fun e => (e.id, e.kind)))
    = [(7, .recur), (0, .rmBeg), (1, .cease), (1, .exit), (0, .rmEnd), (0, .doers [])]
    ∧ (runCycle exPool 5 1 0 (.leaf 7 0 [⟨[.remove [7, 1]], .yieldT none⟩] :: exUn) { doers := [1, 7] }).2.2.1.pr.map RT.id
        = [7] := by decide
-- extend_runs_next_cycle: its hypotheses hold for leaf 7 extending with pool[0] (not gone, due, yields, ops do not raise)
example : ({ doers := [1, 7] } : Cyc Nat).gone.contains 7 = false ∧ (0 : Nat) ≤ 5
    ∧ headStep [(⟨[.extend [0]], .yieldT none⟩ : Step Nat)] = (⟨[.extend [0]], .yieldT none⟩, [])
    ∧ (applyOps exPool 5 0 exUn [.extend [0]] { doers := [1, 7] }).2.2 = false :=
  ⟨by decide, by decide, rfl, by decide⟩
-- test: 10 is entered at 5 but not resumed in this cycle
example : ((runCycle exPool 5 1 0 (.leaf 7 0 [⟨[.extend [0]], .yieldT none⟩] :: exUn) { doers := [1, 7] }).1.map
      (fun e => (e.id, e.kind)))
    = [(7, .recur), (10, .flag false), (10, .enter), (0, .doers [1, 7, 10]),
       (1, .recur), (1, .clean), (1, .exit), (1, .flag true)]
    ∧ (runCycle exPool 5 1 0 (.leaf 7 0 [⟨[.extend [0]], .yieldT none⟩] :: exUn) { doers := [1, 7] }).2.2.1.pr.map RT.id
        = [10, 7] := by decide
-- extended_doer_recurs_next_doist_cycle: the deed `extend [0]` queues at 5 is `.leaf 10 5 []`; the Doist's next cycle
-- (tyme 6, `0 ≤ 1`) over the deque left by the extend cycle above returns no exception and does not remove 10
example : (extendList exPool 5 [0] { doers := [1, 7] }).2.1.pr = [.leaf 10 5 []] := rfl
example : (0 : Nat) ≤ 1 ∧ (runCycle exPool (5 + 1) 1 0 [.leaf 10 5 [], .leaf 7 6 []] { doers := [1, 7, 10] }).2.2.2 = none
    ∧ (runCycle exPool (5 + 1) 1 0 [.leaf 10 5 [], .leaf 7 6 []] { doers := [1, 7, 10] }).2.2.1.gone.contains 10 = false := by
  decide
-- test: and indeed 10 recurs at 6
example : ((runCycle exPool (5 + 1) 1 0 [.leaf 10 5 [], .leaf 7 6 []] { doers := [1, 7, 10] }).1.map
      (fun e => (e.id, e.kind, e.tyme))).take 1 = [(10, .recur, 6)] := by decide
end examples

end Hio.Sched
