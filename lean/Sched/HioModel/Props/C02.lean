import HioModel.Sched.LemmasC02
import HioModel.Sched.Lemmas2C02
import HioModel.Sched.Thm3C02
/-!
# C02 — a stopping scheduler exits every live doer, in reverse enter order, children first

Property: "When a scheduler stops while doers are still alive (limit, exception, removal, or its
parent closing it), every still-alive doer is exited before the scheduler's run returns or raises.
The forced exits happen in the reverse of the order the doers were entered, and a DoDoer's children
exit before the DoDoer itself."

Model: `HioModel/Sched/Model.lean` (every function returns its events; deque = zipper `(un, pr)`;
`closeAllRev` = `exit()` popping from the right; `exitEnd g` = DoDoer g's `exit()` returned).
Helpers: `HioModel/Sched/LemmasC02.lean` (namespace `Hio.Sched.C02`).

## Clauses

* "every still-alive doer is exited before run returns or raises": `forced_exit_before_return`
  (A, full strength: every program incl. extend, remove, KeyboardInterrupt, duplicate ids, any fuel)
  and `group_exit_balanced`.
* shape of one forced stop, "reverse order", at every state: `forced_close_reverse_nested` (B).
* "children exit before the DoDoer itself": `children_before_parent` (close path),
  `children_before_parent_raised` (DoDoer.do raising in mid cycle),
  `children_before_parent_enter_fail` (enter of a kid fails), `clean_group_has_no_live_child` (C).
* "reverse of the order the doers were entered": the deque order is what is reversed (B); that the
  deque order IS the enter order is

  **full-strength statement (FALSE, pre-finding F03)**
  ```
  theorem forced_exit_order : ∀ pool tock start limit fuel specs,
      ∃ pre ds, (doistDo pool tock start limit fuel specs).evs
                  = pre ++ stopEvs (doistDo pool tock start limit fuel specs).tyme ds
        ∧ (ds.map RT.id).Sublist ((pre.filter (fun e => e.kind == .enter)).map (·.id))
  ```
  (the deeds `ds` closed by the final `Doist.exit()`, which by (B) are closed right to left, are in
  the order in which they were entered).  It fails because of F03 (kept in the model as the code
  behaves): a doer extended in mid cycle is appended to `pr` BEFORE the running extender is
  re-appended, so after an `extend` the deque order is no longer the enter order.
  Proved instead: `deque_keeps_enter_order_partial`, `enter_keeps_spec_order` (D) and
  `forced_exit_order_partial` (E) under the guard "no top-level leaf of this scheduler extends"
  (`levelNoExtend` / `topNoExtend`; nested DoDoers may extend, that only affects their own deque),
  and the witness `forced_exit_order_fails_after_extend` (F, `decide`): all doers are top-level
  leaves, enter order 1,2,3,5 (5 extended by 2 in cycle 1), the limit stop exits 3,2,5,1, and
  `[1,5,2,3]` is not a sublist of `[1,2,3,5]`.  (E) has exactly the shape of the full-strength
  statement plus the guard; the witness is stated on the concrete id lists, not as the literal
  negation of the `∃ pre ds`.

## Nested DoDoers, whole lifetime (G)
`Fits s rt` / `FitsL ss ds` (LemmasC02): the live doer tree embeds, order preserving and recursively,
into the spec tree (same ids; a DoDoer's live deeds are, in order, a sub-selection of its kids).
Guard: `Spec.allStepsL stepsNoExtend specs` / `RT.allStepsL stepsNoExtend deeds` (no leaf at any depth
among the entered doers extends; pools are then never entered).
`enter_establishes_nested_order`, `cycle_keeps_nested_order_partial` (every scheduler, every cycle),
`dodoer_yield_keeps_nested_order_partial`, and the close sites `dodoer_raise_closes_in_order_partial`,
`removed_closed_in_order`, enter failure (in `enter_establishes_nested_order`), parent close
(`fits_means_reverse_enter_order`, which spells out what `FitsL` means for `closeAllRev`), final stop
`forced_exit_order_nested_partial`.

## Second-generation model `Hio.Sched2` (`Model2.lean`; helpers `Lemmas2C02.lean`)
Every theorem below is ported (suffix `2`, namespace `Hio.Sched2`, at the end of this file), with all
exception kinds at steps and enters (`err | kbint | sysexit`; only `err` aborts), `cleanFails` on
leaves and DoDoers, extend, remove:
`forced_exit_before_return2`, `group_exit_balanced2` (no hypothesis), `forced_close_reverse_nested2`,
`children_before_parent2`, `children_before_parent_enter_fail2` (any kind `x`),
`children_before_parent_raised2` (covers ALL raise paths of a DoDoer, including its own failing clean
after it finished by itself: then the closed list is `[]` and `pre` ends with `clean`),
`clean_group_has_no_live_child2` (self-finish: `clean, exit, exitEnd`, no live child, and the result
is `.finished` iff `cleanFails = false`, else `.raised .err`), `deque_keeps_enter_order2_partial`,
`enter_keeps_spec_order2`, `forced_exit_order2_partial`, `fits_means_reverse_enter_order2`,
`enter_establishes_nested_order2`, `removed_closed_in_order2`, `cycle_keeps_nested_order2_partial`,
`dodoer_yield_keeps_nested_order2_partial`, `dodoer_raise_closes_in_order2_partial`,
`forced_exit_order_nested2_partial`, `forced_exit_order_fails_after_extend2` (F03 witness).
The same "Not done" items apply.  Nothing here depends on `Embed.lean`.

## Not done
* "every forced close anywhere in the run closes a fitting list" is not stated as ONE predicate on the
  trace `f.evs`: it is the conjunction of the invariant-preservation theorems (the nested schedulers'
  deques fit at every cycle boundary, by the mutual induction `runCycle_fits`/`resumeGroup_fits`) and
  the per-close-site theorems, each of which exhibits the closed list `ds` with `FitsL kids ds`.
* The nested statement relates closed deeds to the kids order of the spec (= the order `enterList`
  enters them); the bridge to the positions of the `enter` events in the trace is proved at Doist
  level only (third conjunct of `forced_exit_order_partial`).
* (F)/the full-strength statement: see above; the witness is on concrete id lists.
-/
namespace Hio.Sched
open C02
variable {τ : Type}

/-! ### (B) one forced stop = complete close blocks of the live deeds in reverse deque order -/

theorem forced_close_reverse_nested (now : τ) (ds a b : List (RT τ)) :
    closeAllRev now ds = (ds.reverse.map (closeRT now)).flatten
    ∧ closeAllRev now (a ++ b) = closeAllRev now b ++ closeAllRev now a
    ∧ stopEvs now ds
        = ev 0 .stopBeg now :: ((ds.reverse.map (closeRT now)).flatten ++ [ev 0 .stopEnd now]) := by
  refine ⟨closeAllRev_eq_flatten now ds, closeAllRev_append now a b, ?_⟩
  simp [stopEvs, closeAllRev_eq_flatten now ds]

/-! ### (C) children before parent -/

/-- closing a live DoDoer: all its live descendants are exited strictly between its `exit` and its
`exitEnd`; nothing is entered -/
theorem children_before_parent (now : τ) (i : Id) (r t : τ) (a : Bool) (p : List (Spec τ)) (d : List Id)
    (deeds : List (RT τ)) :
    closeRT now (.group i r t a p d deeds)
      = ev i .cease now :: ev i .exit now :: (closeAllRev now deeds ++ [ev i .exitEnd now])
    ∧ (∀ j, countK .exit j (closeAllRev now deeds) = (RT.liveIdsL deeds).count j)
    ∧ (∀ j, countK .enter j (closeAllRev now deeds) = 0) := by
  refine ⟨by simp [closeRT], fun j => (closeAllRev_count now j deeds).1, fun j => (closeAllRev_count now j deeds).2⟩

/-- a DoDoer whose kid fails to enter: the kids entered so far (`ds`, all of them still live by the
balance) are closed between the DoDoer's `exit` and `exitEnd` -/
theorem children_before_parent_enter_fail (now : τ) (i : Id) (t : τ) (a : Bool) (kids pool : List (Spec τ))
    (es : List (Ev τ)) (r : Option (RT τ))
    (h : enterSpec now (.group i t a kids pool) = (es, r, true)) :
    ∃ pre ds, es = pre ++ [ev i .exit now] ++ closeAllRev now ds ++ [ev i .exitEnd now]
      ∧ ∀ j, countK .enter j pre = countK .exit j pre + (i :: RT.liveIdsL ds).count j :=
  enterSpec_group_fail_shape now i t a kids pool es r h

example : ∃ es, enterSpec (0 : Nat) gFailSpec = (es, none, true) := ⟨_, rfl⟩

section Timed
variable [Add τ] [LE τ] [DecidableRel (α := τ) (· ≤ ·)] [OfNat τ 0] [BEq τ]

/-- a DoDoer whose `do` raises in mid cycle (a deed raised, or an enter inside extend): what was
still live in its deque (`ds`, by the balance) is closed between its `exit` and `exitEnd` -/
theorem children_before_parent_raised (now : τ) (i : Id) (r tock : τ) (always : Bool) (pool : List (Spec τ))
    (doers : List Id) (deeds : List (RT τ)) (es : List (Ev τ)) (x : Exn)
    (h : resumeGroup now (.group i r tock always pool doers deeds) = (es, .raised x)) :
    ∃ pre ds, es = pre ++ [ev i .exit now] ++ closeAllRev now ds ++ [ev i .exitEnd now]
      ∧ ∀ j, countK .enter j pre + (RT.liveIdsL deeds).count j
              = countK .exit j pre + (RT.liveIdsL ds).count j :=
  resumeGroup_raised_shape now i r tock always pool doers deeds es x h

example : ∃ es, resumeGroup 0 gRaise = (es, .raised .kbint) := ⟨_, rfl⟩

/-- a DoDoer that completes: when it logs `clean, exit, exitEnd` no deed of it is live any more -/
theorem clean_group_has_no_live_child (now : τ) (i : Id) (r tock : τ) (always : Bool) (pool : List (Spec τ))
    (doers : List Id) (deeds : List (RT τ)) (es : List (Ev τ))
    (h : resumeGroup now (.group i r tock always pool doers deeds) = (es, .finished)) :
    ∃ pre, es = pre ++ [ev i .clean now, ev i .exit now, ev i .exitEnd now]
      ∧ ∀ j, countK .enter j pre + (RT.liveIdsL deeds).count j = countK .exit j pre :=
  resumeGroup_finished_shape now i r tock always pool doers deeds es h

example : ∃ es, resumeGroup 0 gFinish = (es, .finished) := ⟨_, rfl⟩

/-! ### (A) every doer entered is exited before `Doist.do` returns or raises (full strength) -/

theorem forced_exit_before_return (pool : List (Spec τ)) (tock start : τ) (limit : Option τ) (fuel : Nat)
    (specs : List (Spec τ)) :
    ∀ i, countK .enter i (doistDo pool tock start limit fuel specs).evs
          = countK .exit i (doistDo pool tock start limit fuel specs).evs :=
  fun i => doistDo_count pool tock start limit fuel specs i

/-- a DoDoer's `exit()` never returns more often than it was started (with (A): every `exitEnd g` is
paired with an `exit g` of an entered `g`) -/
theorem group_exit_balanced (pool : List (Spec τ)) (tock start : τ) (limit : Option τ) (fuel : Nat)
    (specs : List (Spec τ)) :
    ∀ i, countK .exitEnd i (doistDo pool tock start limit fuel specs).evs
          ≤ countK .exit i (doistDo pool tock start limit fuel specs).evs :=
  fun i => doistDo_le pool tock start limit fuel specs i

/-! ### (D) a cycle without top-level extend only deletes from the deque -/

/-- one pass of `recur` over a deque `un ++ [marker] ++ pr` none of whose unvisited leaves extends:
the ids of the deque afterwards (`pr' ++ un'`) are an order-preserving sublist of the ids before,
and the guard is kept (remaining scripts are tails) -/
theorem deque_keeps_enter_order_partial (pool : List (Spec τ)) (now stock : τ) (sid : Id)
    (un : List (RT τ)) (c : Cyc τ) (es : List (Ev τ)) (un' : List (RT τ)) (c' : Cyc τ) (x : Option Exn)
    (hg : levelNoExtend un = true)
    (h : runCycle pool now stock sid un c = (es, un', c', x)) :
    ((c'.pr ++ un').map RT.id).Sublist ((c.pr ++ un).map RT.id)
    ∧ (levelNoExtend c.pr = true → levelNoExtend (c'.pr ++ un') = true) := by
  have := runCycle_order pool now stock sid un c hg
  rw [h] at this
  exact this

example : levelNoExtend [RT.leaf 1 0 [y0], gRaise, RT.leaf 4 0 [⟨[.remove [1]], .yieldT none⟩]] = true := by
  decide

end Timed

/-- `enter()` keeps the order of the specs; entered leaves keep their scripts, so the guard on the
specs is the guard on the deque -/
theorem enter_keeps_spec_order (now : τ) (specs : List (Spec τ)) :
    ((enterList now specs).2.1.map RT.id).Sublist (specs.map Spec.id)
    ∧ (topNoExtend specs = true → levelNoExtend (enterList now specs).2.1 = true)
    ∧ (∀ i act steps rt, (enterSpec now (.leaf i act steps)).2.1 = some rt → rt = .leaf i now steps) := by
  refine ⟨(enterList_order now specs).1, (enterList_order now specs).2, ?_⟩
  intro i act steps rt h
  cases act <;> simp [enterSpec] at h
  exact h.symm

section Timed
variable [Add τ] [LE τ] [DecidableRel (α := τ) (· ≤ ·)] [OfNat τ 0] [BEq τ]

/-! ### (E) the final stop of a run without top-level extend closes the live doers in reverse enter order -/

/-- every run ends with ONE stop episode `stopEvs tyme ds`; the deeds `ds` it closes (right to left,
by `forced_close_reverse_nested`) are in `specs` order and in the order of their `enter` events -/
theorem forced_exit_order_partial (pool : List (Spec τ)) (tock start : τ) (limit : Option τ) (fuel : Nat)
    (specs : List (Spec τ)) (hg : topNoExtend specs = true) :
    ∃ pre ds, (doistDo pool tock start limit fuel specs).evs
                = pre ++ stopEvs (doistDo pool tock start limit fuel specs).tyme ds
      ∧ (ds.map RT.id).Sublist (specs.map Spec.id)
      ∧ (ds.map RT.id).Sublist ((pre.filter (fun e => e.kind == .enter)).map (·.id)) :=
  doistDo_order_enter pool tock start limit fuel specs hg

example : topNoExtend okSpecs = true := by decide
/-- test (not the unbounded claim): in that run DoDoer 2 raises in cycle 2 with its extended kid 6
live; exits are 3, 2(6 inside), then the forced stop closes 4 before 1 -/
example : ((doistDo [] 1 0 none 10 okSpecs).evs.filter (fun e => e.kind == .exit)).map (·.id) = [3, 2, 6, 4, 1] := by
  decide

end Timed

/-! ### (G) nested DoDoers, whole lifetime: at every level and over all cycles the live deeds of a
scheduler stay an order-preserving sub-selection of the doers it entered (deep no-extend guard) -/

/-- what `FitsL ss ds` (`ds` embeds in order into the specs `ss`, recursively) says about a forced
close of `ds`: it runs through `ds` from the right, `ds` is in spec (= enter) order, and every closed
DoDoer in turn closes, between its `exit` and `exitEnd`, a deeds list that `FitsL` its own kids -/
theorem fits_means_reverse_enter_order (now : τ) (ss : List (Spec τ)) (ds : List (RT τ)) (h : FitsL ss ds) :
    closeAllRev now ds = (ds.reverse.map (closeRT now)).flatten
    ∧ (ds.map RT.id).Sublist (ss.map Spec.id)
    ∧ ∀ d, d ∈ ds → ∃ s, s ∈ ss ∧ Fits s d ∧ d.id = s.id ∧
        ∀ i t a kids pool, s = .group i t a kids pool →
          ∃ r t' a' p dd deeds, d = .group i r t' a' p dd deeds ∧ FitsL kids deeds
            ∧ closeRT now d
                = ev i .cease now :: ev i .exit now :: (closeAllRev now deeds ++ [ev i .exitEnd now]) := by
  refine ⟨closeAllRev_eq_flatten now ds, FitsL_ids ss ds h, ?_⟩
  intro d hd
  obtain ⟨s, hs, hf⟩ := FitsL_mem ss ds h d hd
  refine ⟨s, hs, hf, Fits_id s d hf, ?_⟩
  intro i t a kids pool hsg
  subst hsg
  obtain ⟨r, t', a', p, dd, deeds, rfl, hk⟩ := Fits_group_inv i t a kids pool d hf
  exact ⟨r, t', a', p, dd, deeds, rfl, hk, by simp [closeRT]⟩

example : FitsL nestKids nestDeeds := by simp [FitsL, Fits, nestKids, nestDeeds]

/-- `enter()` establishes the invariant (and hands the deep guard from the specs to the deeds); a
DoDoer whose kid fails to enter closes the kids entered so far, which fit -/
theorem enter_establishes_nested_order (now : τ) (specs : List (Spec τ)) :
    FitsL specs (enterList now specs).2.1
    ∧ (Spec.allStepsL stepsNoExtend specs = true → RT.allStepsL stepsNoExtend (enterList now specs).2.1 = true)
    ∧ (∀ i t a kids pool es r, enterSpec now (.group i t a kids pool) = (es, r, true) →
        ∃ pre ds, es = pre ++ [ev i .exit now] ++ closeAllRev now ds ++ [ev i .exitEnd now] ∧ FitsL kids ds) :=
  ⟨(enterList_fits now stepsNoExtend specs).1, (enterList_fits now stepsNoExtend specs).2,
   fun i t a kids pool es r h => enterSpec_group_fail_fits now i t a kids pool es r h⟩

/-- a `remove()` closes (from the right) a sub-selection of the deque, which therefore still fits -/
theorem removed_closed_in_order (now : τ) (sid : Id) (un : List (RT τ)) (ids : List Id) (c : Cyc τ)
    (ss : List (Spec τ)) (hf : FitsL ss (c.pr ++ un)) :
    ∃ ds, (removeOp now sid un ids c).1 = ev sid .rmBeg now :: (closeAllRev now ds ++ [ev sid .rmEnd now])
      ∧ FitsL ss ds := by
  obtain ⟨ds, h1, h2⟩ := removeOp_closes_sublist now sid un ids c
  exact ⟨ds, h1, FitsL_sublist ss h2 hf⟩

section Timed
variable [Add τ] [LE τ] [DecidableRel (α := τ) (· ≤ ·)] [OfNat τ 0] [BEq τ]

/-- one pass of `recur` of ANY scheduler (Doist or DoDoer) keeps the invariant and the deep guard -/
theorem cycle_keeps_nested_order_partial (pool : List (Spec τ)) (now stock : τ) (sid : Id)
    (un : List (RT τ)) (c : Cyc τ) (es : List (Ev τ)) (un' : List (RT τ)) (c' : Cyc τ) (x : Option Exn)
    (hun : RT.allStepsL stepsNoExtend un = true) (hpr : RT.allStepsL stepsNoExtend c.pr = true)
    (h : runCycle pool now stock sid un c = (es, un', c', x)) :
    RT.allStepsL stepsNoExtend (c'.pr ++ un') = true
    ∧ ∀ ss, FitsL ss (c.pr ++ un) → FitsL ss (c'.pr ++ un') := by
  have := runCycle_fits now pool stock sid un c hun hpr
  rw [h] at this
  exact this

example : RT.allStepsL stepsNoExtend nestDeeds = true := by decide

/-- a DoDoer that yields after its cycle still fits every spec it fitted before -/
theorem dodoer_yield_keeps_nested_order_partial (now : τ) (i : Id) (r tock : τ) (always : Bool)
    (pool : List (Spec τ)) (doers : List Id) (deeds : List (RT τ)) (es : List (Ev τ)) (rt' : RT τ) (t : τ)
    (hg : RT.allStepsL stepsNoExtend deeds = true)
    (h : resumeGroup now (.group i r tock always pool doers deeds) = (es, .yielded rt' t)) :
    rt'.allSteps stepsNoExtend = true
    ∧ ∀ s, Fits s (.group i r tock always pool doers deeds) → Fits s rt' := by
  have := resumeGroup_fits now (.group i r tock always pool doers deeds)
  dsimp only at this
  exact this hg rt' t (by rw [h])

example : ∃ es rt t, resumeGroup 0 (.group 2 0 0 false [] [3] [.leaf 3 0 [y0, y0]]) = (es, .yielded rt t) :=
  ⟨_, _, _, rfl⟩

/-- a DoDoer whose `do` raises in mid cycle (here possibly because a DoDoer nested in it raised) closes,
between its `exit` and `exitEnd`, a deeds list that fits its kids: reverse enter order, recursively -/
theorem dodoer_raise_closes_in_order_partial (now : τ) (i : Id) (r tock : τ) (always : Bool)
    (pool : List (Spec τ)) (doers : List Id) (deeds : List (RT τ)) (es : List (Ev τ)) (x : Exn)
    (kids : List (Spec τ))
    (hg : RT.allStepsL stepsNoExtend deeds = true) (hf : FitsL kids deeds)
    (h : resumeGroup now (.group i r tock always pool doers deeds) = (es, .raised x)) :
    ∃ pre ds, es = pre ++ [ev i .exit now] ++ closeAllRev now ds ++ [ev i .exitEnd now]
      ∧ FitsL kids ds ∧ RT.allStepsL stepsNoExtend ds = true :=
  resumeGroup_raised_fits now i r tock always pool doers deeds es x kids hg hf h

/-- two levels: the inner DoDoer 4 raises in mid cycle (5 done and removed, 7 unvisited), so 2 raises -/
example : ∃ es, resumeGroup 0 (.group 2 0 0 false [] [3, 4, 8] nestDeeds) = (es, .raised .err) := ⟨_, rfl⟩

/-- whole run, deep guard: the final stop closes deeds that fit `specs`; together with the four
theorems above (every cycle of every scheduler keeps `FitsL`, every close site closes a fitting list)
forced exits are in reverse enter order at every depth -/
theorem forced_exit_order_nested_partial (pool : List (Spec τ)) (tock start : τ) (limit : Option τ)
    (fuel : Nat) (specs : List (Spec τ)) (hg : Spec.allStepsL stepsNoExtend specs = true) :
    topNoExtend specs = true
    ∧ ∃ pre ds, (doistDo pool tock start limit fuel specs).evs
                  = pre ++ stopEvs (doistDo pool tock start limit fuel specs).tyme ds
        ∧ FitsL specs ds ∧ (ds.map RT.id).Sublist (specs.map Spec.id) := by
  refine ⟨topNoExtend_of_deep specs hg, ?_⟩
  obtain ⟨pre, ds, h1, h2, _⟩ := doistDo_fits pool tock start limit fuel specs hg
  exact ⟨pre, ds, h1, h2, FitsL_ids specs ds h2⟩

example : Spec.allStepsL stepsNoExtend nestSpecs = true := by decide
/-- test (not the unbounded claim): in cycle 2 leaf 6 removes 5 and raises: 4 closes 7, 2 closes 8 then 3,
the Doist closes 9 then 1 -/
example : ((doistDo [] 1 0 none 10 nestSpecs).evs.filter (fun e => e.kind == .exit)).map (·.id)
    = [5, 6, 4, 7, 2, 8, 3, 9, 1] := by decide

end Timed

/-! ### (F) witness for F03: after a top-level extend the forced exits are NOT in reverse enter order -/

theorem forced_exit_order_fails_after_extend :
    ∀ f, f = doistDo [.leaf 5 .ok [y0, y0, y0, y0]] 1 0 (some 2) 10
              [.leaf 1 .ok [y0, y0, y0, y0],
               .leaf 2 .ok [⟨[.extend [0]], .yieldT (some 0)⟩, y0, y0, y0],
               .leaf 3 .ok [y0, y0, y0, y0]] →
      (f.evs.filter (fun e => e.kind == .enter)).map (·.id) = [1, 2, 3, 5]
      ∧ (f.evs.filter (fun e => e.kind == .exit)).map (·.id) = [3, 2, 5, 1]
      ∧ ¬ ([3, 2, 5, 1].reverse).Sublist [1, 2, 3, 5] := by
  intro f hf
  subst hf
  decide

end Hio.Sched

/-! ## The same property on the second-generation model `Hio.Sched2` (`Model2.lean`)

Exception kinds (`err | kbint | sysexit`, abort context for `err` only), enters raising any kind,
`cleanFails` on leaves and DoDoers.  Names carry a `2`; helpers in `Lemmas2C02.lean`
(`Hio.Sched2.C02`, with `liveIdsL`, `stepsNoExtend`, `specAllStepsL`, `rtAllStepsL`, `Fits`, `FitsL`
restated for `RT2`/`Spec2`).  Independent of `Embed.lean`. -/
namespace Hio.Sched2
open Hio.Sched (Id Kind Ev ev countK)
open C02
variable {τ : Type}

/-! ### (B2) -/
theorem forced_close_reverse_nested2 (now : τ) (ds a b : List (RT2 τ)) :
    closeAllRev now ds = (ds.reverse.map (closeRT now)).flatten
    ∧ closeAllRev now (a ++ b) = closeAllRev now b ++ closeAllRev now a
    ∧ stopEvs now ds
        = ev 0 .stopBeg now :: ((ds.reverse.map (closeRT now)).flatten ++ [ev 0 .stopEnd now]) := by
  refine ⟨closeAllRev_eq_flatten now ds, closeAllRev_append now a b, ?_⟩
  simp [stopEvs, closeAllRev_eq_flatten now ds]

/-! ### (C2) children before parent -/
theorem children_before_parent2 (now : τ) (i : Id) (r t : τ) (a : Bool) (p : List (Spec2 τ)) (d : List Id)
    (deeds : List (RT2 τ)) (cf : Bool) :
    closeRT now (.group i r t a p d deeds cf)
      = ev i .cease now :: ev i .exit now :: (closeAllRev now deeds ++ [ev i .exitEnd now])
    ∧ (∀ j, countK .exit j (closeAllRev now deeds) = (liveIdsL deeds).count j)
    ∧ (∀ j, countK .enter j (closeAllRev now deeds) = 0) := by
  refine ⟨by simp [closeRT], fun j => (closeAllRev_count now j deeds).1, fun j => (closeAllRev_count now j deeds).2⟩

/-- a kid's enter raises an exception of ANY kind `x` (or its clean fails at enter): the kids entered
so far are closed between the DoDoer's `exit` and `exitEnd` -/
theorem children_before_parent_enter_fail2 (now : τ) (i : Id) (t : τ) (a : Bool) (kids pool : List (Spec2 τ))
    (cf : Bool) (es : List (Ev τ)) (r : Option (RT2 τ)) (x : Exn2)
    (h : enterSpec now (.group i t a kids pool cf) = (es, r, some x)) :
    ∃ pre ds, es = pre ++ [ev i .exit now] ++ closeAllRev now ds ++ [ev i .exitEnd now]
      ∧ ∀ j, countK .enter j pre = countK .exit j pre + (i :: liveIdsL ds).count j :=
  enterSpec_group_fail_shape now i t a kids pool cf es r x h

example : ∃ es, enterSpec (0 : Nat) gFailSpec = (es, none, some .kbint) := ⟨_, rfl⟩

section Timed
variable [Add τ] [LE τ] [DecidableRel (α := τ) (· ≤ ·)] [OfNat τ 0] [BEq τ]

/-- EVERY way a DoDoer's `do` raises (a deed raised any kind, a deed's clean failed, an enter inside
extend raised, or the DoDoer's own clean failed after it finished by itself — then `ds = []`): what
was still live in its deque (`ds`, by the balance) is closed between its `exit` and `exitEnd` -/
theorem children_before_parent_raised2 (now : τ) (i : Id) (r tock : τ) (always : Bool) (pool : List (Spec2 τ))
    (doers : List Id) (deeds : List (RT2 τ)) (cf : Bool) (es : List (Ev τ)) (x : Exn2)
    (h : resumeGroup now (.group i r tock always pool doers deeds cf) = (es, .raised x)) :
    ∃ pre ds, es = pre ++ [ev i .exit now] ++ closeAllRev now ds ++ [ev i .exitEnd now]
      ∧ ∀ j, countK .enter j pre + (liveIdsL deeds).count j
              = countK .exit j pre + (liveIdsL ds).count j :=
  resumeGroup_raised_shape now i r tock always pool doers deeds cf es x h

example : ∃ es, resumeGroup 0 gRaise = (es, .raised .kbint) := ⟨_, rfl⟩
/-- a deed returns but its clean action raises: the DoDoer raises `.err` with deed 8 still live -/
example : ∃ es, resumeGroup 0 gLeafCleanFail = (es, .raised .err) := ⟨_, rfl⟩

/-- a DoDoer that finishes by itself (its cycle did not raise, it does not yield): it logs
`clean, exit, exitEnd` with no deed of it live any more, and either its clean action succeeded
(`.finished`) or failed (`cleanFails`, `.raised .err` reaches the parent) -/
theorem clean_group_has_no_live_child2 (now : τ) (i : Id) (r tock : τ) (always : Bool) (pool : List (Spec2 τ))
    (doers : List Id) (deeds : List (RT2 τ)) (cf : Bool) (es : List (Ev τ)) (res : Res2 τ)
    (h : resumeGroup now (.group i r tock always pool doers deeds cf) = (es, res))
    (hr : (runCycle pool now tock i deeds { doers := doers }).2.2.2 = none)
    (hy : ∀ rt t, res ≠ .yielded rt t) :
    (∃ pre, es = pre ++ [ev i .clean now, ev i .exit now, ev i .exitEnd now]
      ∧ ∀ j, countK .enter j pre + (liveIdsL deeds).count j = countK .exit j pre)
    ∧ ((cf = true ∧ res = .raised .err) ∨ (cf = false ∧ res = .finished)) :=
  resumeGroup_self_finish_shape now i r tock always pool doers deeds cf es res h hr hy

example : ∃ es, resumeGroup 0 gFinish = (es, .finished) := ⟨_, rfl⟩
example : ∃ es, resumeGroup 0 gCleanFail = (es, .raised .err) := ⟨_, rfl⟩
example : (runCycle [] 0 0 2 [.leaf 3 0 [⟨[], .ret none⟩] false] { doers := [3] }).2.2.2 = (none : Option Exn2) := rfl

/-! ### (A2) full strength: all exception kinds at steps and enters, cleanFails, extend, remove -/
theorem forced_exit_before_return2 (pool : List (Spec2 τ)) (tock start : τ) (limit : Option τ) (fuel : Nat)
    (specs : List (Spec2 τ)) :
    ∀ i, countK .enter i (doistDo pool tock start limit fuel specs).evs
          = countK .exit i (doistDo pool tock start limit fuel specs).evs :=
  fun i => doistDo_count pool tock start limit fuel specs i

theorem group_exit_balanced2 (pool : List (Spec2 τ)) (tock start : τ) (limit : Option τ) (fuel : Nat)
    (specs : List (Spec2 τ)) :
    ∀ i, countK .exitEnd i (doistDo pool tock start limit fuel specs).evs
          ≤ countK .exit i (doistDo pool tock start limit fuel specs).evs :=
  fun i => doistDo_le pool tock start limit fuel specs i

/-! ### (D2) -/
theorem deque_keeps_enter_order2_partial (pool : List (Spec2 τ)) (now stock : τ) (sid : Id)
    (un : List (RT2 τ)) (c : Cyc2 τ) (es : List (Ev τ)) (un' : List (RT2 τ)) (c' : Cyc2 τ) (x : Option Exn2)
    (hg : levelNoExtend un = true)
    (h : runCycle pool now stock sid un c = (es, un', c', x)) :
    ((c'.pr ++ un').map RT2.id).Sublist ((c.pr ++ un).map RT2.id)
    ∧ (levelNoExtend c.pr = true → levelNoExtend (c'.pr ++ un') = true) := by
  have := runCycle_order pool now stock sid un c hg
  rw [h] at this
  exact this

example : levelNoExtend [RT2.leaf 1 0 [y0] true, gRaise, RT2.leaf 4 0 [⟨[.remove [1]], .yieldT none⟩] false] = true := by
  decide

end Timed

theorem enter_keeps_spec_order2 (now : τ) (specs : List (Spec2 τ)) :
    ((enterList now specs).2.1.map RT2.id).Sublist (specs.map Spec2.id)
    ∧ (topNoExtend specs = true → levelNoExtend (enterList now specs).2.1 = true)
    ∧ (∀ i act steps cf rt, (enterSpec now (.leaf i act steps cf)).2.1 = some rt → rt = .leaf i now steps cf) := by
  refine ⟨(enterList_order now specs).1, (enterList_order now specs).2, ?_⟩
  intro i act steps cf rt h
  cases act with
  | ok => simp [enterSpec] at h; exact h.symm
  | fail x => simp [enterSpec] at h
  | done v => cases cf <;> simp [enterSpec] at h

section Timed
variable [Add τ] [LE τ] [DecidableRel (α := τ) (· ≤ ·)] [OfNat τ 0] [BEq τ]

/-! ### (E2) -/
theorem forced_exit_order2_partial (pool : List (Spec2 τ)) (tock start : τ) (limit : Option τ) (fuel : Nat)
    (specs : List (Spec2 τ)) (hg : topNoExtend specs = true) :
    ∃ pre ds, (doistDo pool tock start limit fuel specs).evs
                = pre ++ stopEvs (doistDo pool tock start limit fuel specs).tyme ds
      ∧ (ds.map RT2.id).Sublist (specs.map Spec2.id)
      ∧ (ds.map RT2.id).Sublist ((pre.filter (fun e => e.kind == .enter)).map (·.id)) :=
  doistDo_order_enter pool tock start limit fuel specs hg

example : topNoExtend okSpecs = true := by decide
/-- test (not the unbounded claim): DoDoer 2 raises SystemExit in cycle 2 (no abort) with its extended
kid 6 live; exits are 3, 2 (6 inside), then the forced stop closes 4 before 1 -/
example : ((doistDo [] 1 0 none 10 okSpecs).evs.filter (fun e => e.kind == .exit)).map (·.id) = [3, 2, 6, 4, 1] := by
  decide

end Timed

/-! ### (G2) nested DoDoers, whole lifetime -/
theorem fits_means_reverse_enter_order2 (now : τ) (ss : List (Spec2 τ)) (ds : List (RT2 τ)) (h : FitsL ss ds) :
    closeAllRev now ds = (ds.reverse.map (closeRT now)).flatten
    ∧ (ds.map RT2.id).Sublist (ss.map Spec2.id)
    ∧ ∀ d, d ∈ ds → ∃ s, s ∈ ss ∧ Fits s d ∧ d.id = s.id ∧
        ∀ i t a kids pool cf, s = .group i t a kids pool cf →
          ∃ r t' a' p dd deeds cf', d = .group i r t' a' p dd deeds cf' ∧ FitsL kids deeds
            ∧ closeRT now d
                = ev i .cease now :: ev i .exit now :: (closeAllRev now deeds ++ [ev i .exitEnd now]) := by
  refine ⟨closeAllRev_eq_flatten now ds, FitsL_ids ss ds h, ?_⟩
  intro d hd
  obtain ⟨s, hs, hf⟩ := FitsL_mem ss ds h d hd
  refine ⟨s, hs, hf, Fits_id s d hf, ?_⟩
  intro i t a kids pool cf hsg
  subst hsg
  obtain ⟨r, t', a', p, dd, deeds, cf', rfl, hk⟩ := Fits_group_inv i t a kids pool cf d hf
  exact ⟨r, t', a', p, dd, deeds, cf', rfl, hk, by simp [closeRT]⟩

example : FitsL nestKids nestDeeds := by simp [FitsL, Fits, nestKids, nestDeeds]

theorem enter_establishes_nested_order2 (now : τ) (specs : List (Spec2 τ)) :
    FitsL specs (enterList now specs).2.1
    ∧ (specAllStepsL stepsNoExtend specs = true → rtAllStepsL stepsNoExtend (enterList now specs).2.1 = true)
    ∧ (∀ i t a kids pool cf es r x, enterSpec now (.group i t a kids pool cf) = (es, r, some x) →
        ∃ pre ds, es = pre ++ [ev i .exit now] ++ closeAllRev now ds ++ [ev i .exitEnd now] ∧ FitsL kids ds) :=
  ⟨(enterList_fits now stepsNoExtend specs).1, (enterList_fits now stepsNoExtend specs).2,
   fun i t a kids pool cf es r x h => enterSpec_group_fail_fits now i t a kids pool cf es r x h⟩

theorem removed_closed_in_order2 (now : τ) (sid : Id) (un : List (RT2 τ)) (ids : List Id) (c : Cyc2 τ)
    (ss : List (Spec2 τ)) (hf : FitsL ss (c.pr ++ un)) :
    ∃ ds, (removeOp now sid un ids c).1 = ev sid .rmBeg now :: (closeAllRev now ds ++ [ev sid .rmEnd now])
      ∧ FitsL ss ds := by
  obtain ⟨ds, h1, h2⟩ := removeOp_closes_sublist now sid un ids c
  exact ⟨ds, h1, FitsL_sublist ss h2 hf⟩

section Timed
variable [Add τ] [LE τ] [DecidableRel (α := τ) (· ≤ ·)] [OfNat τ 0] [BEq τ]

theorem cycle_keeps_nested_order2_partial (pool : List (Spec2 τ)) (now stock : τ) (sid : Id)
    (un : List (RT2 τ)) (c : Cyc2 τ) (es : List (Ev τ)) (un' : List (RT2 τ)) (c' : Cyc2 τ) (x : Option Exn2)
    (hun : rtAllStepsL stepsNoExtend un = true) (hpr : rtAllStepsL stepsNoExtend c.pr = true)
    (h : runCycle pool now stock sid un c = (es, un', c', x)) :
    rtAllStepsL stepsNoExtend (c'.pr ++ un') = true
    ∧ ∀ ss, FitsL ss (c.pr ++ un) → FitsL ss (c'.pr ++ un') := by
  have := runCycle_fits now pool stock sid un c hun hpr
  rw [h] at this
  exact this

example : rtAllStepsL stepsNoExtend nestDeeds = true := by decide

theorem dodoer_yield_keeps_nested_order2_partial (now : τ) (i : Id) (r tock : τ) (always : Bool)
    (pool : List (Spec2 τ)) (doers : List Id) (deeds : List (RT2 τ)) (cf : Bool) (es : List (Ev τ))
    (rt' : RT2 τ) (t : τ)
    (hg : rtAllStepsL stepsNoExtend deeds = true)
    (h : resumeGroup now (.group i r tock always pool doers deeds cf) = (es, .yielded rt' t)) :
    rtAllSteps stepsNoExtend rt' = true
    ∧ ∀ s, Fits s (.group i r tock always pool doers deeds cf) → Fits s rt' := by
  have := resumeGroup_fits now (.group i r tock always pool doers deeds cf)
  dsimp only at this
  exact this hg rt' t (by rw [h])

example : ∃ es rt t, resumeGroup 0 (.group 2 0 0 false [] [3] [.leaf 3 0 [y0, y0] true] true) = (es, .yielded rt t) :=
  ⟨_, _, _, rfl⟩

/-- every raise path (incl. the DoDoer's own failing clean, `ds = []`) closes a list that fits the kids -/
theorem dodoer_raise_closes_in_order2_partial (now : τ) (i : Id) (r tock : τ) (always : Bool)
    (pool : List (Spec2 τ)) (doers : List Id) (deeds : List (RT2 τ)) (cf : Bool) (es : List (Ev τ)) (x : Exn2)
    (kids : List (Spec2 τ))
    (hg : rtAllStepsL stepsNoExtend deeds = true) (hf : FitsL kids deeds)
    (h : resumeGroup now (.group i r tock always pool doers deeds cf) = (es, .raised x)) :
    ∃ pre ds, es = pre ++ [ev i .exit now] ++ closeAllRev now ds ++ [ev i .exitEnd now]
      ∧ FitsL kids ds ∧ rtAllStepsL stepsNoExtend ds = true :=
  resumeGroup_raised_fits now i r tock always pool doers deeds cf es x kids hg hf h

/-- two levels: the inner DoDoer 4 raises SystemExit in mid cycle (5 done and removed, 7 unvisited) -/
example : ∃ es, resumeGroup 0 (.group 2 0 0 false [] [3, 4, 8] nestDeeds false) = (es, .raised .sysexit) := ⟨_, rfl⟩

theorem forced_exit_order_nested2_partial (pool : List (Spec2 τ)) (tock start : τ) (limit : Option τ)
    (fuel : Nat) (specs : List (Spec2 τ)) (hg : specAllStepsL stepsNoExtend specs = true) :
    topNoExtend specs = true
    ∧ ∃ pre ds, (doistDo pool tock start limit fuel specs).evs
                  = pre ++ stopEvs (doistDo pool tock start limit fuel specs).tyme ds
        ∧ FitsL specs ds ∧ (ds.map RT2.id).Sublist (specs.map Spec2.id) := by
  refine ⟨topNoExtend_of_deep specs hg, ?_⟩
  obtain ⟨pre, ds, h1, h2, _⟩ := doistDo_fits pool tock start limit fuel specs hg
  exact ⟨pre, ds, h1, h2, FitsL_ids specs ds h2⟩

example : specAllStepsL stepsNoExtend nestSpecs = true := by decide
/-- test (not the unbounded claim): in cycle 2 leaf 6 removes 5 and returns, its clean fails: 4 closes 7,
2 closes 8 then 3, the Doist closes 9 then 1 -/
example : ((doistDo [] 1 0 none 10 nestSpecs).evs.filter (fun e => e.kind == .exit)).map (·.id)
    = [5, 6, 4, 7, 2, 8, 3, 9, 1] := by decide

end Timed

/-! ### (F2) the F03 witness on Model2 -/
theorem forced_exit_order_fails_after_extend2 :
    ∀ f, f = doistDo [.leaf 5 .ok [y0, y0, y0, y0] false] 1 0 (some 2) 10
              [.leaf 1 .ok [y0, y0, y0, y0] false,
               .leaf 2 .ok [⟨[.extend [0]], .yieldT (some 0)⟩, y0, y0, y0] false,
               .leaf 3 .ok [y0, y0, y0, y0] false] →
      (f.evs.filter (fun e => e.kind == .enter)).map (·.id) = [1, 2, 3, 5]
      ∧ (f.evs.filter (fun e => e.kind == .exit)).map (·.id) = [3, 2, 5, 1]
      ∧ ¬ ([3, 2, 5, 1].reverse).Sublist [1, 2, 3, 5] := by
  intro f hf
  subst hf
  decide

end Hio.Sched2

/-! ### Third-generation model (`Hio.Sched3`): ops issued from cease / exit actions — re-entrant forced shutdown

`exit()` pops a deed before closing it and re-tests the deque, so a close action may `remove()` further doers (closed at
once) or `extend()` (entered, appended, popped next).  Every doer that was entered is still exited before do()
returns or raises — for EVERY program (all exception kinds, failing clean actions, extend / remove in steps and in
cease / exit actions, duplicate ids); `starved = false` only says the model's close fuel `cf` sufficed.
Proofs: HioModel/Sched/Thm3C02.lean. -/
namespace Hio.Sched3
variable {τ : Type} [Add τ] [LE τ] [DecidableRel (α := τ) (· ≤ ·)] [OfNat τ 0] [BEq τ]

theorem forced_exit_before_return3_reentrant (cf : Nat) (pool : List (Spec3 τ)) (tock start : τ) (limit : Option τ)
    (fuel : Nat) (specs : List (Spec3 τ)) :
    (doistDo cf pool tock start limit fuel specs).starved = false →
    ∀ i, Hio.Sched.countK .enter i (doistDo cf pool tock start limit fuel specs).evs
          = Hio.Sched.countK .exit i (doistDo cf pool tock start limit fuel specs).evs :=
  forced_exit_before_return3 cf pool tock start limit fuel specs

theorem group_exit_balanced3_reentrant (cf : Nat) (pool : List (Spec3 τ)) (tock start : τ) (limit : Option τ)
    (fuel : Nat) (specs : List (Spec3 τ)) :
    ∀ i, Hio.Sched.countK .exitEnd i (doistDo cf pool tock start limit fuel specs).evs
          ≤ Hio.Sched.countK .exit i (doistDo cf pool tock start limit fuel specs).evs :=
  group_exit_balanced3_all cf pool tock start limit fuel specs

/-- non-vacuity / test on literals: doer 3's exit action extends with pool doer 7 while the limit stop is closing
everything; 7 is entered and exited inside that stop, nothing starves -/
example :
    let f := doistDo 50 [Spec3.leaf 7 .ok [⟨[], .yieldT (some 0)⟩] false [] []] (1 : Nat) 0 (some 2) 20
      [Spec3.leaf 2 .ok [⟨[], .yieldT (some 0)⟩, ⟨[], .yieldT (some 0)⟩, ⟨[], .yieldT (some 0)⟩] false [] [],
       Spec3.leaf 3 .ok [⟨[], .yieldT (some 0)⟩, ⟨[], .yieldT (some 0)⟩, ⟨[], .yieldT (some 0)⟩] false [] [.extend [0]]]
    f.starved = false ∧ Hio.Sched.countK .enter 7 f.evs = 1 ∧ Hio.Sched.countK .exit 7 f.evs = 1 := by decide

end Hio.Sched3
