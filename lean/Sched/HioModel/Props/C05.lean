import HioModel.Sched.LemmasC05
import HioModel.Sched.Runs
/-!
# C05 "Run termination and done flags are exact"

A run without a limit returns with done True right after the cycle in which the last doer completed.
A run with limit L stops after the first cycle whose end tyme is at least start+L, and done is True only if
every doer had already completed.  A doer's done flag is set False at enter, becomes the value its generator
returned when it finished on its own, and is never True for a doer that did not return a truthy value.

Vocabulary (`Sched/LemmasC05.lean`), with `f := doistDo pool tock start limit fuel specs`:
* `stateAfter pool tock start specs k : Option (τ × List (RT τ) × List Id)` — `(tyme, deque, doers)` after `k`
  completed cycles (`runCycle … 0 deeds {doers}` then `tick()`), `none` if one of them raised;
  `dequeAfter … k` its deque component.
* `KbintStopped pool tock start specs k` — the cycle started from `stateAfter … k` was stopped by a
  KeyboardInterrupt out of a doer (`kbintStopped_iff` spells it out with `runCycle`).
* `f.cycles` counts completed `recur()`+`tick()` rounds; the loop runs one round before the first emptiness test.

Clause (5c) ("never True for a doer that did not return a truthy value") is proved on the trace as
`flag_true_is_justified`: a `flag true` event either directly follows the doer's own `exit`/`exitEnd` (same id, same
tyme), or the trace before it ends with `recur` of that id at that tyme followed by exactly the event list of one
exception-free `runCycle` of a scheduler with that id (pool, tock, deque and doers list existentially quantified;
started with empty `pr`/`gone`) whose resulting deque `c.pr` is empty — i.e. it is `resumeGroup`'s
`ev i (.flag c.pr.isEmpty) now`, the DoDoer's `self.done = self.recur()` returning True.  The statement does not tie
the existentially quantified deque to the DoDoer's actual run-time state at that point of the run (the proof does
use the actual one); for a leaf the sharp local facts are `return_flag_true_only_if_truthy` and the
`*_sets_no_flag` lemmas.
-/
namespace Hio.Sched
variable {τ : Type}

section run
variable [Add τ] [LE τ] [DecidableRel (α := τ) (· ≤ ·)] [OfNat τ 0] [BEq τ]
variable (pool : List (Spec τ)) (tock start : τ) (limit : Option τ) (fuel : Nat) (specs : List (Spec τ))

/-- (1) the run's tyme is `start` ticked once per completed cycle — for every way the run ends -/
theorem tyme_is_iterated_tick :
    (doistDo pool tock start limit fuel specs).tyme
      = iterAdd start tock (doistDo pool tock start limit fuel specs).cycles := by
  cases h : (enterList start specs).2.2
  · rw [doistDo_ok h]; exact doLoop_tyme pool tock _ fuel start _ _
  · rw [doistDo_fail h]; rfl

/-- what `KbintStopped` says -/
theorem kbintStopped_iff (k : Nat) :
    KbintStopped pool tock start specs k ↔
      ∃ now deeds doers es un c, stateAfter pool tock start specs k = some (now, deeds, doers) ∧
        runCycle pool now tock 0 deeds { doers := doers } = (es, un, c, some .kbint) := Iff.rfl

/-- (2) without a limit (and with enough fuel) the run ends done, or do() raised, or a KeyboardInterrupt
out of a doer stopped the cycle after the last completed one -/
theorem no_limit_done (hl : limit = none)
    (hf : (doistDo pool tock start limit fuel specs).fuelOut = false) :
    (doistDo pool tock start limit fuel specs).done = true
      ∨ (doistDo pool tock start limit fuel specs).raised = true
      ∨ KbintStopped pool tock start specs (doistDo pool tock start limit fuel specs).cycles := by
  subst hl
  cases h : (enterList start specs).2.2
  · rw [doistDo_ok h] at hf ⊢
    rcases doLoop_ends pool tock (Option.map (start + ·) none) fuel start (enterList start specs).2.1 (specs.map Spec.id)
      with h1 | h1 | h1 | h1 | ⟨_, h1⟩
    · rw [h1] at hf; exact tt_ne_ff hf
    · exact Or.inl h1
    · exact Or.inr (Or.inl h1)
    · exact Or.inr (Or.inr h1)
    · exact ff_ne_tt h1
  · rw [doistDo_fail h]; exact Or.inr (Or.inl rfl)

/-- while the run goes on (after cycle `k`, `0 < k < cycles`) the deque is not empty -/
theorem mid_cycles_deque_nonempty (k : Nat) (hk0 : 0 < k)
    (hk : k < (doistDo pool tock start limit fuel specs).cycles) :
    ∃ ds, dequeAfter pool tock start specs k = some ds ∧ ds ≠ [] := by
  cases h : (enterList start specs).2.2
  · rw [doistDo_ok h] at hk
    obtain ⟨⟨t, ds, dd, hs, hne⟩, _⟩ := doLoop_mid pool tock _ fuel start _ _ k hk0 hk
    exact ⟨ds, by simp only [dequeAfter, stateAfter, hs, Option.map_some], hne⟩
  · rw [doistDo_fail h] at hk; exact absurd hk (Nat.not_lt_zero _)

/-- (3) `done = True` is returned right after the cycle that emptied the deque: it is empty after `cycles`
cycles (at the final tyme, with the final doers list), was not empty after any earlier cycle, and nothing
is force-closed by the final `exit()` -/
theorem done_right_after_emptying_cycle
    (hd : (doistDo pool tock start limit fuel specs).done = true) :
    0 < (doistDo pool tock start limit fuel specs).cycles
    ∧ stateAfter pool tock start specs (doistDo pool tock start limit fuel specs).cycles
        = some ((doistDo pool tock start limit fuel specs).tyme, [], (doistDo pool tock start limit fuel specs).doers)
    ∧ (∀ k, 0 < k → k < (doistDo pool tock start limit fuel specs).cycles →
        ∃ ds, dequeAfter pool tock start specs k = some ds ∧ ds ≠ [])
    ∧ ∃ pre, (doistDo pool tock start limit fuel specs).evs
        = pre ++ stopEvs (doistDo pool tock start limit fuel specs).tyme [] := by
  refine ⟨?_, ?_, fun k => mid_cycles_deque_nonempty pool tock start limit fuel specs k, ?_⟩ <;>
  · cases h : (enterList start specs).2.2
    · rw [doistDo_ok h] at hd ⊢
      obtain ⟨h1, h2, h3⟩ := doLoop_done_normal pool tock _ fuel start _ _ hd
      obtain ⟨hpos, ds, hs, hiff, pre, he⟩ := doLoop_normal_end pool tock _ fuel start _ _ h1 h2 h3
      have hds : ds = [] := hiff.mp hd
      subst hds
      first
        | exact hpos
        | exact hs
        | exact ⟨(enterList start specs).1 ++ pre, by simp only [he, List.append_assoc]⟩
    · rw [doistDo_fail h] at hd; exact ff_ne_tt hd

/-- (4a) with a limit the run does not go on past the first cycle end that reached `start + L` -/
theorem limit_stop_not_past (L : τ) (hl : limit = some L) (k : Nat) (hk0 : 0 < k)
    (hk : k < (doistDo pool tock start limit fuel specs).cycles) :
    ¬ (start + L ≤ iterAdd start tock k) := by
  subst hl
  cases h : (enterList start specs).2.2
  · rw [doistDo_ok h] at hk
    obtain ⟨_, h2⟩ := doLoop_mid pool tock _ fuel start _ _ k hk0 hk
    simpa [stopB] using h2
  · rw [doistDo_fail h] at hk; exact absurd hk (Nat.not_lt_zero _)

/-- (4b) a run that returns not done — without an exception, a KeyboardInterrupt or running out of fuel —
has reached its limit -/
theorem limit_stop_reached (L : τ) (hl : limit = some L)
    (hd : (doistDo pool tock start limit fuel specs).done = false)
    (hr : (doistDo pool tock start limit fuel specs).raised = false)
    (hf : (doistDo pool tock start limit fuel specs).fuelOut = false)
    (hk : ¬ KbintStopped pool tock start specs (doistDo pool tock start limit fuel specs).cycles) :
    start + L ≤ (doistDo pool tock start limit fuel specs).tyme := by
  subst hl
  cases h : (enterList start specs).2.2
  · rw [doistDo_ok h] at hd hr hf hk ⊢
    rcases doLoop_ends pool tock (Option.map (start + ·) (some L)) fuel start (enterList start specs).2.1
      (specs.map Spec.id) with h1 | h1 | h1 | h1 | ⟨_, h1⟩
    · rw [h1] at hf; exact tt_ne_ff hf
    · rw [h1] at hd; exact tt_ne_ff hd
    · rw [h1] at hr; exact tt_ne_ff hr
    · exact absurd h1 hk
    · simpa [stopB] using h1
  · rw [doistDo_fail h] at hr; exact tt_ne_ff hr

/-- (4c) emptiness is tested before the limit: a run that ended normally is done iff the deque was empty
after its last cycle (with or without a limit); what remains is exactly what the final `exit()` closes -/
theorem done_iff_empty_at_stop
    (hr : (doistDo pool tock start limit fuel specs).raised = false)
    (hf : (doistDo pool tock start limit fuel specs).fuelOut = false)
    (hk : ¬ KbintStopped pool tock start specs (doistDo pool tock start limit fuel specs).cycles) :
    ((doistDo pool tock start limit fuel specs).done = true ↔
      dequeAfter pool tock start specs (doistDo pool tock start limit fuel specs).cycles = some [])
    ∧ ∃ ds pre, dequeAfter pool tock start specs (doistDo pool tock start limit fuel specs).cycles = some ds
        ∧ (doistDo pool tock start limit fuel specs).evs
            = pre ++ stopEvs (doistDo pool tock start limit fuel specs).tyme ds := by
  cases h : (enterList start specs).2.2
  · rw [doistDo_ok h] at hr hf hk ⊢
    obtain ⟨_, ds, hs, hiff, pre, he⟩ := doLoop_normal_end pool tock _ fuel start _ _ hr hf hk
    have hdq : dequeAfter pool tock start specs
        (doLoop pool tock (limit.map (start + ·)) fuel 0 start (enterList start specs).2.1 (specs.map Spec.id)).cycles
        = some ds := by
      simp only [dequeAfter, stateAfter, hs, Option.map_some]
    refine ⟨?_, ds, (enterList start specs).1 ++ pre, hdq, by simp only [he, List.append_assoc]⟩
    simp only [hdq, Option.some.injEq]
    exact hiff
  · rw [doistDo_fail h] at hr; exact tt_ne_ff hr

/-! non-vacuity (τ := Nat); the `decide`d facts are tests of the model, not part of the claim -/
section examples
/-- one doer that yields once and then returns True -/
private def exOnce : Spec Nat := .leaf 1 .ok [⟨[], .yieldT none⟩]
/-- one doer that yields five times -/
private def exLong : Spec Nat :=
  .leaf 1 .ok [⟨[], .yieldT none⟩, ⟨[], .yieldT none⟩, ⟨[], .yieldT none⟩, ⟨[], .yieldT none⟩, ⟨[], .yieldT none⟩]
/-- one doer that raises KeyboardInterrupt at its first recur -/
private def exKb : Spec Nat := .leaf 1 .ok [⟨[], .raise .kbint⟩]

-- no_limit_done: hypotheses hold, and each disjunct is reachable
example : (none : Option Nat) = none ∧ (doistDo [] 1 0 none 5 [exOnce]).fuelOut = false
    ∧ (doistDo [] 1 0 none 5 [exOnce]).done = true := by decide
example : (doistDo [] 1 0 none 5 [exKb]).fuelOut = false ∧ (doistDo [] 1 0 none 5 [exKb]).done = false
    ∧ (doistDo [] 1 0 none 5 [exKb]).raised = false
    ∧ KbintStopped [] 1 0 [exKb] (doistDo [] 1 0 none 5 [exKb]).cycles :=
  ⟨by decide, by decide, by decide, ⟨_, _, _, _, _, _, rfl, rfl⟩⟩
-- done_right_after_emptying_cycle / mid_cycles_deque_nonempty: done with 0 < 1 < cycles = 2
example : (doistDo [] 1 0 none 5 [exOnce]).done = true ∧ (doistDo [] 1 0 none 5 [exOnce]).cycles = 2 := by decide
-- limit_stop_not_past (k = 1, 2 < cycles = 3) and limit_stop_reached: limit 3, stops at tyme 3, not done
example : (doistDo [] 1 0 (some 3) 9 [exLong]).cycles = 3 ∧ (doistDo [] 1 0 (some 3) 9 [exLong]).tyme = 3
    ∧ (doistDo [] 1 0 (some 3) 9 [exLong]).done = false ∧ (doistDo [] 1 0 (some 3) 9 [exLong]).raised = false
    ∧ (doistDo [] 1 0 (some 3) 9 [exLong]).fuelOut = false := by decide
example : ¬ KbintStopped [] 1 0 [exLong] 3 := by
  rintro ⟨now, deeds, doers, es, un, c, hs, hr⟩
  have : stateAfter [] 1 0 [exLong] 3 = some (3, [.leaf 1 3 [⟨[], .yieldT none⟩, ⟨[], .yieldT none⟩]], [1]) := rfl
  rw [this] at hs
  simp only [Option.some.injEq, Prod.mk.injEq] at hs
  obtain ⟨rfl, rfl, rfl⟩ := hs
  have h : (runCycle [] 3 1 0 [RT.leaf 1 3 [⟨[], .yieldT none⟩, ⟨[], .yieldT none⟩]] { doers := [1] }).2.2.2
      = some Exn.kbint := congrArg (fun r => r.2.2.2) hr
  exact absurd h (by decide)
-- done_iff_empty_at_stop: both sides true (exOnce, limit 9) and both sides false (exLong, limit 3)
example : (doistDo [] 1 0 (some 9) 5 [exOnce]).done = true ∧ (doistDo [] 1 0 (some 9) 5 [exOnce]).raised = false
    ∧ (doistDo [] 1 0 (some 9) 5 [exOnce]).fuelOut = false := by decide
-- test: a limit reached in the same cycle that empties the deque still gives done = True
example : (doistDo [] 1 0 (some 2) 5 [exOnce]).done = true ∧ (doistDo [] 1 0 (some 2) 5 [exOnce]).tyme = 2 := by decide
-- test: fuelOut and failing enter still satisfy tyme_is_iterated_tick with cycles = fuel resp. 0
example : (doistDo [] 1 0 none 2 [exLong]).fuelOut = true ∧ (doistDo [] 1 0 none 2 [exLong]).cycles = 2 := by decide
example : (doistDo [] 1 7 none 2 [.leaf 1 .fail []]).raised = true
    ∧ (doistDo [] 1 7 none 2 [.leaf 1 .fail []]).tyme = 7 := by decide
end examples

end run

/-! ### (5) the doers' done flags -/

/-- (5a) entering a doer first sets its `done` False, then enters it -/
theorem enter_sets_done_false (now : τ) (s : Spec τ) :
    ∃ rest, (enterSpec now s).1 = ev s.id (.flag false) now :: ev s.id .enter now :: rest :=
  enterSpec_begins now s

/-- (5b) a forced close (`close()` of the generator: limit, remove, an aborting DoDoer, the final `exit()`)
assigns no done flag at all, so the flag stays what it was: False unless the doer had finished on its own -/
theorem forced_close_sets_no_flag (now : τ) (rt : RT τ) : ∀ e ∈ closeRT now rt, e.kind.isFlag = false :=
  closeRT_noFlag now rt

theorem forced_close_all_sets_no_flag (now : τ) (ds : List (RT τ)) :
    ∀ e ∈ closeAllRev now ds, e.kind.isFlag = false :=
  closeAllRev_noFlag now ds

theorem final_exit_sets_no_flag (now : τ) (ds : List (RT τ)) : ∀ e ∈ stopEvs now ds, e.kind.isFlag = false :=
  stopEvs_noFlag now ds

theorem remove_sets_no_flag (now : τ) (sid : Id) (un : List (RT τ)) (ids : List Id) (c : Cyc τ) :
    ∀ e ∈ (removeOp now sid un ids c).1, e.kind.isFlag = false :=
  removeOp_noFlag now sid un ids c

/-- (5b) the abort path assigns no flag -/
theorem abort_sets_no_flag (i : Id) (x : Exn) (now : τ) : ∀ e ∈ abortEvs i x now, e.kind.isFlag = false :=
  abortEvs_noFlag i x now

/-- (5c, local) the assignment after a doer returned is True only for a truthy return value -/
theorem return_flag_true_only_if_truthy (i j : Id) (v : Option Bool) (now t : τ)
    (h : ev j (.flag true) t ∈ flagEvs i v now) : v = some true ∧ j = i :=
  flagEvs_true h

section trace
variable [Add τ] [LE τ] [DecidableRel (α := τ) (· ≤ ·)] [OfNat τ 0] [BEq τ]

/-- (5c) in the trace of a whole run every `done = True` assignment `e` either directly follows the `exit`
(`exitEnd` for a DoDoer) of the same doer at the same tyme — the doer finished on its own and returned a truthy
value — or is a DoDoer's `self.done = self.recur()`: what precedes `e` ends with the `recur` of the same doer at the
same tyme followed by exactly the events `mid` of one complete cycle (`runCycle` returning no exception) of a
scheduler with id `e.id` at `e.tyme`, started with an empty right-of-marker part, that ended with an empty deque -/
theorem flag_true_is_justified (pool : List (Spec τ)) (tock start : τ) (limit : Option τ) (fuel : Nat)
    (specs : List (Spec τ)) (pre post : List (Ev τ)) (e : Ev τ)
    (h : (doistDo pool tock start limit fuel specs).evs = pre ++ e :: post) (hk : e.kind = .flag true) :
    (∃ pre' p, pre = pre' ++ [p] ∧ p.id = e.id ∧ p.tyme = e.tyme ∧ (p.kind = .exit ∨ p.kind = .exitEnd))
    ∨ (∃ (pre1 mid : List (Ev τ)) (gpool : List (Spec τ)) (stock : τ) (deeds : List (RT τ)) (doers : List Id)
        (un : List (RT τ)) (c : Cyc τ),
        pre = pre1 ++ ev e.id .recur e.tyme :: mid
        ∧ runCycle gpool e.tyme stock e.id deeds { doers := doers } = (mid, un, c, none) ∧ c.pr = []) :=
  doistDo_FJ pool tock start limit fuel specs pre e post h hk

/-- the weaker reading used before: the second case in particular has an earlier `recur` of the same doer at the
same tyme -/
theorem flag_true_is_justified_weak (pool : List (Spec τ)) (tock start : τ) (limit : Option τ) (fuel : Nat)
    (specs : List (Spec τ)) (pre post : List (Ev τ)) (e : Ev τ)
    (h : (doistDo pool tock start limit fuel specs).evs = pre ++ e :: post) (hk : e.kind = .flag true) :
    (∃ pre' p, pre = pre' ++ [p] ∧ p.id = e.id ∧ p.tyme = e.tyme ∧ (p.kind = .exit ∨ p.kind = .exitEnd))
    ∨ (∃ p ∈ pre, p.id = e.id ∧ p.tyme = e.tyme ∧ p.kind = .recur) := by
  rcases flag_true_is_justified pool tock start limit fuel specs pre post e h hk with h1 | ⟨pre1, mid, _, _, _, _, _, _, h1, _⟩
  · exact Or.inl h1
  · exact Or.inr ⟨ev e.id .recur e.tyme, by rw [h1]; simp, rfl, rfl, rfl⟩

-- non-vacuity (test): the run of one doer that yields once and returns True has a `flag true` event, after its exit
example : ((doistDo [] 1 0 none 5 [Spec.leaf 1 .ok [(⟨[], .yieldT none⟩ : Step Nat)]]).evs.map (fun e => (e.id, e.kind)))
    = [(1, .flag false), (1, .enter), (1, .recur), (1, .recur), (1, .clean), (1, .exit), (1, .flag true),
       (0, .stopBeg), (0, .stopEnd)] := by decide
-- non-vacuity of the second case (test): a DoDoer (id 2, always = false) whose only kid returns at its first recur;
-- the group's own `flag true` follows its `recur` and the events of its cycle, then it cleans up and the Doist
-- assigns `flag true` again after `exitEnd`
example : ((doistDo [] 1 0 none 5 [Spec.group 2 0 false [Spec.leaf 1 .ok ([] : List (Step Nat))] []]).evs.map
      (fun e => (e.id, e.kind)))
    = [(2, .flag false), (2, .enter), (1, .flag false), (1, .enter),
       (2, .recur), (1, .recur), (1, .clean), (1, .exit), (1, .flag true), (2, .flag true),
       (2, .clean), (2, .exit), (2, .exitEnd), (2, .flag true), (0, .stopBeg), (0, .stopEnd)] := by decide
end trace

/-! ### several runs on one Doist object (`do` / `ado` called again; model `HioModel/Sched/Runs.lean`)

"done is True only if every doer had already completed" must hold of EVERY run on a Doist, not only of the first:
a later run inherits the Doist's tyme and (sticky) limit and nothing else — in particular not `done`. -/
section runs
variable {τ : Type} [Add τ] [LE τ] [DecidableRel (α := τ) (· ≤ ·)] [OfNat τ 0] [BEq τ]

/-- the last of several runs is the run a Doist would do that was created with the carried tyme and limit -/
theorem later_run_as_fresh (tock : τ) (fuel : Nat) (now : τ) (lim : Option τ) (pre : List (RunSpec τ)) (r : RunSpec τ) :
    runSeq tock fuel now lim (pre ++ [r])
      = runSeq tock fuel now lim pre
        ++ [doistDo r.pool tock (r.start.getD (carry tock fuel now lim pre).1)
              (effLimit (carry tock fuel now lim pre).2 r) fuel r.specs] := by
  induction pre generalizing now lim with
  | nil => simp [runSeq, carry, runOne]
  | cons q qs ih => simp only [List.cons_append, runSeq, carry]; rw [ih]

/-- two histories that leave the same tyme and limit behind are indistinguishable for the next run
(its trace, done flags, `done`, tyme, raised: the whole `Final`) -/
theorem run_depends_only_on_carried_tyme (tock : τ) (fuel : Nat) (now1 now2 : τ) (lim1 lim2 : Option τ)
    (pre1 pre2 : List (RunSpec τ)) (r : RunSpec τ)
    (h : carry tock fuel now1 lim1 pre1 = carry tock fuel now2 lim2 pre2) :
    (runSeq tock fuel now1 lim1 (pre1 ++ [r])).getLast? = (runSeq tock fuel now2 lim2 (pre2 ++ [r])).getLast? := by
  rw [later_run_as_fresh, later_run_as_fresh, h]
  simp

/-- non-vacuity / test on literals: a run that completes (done) followed by a run cut by its limit on the same
Doist: the second run ends with done = false -/
example :
    ((runSeq (1 : Nat) 20 0 none
        [⟨none, none, [], [.leaf 1 .ok [⟨[], .yieldT (some 0)⟩]]⟩,
         ⟨none, some 2, [], [.leaf 2 .ok [⟨[], .yieldT (some 0)⟩, ⟨[], .yieldT (some 0)⟩, ⟨[], .yieldT (some 0)⟩, ⟨[], .yieldT (some 0)⟩]]⟩]).map
      (fun f => (f.done, f.tyme))) = [(true, 2), (false, 4)] := by decide
end runs

end Hio.Sched
