import HioModel.Sched.TimeAdo
import HioModel.Sched.TimeSkel
/-!
# C30 "Running under asyncio gives the same schedule as the plain loop"

Running a scheduler inside an asyncio event loop (`Doist.ado`) produces the same observable run as the blocking
loop (`Doist.do`) for the same doers and settings, in non-real-time mode: same event traces, virtual tymes,
completion cycle, done flags and forced exits.

* `doistDo` (Model.lean) is written from the loop of `Doist.do`, `doistAdo` (TimeModel.lean) from the loop of
  `Doist.ado`: it has the extra step `await asyncio.sleep(0.0)` between `recur()` and the deeds-empty test, at which
  arbitrary other asyncio tasks `env` act on a world `σ` disjoint from the scheduler.
* The Lean equality is short by design; the weight is on the tie.  `Hio.Gen.doSkel` / `adoSkel` / `initTimer` are
  re-extracted from `src/hio/base/doing.py` on every run; the three `decide`d theorems below break the build when
  either loop's statements are changed, reordered (deeds-empty / limit test, position of the await) or diverge.
-/
namespace Hio.Sched
variable {τ σ : Type}
variable [Add τ] [LE τ] [DecidableRel (α := τ) (· ≤ ·)] [OfNat τ 0] [BEq τ]

/-- for every program (ops, faults, nesting), pool, tock, start, limit, fuel, and whatever other tasks do at the
await: `ado` returns exactly what `do` returns — events, done, tyme, raised, doers, completed cycles -/
theorem ado_eq_do (pool : List (Spec τ)) (tock start : τ) (limit : Option τ) (fuel : Nat) (specs : List (Spec τ))
    (env : Nat → σ → σ) (w : σ) :
    (doistAdo pool tock start limit fuel specs env w).1 = doistDo pool tock start limit fuel specs := by
  unfold doistAdo doistDo
  rcases enterList start specs with ⟨es, deeds, b⟩
  cases b with
  | true => rfl
  | false => simp only [adoLoop_fst]

/-- the other tasks get exactly one turn per completed cycle, in cycle order, and nothing else touches the world -/
theorem ado_leaves_world_to_env (pool : List (Spec τ)) (tock start : τ) (limit : Option τ) (fuel : Nat)
    (specs : List (Spec τ)) (env : Nat → σ → σ) (w : σ) :
    (doistAdo pool tock start limit fuel specs env w).2
      = envIter env 0 (doistDo pool tock start limit fuel specs).cycles w := by
  unfold doistAdo doistDo
  rcases enterList start specs with ⟨es, deeds, b⟩
  cases b with
  | true => rfl
  | false => simp only [adoLoop_snd, Nat.sub_zero]

/-- non-vacuity (test): a two-doer program with a limit, other tasks counting their turns: 3 cycles, 3 turns -/
example :
    let p : List (Spec Nat) := [.leaf 1 .ok [⟨[], .yieldT (some 0)⟩, ⟨[], .yieldT (some 2)⟩, ⟨[], .yieldT none⟩],
                                .leaf 2 .ok [⟨[], .yieldT none⟩]]
    (doistAdo [] 1 0 (some 3) 50 p (fun _ k => k + 1) 0).2 = 3
      ∧ (doistDo [] 1 0 (some 3) 50 p).cycles = 3 ∧ (doistDo [] 1 0 (some 3) 50 p).done = false := by decide

open Skel Hio.Gen

/-- (translator) `Doist.ado`'s statement skeleton — with `atimer` read as `self.timer`, `await asyncio.sleep` as
`time.sleep`, the `else: await asyncio.sleep(0.0)` branch and the `AsyncTimer` construction removed — IS
`Doist.do`'s skeleton, statement for statement (regenerated from the source on every run) -/
theorem skeleton_ado_matches_do : normAdo adoSkel = doSkel := by decide

/-- (translator) the `try` statement of `Doist.do` is the one `doLoop`/`adoLoop` were written from:
`recur` · real-time wait · deeds-empty test · limit test · handlers · `finally: exit()` -/
theorem skeleton_do_is_modelled : fromTry doSkel = modelledTry := by decide

/-- (translator) ado's extra await sits where `adoLoop` puts `yieldToLoop`: after `recur()` and the real-time block,
before the deeds-empty test -/
theorem skeleton_await_position :
    isInfixB awaitContext ((adoSkel.map renameTimer).map awaitToSleep) = true := by decide

/-- (translator) the timer `ado` builds locally is `__init__`'s `self.timer` statement up to the class
(`AsyncTimer` for `MonoTimer`) -/
theorem ado_timer_is_init_timer :
    initTimer = [["assign", "self", ".", "timer", "=", "timing", ".", "MonoTimer"]]
      ∧ (adoSkel.map renameTimer).contains asyncTimerCtor = true := by decide

end Hio.Sched
