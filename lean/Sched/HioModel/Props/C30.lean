import HioModel.Sched.TimeAdo
import HioModel.Sched.TimeSkel
/-!
# C30 "Running under asyncio gives the same schedule as the plain loop"

Running a scheduler inside an asyncio event loop (`Doist.ado`) produces the same observable run as the blocking
loop (`Doist.do`) for the same doers and settings, in non-real-time mode: same event traces, virtual tymes,
completion cycle, done flags and forced exits.

* `doistDo` (Model.lean) is written from the loop of `Doist.do`, `doistAdo` (TimeModel.lean) from the loop of
  `Doist.ado`: it has the extra step `await asyncio.sleep(0.0)` between `recur()` and the deeds-empty test, at which
  arbitrary other asyncio tasks `env` act on a world `σ` disjoint from the scheduler.
* The Lean equality is short by design; the weight is on the tie.  `Hio.Gen.doSkel` / `adoSkel` / `initTimer` are
  re-extracted from `src/hio/base/doing.py` on every run; the three `decide`d theorems below break the build when
  either loop's statements are changed, reordered (deeds-empty / limit test, position of the await) or diverge.
-/
namespace Hio.Sched
variable {τ σ : Type}
variable [Add τ] [LE τ] [DecidableRel (α := τ) (· ≤ ·)] [OfNat τ 0] [BEq τ]

/-- for every program (ops, faults, nesting), pool, tock, start, limit, fuel, and whatever other tasks do at the
await: `ado` returns exactly what `do` returns — events, done, tyme, raised, doers, completed cycles -/
theorem ado_eq_do (pool : List (Spec τ)) (tock start : τ) (limit : Option τ) (fuel : Nat) (specs : List (Spec τ))
    (env : Nat → σ → σ) (w : σ) :
    (doistAdo pool tock start limit fuel specs env w).1 = doistDo pool tock start limit fuel specs := by
  unfold doistAdo doistDo
  rcases enterList start specs with ⟨es, deeds, b⟩
  cases b with
  | true => rfl
  | false => simp only [adoLoop_fst]

/-- the other tasks get exactly one turn per completed cycle, in cycle order, and nothing else touches the world -/
theorem ado_leaves_world_to_env (pool : List (Spec τ)) (tock start : τ) (limit : Option τ) (fuel : Nat)
    (specs : List (Spec τ)) (env : Nat → σ → σ) (w : σ) :
    (doistAdo pool tock start limit fuel specs env w).2
      = envIter env 0 (doistDo pool tock start limit fuel specs).cycles w := by
  unfold doistAdo doistDo
  rcases enterList start specs with ⟨es, deeds, b⟩
  cases b with
  | true => rfl
  | false => simp only [adoLoop_snd, Nat.sub_zero]

/-- CANCELLATION: an `ado` task cancelled at its `(j+1)`-th await leaves exactly the events, tyme, cycle count, doers list
and raised flag of a `do()` run of the same program stopped by force after the same number of cycles (`fuel := j+1`); when
the cancellation was delivered `done` is False.  Hence everything proved of `doistDo` for EVERY fuel (C01 lifecycle: every
entered doer is exited; C02: forced exits nested, in reverse enter order) holds of a cancelled `ado`. -/
theorem ado_cancelled_is_stopped_do (pool : List (Spec τ)) (tock start : τ) (limit : Option τ) (j : Nat)
    (specs : List (Spec τ)) :
    (doistAdoCancel pool tock start limit j specs).1.evs = (doistDo pool tock start limit (j+1) specs).evs
    ∧ (doistAdoCancel pool tock start limit j specs).1.tyme = (doistDo pool tock start limit (j+1) specs).tyme
    ∧ (doistAdoCancel pool tock start limit j specs).1.cycles = (doistDo pool tock start limit (j+1) specs).cycles
    ∧ (doistAdoCancel pool tock start limit j specs).1.doers = (doistDo pool tock start limit (j+1) specs).doers
    ∧ (doistAdoCancel pool tock start limit j specs).1.raised = (doistDo pool tock start limit (j+1) specs).raised
    ∧ ((doistAdoCancel pool tock start limit j specs).2 = true → (doistAdoCancel pool tock start limit j specs).1.done = false) := by
  unfold doistAdoCancel doistDo
  rcases enterList start specs with ⟨es, deeds, b⟩
  cases b with
  | true => simp
  | false =>
    obtain ⟨h1, h2, h3, h4, h5, h6⟩ :=
      adoLoopCancel_eq pool tock (limit.map (start + ·)) j 0 start deeds (specs.map Spec.id)
    exact ⟨by simp only [h1], h2, h3, h4, h5, h6⟩

/-- test: cancelled at the second await, the two live doers are force-closed in reverse order at tyme 2 -/
example :
    let p : List (Spec Nat) := [.leaf 1 .ok [⟨[], .yieldT (some 0)⟩, ⟨[], .yieldT (some 0)⟩, ⟨[], .yieldT none⟩],
                                .leaf 2 .ok [⟨[], .yieldT none⟩, ⟨[], .yieldT none⟩, ⟨[], .yieldT none⟩]]
    (doistAdoCancel [] 1 0 none 1 p).2 = true ∧ (doistAdoCancel [] 1 0 none 1 p).1.tyme = 2
      ∧ ((doistAdoCancel [] 1 0 none 1 p).1.evs.filter (fun e => e.kind == .cease)).map Ev.id = [2, 1] := by decide

/-- non-vacuity (test): a two-doer program with a limit, other tasks counting their turns: 3 cycles, 3 turns -/
example :
    let p : List (Spec Nat) := [.leaf 1 .ok [⟨[], .yieldT (some 0)⟩, ⟨[], .yieldT (some 2)⟩, ⟨[], .yieldT none⟩],
                                .leaf 2 .ok [⟨[], .yieldT none⟩]]
    (doistAdo [] 1 0 (some 3) 50 p (fun _ k => k + 1) 0).2 = 3
      ∧ (doistDo [] 1 0 (some 3) 50 p).cycles = 3 ∧ (doistDo [] 1 0 (some 3) 50 p).done = false := by decide

open Skel Hio.Gen

/-- (translator) `Doist.ado`'s statement skeleton — with `atimer` read as `self.timer`, `await asyncio.sleep` as
`time.sleep`, the `else: await asyncio.sleep(0.0)` branch and the `AsyncTimer` construction removed — IS
`Doist.do`'s skeleton, statement for statement (regenerated from the source on every run) -/
theorem skeleton_ado_matches_do : normAdo adoSkel = doSkel := by decide

/-- (translator) the `try` statement of `Doist.do` is the one `doLoop`/`adoLoop` were written from:
`recur` · real-time wait · deeds-empty test · limit test · handlers · `finally: exit()` -/
theorem skeleton_do_is_modelled : fromTry doSkel = modelledTry := by decide

/-- (translator) ado's extra await sits where `adoLoop` puts `yieldToLoop`: after `recur()` and the real-time block,
before the deeds-empty test -/
theorem skeleton_await_position :
    isInfixB awaitContext ((adoSkel.map renameTimer).map awaitToSleep) = true := by decide

/-- (translator) the timer `ado` builds locally is `__init__`'s `self.timer` statement up to the class
(`AsyncTimer` for `MonoTimer`) -/
theorem ado_timer_is_init_timer :
    initTimer = [["assign", "self", ".", "timer", "=", "timing", ".", "MonoTimer"]]
      ∧ (adoSkel.map renameTimer).contains asyncTimerCtor = true := by decide

end Hio.Sched
