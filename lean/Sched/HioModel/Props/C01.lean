import HioModel.Sched.LemmasC01
import HioModel.Sched.Lemmas2C01
import HioModel.Sched.Embed
import HioModel.Sched.Embed3
import HioModel.Sched.Thm3C01
/-!
# C01 — doer lifecycle

"Every doer goes through enter, then zero or more recur, then exactly one of clean / cease / abort,
then exit exactly once, nothing after exit — however the run ends (completion, limit, exception by
any doer, removal at runtime, keyboard interrupt, failing enter)."

In the model: `LifecycleWF weak (doistDo pool tock start limit fuel specs).evs`, i.e. the projection of
the trace on every doer id is accepted by the automaton `lstep` (`Defs.lean`) and ends idle.
`weak = false` is the property as stated; `weak = true` additionally accepts `exit` straight from the
running state, which is what the code does on KeyboardInterrupt (finding F01).

Full statement, proved below as `lifecycle_wf` / `lifecycle_wf_weak`
(time type `τ` arbitrary, every pool / tock / start / limit / fuel, no size bound):

    theorem lifecycle_wf (pool specs : List (Spec τ)) … :
        (Spec.idsL specs ++ Spec.idsL pool).Nodup →            -- all ids of the program distinct (pools included)
        noPoolSelfRemove specs pool = true →                   -- no pool doer removes itself
        Spec.everyStepsL stepsNoKbint specs = true →           -- no script (kids and pools, at any depth)
        Spec.everyStepsL stepsNoKbint pool = true →            --   raises KeyboardInterrupt   (F01)
        LifecycleWF false (doistDo pool tock start limit fuel specs).evs
    theorem lifecycle_wf_weak : the same without the two KeyboardInterrupt hypotheses, concluding `LifecycleWF true …`

`noPoolSelfRemove` (LemmasC01.lean): every member of the Doist's pool and of the pool of any DoDoer of the program
(at any depth) that is a plain doer never issues `remove` with its own id.  It is needed: a doer that removes itself
while it runs leaves `.doers` but stays in the deque, so a later `extend` with it calls `enter` on a live doer.

Theorems in this file (all for every input and every fuel):

* `lifecycle_wf`              — strict automaton, `extend` allowed; guards as above (KeyboardInterrupt = F01).
* `lifecycle_wf_weak`         — weak automaton (exit straight from running allowed), `extend` allowed.
* `lifecycle_wf_partial`      — strict automaton, guard: no step issues `extend`, no step of an entered doer raises
                                KeyboardInterrupt; only the ids entered by `specs` need be distinct (pools are dead).
* `lifecycle_wf_weak_partial` — weak automaton, guard: no step issues `extend`; entered ids distinct.
* `lifecycle_fails_when_pool_doer_removes_itself` — witness for known finding C01-K2: without `noPoolSelfRemove`
                                even the weak property fails (the real code behaves the same; corpus case).
* `lifecycle_kbint_skips_abort` — witness for F01: the strict property fails on a one-doer program whose
                                second recur raises KeyboardInterrupt (exit without abort).

The two `_partial` theorems are not instances of the full ones (weaker id hypothesis, nothing about pools).

## Second-generation model (`Hio.Sched2`, `Model2.lean`): exception kinds, failing enters of any kind, failing clean

Only `Exception` (`Exn2.err`) runs the abort context; KeyboardInterrupt / SystemExit (`.kbint` / `.sysexit`) leave by
`exit` alone, at a recur AND at an enter (known finding C01-K1).  A failing clean action (`cleanFails`) ends the doer
by `clean, exit`, which is a legal ending.  Full statements, proved below for every input and every fuel:

    theorem lifecycle_wf2 (pool specs : List (Sched2.Spec2 τ)) … :
        (Sched2.Spec2.idsL specs ++ Sched2.Spec2.idsL pool).Nodup →   -- all ids of the program distinct (pools included)
        Sched2.noPoolSelfRemove specs pool = true →                   -- no pool doer removes itself
        Sched2.Spec2.onlyErrL specs = true →                          -- no BaseException anywhere: every `Out2.raise x`
        Sched2.Spec2.onlyErrL pool = true →                           --   and every `EnterAct2.fail x` has `x = .err`
        LifecycleWF false (Sched2.doistDo pool tock start limit fuel specs).evs       -- `cleanFails` flags arbitrary
    theorem lifecycle_wf2_weak : the same without the two `onlyErrL` hypotheses (any kinds at steps and at enters, any
        `cleanFails`), concluding `LifecycleWF true …`

* `lifecycle_wf2`, `lifecycle_wf2_weak` — as above (`extend` / `remove` at run time, nested DoDoers with pools).
* `lifecycle2_sysexit_skips_abort`        — C01-K1 witness: SystemExit in the second recur: `enter recur recur exit`.
* `lifecycle2_kbint_in_enter_skips_abort` — C01-K1 witness: KeyboardInterrupt in the enter of the second top-level
                                            doer: its projection is `enter exit`.
-/
namespace Hio.Sched
variable {τ : Type} [Add τ] [LE τ] [DecidableRel (α := τ) (· ≤ ·)] [OfNat τ 0] [BEq τ]

/-- C01, strict automaton, for programs that never `extend` and never raise KeyboardInterrupt. -/
theorem lifecycle_wf_partial (pool : List (Spec τ)) (tock start : τ) (limit : Option τ) (fuel : Nat)
    (specs : List (Spec τ)) :
    (Spec.eidsL specs).Nodup → Spec.allStepsL stepsNoExtend specs = true →
    Spec.allStepsL stepsNoKbint specs = true →
    LifecycleWF false (doistDo pool tock start limit fuel specs).evs :=
  fun hN hE hK => lifecycle_of_guard false pool tock start limit fuel specs hN
    (Spec.allStepsL_and _ _ _ (fun _ h1 h2 => by simp [okSteps, h1, h2]) specs hE hK)

/-- C01, weak automaton (exit straight from running allowed: F01), for programs that never `extend`. -/
theorem lifecycle_wf_weak_partial (pool : List (Spec τ)) (tock start : τ) (limit : Option τ) (fuel : Nat)
    (specs : List (Spec τ)) :
    (Spec.eidsL specs).Nodup → Spec.allStepsL stepsNoExtend specs = true →
    LifecycleWF true (doistDo pool tock start limit fuel specs).evs :=
  fun hN hE => lifecycle_of_guard true pool tock start limit fuel specs hN
    (Spec.allStepsL_and _ _ _ (fun _ h1 _ => by simp [okSteps, h1]) specs hE hE)

/-- C01 in full, strict automaton: `extend` and `remove` at run time, nested DoDoers with their own pools. -/
theorem lifecycle_wf (pool : List (Spec τ)) (tock start : τ) (limit : Option τ) (fuel : Nat)
    (specs : List (Spec τ)) :
    (Spec.idsL specs ++ Spec.idsL pool).Nodup → noPoolSelfRemove specs pool = true →
    Spec.everyStepsL stepsNoKbint specs = true → Spec.everyStepsL stepsNoKbint pool = true →
    LifecycleWF false (doistDo pool tock start limit fuel specs).evs :=
  fun hN hS hK1 hK2 => lifecycle_of_static false pool tock start limit fuel specs hN hS (Or.inr ⟨hK1, hK2⟩)

/-- C01 in full, weak automaton (what holds of the code whatever is raised: F01). -/
theorem lifecycle_wf_weak (pool : List (Spec τ)) (tock start : τ) (limit : Option τ) (fuel : Nat)
    (specs : List (Spec τ)) :
    (Spec.idsL specs ++ Spec.idsL pool).Nodup → noPoolSelfRemove specs pool = true →
    LifecycleWF true (doistDo pool tock start limit fuel specs).evs :=
  fun hN hS => lifecycle_of_static true pool tock start limit fuel specs hN hS (Or.inl rfl)

/-- F01 witness: a KeyboardInterrupt in the second recur of doer 1 gives `enter recur recur exit`
(no abort), which the strict automaton rejects. -/
theorem lifecycle_kbint_skips_abort :
    ¬ LifecycleWF false
      (doistDo [] 1 0 none 10 [Spec.leaf 1 .ok [⟨[], .yieldT (some 0)⟩, ⟨[], .raise .kbint⟩]] : Final Nat).evs := by
  intro h
  have h1 := h 1
  revert h1
  decide

/-! ### non-vacuity (tests on literals, not counted as the claim) -/

/-- a group whose first kid removes its sibling at its second recur, next to a leaf that raises -/
def c01Demo : List (Spec Nat) :=
  [ .group 1 0 false
      [ .leaf 2 .ok [⟨[], .yieldT none⟩, ⟨[.remove [3]], .yieldT none⟩, ⟨[], .ret none⟩],
        .leaf 3 .ok [⟨[], .yieldT none⟩, ⟨[], .yieldT none⟩, ⟨[], .yieldT none⟩] ] [],
    .leaf 4 .ok [⟨[], .yieldT (some 0)⟩, ⟨[], .raise .err⟩],
    .leaf 5 .fail [] ]

/-- the hypotheses of `lifecycle_wf_partial` hold of `c01Demo` -/
example : (Spec.eidsL c01Demo).Nodup ∧ Spec.allStepsL stepsNoExtend c01Demo = true ∧
    Spec.allStepsL stepsNoKbint c01Demo = true := by decide

/-- without the failing enter, the run really closes doer 3 by `remove`, aborts doer 4 and then
force-closes the group 1 with its remaining kid 2 -/
example : let evs := (doistDo [] 1 0 none 10 (c01Demo.take 2)).evs
    countK .rmBeg 1 evs = 1 ∧ countK .cease 3 evs = 1 ∧ countK .abort 4 evs = 1 ∧
      countK .cease 1 evs = 1 ∧ countK .cease 2 evs = 1 := by
  decide

/-- with it, everything entered so far is closed again -/
example : let evs := (doistDo [] 1 0 none 10 c01Demo).evs
    countK .abort 5 evs = 1 ∧ countK .cease 1 evs = 1 ∧ countK .cease 4 evs = 1 ∧ countK .recur 1 evs = 0 := by
  decide

/-- the hypotheses of `lifecycle_wf_weak_partial` hold of the F01 witness program -/
example : let specs : List (Spec Nat) := [Spec.leaf 1 .ok [⟨[], .yieldT (some 0)⟩, ⟨[], .raise .kbint⟩]]
    (Spec.eidsL specs).Nodup ∧ Spec.allStepsL stepsNoExtend specs = true := by
  decide

/-- doer 1 extends the Doist with pool doer 10, removes it, extends it again, then raises; doer 3 extends its
DoDoer 2 with pool doer 20, which removes 3 -/
def c01Pool : List (Spec Nat) :=
  [.leaf 10 .ok [⟨[], .yieldT none⟩, ⟨[], .yieldT none⟩, ⟨[], .yieldT none⟩, ⟨[], .yieldT none⟩]]
def c01Ext : List (Spec Nat) :=
  [ .leaf 1 .ok [⟨[.extend [0]], .yieldT none⟩, ⟨[.remove [10]], .yieldT none⟩, ⟨[.extend [0]], .yieldT none⟩,
                 ⟨[], .raise .err⟩],
    .group 2 0 false
      [.leaf 3 .ok [⟨[.extend [0]], .yieldT none⟩, ⟨[], .yieldT none⟩, ⟨[], .yieldT none⟩, ⟨[], .yieldT none⟩]]
      [.leaf 20 .ok [⟨[.remove [3]], .yieldT none⟩, ⟨[], .yieldT none⟩, ⟨[], .yieldT none⟩, ⟨[], .yieldT none⟩]] ]

/-- the hypotheses of `lifecycle_wf` hold of it -/
example : (Spec.idsL c01Ext ++ Spec.idsL c01Pool).Nodup ∧ noPoolSelfRemove c01Ext c01Pool = true ∧
    Spec.everyStepsL stepsNoKbint c01Ext = true ∧ Spec.everyStepsL stepsNoKbint c01Pool = true := by decide

/-- and the run really enters pool doer 10 twice, pool doer 20 once, and closes 3 by the removal -/
example : let evs := (doistDo c01Pool 1 0 none 10 c01Ext).evs
    countK .enter 10 evs = 2 ∧ countK .exit 10 evs = 2 ∧ countK .enter 20 evs = 1 ∧ countK .cease 3 evs = 1 ∧
      countK .abort 1 evs = 1 := by
  decide

/-- `noPoolSelfRemove` is not vacuous: it rejects a pool doer that removes itself -/
example : noPoolSelfRemove ([] : List (Spec Nat)) [.leaf 10 .ok [⟨[.remove [10]], .yieldT none⟩]] = false := by
  decide

/-- Known finding C01-K2 (witness, replayed on the real code by the corpus of harness/areas/sched.py):
the hypothesis `noPoolSelfRemove` of `lifecycle_wf` is needed.  Pool doer 5 removes itself while running, so it
leaves `.doers` but stays scheduled; doer 1's second `extend [0]` enters it again while its first generator is
still live — two generators of one doer run at once, which even the weak automaton rejects. -/
theorem lifecycle_fails_when_pool_doer_removes_itself :
    ¬ LifecycleWF true
      (doistDo
        [.leaf 5 .ok [⟨[.remove [5]], .yieldT (some 0)⟩, ⟨[], .yieldT (some 0)⟩, ⟨[], .yieldT (some 0)⟩,
                      ⟨[], .yieldT (some 0)⟩, ⟨[], .yieldT (some 0)⟩]]
        1 0 (some 6) 20
        [.leaf 1 .ok [⟨[.extend [0]], .yieldT (some 0)⟩, ⟨[], .yieldT (some 0)⟩, ⟨[.extend [0]], .yieldT (some 0)⟩,
                      ⟨[], .yieldT (some 0)⟩, ⟨[], .yieldT (some 0)⟩, ⟨[], .yieldT (some 0)⟩]] : Final Nat).evs := by
  intro h
  have h1 := h 5
  revert h1
  decide

/-! ### second-generation model (`Hio.Sched2`) -/

/-- C01 on Model2, strict automaton: everything raised (by a recur, by an enter, at any depth, pools included) is an
`Exception`; `cleanFails` flags are arbitrary. -/
theorem lifecycle_wf2 (pool : List (Sched2.Spec2 τ)) (tock start : τ) (limit : Option τ) (fuel : Nat)
    (specs : List (Sched2.Spec2 τ)) :
    (Sched2.Spec2.idsL specs ++ Sched2.Spec2.idsL pool).Nodup → Sched2.noPoolSelfRemove specs pool = true →
    Sched2.Spec2.onlyErrL specs = true → Sched2.Spec2.onlyErrL pool = true →
    LifecycleWF false (Sched2.doistDo pool tock start limit fuel specs).evs :=
  fun hN hS hK1 hK2 => Sched2.lifecycle_of_static false pool tock start limit fuel specs hN hS (Or.inr ⟨hK1, hK2⟩)

/-- C01 on Model2, weak automaton: any exception kinds at steps and at enters, any `cleanFails`. -/
theorem lifecycle_wf2_weak (pool : List (Sched2.Spec2 τ)) (tock start : τ) (limit : Option τ) (fuel : Nat)
    (specs : List (Sched2.Spec2 τ)) :
    (Sched2.Spec2.idsL specs ++ Sched2.Spec2.idsL pool).Nodup → Sched2.noPoolSelfRemove specs pool = true →
    LifecycleWF true (Sched2.doistDo pool tock start limit fuel specs).evs :=
  fun hN hS => Sched2.lifecycle_of_static true pool tock start limit fuel specs hN hS (Or.inl rfl)

/-- C01-K1 witness: a SystemExit in the second recur of doer 1 gives `enter recur recur exit` (no abort). -/
theorem lifecycle2_sysexit_skips_abort :
    ¬ LifecycleWF false
      (Sched2.doistDo [] 1 0 none 10
        [Sched2.Spec2.leaf 1 .ok [⟨[], .yieldT (some 0)⟩, ⟨[], .raise .sysexit⟩] false] : Sched2.Final2 Nat).evs := by
  intro h
  have h1 := h 1
  revert h1
  decide

/-- C01-K1 witness: a KeyboardInterrupt in the enter of the second top-level doer: its projection is `enter exit`. -/
theorem lifecycle2_kbint_in_enter_skips_abort :
    ¬ LifecycleWF false
      (Sched2.doistDo [] 1 0 none 10
        [Sched2.Spec2.leaf 1 .ok [⟨[], .yieldT (some 0)⟩] false,
         Sched2.Spec2.leaf 2 (.fail .kbint) [] false] : Sched2.Final2 Nat).evs := by
  intro h
  have h1 := h 2
  revert h1
  decide

/-- non-vacuity: a doer (1) and a DoDoer (2) whose clean actions fail -/
def c01CleanLeaf : List (Sched2.Spec2 Nat) := [.leaf 1 .ok [⟨[], .yieldT none⟩, ⟨[], .ret none⟩] true]
def c01CleanGroup : List (Sched2.Spec2 Nat) := [.group 2 0 false [.leaf 3 .ok [⟨[], .ret none⟩] false] [] true]

/-- they satisfy the hypotheses of the STRICT theorem `lifecycle_wf2` -/
example : let specs := c01CleanGroup ++ c01CleanLeaf
    (Sched2.Spec2.idsL specs ++ Sched2.Spec2.idsL ([] : List (Sched2.Spec2 Nat))).Nodup ∧
    Sched2.noPoolSelfRemove specs [] = true ∧ Sched2.Spec2.onlyErrL specs = true := by decide

/-- and run `clean, exit` (no abort), after which do() raises the Exception -/
example : let f := Sched2.doistDo [] 1 0 none 10 c01CleanLeaf
    countK .clean 1 f.evs = 1 ∧ countK .exit 1 f.evs = 1 ∧ countK .abort 1 f.evs = 0 ∧ f.raised = some .err := by
  decide
example : let f := Sched2.doistDo [] 1 0 none 10 c01CleanGroup
    countK .clean 2 f.evs = 1 ∧ countK .exit 2 f.evs = 1 ∧ countK .abort 2 f.evs = 0 ∧ countK .clean 3 f.evs = 1 ∧
      f.raised = some .err := by
  decide

/-- `onlyErrL` is not vacuous: it rejects both witness programs, which satisfy the hypotheses of `lifecycle_wf2_weak` -/
example : Sched2.Spec2.onlyErrL
      ([.leaf 1 .ok [⟨[], .yieldT (some 0)⟩, ⟨[], .raise .sysexit⟩] false] : List (Sched2.Spec2 Nat)) = false ∧
    Sched2.Spec2.onlyErrL
      ([.leaf 1 .ok [⟨[], .yieldT (some 0)⟩] false, .leaf 2 (.fail .kbint) [] false] : List (Sched2.Spec2 Nat)) = false := by
  decide

/-! ### the three model generations describe the same runs

`Model` (first generation: everything proved in C02–C06 and in C03/C04/C30), `Model2` (exception kinds, failing clean
actions) and `Model3` (ops issued from cease / exit actions) agree wherever the newer script data is absent, so a
theorem about an older model speaks about the same events as the newer one. -/
section generations
variable {τ : Type} [Add τ] [LE τ] [DecidableRel (α := τ) (· ≤ ·)] [OfNat τ 0] [BEq τ]

/-- Model2 on scripts without exception kinds / action faults IS Model: events, done, tyme, doers, cycles, raised -/
theorem model2_is_model_on_old_scripts (pool : List (Spec τ)) (tock start : τ) (limit : Option τ) (fuel : Nat)
    (specs : List (Spec τ)) :
    let f := Hio.Sched.doistDo pool tock start limit fuel specs
    let g := Hio.Sched2.doistDo (Hio.Sched2.embSpecL pool) tock start limit fuel (Hio.Sched2.embSpecL specs)
    g.evs = f.evs ∧ g.done = f.done ∧ g.tyme = f.tyme ∧ g.fuelOut = f.fuelOut ∧ g.doers = f.doers ∧ g.cycles = f.cycles
      ∧ (g.raised = if f.raised then some .err else none) :=
  Hio.Sched2.doistDo_embed pool tock start limit fuel specs

/-- Model3 on scripts without close-time ops, when no close ran out of its fuel, IS Model2 (all fields of the result) -/
theorem model3_is_model2_without_close_ops (cf : Nat) (pool : List (Hio.Sched2.Spec2 τ)) (tock start : τ)
    (limit : Option τ) (fuel : Nat) (specs : List (Hio.Sched2.Spec2 τ)) :
    let g := Hio.Sched3.doistDo cf (Hio.Sched3.emb3SpecL pool) tock start limit fuel (Hio.Sched3.emb3SpecL specs)
    g.starved = false → g.toFinal2 = Hio.Sched2.doistDo pool tock start limit fuel specs :=
  Hio.Sched3.doistDo3_embed cf pool tock start limit fuel specs

end generations

/-! ### third generation (`Hio.Sched3`): ops issued from cease / exit actions

Full statement wanted: `lifecycle_wf3(_weak)` for every program whose step- AND close-time ops avoid the double-entry
hazards (a doer that left `.doers` while still scheduled / waiting to be closed is entered again by an `extend`).
Proved (`HioModel/Sched/Thm3C01.lean`) under the stronger static guard `closeOpsRemoveNonPool3`: close-time ops are
`remove`s only and name no pool doer of the doer's own scheduler (both parts are shown necessary in some form by
`example`s there: a cease action that extends, and a cease action that removes the running pool doer).  Missing:
close-time `extend`, close-time `remove` of non-running pool doers, self-removal from an exit action — they need
the waiting `rdeeds` and the running doer inside the invariant.  `starved = false`: the model's close fuel sufficed. -/
section generation3
variable {τ : Type} [Add τ] [LE τ] [DecidableRel (α := τ) (· ≤ ·)] [OfNat τ 0] [BEq τ]
theorem lifecycle_wf3_weak_partial (cf : Nat) (pool : List (Hio.Sched3.Spec3 τ)) (tock start : τ) (limit : Option τ)
    (fuel : Nat) (specs : List (Hio.Sched3.Spec3 τ)) :
    (Hio.Sched3.Spec3.idsL specs ++ Hio.Sched3.Spec3.idsL pool).Nodup → Hio.Sched3.noPoolSelfRemove3 specs pool = true →
    Hio.Sched3.closeOpsRemoveNonPool3 specs pool = true → (Hio.Sched3.doistDo cf pool tock start limit fuel specs).starved = false →
    LifecycleWF true (Hio.Sched3.doistDo cf pool tock start limit fuel specs).evs :=
  Hio.Sched3.lifecycle_wf3_weak cf pool tock start limit fuel specs

theorem lifecycle_wf3_partial (cf : Nat) (pool : List (Hio.Sched3.Spec3 τ)) (tock start : τ) (limit : Option τ)
    (fuel : Nat) (specs : List (Hio.Sched3.Spec3 τ)) :
    (Hio.Sched3.Spec3.idsL specs ++ Hio.Sched3.Spec3.idsL pool).Nodup → Hio.Sched3.noPoolSelfRemove3 specs pool = true →
    Hio.Sched3.closeOpsRemoveNonPool3 specs pool = true → Hio.Sched3.Spec3.onlyErrL specs = true → Hio.Sched3.Spec3.onlyErrL pool = true →
    (Hio.Sched3.doistDo cf pool tock start limit fuel specs).starved = false →
    LifecycleWF false (Hio.Sched3.doistDo cf pool tock start limit fuel specs).evs :=
  Hio.Sched3.lifecycle_wf3 cf pool tock start limit fuel specs
end generation3

end Hio.Sched
