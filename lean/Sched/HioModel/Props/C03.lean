import HioModel.Sched.TimeSched
import HioModel.Sched.TimeCycle
import HioModel.Sched.TimeFlatL
import HioModel.Sched.TimeOrder
/-!
# C03 "Virtual-time scheduling follows the documented cycle model"

In non-real-time mode each cycle advances the scheduler's tyme by exactly one tock.  Within a cycle, due doers run at
most once each, in enter order, and observe the scheduler's current tyme.  A doer that yields tock t > 0 is next due at
its previous due tyme plus t (cumulative, so it never drifts), while one that yields 0 or None runs again in the next
cycle.

Time is an abstract type `τ` (`+`, decidable `≤`, `0`, `==`).  Arithmetic laws, where needed, come from the class
`LawfulTyme τ` (`Sched/TimeDefs.lean`; instances proved for `Nat` and `Int`, none for `Float`).

Vocabulary: `cycState pool tock k start deeds doers` — `(tyme, deque, doers)` before cycle `k`; `iterAdd start tock k` —
`start + tock + … + tock`; `recurIds evs` — ids of the `recur` events in trace order; `RT.liveIdsL un` — ids of the live
forest in deque order (a group before its deeds); `stepLeaf now stock d` — what a cycle at `now` of a scheduler with tock
`stock` does to one op-free leaf; `nextDue`, `asap` — the model's (= the code's) retyme rule.

For doers nested in tock-0 DoDoers the clause "next due at previous due tyme plus t" is FALSE for the code as it is
(pre-finding F46): after an asap yield inside a DoDoer the due tyme is `tyme + the DoDoer's tock (0)`, not the tyme of the
next cycle, so a following positive tock is counted from one scheduler tock too early.  `due_cumulative_fails_nested` is the
decided witness; `nested_schedule_partial` is what holds (guard G04: `positive* asap*`).
-/
set_option linter.unusedSectionVars false
namespace Hio.Sched
variable {τ : Type}
variable [Add τ] [LE τ] [DecidableRel (α := τ) (· ≤ ·)] [OfNat τ 0] [BEq τ]

/-! ### each cycle advances tyme by exactly one tock -/

/-- the tyme at which cycle `k` runs is `start + tock` iterated `k` times with the abstract `+` — literally what the
floats do; any program, any way the earlier cycles went -/
theorem tick_exact (pool : List (Spec τ)) (tock start : τ) (k : Nat) (deeds : List (RT τ)) (doers : List Id)
    {t : τ} {d : List (RT τ)} {ds : List Id} (h : cycState pool tock k start deeds doers = some (t, d, ds)) :
    t = iterAdd start tock k :=
  cycState_tyme pool tock k start deeds doers h

/-- the tyme `do()` leaves behind is `start` ticked once per completed cycle — for every way the run ends -/
theorem tick_exact_run (pool : List (Spec τ)) (tock start : τ) (limit : Option τ) (fuel : Nat) (specs : List (Spec τ)) :
    (doistDo pool tock start limit fuel specs).tyme
      = iterAdd start tock (doistDo pool tock start limit fuel specs).cycles := by
  unfold doistDo
  rcases enterList start specs with ⟨es, deeds, b⟩
  cases b with
  | true => rfl
  | false =>
    obtain ⟨k, h1, h2⟩ := doLoop_tyme_cycles pool tock (limit.map (start + ·)) fuel 0 start deeds (specs.map Spec.id)
    simp only [h1, h2, Nat.zero_add]

/-! ### within a cycle: current tyme, at most once, in order -/

/-- one pass of ANY scheduler (Doist or DoDoer, `stock` its tock) over its deque `un`, whatever the doers do (ops,
faults, nesting): every event carries the scheduler's current tyme, and the resumed ids — at every depth — form a
sublist of the live forest in deque order -/
theorem once_per_cycle_in_order (pool : List (Spec τ)) (now stock : τ) (sid : Id) (un : List (RT τ)) (c : Cyc τ) :
    (∀ e ∈ (runCycle pool now stock sid un c).1, e.tyme = now)
      ∧ (recurIds (runCycle pool now stock sid un c).1).Sublist (RT.liveIdsL un) :=
  runCycle_cycleOK pool now stock sid un c

/-- hence no doer is resumed twice in one cycle when live ids are distinct -/
theorem once_per_cycle (pool : List (Spec τ)) (now stock : τ) (sid : Id) (un : List (RT τ)) (c : Cyc τ)
    (hn : (RT.liveIdsL un).Nodup) : (recurIds (runCycle pool now stock sid un c).1).Nodup :=
  (runCycle_cycleOK pool now stock sid un c).2.nodup hn

/-- IN ENTER ORDER (guard F03: no leaf among the entered doers extends — `Spec.allStepsL stepsNoExtend`): in every cycle
`k` of a run whose enters succeeded, the resumed ids — Doist level and every nesting depth — form a sublist of the ids of
the run's `enter` events in trace order, and all events of the cycle carry the cycle's tyme.  Composition of
`once_per_cycle_in_order` with the C02 invariant `FitsL` (the live tree embeds in order into the spec tree). -/
theorem cycle_runs_in_enter_order_partial (pool : List (Spec τ)) (tock start : τ) (specs : List (Spec τ))
    (hG : Spec.allStepsL stepsNoExtend specs = true) (hE : (enterList start specs).2.2 = false)
    (k : Nat) {now : τ} {deeds : List (RT τ)} {doers : List Id}
    (h : cycState pool tock k start (enterList start specs).2.1 (specs.map Spec.id) = some (now, deeds, doers)) :
    (recurIds (runCycle pool now tock 0 deeds { doers := doers }).1).Sublist (enterIds (enterList start specs).1)
      ∧ ∀ e ∈ (runCycle pool now tock 0 deeds { doers := doers }).1, e.tyme = now := by
  obtain ⟨hf0, ha0⟩ := C02.enterList_fits start stepsNoExtend specs
  obtain ⟨_, hf⟩ := cycState_fits pool tock specs k start _ _ (ha0 hG) hf0 h
  have hc := runCycle_cycleOK pool now tock 0 deeds { doers := doers }
  rw [enterList_enterIds start specs hE]
  exact ⟨hc.2.trans (FitsL_liveIds specs deeds hf), hc.1⟩

/-- without the guard the clause fails (pre-finding F03, the C02 known finding seen from C03): doer 5, extended by doer 2
in cycle 0, is queued BEFORE its extender: enter order 1,2,3,5 — cycle 1 runs 1,5,2,3 -/
theorem cycle_order_fails_after_extend :
    let y0 : Step Nat := ⟨[], .yieldT (some 0)⟩
    let specs : List (Spec Nat) := [.leaf 1 .ok [y0, y0, y0], .leaf 2 .ok [⟨[.extend [0]], .yieldT (some 0)⟩, y0, y0], .leaf 3 .ok [y0, y0, y0]]
    let pool : List (Spec Nat) := [.leaf 5 .ok [y0, y0, y0]]
    ∃ now deeds doers, cycState pool 1 1 0 (enterList 0 specs).2.1 (specs.map Spec.id) = some (now, deeds, doers)
      ∧ recurIds (runCycle pool now 1 0 deeds { doers := doers }).1 = [1, 5, 2, 3]
      ∧ enterIds (doistDo pool 1 0 (some 2) 50 specs).evs = [1, 2, 3, 5] := by
  refine ⟨_, _, _, rfl, ?_, ?_⟩ <;> decide

/-! ### due tymes (one step, at every scheduler level) -/

/-- tie: a leaf at the head of the not-yet-visited deeds whose script is op-free is handled exactly as `stepLeaf` says,
and the rest of the pass goes on with the deed it leaves — whatever the other doers are -/
theorem leaf_pass_is_stepLeaf (pool : List (Spec τ)) (now stock : τ) (sid i : Id) (r : τ) (s : List (Step τ))
    (un : List (RT τ)) (c : Cyc τ) (hp : plainSteps s = true) (hg : c.gone.contains i = false) :
    runCycle pool now stock sid (.leaf i r s :: un) c =
      ((stepLeaf now stock (.leaf i r s)).1
          ++ (runCycle pool now stock sid un { c with pr := c.pr ++ (stepLeaf now stock (.leaf i r s)).2.toList }).1,
       (runCycle pool now stock sid un { c with pr := c.pr ++ (stepLeaf now stock (.leaf i r s)).2.toList }).2) :=
  runCycle_leaf_plain pool now stock sid i r s un c hp hg

/-- cumulative: a due doer (due tyme `r ≤ now`) that yields `x` with `x ≠ 0` is resumed now and its due tyme becomes
`r + x` — independent of `now` (when it actually ran) and of the scheduler's tock: it never drifts -/
theorem due_cumulative (now stock r x : τ) (i : Id) (ops : List Op) (rest : List (Step τ))
    (hr : r ≤ now) (hx : (x == 0) = false) :
    stepLeaf now stock (.leaf i r (⟨ops, .yieldT (some x)⟩ :: rest)) = ([ev i .recur now], some (.leaf i (r + x) rest)) := by
  simp [stepLeaf, hr, headStep, nextDue, asap, hx]

/-- a doer that is not yet due is not resumed and keeps its due tyme: so it is resumed in the FIRST cycle whose tyme
reaches its due tyme (`resumed_when_due`) -/
theorem waits_until_due (now stock r : τ) (i : Id) (s : List (Step τ)) (hr : ¬ r ≤ now) :
    stepLeaf now stock (.leaf i r s) = ([], some (.leaf i r s)) := by
  simp [stepLeaf, hr]

theorem resumed_when_due (now stock r : τ) (i : Id) (s : List (Step τ)) (hr : r ≤ now)
    (hnr : ∀ x, (headStep s).1.out ≠ .raise x) :
    (stepLeaf now stock (.leaf i r s)).1.head? = some (ev i .recur now) := by
  simp only [stepLeaf, hr, if_true]
  cases ho : (headStep s).1.out with
  | raise x => exact absurd ho (hnr x)
  | ret v => rfl
  | yieldT t => rfl

/-- asap: a due doer that yields 0 or None gets due tyme `now + scheduler tock` -/
theorem asap_due_tyme (now stock r : τ) (i : Id) (ops : List Op) (t : Option τ) (rest : List (Step τ))
    (hr : r ≤ now) (ha : asap t = true) :
    stepLeaf now stock (.leaf i r (⟨ops, .yieldT t⟩ :: rest)) = ([ev i .recur now], some (.leaf i (now + stock) rest)) := by
  simp [stepLeaf, hr, headStep, nextDue, ha]

/-! ### several cycles of a flat op-free deque -/

/-- non-interference: after `k` cycles of a deque of op-free doers the tyme is `now + tock` iterated `k` times, nobody
raised, and the deque is the original one, in the original order, with every doer advanced ON ITS OWN (`leafAfter`):
a doer's schedule is a function of its own script only -/
theorem flat_cycles_independent (pool : List (Spec τ)) (tock : τ) (k : Nat) (now : τ) (F : List (RT τ)) (doers : List Id)
    (h : F.all RT.plainLeaf = true) :
    cycState pool tock k now F doers = some (iterAdd now tock k, F.filterMap (leafAfter tock k now), doers) :=
  cycState_flat pool tock k now F doers h

/-- … and the events of cycle `k` are those of each doer taken on its own (`stepLeaf`), in deque order -/
theorem flat_cycle_events (pool : List (Spec τ)) (tock : τ) (k : Nat) (now : τ) (F : List (RT τ)) (doers : List Id)
    (h : F.all RT.plainLeaf = true) :
    ∃ t D ds, cycState pool tock k now F doers = some (t, D, ds) ∧ t = iterAdd now tock k
      ∧ (runCycle pool t tock 0 D { doers := ds }).1 = flatEvs t tock D
      ∧ D = F.filterMap (leafAfter tock k now) :=
  cycle_events_flat pool tock k now F doers h

/-- DUE_CUMULATIVE over cycles: a doer with due tyme `r ≤ now` that yields `x ≠ 0` in the cycle at `now` gets due tyme
`r + x`; counting the following cycles `now + tock, now + tock + tock, …` it emits nothing while the tyme has not reached
`r + x`, and is resumed in the FIRST cycle `j` whose tyme is `≥ r + x` — whatever `now` was (it never drifts) -/
theorem due_cumulative_first_cycle (tock now r x : τ) (i : Id) (ops : List Op) (rest : List (Step τ))
    (hr : r ≤ now) (hx : (x == 0) = false) (j : Nat)
    (hw : ∀ m, m < j → ¬ r + x ≤ iterAdd (now + tock) tock m) (hd : r + x ≤ iterAdd (now + tock) tock j)
    (hnr : ∀ e, (headStep rest).1.out ≠ .raise e) :
    ∃ d, stepLeaf now tock (.leaf i r (⟨ops, .yieldT (some x)⟩ :: rest)) = ([ev i .recur now], some d)
      ∧ (∀ m, m < j → leafEvsAt tock m (now + tock) d = [])
      ∧ (leafEvsAt tock j (now + tock) d).head? = some (ev i .recur (iterAdd (now + tock) tock j)) :=
  ⟨.leaf i (r + x) rest, due_cumulative now tock r x i ops rest hr hx,
    (waits_through tock i (r + x) rest j (now + tock) hw).2,
    resumed_in_first_due_cycle tock i (r + x) rest j (now + tock) hw hd hnr⟩

section laws
variable [LawfulTyme τ]

/-- … which is due in the very next cycle (tyme `now + tock`): under the Doist (`stock = tock`) and inside a tock-0
DoDoer (`stock = 0`, which itself is re-run asap by its parent) -/
theorem asap_next_cycle {tock now stock r : τ} (h0 : 0 ≤ tock) (hst : stock = tock ∨ stock = 0)
    (i : Id) (ops : List Op) (t : Option τ) (rest : List (Step τ)) (hr : r ≤ now) (ha : asap t = true)
    (hnr : ∀ x, (headStep rest).1.out ≠ .raise x) (stock' : τ) :
    ∃ d, (stepLeaf now stock (.leaf i r (⟨ops, .yieldT t⟩ :: rest))).2 = some d
      ∧ (stepLeaf (now + tock) stock' d).1.head? = some (ev i .recur (now + tock)) := by
  refine ⟨.leaf i (now + stock) rest, by rw [asap_due_tyme now stock r i ops t rest hr ha], ?_⟩
  apply resumed_when_due _ _ _ _ _ _ hnr
  rcases hst with e | e
  · rw [e]; exact LawfulTyme.le_refl _
  · rw [e, LawfulTyme.add_zero]; exact LawfulTyme.le_add now tock h0

/-- once due, always due (tymes of later cycles only grow): "the first cycle whose tyme ≥ due" is well defined -/
theorem stays_due {tock now r : τ} (h0 : 0 ≤ tock) (hr : r ≤ now) : r ≤ now + tock :=
  LawfulTyme.le_trans _ _ _ hr (LawfulTyme.le_add now tock h0)

/-- PARTIAL (guard G04, scripts `positive* asap*`): a doer nested in tock-0 DoDoers, at any depth, is resumed at exactly
the tymes at which it is resumed when listed directly under the Doist — so all flat clauses carry over -/
theorem nested_schedule_partial (keep : Id → Bool) (pool : List (Spec τ)) (tock start : τ) (limit : Option τ)
    (fuel : Nat) {p q : List (Spec τ)} (h0 : 0 ≤ tock) (hF : Flattens keep p q) (hG : Spec.allStepsL g04 p = true)
    (i : Id) (hk : keep i = true) :
    recurTymes i (doistDo pool tock start limit fuel p).evs = recurTymes i (doistDo pool tock start limit fuel q).evs := by
  have hv := hF.sameView hG pool h0 start limit fuel
  rw [← keepView_recurTymes keep i hk, ← keepView_recurTymes keep i hk (doistDo pool tock start limit fuel q).evs, hv.1]

end laws

/-! ### the witness of pre-finding F46 (τ := Nat) and tests -/

def yN (t : Option Nat) : Step Nat := ⟨[], .yieldT t⟩
def scriptF46 : List (Step Nat) := [yN (some 0), yN (some 3), yN (some 0), yN (some 0)]
def busy : Spec Nat := .leaf 2 .ok [yN (some 0), yN (some 0), yN (some 0), yN (some 0), yN (some 0), yN (some 0), yN (some 0)]

/-- the cumulative clause FAILS for a doer inside a tock-0 DoDoer that yields a positive tock after an asap yield: the
property (and the flat run) say 0, 1, 4, 5, 6 — `sched` — the nested doer is resumed at 0, 1, 3, 4, 5 -/
theorem due_cumulative_fails_nested :
    recurTymes 1 (doistDo [] 1 0 none 100 [.leaf 1 .ok scriptF46, busy]).evs = sched 1 8 0 0 scriptF46
    ∧ recurTymes 1 (doistDo [] 1 0 none 100 [.group 9 0 false [.leaf 1 .ok scriptF46] [], busy]).evs ≠ sched 1 8 0 0 scriptF46 := by
  decide

/-- non-vacuity of `due_cumulative_first_cycle` (τ := Nat): due tyme 2, resumed late at 5, yields 7 at tock 3: new due 9
(not 12); the cycle at 8 passes without an event, the doer is resumed in the cycle at 11 (j = 1) -/
example : ∃ d, stepLeaf 5 3 (.leaf 1 2 (⟨[], .yieldT (some 7)⟩ :: [yN none])) = ([ev 1 .recur 5], some d)
      ∧ (∀ m, m < 1 → leafEvsAt 3 m (5 + 3) d = [])
      ∧ (leafEvsAt 3 1 (5 + 3) d).head? = some (ev 1 .recur (iterAdd (5 + 3) 3 1)) :=
  due_cumulative_first_cycle 3 5 2 7 1 [] [yN none] (by decide) (by decide) 1
    (fun m hm => by have : m = 0 := by omega
                    subst this; decide)
    (by decide) (by intro e; simp [headStep, yN])

/-- test: `sched` on the witness script -/
example : sched 1 8 0 0 scriptF46 = [0, 1, 4, 5, 6] := by decide

/-- non-vacuity of `nested_schedule_partial`: two levels of nesting, G04 scripts -/
example : recurTymes 1 (doistDo [] 2 7 (some 9) 100
      [.group 9 0 false [.group 8 0 false [.leaf 1 .ok [yN (some 3), yN (some 5), yN none, yN (some 0)]] []] [], busy]).evs
    = recurTymes 1 (doistDo [] 2 7 (some 9) 100 [.leaf 1 .ok [yN (some 3), yN (some 5), yN none, yN (some 0)], busy]).evs :=
  nested_schedule_partial (fun i => i != 9 && i != 8) [] 2 7 (some 9) 100 (by decide)
    (Flattens.group (q1 := [_]) (q2 := [_]) (by decide)
      (Flattens.group (q1 := [_]) (q2 := []) (by decide) (Flattens.leaf (by decide) (by decide) trivial Flattens.nil) Flattens.nil)
      (Flattens.leaf (by decide) (by decide) trivial Flattens.nil))
    (by decide) 1 (by decide)

end Hio.Sched
