import HioModel.Sched.TimeModel
namespace Hio.Sched
theorem c03_stub : (1 : Nat) = 1 := rfl
end Hio.Sched
