#!/bin/sh
# tools/runall.sh [tier] [seed] [parallelism] — run every registered check against /repo; print one status line each
cd "$(dirname "$0")/.."
TIER="${1:-quick}"; SEED="${2:-1}"; PAR="${3:-6}"
python3 -c "
import json
for c in json.load(open('MANIFEST.json'))['checks']: print(c['property_id'])" | \
xargs -P "$PAR" -I{} sh -c './check {} --tier '"$TIER"' --seed '"$SEED"' > /tmp/runall_{}.log 2>&1; echo "{} exit=$? $(grep -c "^KNOWN-FINDING" /tmp/runall_{}.log) known $(grep "^VIOLATION" /tmp/runall_{}.log | head -1) | $(tail -1 /tmp/runall_{}.log | cut -c1-150)"' | sort
