#!/bin/sh
# tools/snapcommit.sh "<commit message>"  — commit a VERIFIED snapshot of /verif while area work continues in the live tree.
# Copies /verif to a scratch dir, rebuilds and runs every quick check there against /repo, and only if all exit 0
# commits that snapshot and moves /verif's HEAD (index only, working tree untouched) onto the new commit.
MSG="$1"; [ -n "$MSG" ] || { echo "usage: snapcommit.sh <message>"; exit 2; }
S=/tmp/vsnap
rm -rf "$S"; rsync -a --exclude replays /verif/ "$S/" || exit 2
cd "$S" || exit 2
tools/build_all.sh > /tmp/vsnap_build.log 2>&1 || { echo "SNAPSHOT build failed"; tail -20 /tmp/vsnap_build.log; exit 1; }
tools/runall.sh quick 1 8 > /tmp/vsnap_run.log 2>&1
if grep -v " exit=0 " /tmp/vsnap_run.log | grep -q exit=; then echo "SNAPSHOT not green:"; grep -v " exit=0 " /tmp/vsnap_run.log; exit 1; fi
PYTHONPATH=/repo/src:$S PYTHONDONTWRITEBYTECODE=1 /venv/bin/python tools/mkmanifest.py >/dev/null 2>&1; PYTHONPATH=/repo/src:$S PYTHONDONTWRITEBYTECODE=1 /venv/bin/python tools/mkreport.py >/dev/null; PYTHONPATH=/repo/src:$S PYTHONDONTWRITEBYTECODE=1 /venv/bin/python tools/regen.py >/dev/null 2>&1
git add -A && git commit -q -m "$MSG" || exit 1
H=$(git rev-parse HEAD)
cd /verif && git fetch -q "$S" main && git reset -q --mixed "$H" && echo "committed $H" && git log --oneline -1
rm -rf "$S"
