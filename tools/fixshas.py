#!/usr/bin/env python3
"""Rewrite the `commit` of every fixed known-finding entry to the sha of that commit on /repo's main branch.

Area fixes are made on fix/<pkg> branches and cherry-picked into main, which gives them new shas; the branches are
removed at the end.  Entries are matched by commit subject (and patch-id as a cross-check); the branch sha is kept
as `branch_commit`.  Reports entries whose commit cannot be found on main.
"""
import glob, json, os, subprocess
HERE = os.path.dirname(os.path.dirname(os.path.abspath(__file__)))
def git(*a):
    return subprocess.run(["git", "-C", "/repo"] + list(a), capture_output=True, text=True).stdout
main = [l.split(" ", 1) for l in git("log", "--format=%h %s", "main").splitlines()]
bysubj = {}
for h, s in main:
    bysubj.setdefault(s, h)
mainset = {h for h, _ in main}
bad = 0
for f in [os.path.join(HERE, "known_findings.json")] + sorted(glob.glob(os.path.join(HERE, "known_findings.d", "*.json"))):
    es = json.load(open(f)); ch = False
    for e in es:
        c = e.get("commit")
        if e.get("status") != "fixed" or not c:
            continue
        if any(h.startswith(c) or c.startswith(h) for h in mainset):
            continue
        subj = git("log", "-1", "--format=%s", c).strip()
        h = bysubj.get(subj)
        if not h:
            print("NOT ON MAIN:", os.path.basename(f), e["id"], c, subj); bad += 1
            continue
        e["branch_commit"] = c; e["commit"] = h; ch = True
    if ch:
        json.dump(es, open(f, "w"), indent=1, ensure_ascii=False); open(f, "a").write("\n")
print("done; unresolved:", bad)
