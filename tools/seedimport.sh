#!/bin/sh
# tools/seedimport.sh Cxx "<pytest paths>"  — import /tmp/mut_cxx_out/<i> as seeded/Cxx-m<i>, verify, run the check
P="$1"; TESTS="$2"; PFX="${3:-mut}"; TAG="${4:-m}"; low=$(echo "$P" | tr 'A-Z' 'a-z')
cd "$(dirname "$0")/.."
[ -f /tmp/${PFX}_${low}_out/2/patch.diff ] || { echo "$P: no complete output in /tmp/${PFX}_${low}_out — not importing"; exit 1; }
for d in /tmp/${PFX}_${low}_out/[0-9]*; do
  i=$(basename "$d"); id="$P-$TAG$i"; mkdir -p "seeded/$id"
  cp "$d"/*.diff "$d"/*.py "$d"/*.pem "$d"/README.txt "seeded/$id/" 2>/dev/null
  [ -f "seeded/$id/meta.json" ] || cat > "seeded/$id/meta.json" <<M
{"id": "$id", "properties": ["$P"], "origin": "independent sub-agent given only the property record and a scratch worktree of /repo",
 "needs": "see README.txt", "what_ran": "tools/seedverify.py $id $TESTS ; tools/seeded.py run $id --seeds 1,2,3"}
M
  tools/seedverify.py "$id" $TESTS | grep '"ok"'
  [ -n "$NORUN" ] || tools/seeded.py run "$id" --seeds 1,2,3
done
git -C /repo worktree remove --force /tmp/${PFX}_${low} 2>/dev/null; git -C /repo branch -D ${PFX}/${low} -q 2>/dev/null; rm -rf /tmp/${PFX}_${low}_out
