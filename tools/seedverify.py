#!/usr/bin/env python3
"""tools/seedverify.py <seed-id> [pytest paths…] — confirm a seeded change in a scratch worktree:
demo passes on clean HEAD, fails with the patch, and the tree's own tests (given paths) pass/fail identically."""
import json, os, subprocess, sys, tempfile, shutil, re
HERE = os.path.dirname(os.path.dirname(os.path.abspath(__file__)))
sid = sys.argv[1]
tests = sys.argv[2:]
d = os.path.join(HERE, "seeded", sid)
wt = tempfile.mkdtemp(prefix=f"seedver_{sid}_", dir="/tmp"); os.rmdir(wt)
def sh(*a, **k): return subprocess.run(a, capture_output=True, text=True, **k)
out = {}
try:
    assert sh("git", "-C", "/repo", "worktree", "add", "--detach", wt, "HEAD").returncode == 0
    env = dict(os.environ, PYTHONPATH=wt + "/src", HIO_SRC=wt + "/src", PYTHONDONTWRITEBYTECODE="1", PYTHONWARNINGS="ignore")
    def demo():
        return sh("/venv/bin/python", os.path.join(d, "demo.py"), env=env, cwd=wt, timeout=600).returncode
    def tst():
        if not tests: return None
        # private network namespace: the tree's tests bind fixed ports, other runs on this host may hold them
        p = sh("unshare", "-rn", "sh", "-c", 'ip link set lo up 2>/dev/null; exec "$@"', "sh", "/venv/bin/python", "-m", "pytest", *tests, "-q", "-p", "no:cacheprovider", "-x" if False else "-rA", env=env, cwd=wt, timeout=1800)
        return sorted(set(re.findall(r'^(PASSED|FAILED|ERROR) (\S+)', p.stdout, flags=re.M)))
    out["demo_clean_rc"] = demo()
    base = tst()
    ap = sh("git", "-C", wt, "apply", os.path.join(d, "patch.diff"))
    out["applies"] = ap.returncode == 0
    out["demo_patched_rc"] = demo()
    after = tst()
    out["tests"] = tests
    out["tests_same"] = (base == after)
    out["tests_passed"] = len([x for x in (after or []) if x[0] == "PASSED"])
    if base != after:
        out["tests_diff"] = [list(x) for x in set(base or []) ^ set(after or [])][:10]
    out["ok"] = out["demo_clean_rc"] == 0 and out["applies"] and out["demo_patched_rc"] != 0 and out["tests_same"] is not False
finally:
    sh("git", "-C", "/repo", "worktree", "remove", "--force", wt); shutil.rmtree(wt, ignore_errors=True)
print(json.dumps(out, indent=1))
mp = os.path.join(d, "meta.json")
meta = json.load(open(mp)) if os.path.exists(mp) else {}
meta["verified"] = out
json.dump(meta, open(mp, "w"), indent=1)
