#!/usr/bin/env python3
"""Regenerate every translator output (lean/<Pkg>/HioModel/Gen/*.lean) from $HIO_REPO/src (default /repo).
Run by tools/build_all.sh before building, so the build never depends on stale generated files."""
import importlib, json, os, sys
HERE = os.path.dirname(os.path.dirname(os.path.abspath(__file__)))
sys.path.insert(0, HERE)
from harness import core
core.assert_tree()
done = set()
for c in json.load(open(os.path.join(HERE, "MANIFEST.json")))["checks"]:
    pid = c["property_id"]
    chk = importlib.import_module(f"harness.props.{pid}").CHECK
    core.PKG = chk.pkg
    try:
        out = chk.extract()
    except Exception as ex:
        print(f"regen {pid}: {type(ex).__name__}: {ex}", file=sys.stderr)
        sys.exit(2)
    for p in out:
        done.add(f"{chk.pkg}/{p}")
print("regenerated:", " ".join(sorted(done)))
