#!/usr/bin/env python3
"""tools/mutprompts.py <round>  — write /tmp/mutprompt<round>_Cxx.txt for every property: the prompt of tools/mutprompt.py
plus the list of changes earlier rounds already planted (first README line of every seeded/<id>) and the open known
findings (not to be used as triggers).  The sub-agent gets only this text and its own scratch worktree."""
import json, glob, os, re, subprocess, sys
HERE = os.path.dirname(os.path.dirname(os.path.abspath(__file__)))
rnd = sys.argv[1]
prev = {}
for d in sorted(glob.glob(os.path.join(HERE, "seeded", "*"))):
    sid = os.path.basename(d); pid = sid.split("-")[0]
    rd = os.path.join(d, "README.txt")
    if not os.path.exists(rd):
        continue
    lines = [l.strip() for l in open(rd).read().splitlines() if l.strip() and not re.match(r"^[=\-~#*]{3,}$", l.strip())]
    prev.setdefault(pid, []).append(lines[0][:150])
kf = []
for f in [os.path.join(HERE, "known_findings.json")] + sorted(glob.glob(os.path.join(HERE, "known_findings.d", "*.json"))):
    kf += json.load(open(f))
known = {}
for e in kf:
    if e.get("status") == "open":
        known.setdefault(e["property"], []).append(e["what"][:240])
props = [json.loads(l)["id"] for l in open(os.path.join(HERE, "properties.jsonl"))]
for pid in props:
    k = " | ".join(known.get(pid, []))
    p = "; ".join(f"({i+1}) {x}" for i, x in enumerate(prev.get(pid, [])))
    extra = (f"Known and accepted on this tree (do not use as triggers): {k} " if k else "") + (
        "Earlier rounds already planted the following changes for this property — produce changes that are DIFFERENT IN KIND from all of them "
        "(other functions, other mechanisms, other triggers; consider: sibling code paths that reach the same mechanism — TLS variants, Doer wrappers, "
        "context-manager helpers, subclasses in other modules —, public entry points the anchors do not name, configuration changed after construction, "
        "interactions between two features that are each exercised alone, behaviour after an error was handled, the second use of an object after close/reopen, "
        "rarely used constructor parameters and class attributes, ordering of two side effects, numeric/size boundaries nobody tests, argument TYPES the API accepts "
        f"(str vs bytes vs bytearray vs memoryview, int vs float vs bool, tuple vs list), interplay with sibling modules): {p}")
    txt = subprocess.run([os.path.join(HERE, "tools", "mutprompt.py"), pid, "2", extra], capture_output=True, text=True, cwd=HERE).stdout
    low = pid.lower()
    txt = txt.replace(f"/tmp/mut_{low}", f"/tmp/mut{rnd}_{low}").replace(f"mut/{low}", f"mut{rnd}/{low}")
    open(f"/tmp/mutprompt{rnd}_{pid}.txt", "w").write(txt)
print(len(props), "prompts written")
