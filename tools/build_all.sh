#!/bin/sh
# Build every Lean package under lean/ (offline; each package is independent).
HERE="$(cd "$(dirname "$0")/.." && pwd)"
rc=0
pids=""
for d in "$HERE"/lean/*/; do
  [ -f "$d/lakefile.toml" ] || continue
  ( cd "$d" && flock .build.lock lake build >"$d/.build.log" 2>&1 || { echo "build failed: $d"; tail -30 "$d/.build.log"; exit 1; } ) &
  pids="$pids $!"
done
for p in $pids; do wait $p || rc=1; done
exit $rc
