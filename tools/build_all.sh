#!/bin/sh
# Build every Lean package that a registered check uses (offline; each package is independent).
HERE="$(cd "$(dirname "$0")/.." && pwd)"
PKGS=$(python3 -c "
import json,sys
m=json.load(open('$HERE/MANIFEST.json'))
print(' '.join(sorted({c['engine'].split('/')[1] for c in m['checks']})))")
# translators first: generated Lean tables always come from the tree under test, never from a stale checkout
REPO="${HIO_REPO:-/repo}"
PYTHONPATH="$REPO/src:$HERE" PYTHONDONTWRITEBYTECODE=1 PYTHONWARNINGS="ignore::SyntaxWarning" HIO_REPO="$REPO" /venv/bin/python "$HERE/tools/regen.py" || exit 2
rc=0
pids=""
for p in $PKGS; do
  d="$HERE/lean/$p"
  [ -f "$d/lakefile.toml" ] || continue
  ( cd "$d" && flock .build.lock lake build >"$d/.build.log" 2>&1 || { echo "build failed: $d"; tail -30 "$d/.build.log"; exit 1; } ) &
  pids="$pids $!"
done
for p in $pids; do wait $p || rc=1; done
exit $rc
