#!/usr/bin/env python3
"""Regenerate MANIFEST.json from the check modules present in harness/props/."""
import importlib
import json
import os
import sys

HERE = os.path.dirname(os.path.dirname(os.path.abspath(__file__)))
sys.path.insert(0, HERE)
os.environ.setdefault("HIO_REPO", "/repo")
sys.path.insert(0, "/repo/src")

props = [json.loads(l) for l in open(os.path.join(HERE, "properties.jsonl"))]
checks = []
na = []
engines = {}
for p in props:
    pid = p["id"]
    path = os.path.join(HERE, "harness", "props", pid + ".py")
    integrated = set(open(os.path.join(HERE, "integrated.txt")).read().split())
    if not os.path.exists(path) or pid not in integrated:
        na.append(dict(property_id=pid, reason="not yet covered: the Lean model and correspondence for this area are not built in this revision (see DESIGN.md section 5 for the plan)"))
        continue
    try:
        c = importlib.import_module(f"harness.props.{pid}").CHECK
        _ = (c.level_text, c.level_note, c.technique, c.design_ref, c.pkg)
    except Exception as ex:
        print(f"{pid}: check module not loadable yet ({type(ex).__name__}: {ex})", file=sys.stderr)
        na.append(dict(property_id=pid, reason="not yet covered: the check for this property is still being built in this revision"))
        continue
    if getattr(c, "not_applicable", None):
        na.append(dict(property_id=pid, reason=c.not_applicable))
        continue
    checks.append(dict(
        property_id=pid,
        quick_cmd=f"./check {pid} --tier quick",
        thorough_cmd=f"./check {pid} --tier thorough",
        evidence_file=f"evidence/{pid}.json",
        replay_cmd_template=f"./check {pid} --replay {{path}}",
        engine="lean/" + c.pkg,
        level_claimed=dict(category="proof", text=c.level_text, design_ref=c.design_ref),
        level_note=c.level_note,
        technique=c.technique,
    ))
    e = engines.setdefault(c.pkg, dict(name="lean/" + c.pkg, path=f"lean/{c.pkg}", serves_properties=[], kind_free_text="Lean 4 model + theorems, compiled model driver for the differential correspondence run"))
    e["serves_properties"].append(pid)

m = dict(
    version=1,
    setup_cmd="./tools/build_all.sh",
    hooks=dict(guard="IOFLO_HIO_VERIF", enable="no hooks: every adapter observes through public API, harness-side subclasses and scripted fake sockets; checks run /repo/src via PYTHONPATH",
               baseline_off_cmd="cd /repo && /venv/bin/python -m pytest -ra -q -p no:cacheprovider --timeout=900 --continue-on-collection-errors",
               source_commits=[], add_only=True),
    engines=list(engines.values()),
    checks=checks,
    not_applicable=na,
    notes="Technique family: machine-checked proof in Lean 4 over executable models, tied to /repo/src on every run by translator-regenerated tables and a differential correspondence run (model driver vs real code), with an implementation-side oracle per property. See DESIGN.md. known_findings.json lists recorded defects (open) and repaired ones (fixed).",
)
with open(os.path.join(HERE, "MANIFEST.json"), "w") as f:
    json.dump(m, f, indent=1)
print(f"{len(checks)} checks, {len(na)} not_applicable")
