#!/usr/bin/env python3
"""print the prompt given to an independent sub-agent asked to plant breaking changes for property Cxx"""
import json, sys, os
HERE = os.path.dirname(os.path.dirname(os.path.abspath(__file__)))
pid = sys.argv[1]
n = int(sys.argv[2]) if len(sys.argv) > 2 else 3
extra = sys.argv[3] if len(sys.argv) > 3 else ""
p = [json.loads(l) for l in open(os.path.join(HERE, "properties.jsonl")) if json.loads(l)["id"] == pid][0]
low = pid.lower()
files = ", ".join(p["anchors"]["files"])
mech = "; ".join(m["name"] for m in p["anchors"]["mechanism"])
print(f"""You are testing how good a verification suite is by planting realistic, subtle bugs. Work ONLY in your own scratch git worktree of the Python library ioflo/hio; create it with: `git -C /repo worktree add /tmp/mut_{low} -b mut/{low} HEAD`. Do not read or touch anything under /verif, and do not modify /repo itself (only your worktree at /tmp/mut_{low}). The library source is under /tmp/mut_{low}/src/hio; run Python with `cd /tmp/mut_{low} && PYTHONPATH=/tmp/mut_{low}/src PYTHONDONTWRITEBYTECODE=1 /venv/bin/python …` (IMPORTANT: without that PYTHONPATH, `import hio` picks up an older installed copy from site-packages; always assert `hio.__file__` starts with /tmp/mut_{low}/src). The library's own tests run as `cd /tmp/mut_{low} && PYTHONPATH=/tmp/mut_{low}/src /venv/bin/python -m pytest tests/<relevant dirs or files> -q -p no:cacheprovider` (python is 3.12 while the library targets 3.14, so a few tests fail even on the unmodified tree — what matters is that the set of passing tests does not change).

The property under attack (a semantic property users of the library rely on):
"{pid} — {p['title']}. {p['statement']}"
Quantifier: {p['quantifier']['text']}
It is anchored in: {files}. Mechanisms meant to make it hold: {mech}.
{extra}
Produce {n} independent changes to the library ({n} separate patches, each against the unmodified HEAD), each of which breaks the property while the library still imports and the library's own tests for the touched modules still pass exactly as they do without the change (run them before and after and compare the pass/fail sets). Make them the kind of regression a plausible refactor, clean-up or "optimisation" could introduce, and make each need something SPECIFIC to manifest — a particular interleaving, a fault at a particular point, a multi-step sequence of operations, an unusual input or boundary size, or two cooperating sites that each look fine alone — not something ordinary use would expose at once. Make the changes different in kind (different function / different trigger). For each change write a small demonstration (a standalone Python script that fails an assertion / exits non-zero with the change applied and passes without it; it must use only the library's public API plus, where needed, scripted fake sockets / clocks or subclasses, and must not depend on wall-clock timing or on a fixed port being free).

Deliver, for i in 1..{n}: /tmp/mut_{low}_out/<i>/patch.diff (output of `git diff` for that change alone, applicable with `git apply` to the unmodified HEAD), /tmp/mut_{low}_out/<i>/demo.py, and /tmp/mut_{low}_out/<i>/README.txt (what breaks in terms of the property, what specific condition is needed to see it, which tests you ran before/after). After writing them, reset your worktree to clean HEAD (`git -C /tmp/mut_{low} checkout -- .`) but leave the worktree in place. In your final message list the changes in one or two lines each.""")
