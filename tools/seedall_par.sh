#!/bin/sh
# Re-run every seeded change (or those matching a grep pattern) in N parallel streams.
#   tools/seedall_par.sh [streams=8] [seeds=1,2,3] [pattern=.]
# Each stream works in its own scratch copy of /verif (the regenerated Gen/*.lean of a mutated tree must not be
# seen by another run), so streams never interfere; result.json files are copied back, scratch copies are removed.
HERE=$(cd "$(dirname "$0")/.." && pwd)
N=${1:-8}
SEEDS=${2:-1,2,3}
PAT=${3:-.}
rm -f /tmp/vpar_*.log
SD=${SEEDED_DIR:-seeded}
ids=$(ls "$HERE/$SD" | grep -E "$PAT")
k=0
while [ $k -lt "$N" ]; do
  (
    C=/tmp/vpar_$k
    rm -rf "$C"
    rsync -a --exclude replays "$HERE/" "$C/"
    i=0
    for id in $ids; do
      if [ $((i % N)) -eq $k ] && [ -f "$C/$SD/$id/meta.json" ]; then
        "$C/tools/seeded.py" run "$id" --seeds "$SEEDS"
        cp "$C/$SD/$id/result.json" "$HERE/$SD/$id/result.json"
      fi
      i=$((i + 1))
    done
    rm -rf "$C"
  ) > /tmp/vpar_$k.log 2>&1 &
  k=$((k + 1))
done
wait
cat /tmp/vpar_*.log | sort
