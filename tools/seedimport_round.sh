#!/bin/sh
# tools/seedimport_round.sh <prefix e.g. mut5> <tag e.g. r5m> Cxx [Cyy …]
# import + verify (no check run) the listed properties' seeded changes of one round, then run them in parallel
# from scratch copies of /verif (tools/seedall_par.sh).  Only call for agents that have REPORTED.
cd "$(dirname "$0")/.."
PFX="$1"; TAG="$2"; shift 2
pat=""
for P in "$@"; do
  T=$(grep "^$P " tools/seedtests.txt | cut -d' ' -f2-)
  NORUN=1 tools/seedimport.sh "$P" "$T" "$PFX" "$TAG" && pat="$pat|$P-$TAG"
done
[ -n "$pat" ] && tools/seedall_par.sh 8 1,2,3 "${pat#|}"
