#!/usr/bin/env python3
"""Run registered checks against a seeded change without touching /repo's working tree.

  tools/seeded.py run <seed-id> [--tier quick|thorough] [--seeds 1,2,3]
  tools/seeded.py all

For /verif/seeded/<seed-id>/{patch.diff, meta.json}: make a scratch worktree of /repo HEAD under /tmp, apply the
patch, run `./check <prop>` for every property named in meta.json["properties"] with HIO_REPO pointing at it
(evidence and replays redirected to a scratch dir so the committed evidence stays that of the unchanged tree),
restore the regenerated Gen/ files, remove the worktree, and record the outcome in seeded/<seed-id>/result.json.
"""
import json
import os
import shutil
import subprocess
import sys
import tempfile

HERE = os.path.dirname(os.path.dirname(os.path.abspath(__file__)))
SDIR = os.environ.get("SEEDED_DIR", "seeded")   # "harmless" for the behaviour-preserving refactors (expected: every check exits 0)


def sh(*a, **k):
    return subprocess.run(a, capture_output=True, text=True, **k)


def run_one(sid, tier="quick", seeds=(1,)):
    d = os.path.join(HERE, SDIR, sid)
    meta = json.load(open(os.path.join(d, "meta.json")))
    wt = tempfile.mkdtemp(prefix=f"seedrun_{sid}_", dir="/tmp")
    os.rmdir(wt)
    scratch = tempfile.mkdtemp(prefix=f"seedev_{sid}_", dir="/tmp")
    res = dict(seed_id=sid, properties=meta["properties"], runs=[])
    try:
        base = os.environ.get("SEED_BASE") or meta.get("base") or "HEAD"   # superseded changes name the commit they were seeded on
        res["base"] = sh("git", "-C", "/repo", "rev-parse", "--short", base).stdout.strip()
        r = sh("git", "-C", "/repo", "worktree", "add", "--detach", wt, base)
        if r.returncode:
            raise SystemExit(r.stderr)
        r = sh("git", "-C", wt, "apply", os.path.join(d, "patch.diff"))
        if r.returncode:
            res["error"] = "patch does not apply: " + r.stderr[-400:]
            return res
        env = dict(os.environ, HIO_REPO=wt, VERIF_EVIDENCE_DIR=scratch, VERIF_REPLAY_DIR=os.path.join(scratch, "replays"))
        for pid in meta["properties"]:
            for seed in seeds:
                p = sh(os.path.join(HERE, "check"), pid, "--tier", tier, "--seed", str(seed), env=env, cwd=HERE)
                viol = [l for l in p.stdout.splitlines() if l.startswith("VIOLATION")]
                replay = None
                if viol and "replay=" in viol[0]:
                    rp = viol[0].split("replay=")[1].split()[0]
                    rp = rp if os.path.isabs(rp) else os.path.join(HERE, rp)
                    if os.path.exists(rp):
                        replay = json.load(open(rp))
                res["runs"].append(dict(property=pid, seed=seed, tier=tier, exit=p.returncode, violation=viol[:1],
                                        summary=p.stdout.strip().splitlines()[-1:] , stderr=p.stderr[-300:] if p.returncode == 2 else "",
                                        replay=replay))
        res["caught"] = any(r["exit"] == 1 and r["violation"] for r in res["runs"])
        res["caught_with_input"] = any(r["exit"] == 1 and r["violation"] and "no-failing-input-found" not in r["violation"][0] for r in res["runs"])
    finally:
        sh("git", "-C", "/repo", "worktree", "remove", "--force", wt)
        shutil.rmtree(wt, ignore_errors=True)
        shutil.rmtree(scratch, ignore_errors=True)
        # regenerated tables came from the mutated tree: restore the committed ones
        sh("git", "-C", HERE, "checkout", "--", *[os.path.join("lean", p, "HioModel", "Gen") for p in os.listdir(os.path.join(HERE, "lean"))
                                                  if os.path.isdir(os.path.join(HERE, "lean", p, "HioModel", "Gen"))])
    with open(os.path.join(d, "result.json"), "w") as f:
        json.dump(res, f, indent=1)
    return res


def main():
    a = sys.argv[1:]
    tier = "quick"
    seeds = (1,)
    if "--tier" in a:
        tier = a[a.index("--tier") + 1]
    if "--seeds" in a:
        seeds = tuple(int(x) for x in a[a.index("--seeds") + 1].split(","))
    if a and a[0] == "run":
        ids = [a[1]]
    else:
        ids = sorted(os.listdir(os.path.join(HERE, SDIR)))
    for sid in ids:
        if not os.path.exists(os.path.join(HERE, SDIR, sid, "meta.json")):
            continue
        r = run_one(sid, tier, seeds)
        print(sid, "CAUGHT" if r.get("caught") else "MISSED", "(with input)" if r.get("caught_with_input") else "",
              r.get("error", ""), [(x["property"], x["exit"]) for x in r["runs"]])


if __name__ == "__main__":
    main()
