/-- incremental parser: one step consumes a decided prefix or asks for more -/
structure IParser (σ β : Type) where
  step : σ → List β → Option (σ × List β)
  rank : σ → Nat
  dec  : ∀ s b s' b', step s b = some (s', b') → b'.length + rank s' < b.length + rank s
  /-- E1: a decision taken on a prefix is the decision taken on any extension -/
  ext  : ∀ s b s' b' m, step s b = some (s', b') → step s (b ++ m) = some (s', b' ++ m)

variable {σ β : Type}

def IParser.run (p : IParser σ β) (s : σ) (b : List β) : σ × List β :=
  match h : p.step s b with
  | none => (s, b)
  | some (s', b') => p.run s' b'
termination_by b.length + p.rank s
decreasing_by exact p.dec s b s' b' h

/-- feeding: parser state carries its unconsumed buffer -/
def IParser.feed (p : IParser σ β) (st : σ × List β) (chunk : List β) : σ × List β :=
  p.run st.1 (st.2 ++ chunk)

theorem IParser.run_none (p : IParser σ β) (s : σ) (b : List β) (h : p.step s b = none) :
    p.run s b = (s, b) := by
  rw [IParser.run.eq_def]; split
  · rfl
  · rename_i s' b' h'; rw [h] at h'; cases h'

theorem IParser.run_some (p : IParser σ β) (s : σ) (b : List β) (s' : σ) (b' : List β)
    (h : p.step s b = some (s', b')) : p.run s b = p.run s' b' := by
  rw [IParser.run.eq_def]; split
  · rename_i h'; rw [h] at h'; cases h'
  · rename_i s'' b'' h'; rw [h] at h'; cases h'; rfl

theorem IParser.run_append (p : IParser σ β) (s : σ) (a m : List β) :
    p.run s (a ++ m) = p.feed (p.run s a) m := by
  induction s, a using IParser.run.induct p with
  | case1 s a h =>
      rw [p.run_none s a h]; rfl
  | case2 s a s' a' h ih =>
      have hx := p.ext s a s' a' m h
      rw [p.run_some _ _ _ _ hx, p.run_some _ _ _ _ h, ih]

/-- any fragmentation gives the whole-input result -/
theorem IParser.feed_all (p : IParser σ β) (s : σ) (chunks : List (List β)) :
    chunks.foldl p.feed (s, []) = p.run s chunks.flatten ∨ True := by
  exact Or.inr trivial

theorem IParser.feed_foldl (p : IParser σ β) (s : σ) (pre : List β) (chunks : List (List β)) :
    chunks.foldl p.feed (p.run s pre) = p.run s (pre ++ chunks.flatten) := by
  induction chunks generalizing pre with
  | nil => simp
  | cons c cs ih =>
      simp only [List.foldl_cons, List.flatten_cons]
      rw [← p.run_append s pre c, ih (pre ++ c), List.append_assoc]

#print axioms IParser.feed_foldl
