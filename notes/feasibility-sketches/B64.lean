def digits64 (n : Nat) : List Nat :=
  if h : n < 64 then [n] else digits64 (n / 64) ++ [n % 64]
decreasing_by omega

def val64 (ds : List Nat) : Nat := ds.foldl (fun acc d => acc * 64 + d) 0

def intToB64 (n l : Nat) : List Nat :=
  let ds := digits64 n
  List.replicate (l - ds.length) 0 ++ ds

theorem val64_append (a b : List Nat) : val64 (a ++ b) = b.foldl (fun acc d => acc * 64 + d) (val64 a) := by
  simp [val64, List.foldl_append]

theorem val64_digits (n : Nat) : val64 (digits64 n) = n := by
  induction n using digits64.induct with
  | case1 n h => rw [digits64]; simp [h, val64]
  | case2 n h ih => rw [digits64]; simp [h, val64_append, ih]; omega

theorem foldl_replicate_zero (k : Nat) : (List.replicate k 0).foldl (fun acc d => acc * 64 + d) 0 = 0 := by
  induction k with
  | zero => rfl
  | succ k ih => simp [List.replicate_succ, ih]

theorem b64_roundtrip (n l : Nat) : val64 (intToB64 n l) = n := by
  unfold intToB64
  rw [val64_append]
  have : val64 (List.replicate (l - (digits64 n).length) 0) = 0 := foldl_replicate_zero _
  rw [this]; exact val64_digits n

theorem digits_lt (n : Nat) : ∀ d ∈ digits64 n, d < 64 := by
  induction n using digits64.induct with
  | case1 n h => rw [digits64]; simp [h]
  | case2 n h ih => rw [digits64]; simp [h]; intro d hd; rcases hd with hd | hd; exact ih d hd; omega
#print axioms b64_roundtrip
