inductive Kind | cease | exit | exitEnd deriving DecidableEq, Repr
structure Ev where (id : Nat) (kind : Kind) deriving Repr
inductive RT | leaf (id : Nat) | group (id : Nat) (deeds : List RT)

mutual
def closeEv : RT → List Ev
  | .leaf i => [⟨i,.cease⟩, ⟨i,.exit⟩]
  | .group i ds => [⟨i,.cease⟩, ⟨i,.exit⟩] ++ closeAll ds ++ [⟨i,.exitEnd⟩]
def closeAll : List RT → List Ev
  | [] => []
  | d :: ds => closeAll ds ++ closeEv d
end
mutual
def RT.size : RT → Nat
  | .leaf _ => 1
  | .group _ ds => 1 + sizeL ds
def sizeL : List RT → Nat
  | [] => 0
  | d :: ds => d.size + sizeL ds
end
def exits (l : List Ev) : Nat := (l.filter (fun e => e.kind == .exit)).length

theorem exits_append (a b : List Ev) : exits (a ++ b) = exits a + exits b := by
  simp [exits, List.filter_append]

mutual
theorem close_exits : ∀ rt : RT, exits (closeEv rt) = rt.size
  | .leaf i => by simp [closeEv, RT.size, exits]
  | .group i ds => by
      have := closeAll_exits ds
      unfold closeEv RT.size
      rw [exits_append, exits_append, this]
      simp [exits]; omega
theorem closeAll_exits : ∀ ds : List RT, exits (closeAll ds) = sizeL ds
  | [] => by simp [closeAll, sizeL, exits]
  | d :: ds => by
      have h1 := close_exits d
      have h2 := closeAll_exits ds
      simp [closeAll, sizeL, exits_append, h1, h2]; omega
end
#print axioms close_exits
