/-! Prototype: nested generator scheduler model (zipper = deque+marker). Scratch only. -/
namespace Hio

abbrev Id := Nat

inductive Kind | enter | recur | clean | cease | abort | exit | exitEnd
deriving Repr, DecidableEq

structure Ev (τ : Type) where
  id : Id
  kind : Kind
  tyme : τ
deriving Repr

inductive Out (τ : Type)
  | yieldT (t : Option τ)
  | ret (v : Option Bool)
  | boom
deriving Repr

inductive Op
  | extend (poolIdx : List Nat)
  | remove (ids : List Id)
deriving Repr

structure Step (τ : Type) where
  ops : List Op
  out : Out τ
deriving Repr

inductive EnterAct | ok | fail | done (v : Option Bool)
deriving Repr

/-- static description of a doer -/
inductive Spec (τ : Type)
  | leaf (id : Id) (enter : EnterAct) (steps : List (Step τ))
  | group (id : Id) (tock : τ) (always : Bool) (kids : List (Spec τ))

/-- live doer (a generator that is suspended at a yield) -/
inductive RT (τ : Type)
  | leaf (id : Id) (retyme : τ) (steps : List (Step τ))
  | group (id : Id) (retyme : τ) (tock : τ) (always : Bool) (doers : List Id) (deeds : List (RT τ))

def RT.id {τ} : RT τ → Id
  | .leaf i _ _ => i
  | .group i _ _ _ _ _ => i
def RT.retyme {τ} : RT τ → τ
  | .leaf _ r _ => r
  | .group _ r _ _ _ _ => r
def RT.setRetyme {τ} (r : τ) : RT τ → RT τ
  | .leaf i _ s => .leaf i r s
  | .group i _ t a d ds => .group i r t a d ds
def Spec.id {τ} : Spec τ → Id
  | .leaf i _ _ => i
  | .group i _ _ _ => i

variable {τ : Type} [Add τ] [LE τ] [DecidableRel (α := τ) (· ≤ ·)] [OfNat τ 0] [BEq τ]

structure W (τ : Type) where   -- writer state: trace + done flags
  trace : List (Ev τ) := []
  done : List (Id × Option Bool) := []

def W.ev (w : W τ) (i : Id) (k : Kind) (t : τ) : W τ := { w with trace := w.trace ++ [⟨i, k, t⟩] }
def W.setDone (w : W τ) (i : Id) (v : Option Bool) : W τ := { w with done := w.done ++ [(i, v)] }

mutual
/-- force-close a live doer: GeneratorExit path -/
def closeRT (now : τ) (w : W τ) : RT τ → W τ
  | .leaf i _ _ => (w.ev i .cease now).ev i .exit now
  | .group i _ _ _ _ deeds =>
      let w := (w.ev i .cease now).ev i .exit now
      let w := closeAllRev now w deeds
      w.ev i .exitEnd now
/-- close a deque from the right end (LIFO): tail first, then head -/
def closeAllRev (now : τ) (w : W τ) : List (RT τ) → W τ
  | [] => w
  | d :: ds => closeRT now (closeAllRev now w ds) d
end

mutual
/-- enter one spec: returns live RT if it yielded -/
def enterSpec (now : τ) (w : W τ) : Spec τ → W τ × Option (RT τ) × Bool   -- Bool = raised
  | .leaf i act steps =>
      let w := (w.setDone i (some false)).ev i .enter now
      match act with
      | .ok => (w, some (.leaf i now steps), false)
      | .fail => (((w.ev i .abort now).ev i .exit now), none, true)
      | .done v => (((w.ev i .clean now).ev i .exit now).setDone i v, none, false)
  | .group i tock always kids =>
      let w := (w.setDone i (some false)).ev i .enter now
      let (w, deeds, raised) := enterList now w kids []
      if raised then
        -- DoDoer.do: abort, exit(closes entered kids in reverse), re-raise
        let w := (w.ev i .abort now).ev i .exit now
        let w := closeAllRev now w deeds
        (w.ev i .exitEnd now, none, true)
      else (w, some (.group i now tock always (kids.map Spec.id) deeds), false)
def enterList (now : τ) (w : W τ) : List (Spec τ) → List (RT τ) → W τ × List (RT τ) × Bool
  | [], acc => (w, acc, false)
  | s :: ss, acc =>
      match enterSpec now w s with
      | (w, _, true) => (w, acc, true)
      | (w, some rt, false) => enterList now w ss (acc ++ [rt])
      | (w, none, false) => enterList now w ss acc
end


/-- cycle-local scheduler state: the deque right of the marker, the doers list, ids closed by remove() this cycle -/
structure Cyc (τ : Type) where
  pr : List (RT τ) := []
  doers : List Id := []
  gone : List Id := []

def liveUn (c : Cyc τ) (un : List (RT τ)) : List (RT τ) := un.filter (fun d => !c.gone.contains d.id)

/-- Doist/DoDoer.exit on the mid-cycle deque [un..., M, pr...]: pops from the right. (current code: pr reversed then un reversed) -/
def exitZipper (now : τ) (w : W τ) (un pr : List (RT τ)) : W τ :=
  closeAllRev now (closeAllRev now w pr) un

/-- apply extend/remove ops issued by the running deed `self` on its own scheduler -/
def applyOps (pool : List (Spec τ)) (now : τ) (self : Id) (un : List (RT τ)) :
    List Op → W τ → Cyc τ → W τ × Cyc τ × Bool
  | [], w, c => (w, c, false)
  | .extend idxs :: ops, w, c =>
      let specs := (idxs.filterMap (fun k => pool[k]?)).filter (fun s => !c.doers.contains s.id)
      match enterList now w specs [] with
      | (w, _, true) => (w, c, true)      -- enter raised inside extend: local deque is lost (current code)
      | (w, deeds, false) =>
          applyOps pool now self un ops w { c with pr := c.pr ++ deeds, doers := c.doers ++ specs.map Spec.id }
  | .remove ids :: ops, w, c =>
      let rids := ids.filter (fun i => c.doers.contains i)
      let hit (d : RT τ) : Bool := rids.contains d.id
      let rdeeds := (liveUn c un).filter hit ++ c.pr.filter hit      -- deque scan order
      let w := closeAllRev now w rdeeds
      applyOps pool now self un ops w
        { pr := c.pr.filter (fun d => !hit d), doers := c.doers.filter (fun i => !rids.contains i),
          gone := c.gone ++ rdeeds.map RT.id }

inductive Res (τ : Type)
  | yielded (rt : RT τ) (tock : Option τ)
  | finished (v : Option Bool)
  | raised

def asap (t : Option τ) : Bool := match t with | none => true | some x => x == 0

mutual
/-- dog.send(now) for a group (DoDoer.do body after the yield) -/
def resumeGroup (pool : List (Spec τ)) (now : τ) (w : W τ) : RT τ → W τ × Res τ
  | .leaf _ _ _ => (w, .raised)   -- not used: leaves are stepped by their scheduler (they may issue ops on it)
  | .group i r tock always doers deeds =>
      let w := w.ev i .recur now
      match runCycle pool now tock w deeds {doers := doers} with
      | (w, un, c, true) =>      -- a child raised: DoDoer.do -> abort, exit (closes the rest), re-raise
          let w := (w.ev i .abort now).ev i .exit now
          let w := exitZipper now w un c.pr
          (w.ev i .exitEnd now, .raised)
      | (w, _, c, false) =>
          let done := c.pr.isEmpty
          if !done || always then (w, .yielded (.group i r tock always c.doers c.pr) (some tock))
          else (((w.ev i .clean now).ev i .exit now).ev i .exitEnd now, .finished (some true))
/-- one pass of Doist.recur / DoDoer.recur over the deque left of the marker. Returns remaining zipper + raised flag -/
def runCycle (pool : List (Spec τ)) (now : τ) (stock : τ) (w : W τ) :
    List (RT τ) → Cyc τ → W τ × List (RT τ) × Cyc τ × Bool
  | [], c => (w, [], c, false)
  | d :: un, c =>
    if c.gone.contains d.id then runCycle pool now stock w un c else
    if d.retyme ≤ now then
      match d with
      | .leaf i r steps =>
          let w := w.ev i .recur now
          let (st, rest) : Step τ × List (Step τ) := match steps with
            | [] => (⟨[], .ret none⟩, [])
            | s :: ss => (s, ss)
          let (w, c, opRaised) := applyOps pool now i un st.ops w c
          let out := if opRaised then Out.boom else st.out
          match out with
          | .boom => (((w.ev i .abort now).ev i .exit now), liveUn c un, c, true)
          | .ret v =>
              let w := ((w.ev i .clean now).ev i .exit now)
              let w := match v with | none => w | some _ => w.setDone i v
              runCycle pool now stock w un c
          | .yieldT t =>
              let r' := if asap t then now + stock else match t with | some x => r + x | none => r
              runCycle pool now stock w un { c with pr := c.pr ++ [.leaf i r' rest] }
      | .group i r tock always doers deeds =>
          match resumeGroup pool now w (.group i r tock always doers deeds) with
          | (w, .raised) => (w, liveUn c un, c, true)
          | (w, .finished v) => runCycle pool now stock (w.setDone i v) un c
          | (w, .yielded rt t) =>
              let r' := if asap t then now + stock else match t with | some x => r + x | none => r
              runCycle pool now stock w un { c with pr := c.pr ++ [rt.setRetyme r'] }
    else runCycle pool now stock w un { c with pr := c.pr ++ [d] }
end


structure Final (τ : Type) where
  trace : List (Ev τ)
  dones : List (Id × Option Bool)
  done : Bool
  tyme : τ
  raised : Bool
  cycles : Nat

/-- Doist.do main loop (virtual time). `stopAt` = some (start + limit) models the Tymer on the limit. -/
def doLoop (pool : List (Spec τ)) (tock : τ) (stopAt : Option τ) :
    Nat → Nat → τ → W τ → List (RT τ) → List Id → Final τ
  | 0, n, now, w, deeds, _ => ⟨(closeAllRev now w deeds).trace, (closeAllRev now w deeds).done, false, now, false, n⟩
  | fuel+1, n, now, w, deeds, doers =>
      match runCycle pool now tock w deeds {doers := doers} with
      | (w, un, c, true) =>
          let now' := now  -- tick() not reached when recur raises
          let w := exitZipper now' w un c.pr
          ⟨w.trace, w.done, false, now', true, n+1⟩
      | (w, _, c, false) =>
          let now' := now + tock
          if c.pr.isEmpty then ⟨w.trace, w.done, true, now', false, n+1⟩
          else match stopAt with
            | some s => if s ≤ now' then
                          let w := closeAllRev now' w c.pr
                          ⟨w.trace, w.done, false, now', false, n+1⟩
                        else doLoop pool tock stopAt fuel (n+1) now' w c.pr c.doers
            | none => doLoop pool tock stopAt fuel (n+1) now' w c.pr c.doers

def doistDo (pool : List (Spec τ)) (tock start : τ) (limit : Option τ) (fuel : Nat) (specs : List (Spec τ)) : Final τ :=
  match enterList start {} specs [] with
  | (w, deeds, true) => let w := closeAllRev start w deeds; ⟨w.trace, w.done, false, start, true, 0⟩
  | (w, deeds, false) => doLoop pool tock (limit.map (start + ·)) fuel 0 start w deeds (specs.map Spec.id)

end Hio

open Hio
def y (t : Float) : Step Float := ⟨[], .yieldT (some t)⟩
def lf (i : Nat) (steps : List (Step Float)) : Spec Float := .leaf i .ok steps
def show' (f : Final Float) : String :=
  String.intercalate " " (f.trace.map fun e => s!"{e.id}:{repr e.kind}@{e.tyme}") ++ s!" | done={f.done} raised={f.raised} tyme={f.tyme}"
-- t1.py scenario 1: a b c(boom at 2nd recur) d
#eval show' (doistDo [] 1.0 0.0 (some 10.0) 50 [lf 0 [y 0, y 0, y 0], lf 1 [y 0, y 0, y 0], lf 2 [y 0, ⟨[], .boom⟩], lf 3 [y 0,y 0,y 0]])
-- nested
#eval show' (doistDo [] 1.0 0.0 (some 10.0) 50 [.group 10 0.0 false [lf 0 [y 0, y 0, y 0], lf 1 [y 0, y 0, y 0]], .group 11 0.0 false [lf 2 [y 0, ⟨[], .boom⟩], lf 3 [y 0,y 0,y 0]]])
-- extend from b
#eval show' (doistDo [lf 4 (List.replicate 9 (y 0))] 1.0 0.0 (some 3.0) 50 [lf 0 (List.replicate 9 (y 0)), lf 1 (⟨[.extend [0]], .yieldT (some 0)⟩ :: List.replicate 9 (y 0)), lf 2 (List.replicate 9 (y 0))])
