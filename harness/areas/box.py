"""Shared Python for the Box area (C25): case format, adapter that builds a real boxwork with
recording acts in every nabe via Boxer.make, documented-pile helpers for the oracle, generators.

case = (boxes, first, ticks, endat)
  boxes : list of (parent, counts, pres, gos)    box i is named "b<i>", declared in list order
     parent : index of the over box (< i) or -1 for a top-level box
     counts : 8 ints, number of recording acts in (remark, rendo, enmark, endo, redo, afdo, exdo, rexdo)
     pres   : list of masks; preact k of the box is satisfied at tick t iff (mask >> t) & 1
     gos    : list of (dest, mask); goact j of the box fires at tick t iff (mask >> t) & 1
  first : index of the box marked first=True, or -1 (the boxer then starts in the first declared box)
  ticks : number of send() calls after the initial next()   (tick 0 = next(), tick k = k-th send)
  endat : tick before which the harness sets the boxer's end bag to True (like EndAct does), or -1

observation = (rec_0, rec_1, ..., final)
  rec_t  = (t, active box index after the call or None, ((box, nabe, actindex), ...))
  final  = ("ret", True|False) when the generator returned, ("live",) when still running after `ticks`
           sends, ("exc", ClassName) when an exception escaped
"""
from .. import core

NABES8 = ("remark", "rendo", "enmark", "endo", "redo", "afdo", "exdo", "rexdo")
BOXER = "bxr"


# --------------------------------------------------------------------------
# documented structure (used by oracle and generators; not by the adapter)

def unders_of(boxes):
    u = [[] for _ in boxes]
    for i, b in enumerate(boxes):
        if b[0] >= 0:
            u[b[0]].append(i)
    return u


def pile_of(boxes, x):
    """documented pile of box x: its overs top-down, x, then primary unders down to a leaf"""
    u = unders_of(boxes)
    up = []
    p = boxes[x][0]
    while p >= 0:
        up.insert(0, p)
        p = boxes[p][0]
    dn = []
    c = x
    while u[c]:
        c = u[c][0]
        dn.append(c)
    return up + [x] + dn


def split(boxes, active, dest):
    """(kept, left, arrived) top-down for a transition of the active pile to dest, as the docs describe:
    forced re-entry from dest down when dest is in the active pile, else fork at first difference"""
    A = pile_of(boxes, active)
    D = pile_of(boxes, dest)
    if dest in A:
        i = A.index(dest)
    else:
        i = 0
        while i < min(len(A), len(D)) and A[i] == D[i]:
            i += 1
    return A[:i], A[i:], D[i:]


def relation(boxes, active, dest):
    """name of the topological relation of dest to the active pile (for histograms / generators)"""
    A = pile_of(boxes, active)
    D = pile_of(boxes, dest)
    if dest == active:
        return "self"
    if dest in A:
        return "ancestor" if A.index(dest) < A.index(active) else "descendant-in-pile"
    kept, left, arr = split(boxes, active, dest)
    if not kept:
        return "other-tree"
    if active in D and D.index(active) < D.index(dest):
        return "descendant"
    if len(left) == 1 and len(arr) == 1:
        return "sibling"
    return "cousin"


# --------------------------------------------------------------------------
# options (5th component of a case; a 4-tuple case means "no options")
#
# opts = (style, mode, raises, enders, rerun, neighbour)
#   style  : bit set choosing HOW the same boxwork is declared (does not change what it is):
#            1 over given as Box object   2 over="" (same level) when the previous box has the same over
#            4 goact dest given as Box object when already declared   8 dest "next"/None when dest is the next box
#            16 at(nabe) + do(deed) instead of do(deed, nabe=)   32 acts of different nabes declared interleaved,
#            goacts first   64 first set through boxer.first after make (instead of bx(first=True))
#   mode   : 0 Boxer.make + run driven by next()/send()      1 boxes constructed directly (Box(), Act(), Goact()), no make
#            2 BoxerDoer under a Doist (enter() makes the boxwork; doist.recur() per tick)
#   raises : list of (box, nabe, idx, tick, ExcName): that act/preact/goact raises ExcName when run at that tick
#   enders : list of (box, nabe, idx): that act sets the boxer's end bag to True whenever it runs (like EndAct)
#   rerun  : 1 = after the run, reset the end bag and run the SAME Boxer object a second time (modes 0, 1)
#   neighbour : 1 = a second Boxer "bxr2" sharing the Hold is driven interleaved and ends early (modes 0, 1)
NOOPTS = (0, 0, [], [], 0, 0)
EXC_NAMES = ("ValueError", "KeyError", "TypeError", "OSError", "UnicodeError", "OverflowError", "RuntimeError",
             "HierError", "KeyboardInterrupt", "SystemExit", "CancelledError", "GeneratorExit", "MemoryError")


def parts(case):
    if len(case) == 4:
        return case + (NOOPTS,)
    return case


def _exc(name):
    import asyncio
    import builtins
    from hio.hioing import HierError
    if name == "HierError":
        return HierError
    if name == "CancelledError":
        return asyncio.CancelledError
    return getattr(builtins, name)


# --------------------------------------------------------------------------
# adapter: the REAL code

def run_impl(case):
    from hio.base.hier import boxing, acting, needing, holding, bagging
    from hio.base import doing
    boxes, first, ticks, endat, (style, mode, raises, enders, rerun, neighbour) = parts(case)
    acting.ActBase._clearall()
    st = dict(t=0, log=[], boxer=None)
    raising = {}
    for (b, nb, k, t, nm) in raises:
        raising.setdefault((b, nb, k, t), nm)      # first entry wins
    ending = {(b, nb, k) for (b, nb, k) in enders}
    endkey = ("", "boxer", BOXER, "end")
    actkey = ("", "boxer", BOXER, "active")
    hold = holding.Hold()
    idx = {f"b{i}": i for i in range(len(boxes))}

    def note(i, nabe, k):
        bx_ = st["boxer"].box
        hv = hold[actkey].value if (actkey in hold and st["t"] > 0) else None
        st["log"].append((i, nabe, k, idx[bx_.name] if bx_ is not None else None, idx.get(hv) if hv is not None else None))
        if (i, nabe, k) in ending:
            hold[endkey].value = True
        nm = raising.get((i, nabe, k, st["t"]))
        if nm:
            raise _exc(nm)(f"act {i} {nabe} {k}")

    def rec(i, nabe, k):
        def deed(**iops):
            note(i, nabe, k)
        return deed

    def pre(i, k, mask):
        def deed(**iops):
            note(i, "predo", k)
            return bool((mask >> st["t"]) & 1)
        return deed

    class RecNeed(needing.Need):
        def __init__(self, i, j, mask, **kwa):
            super().__init__(**kwa)
            self._i, self._j, self._mask = i, j, mask

        def __call__(self, **iops):
            note(self._i, "godo", self._j)
            return bool((self._mask >> st["t"]) & 1)

    def fun(H, bx, go, do, on, at, be):
        made = {}
        for i, (parent, counts, pres, gos) in enumerate(boxes):
            if parent < 0:
                over = None
            elif (style & 2) and i > 0 and boxes[i - 1][0] == parent:
                over = ""                      # same level as the previous box
            elif style & 1:
                over = made[parent]            # the Box object
            else:
                over = f"b{parent}"
            made[i] = bx(name=f"b{i}", over=over, first=(i == first and (mode == 2 or not (style & 64))))
            todo = [("predo", pre(i, k, mask)) for k, mask in enumerate(pres)]
            for nabe, n in zip(NABES8, counts):
                todo += [(nabe, rec(i, nabe, k)) for k in range(n)]
            if style & 32:                     # interleave nabes round-robin (per-nabe order is kept)
                by = {}
                for nabe, d in todo:
                    by.setdefault(nabe, []).append(d)
                todo = []
                while any(by.values()):
                    for nabe in list(by):
                        if by[nabe]:
                            todo.append((nabe, by[nabe].pop(0)))

            def declare_gos():
                for j, (dest, mask) in enumerate(gos):
                    need = RecNeed(i, j, mask, hold=H)
                    if (style & 8) and dest == i + 1 and dest < len(boxes):
                        go(None if j % 2 else "next", need)
                    elif (style & 4) and dest in made:
                        go(made[dest], need)
                    else:
                        go(f"b{dest}", need)
            if style & 32:
                declare_gos()
            for nabe, d in todo:
                if style & 16:
                    at(nabe)
                    do(d)
                else:
                    do(d, nabe=nabe)
            if not (style & 32):
                declare_gos()

    def build_direct(boxer):
        made = {}
        for i, (parent, counts, pres, gos) in enumerate(boxes):
            b = boxing.Box(name=f"b{i}", over=(made[parent] if parent >= 0 else None), hold=hold)
            if parent >= 0:
                made[parent].unders.append(b)
            boxer.boxes[b.name] = b
            made[i] = b
        for i, (parent, counts, pres, gos) in enumerate(boxes):
            b = made[i]
            for k, mask in enumerate(pres):
                b.preacts.append(acting.Act(deed=pre(i, k, mask), nabe="predo", hold=hold))
            for nabe, n in zip(NABES8, counts):
                for k in range(n):
                    getattr(b, boxing.nabeDispatch[nabe]).append(acting.Act(deed=rec(i, nabe, k), nabe=nabe, hold=hold))
            for j, (dest, mask) in enumerate(gos):
                b.goacts.append(acting.Goact(dest=made[dest], need=RecNeed(i, j, mask, hold=hold), hold=hold))
        return made

    if endkey not in hold:
        hold[endkey] = bagging.Bag()
    if mode == 2:
        boxer = boxing.Boxer(name=BOXER, hold=hold, fun=fun)
    else:
        boxer = boxing.Boxer(name=BOXER, hold=hold)
        if mode == 1:
            made = build_direct(boxer)
            if first >= 0:
                boxer.first = made[first]
        else:
            if first >= 0 and (style & 64) and (style & 2):
                boxer.first = f"b{first}"          # a name given before make is resolved by resolve()
            boxer.make(fun)
            if first >= 0 and (style & 64) and not (style & 2):
                boxer.first = boxer.boxes[f"b{first}"]
    st["boxer"] = boxer

    # optional neighbour: another boxer on the same hold, two boxes flipping every pass, ended early
    nb_step = None
    if neighbour and mode != 2:
        nboxer = boxing.Boxer(name=BOXER + "2", hold=hold)

        def nfun(H, bx, go, do, on, at, be):
            bx(name="n0", over=None)
            go("n1")
            bx(name="n1", over=None)
            go("n0")
        nboxer.make(nfun)
        nkey = ("", "boxer", BOXER + "2", "end")
        hold[nkey] = bagging.Bag()
        nrung = nboxer.run(tock=1.0)
        nstate = dict(alive=True, n=0)

        def nb_step():
            if not nstate["alive"]:
                return
            try:
                if nstate["n"] == 0:
                    next(nrung)
                else:
                    nrung.send(float(nstate["n"]))
            except StopIteration:
                nstate["alive"] = False
            nstate["n"] += 1
            if nstate["n"] == 3:
                hold[nkey].value = True

    out = []
    for round_ in range(2 if (rerun and mode != 2) else 1):
        final = ("live",)
        hold[endkey].value = None
        rung = None
        doist = None
        for t in range(ticks + 1):
            st["t"] = t
            st["log"] = []
            if t == endat:
                hold[endkey].value = True
            try:
                if mode == 2:
                    if t == 0:
                        doer = boxing.BoxerDoer(boxer=boxer, tock=1.0)
                        doist = doing.Doist(tock=1.0, real=False, doers=[doer])
                        doist.enter()
                    else:
                        doist.recur()
                    if not doist.deeds:
                        final = ("ret", doer.done if doer.done is None else bool(doer.done))
                else:
                    if t == 0:
                        rung = boxer.run(tock=1.0)
                        next(rung)
                    else:
                        rung.send(float(t))
            except StopIteration as ex:
                final = ("ret", bool(ex.value) if ex.value is not None else None)
            except core.Infra:
                raise
            except BaseException as ex:   # whatever the real code lets escape is an observation
                final = ("exc", type(ex).__name__)
            if nb_step:
                nb_step()
            act = idx.get(boxer.box.name) if boxer.box is not None else None
            out.append((t, act, tuple(st["log"])))
            if final != ("live",):
                break
        out.append(final)
        if rung is not None:
            rung.close()
        if doist is not None:
            try:
                doist.exit()
            except BaseException:
                pass
    return tuple(out)


def request(case):
    boxes, first, ticks, endat, (style, mode, raises, enders, rerun, neighbour) = parts(case)
    return ("run",
            tuple((p + 1, tuple(c), tuple(pres), tuple((d, m) for d, m in gos)) for p, c, pres, gos in boxes),
            first + 1, ticks, endat + 1,
            tuple((b, nb, k, t, nm) for (b, nb, k, t, nm) in raises),
            tuple((b, nb, k) for (b, nb, k) in enders),
            1 if (rerun and mode != 2) else 0)


# --------------------------------------------------------------------------
# generators

import functools


@functools.lru_cache(maxsize=None)
def all_shapes(n):
    """every ordered forest with n boxes as a parent list in preorder declaration (Catalan many)"""
    if n == 0:
        return [[]]
    out = []

    def grow(parents, spine):
        # spine = path of indices from a root to the last declared box; the next box may hang under any of
        # them (becoming its last under) or start a new tree
        if len(parents) == n:
            out.append(list(parents))
            return
        i = len(parents)
        grow(parents + [-1], [i])
        for d, s in enumerate(spine):
            grow(parents + [s], spine[:d + 1] + [i])
    grow([-1], [0])
    return out


def random_parents(rng, n):
    """random declaration: parent of box i uniform among earlier boxes or none (not only preorder)"""
    ps = [-1]
    style = rng.random()
    for i in range(1, n):
        if style < 0.25:      # deep
            ps.append(rng.choice([i - 1, i - 1, rng.randrange(-1, i)]))
        elif style < 0.5:     # wide
            ps.append(rng.choice([0, 0, rng.randrange(-1, i)]))
        else:
            ps.append(rng.randrange(-1, i) if rng.random() < 0.85 else -1)
    return ps


def _counts(rng, rich):
    if rich:
        return tuple(rng.choice([1, 1, 2, 2, 3]) for _ in NABES8)
    return tuple(rng.choice([0, 1, 1, 2]) for _ in NABES8)


def scripted(rng, parents, steps, fail_p=0.25, rich=True, first=-1, end=True, noise=0.3):
    """build a case that walks the boxwork through `steps` chosen destinations: at tick k+2 (the first loop
    pass is tick 2) exactly one goact somewhere in the then-active pile fires toward dest k; with probability
    fail_p a preact of one arrived box is made to fail at that tick (then the walk stays put)."""
    n = len(parents)
    boxes = [[p, _counts(rng, rich), [], []] for p in parents]
    lit = [(p, None, None, None) for p in parents]
    cur = first if first >= 0 else 0
    ticks = 1
    # a failing first entry now and then
    for k in range(steps):
        t = k + 2
        ticks = t
        # choose the KIND of transition first (sibling / cousin / ancestor / descendant / self / other tree …)
        # so that rare topologies are as frequent as common ones
        kinds = {}
        for d in range(n):
            kinds.setdefault(relation(lit, cur, d), []).append(d)
        dest = rng.choice(kinds[rng.choice(sorted(kinds))])
        A = pile_of(lit, cur)
        holder = rng.choice(A)
        # decoy goacts that never fire / fire but precondition fails, placed before the real one
        boxes[holder][3].append([dest, 1 << t])
        kept, left, arr = split(lit, cur, dest)
        if rng.random() < fail_p and arr:
            victim = rng.choice(arr)
            # one preact failing exactly at tick t (others pass everywhere)
            allbits = (1 << 40) - 1
            boxes[victim][2].append(allbits & ~(1 << t))
        else:
            blocked = False
            for b in arr:
                for m in boxes[b][2]:
                    if not (m >> t) & 1:
                        blocked = True
            if not blocked:
                cur = dest
    # noise: preacts that always pass, goacts that never fire
    for b in boxes:
        if rng.random() < noise:
            b[2].insert(rng.randrange(len(b[2]) + 1), (1 << 40) - 1)
        if rng.random() < noise:
            b[3].insert(rng.randrange(len(b[3]) + 1), [rng.randrange(n), 0])
    endat = -1
    if end and rng.random() < 0.7:
        endat = ticks + 1
        ticks += 1
    case = ([(b[0], b[1], list(b[2]), [tuple(g) for g in b[3]]) for b in boxes], first, ticks, endat)
    return case


def chaotic(rng, parents, ticks):
    """random goacts and preacts with random masks: several goacts may fire in one pass, preconditions fail
    at random, destinations arbitrary"""
    n = len(parents)
    full = (1 << (ticks + 2)) - 1
    boxes = []
    for p in parents:
        pres = []
        for _ in range(rng.choice([0, 0, 1, 1, 2])):
            m = full
            for t in range(ticks + 2):
                if rng.random() < 0.2:
                    m &= ~(1 << t)
            pres.append(m)
        gos = []
        for _ in range(rng.choice([0, 1, 1, 2, 3])):
            m = 0
            for t in range(2, ticks + 2):
                if rng.random() < 0.35:
                    m |= 1 << t
            gos.append((rng.randrange(n), m))
        boxes.append((p, _counts(rng, rng.random() < 0.5), pres, gos))
    first = rng.choice([-1, -1, rng.randrange(n)])
    endat = rng.choice([-1, -1, rng.randrange(1, ticks + 2)])
    return (boxes, first, ticks, endat)


def single_transitions(parents, rich_counts=(1, 2, 1, 2, 1, 1, 2, 2)):
    """for one shape: every (start box, declaring box in its pile, dest) single transition, passing and with a
    failing precondition on each arrived box; then end"""
    n = len(parents)
    lit = [(p, None, None, None) for p in parents]
    out = []
    for start in range(n):
        A = pile_of(lit, start)
        for holder in A:
            for dest in range(n):
                kept, left, arr = split(lit, start, dest)
                for victim in [None] + arr:
                    boxes = []
                    for i, p in enumerate(parents):
                        pres = [0b1011] if i == victim else []     # fails at tick 2 only
                        gos = [(dest, 0b100)] if i == holder else []
                        boxes.append((p, rich_counts, pres, gos))
                    out.append((boxes, start, 3, 3))
    return out
