"""Shared Python for the Box area (C25): case format, adapter that builds a real boxwork with
recording acts in every nabe via Boxer.make, documented-pile helpers for the oracle, generators.

case = (boxes, first, ticks, endat)
  boxes : list of (parent, counts, pres, gos)    box i is named "b<i>", declared in list order
     parent : index of the over box (< i) or -1 for a top-level box
     counts : 8 ints, number of recording acts in (remark, rendo, enmark, endo, redo, afdo, exdo, rexdo)
     pres   : list of masks; preact k of the box is satisfied at tick t iff (mask >> t) & 1
     gos    : list of (dest, mask); goact j of the box fires at tick t iff (mask >> t) & 1
  first : index of the box marked first=True, or -1 (the boxer then starts in the first declared box)
  ticks : number of send() calls after the initial next()   (tick 0 = next(), tick k = k-th send)
  endat : tick before which the harness sets the boxer's end bag to True (like EndAct does), or -1

observation = (rec_0, rec_1, ..., final)
  rec_t  = (t, active box index after the call or None, ((box, nabe, actindex), ...))
  final  = ("ret", True|False) when the generator returned, ("live",) when still running after `ticks`
           sends, ("exc", ClassName) when an exception escaped
"""
from .. import core

NABES8 = ("remark", "rendo", "enmark", "endo", "redo", "afdo", "exdo", "rexdo")
BOXER = "bxr"
NABE_ORD = {n: j for j, n in enumerate(("predo",) + NABES8)}


# --------------------------------------------------------------------------
# documented structure (used by oracle and generators; not by the adapter)

def unders_of(boxes):
    u = [[] for _ in boxes]
    for i, b in enumerate(boxes):
        if b[0] >= 0:
            u[b[0]].append(i)
    return u


def pile_of(boxes, x):
    """documented pile of box x: its overs top-down, x, then primary unders down to a leaf"""
    u = unders_of(boxes)
    up = []
    p = boxes[x][0]
    while p >= 0:
        up.insert(0, p)
        p = boxes[p][0]
    dn = []
    c = x
    while u[c]:
        c = u[c][0]
        dn.append(c)
    return up + [x] + dn


def split(boxes, active, dest):
    """(kept, left, arrived) top-down for a transition of the active pile to dest, as the docs describe:
    forced re-entry from dest down when dest is in the active pile, else fork at first difference"""
    A = pile_of(boxes, active)
    D = pile_of(boxes, dest)
    if dest in A:
        i = A.index(dest)
    else:
        i = 0
        while i < min(len(A), len(D)) and A[i] == D[i]:
            i += 1
    return A[:i], A[i:], D[i:]


def relation(boxes, active, dest):
    """name of the topological relation of dest to the active pile (for histograms / generators)"""
    A = pile_of(boxes, active)
    D = pile_of(boxes, dest)
    if dest == active:
        return "self"
    if dest in A:
        return "ancestor" if A.index(dest) < A.index(active) else "descendant-in-pile"
    kept, left, arr = split(boxes, active, dest)
    if not kept:
        return "other-tree"
    if active in D and D.index(active) < D.index(dest):
        return "descendant"
    if len(left) == 1 and len(arr) == 1:
        return "sibling"
    return "cousin"


# --------------------------------------------------------------------------
# options (5th component of a case; a 4-tuple case means "no options")
#
# opts = (style, mode, raises, enders, rerun, neighbour, truth, verbs)      (shorter tuples from older replays: zeros)
#   style  : bit set choosing HOW the same boxwork is declared (does not change what it is):
#            1 over given as Box object   2 over="" (same level) when the previous box has the same over
#            4 goact dest given as Box object when already declared   8 dest "next"/None when dest is the next box
#            16 at(nabe) + do(deed) instead of do(deed, nabe=)   32 acts of different nabes declared interleaved,
#            goacts first   64 first set through boxer.first after make (instead of bx(first=True))
#   mode   : 0 Boxer.make + run driven by next()/send()      1 boxes constructed directly (Box(), Act(), Goact()), no make
#            2 BoxerDoer under a Doist (enter() makes the boxwork; doist.recur() per tick)
#   raises : list of (box, nabe, idx, tick, ExcName): that act/preact/goact raises ExcName when run at that tick
#   enders : list of (box, nabe, idx): that act sets the boxer's end bag to True whenever it runs (like EndAct)
#   rerun  : 1 = after the run, reset the end bag and run the SAME Boxer object a second time (modes 0, 1)
#   neighbour : 1 = a second Boxer "bxr2" sharing the Hold is driven interleaved and ends early (modes 0, 1)
#   truth  : 0 = preacts / go-needs answer with real bools through harness callables.  n > 0 = the SAME truth bit is
#            delivered as a value drawn from the whole truthiness space (False 0 0.0 None '' [] {} () vs True 1 2.5 'x'
#            [0] {0: 0} (None,)) and through every way a preact / need can be given, chosen per act from n:
#            preact: callable deed | Need instance as deed | on(expr=…) | ActBase subclass | statement-string deed
#            (returns None: only for preacts that are never satisfied);  go-need: Need subclass | expr string compiled by
#            go() | on(expr=…).  expr strings read the hold: "H.c25pre.value(i, k)".  The library judges by truthiness.
#   verbs  : 0 = every act is declared with do(deed, nabe=) (or at()+do with style bit 16).  n > 0 = per act, chosen from n:
#            the VERB (do(callable) | be(lhs, rhs=callable) | be(lhs, rhs="expr over the hold")) and HOW the context is
#            given (inside an at(nabe) section, relying on the context left by the previous act | nabe= per call | nothing
#            at all for endo in a fresh box).  A `be` act logs through the hold: its rhs is evaluated, then assigned.
#            Preacts given as plain callables may also be `be` acts (Beact returns the assigned value).
#            When n % 4 == 3 each box additionally gets LIBRARY acts in place of recording ones: one enmark act is the
#            LapseMark that on("lapse …") appends, one remark act the RelapseMark of on("relapse …"), one other act a
#            registered Count (do("count")); they log through the hold too (their mark / count bag is a logging Bag).
NOOPTS = (0, 0, [], [], 0, 0, 0, 0)
FALSY = (False, 0, 0.0, None, "", [], {}, ())
TRUTHY = (True, 1, 2.5, "x", [0], {0: 0}, (None,), -1)
EXC_NAMES = ("ValueError", "KeyError", "TypeError", "OSError", "UnicodeError", "OverflowError", "RuntimeError",
             "HierError", "KeyboardInterrupt", "SystemExit", "CancelledError", "GeneratorExit", "MemoryError")


def parts(case):
    if len(case) == 4:
        return tuple(case) + (NOOPTS,)
    o = tuple(case[4])
    return tuple(case[:4]) + (o + NOOPTS[len(o):],)


def _exc(name):
    import asyncio
    import builtins
    from hio.hioing import HierError
    if name == "HierError":
        return HierError
    if name == "CancelledError":
        return asyncio.CancelledError
    return getattr(builtins, name)


# --------------------------------------------------------------------------
# adapter: the REAL code

def run_impl(case):
    from hio.base.hier import boxing, acting, needing, holding, bagging
    from hio.base import doing
    boxes, first, ticks, endat, (style, mode, raises, enders, rerun, neighbour, truth, verbs) = parts(case)
    acting.ActBase._clearall()
    st = dict(t=0, log=[], boxer=None)
    raising = {}
    for (b, nb, k, t, nm) in raises:
        raising.setdefault((b, nb, k, t), nm)      # first entry wins
    ending = {(b, nb, k) for (b, nb, k) in enders}
    endkey = ("", "boxer", BOXER, "end")
    actkey = ("", "boxer", BOXER, "active")
    hold = holding.Hold()
    idx = {f"b{i}": i for i in range(len(boxes))}

    def note(i, nabe, k):
        bx_ = st["boxer"].box
        hv = hold[actkey].value if (actkey in hold and st["t"] > 0) else None
        st["log"].append((i, nabe, k, idx[bx_.name] if bx_ is not None else None, idx.get(hv) if hv is not None else None))
        if (i, nabe, k) in ending:
            hold[endkey].value = True
        nm = raising.get((i, nabe, k, st["t"]))
        if nm:
            raise _exc(nm)(f"act {i} {nabe} {k}")

    def rec(i, nabe, k):
        def deed(**iops):
            return rec_eval(i, nabe, k)
        return deed

    def rec_eval(i, nabe, k):     # what "H.c25rec.value(i, 'nabe', k)" calls
        note(i, nabe, k)
        return (i, nabe, k)

    def verb_of(i, nabe, k):
        """(verb, how) for act k of box i in nabe: verb 0 do, 1 be(rhs=callable), 2 be(rhs=expr str); how 0 at()-section, 1 nabe= per call"""
        if not verbs:
            return 0, (0 if style & 16 else 1)
        h = verbs * 13 + i * 7 + NABE_ORD.get(nabe, 9) * 5 + k * 3
        return h % 3, (h // 3) % 2

    def lib_acts(i, counts):
        """{(nabe, k): kind} the acts of box i that are library acts (marks appended by on(), registered Count)"""
        if not verbs or verbs % 4 != 3:
            return {}
        c = dict(zip(NABES8, counts))
        out = {}
        if c["enmark"]:
            out[("enmark", (verbs + i) % c["enmark"])] = "lapse"
        if c["remark"]:
            out[("remark", (verbs + 2 * i) % c["remark"])] = "relapse"
        others = [n for n in ("rendo", "endo", "redo", "afdo", "exdo", "rexdo") if c[n]]
        if others:
            nb = others[(verbs // 4 + i) % len(others)]
            out[(nb, (verbs + i) % c[nb])] = "count"
        return out

    class LogBag(bagging.Bag):
        """a Bag that reports every assignment of .value as the act (box, nabe, k) it stands for"""
        __hash__ = bagging.Bag.__hash__

        def __setattr__(self, name, value):
            super().__setattr__(name, value)
            if name == "value" and getattr(self, "_c25", None):
                note(*self._c25)

    for i, (parent, counts, pres, gos) in enumerate(boxes):
        for (nabe, k), kind in lib_acts(i, counts).items():
            bag = LogBag()
            object.__setattr__(bag, "_c25", (i, nabe, k))
            hold[("", "boxer", BOXER, "box", f"b{i}", kind)] = bag

    def val(bit, i, k, kind):
        """the truth bit as a value: a real bool, or (truth > 0) some member of the truthy / falsy pool"""
        if not truth:
            return bool(bit)
        pool = TRUTHY if bit else FALSY
        v = pool[(truth * 7 + i * 5 + k * 3 + st["t"] * 11 + kind) % len(pool)]
        return type(v)(v) if isinstance(v, (list, dict)) else v

    masks = {}

    def pre_eval(i, k):          # what "H.c25pre.value(i, k)" calls
        note(i, "predo", k)
        return val((masks[("p", i, k)] >> st["t"]) & 1, i, k, 0)

    def go_eval(i, j):           # what "H.c25go.value(i, j)" calls
        note(i, "godo", j)
        return val((masks[("g", i, j)] >> st["t"]) & 1, i, j, 1)

    def pre(i, k, mask):
        masks[("p", i, k)] = mask
        def deed(**iops):
            return pre_eval(i, k)
        return deed

    def pre_way(i, k, mask):
        if not truth:
            return 0
        w = (truth + i * 3 + k) % 5
        if w == 4 and mask & ((1 << (ticks + 2)) - 1):
            w = 0                # a statement deed returns None: only usable for a preact that is never satisfied
        return w

    def pre_act(i, k, mask, on=None):
        """the preact in the form chosen for it: something do(deed, nabe='predo') / Box.preacts accepts"""
        w = pre_way(i, k, mask)
        d = pre(i, k, mask)
        if w == 1:
            return needing.Need(expr=f"H.c25pre.value({i}, {k})", hold=hold)
        if w == 2:
            return on(expr=f"H.c25pre.value({i}, {k})") if on else needing.Need(expr=f"H.c25pre.value({i}, {k})", hold=hold)
        if w == 3:
            class PreAct(acting.ActBase):
                def act(self, **iops):
                    return pre_eval(i, k)
            return PreAct
        if w == 4:
            return f"H.c25pre.value({i}, {k})"       # statement string: exec() -> None
        return d

    def go_need(i, j, mask, on=None):
        masks[("g", i, j)] = mask
        w = (truth + i + j * 2) % 3 if truth else 0
        if w == 1:
            return f"H.c25go.value({i}, {j})" if on else needing.Need(expr=f"H.c25go.value({i}, {j})", hold=hold)
        if w == 2:
            return on(expr=f"H.c25go.value({i}, {j})") if on else needing.Need(expr=f"H.c25go.value({i}, {j})", hold=hold)
        return RecNeed(i, j, mask, hold=hold)

    class RecNeed(needing.Need):
        def __init__(self, i, j, mask, **kwa):
            super().__init__(**kwa)
            self._i, self._j, self._mask = i, j, mask

        def __call__(self, **iops):
            return go_eval(self._i, self._j)

    def fun(H, bx, go, do, on, at, be):
        made = {}
        for i, (parent, counts, pres, gos) in enumerate(boxes):
            if parent < 0:
                over = None
            elif (style & 2) and i > 0 and boxes[i - 1][0] == parent:
                over = ""                      # same level as the previous box
            elif style & 1:
                over = made[parent]            # the Box object
            else:
                over = f"b{parent}"
            made[i] = bx(name=f"b{i}", over=over, first=(i == first and (mode == 2 or not (style & 64))))
            todo = [("predo", pre_act(i, k, mask, on)) for k, mask in enumerate(pres)]
            for nabe, n in zip(NABES8, counts):
                todo += [(nabe, rec(i, nabe, k)) for k in range(n)]
            libs = lib_acts(i, counts)
            if style & 32:                     # interleave nabes round-robin (per-nabe order is kept)
                by = {}
                for nabe, d in todo:
                    by.setdefault(nabe, []).append(d)
                todo = []
                while any(by.values()):
                    for nabe in list(by):
                        if by[nabe]:
                            todo.append((nabe, by[nabe].pop(0)))

            def declare_gos():
                for j, (dest, mask) in enumerate(gos):
                    need = go_need(i, j, mask, on)
                    if (style & 8) and dest == i + 1 and dest < len(boxes):
                        go(None if j % 2 else "next", need)
                    elif (style & 4) and dest in made:
                        go(made[dest], need)
                    else:
                        go(f"b{dest}", need)
            if style & 32:
                declare_gos()
            cur = None                         # bx() resets the context to native
            counter = {}
            for nabe, d in todo:
                k = counter.get(nabe, 0)
                counter[nabe] = k + 1
                verb, how = verb_of(i, nabe, k)
                if (nabe, k) in libs:
                    kind = libs[(nabe, k)]
                    if kind == "count":
                        if how == 1:
                            do("count", nabe=nabe)
                        else:
                            at(nabe)
                            cur = nabe
                            do("count")
                    else:
                        on(f"{kind} >= 0.0")       # appends the (Re)LapseMark to enmarks / remarks whatever the context
                    continue
                if not callable(d) or isinstance(d, (type, needing.Need)):
                    verb = 0                   # Need / ActBase subclass / statement string can only go through do()
                kw = {}
                if how == 1:
                    kw = dict(nabe=nabe)
                elif not (verbs and cur is None and nabe == "endo" and not (style & 16)):
                    if cur != nabe or not verbs:
                        at(nabe)
                        cur = nabe
                # else: fresh box, native context: an act declared with nothing lands in endo
                if verb == 0:
                    do(d, **kw)
                elif verb == 1:
                    be("c25slot.value", d, **kw)
                else:
                    if nabe == "predo":
                        be("c25slot.value", f"H.c25pre.value({i}, {k})", **kw)
                    else:
                        be("c25slot.value", f"H.c25rec.value({i}, '{nabe}', {k})", **kw)
            if not (style & 32):
                declare_gos()

    def build_direct(boxer):
        made = {}
        for i, (parent, counts, pres, gos) in enumerate(boxes):
            b = boxing.Box(name=f"b{i}", over=(made[parent] if parent >= 0 else None), hold=hold)
            if parent >= 0:
                made[parent].unders.append(b)
            boxer.boxes[b.name] = b
            made[i] = b
        for i, (parent, counts, pres, gos) in enumerate(boxes):
            b = made[i]
            for k, mask in enumerate(pres):
                d = pre_act(i, k, mask)
                if isinstance(d, type):
                    b.preacts.append(d(nabe="predo", hold=hold))
                else:
                    b.preacts.append(acting.Act(deed=d, nabe="predo", hold=hold))
            for nabe, n in zip(NABES8, counts):
                for k in range(n):
                    verb, _ = verb_of(i, nabe, k)
                    kind = lib_acts(i, counts).get((nabe, k))
                    io = dict(_boxer=BOXER, _box=f"b{i}")
                    if kind == "count":
                        a = acting.Count(nabe=nabe, iops=io, hold=hold)
                    elif kind == "lapse":
                        a = acting.LapseMark(iops=io, hold=hold)
                    elif kind == "relapse":
                        a = acting.RelapseMark(iops=io, hold=hold)
                    elif verb == 0:
                        a = acting.Act(deed=rec(i, nabe, k), nabe=nabe, hold=hold)
                    elif verb == 1:
                        a = acting.Beact(lhs="c25slot.value", rhs=rec(i, nabe, k), nabe=nabe, hold=hold)
                    else:
                        a = acting.Beact(lhs=("c25slot", "value"), rhs=f"H.c25rec.value({i}, '{nabe}', {k})", nabe=nabe, hold=hold)
                    getattr(b, boxing.nabeDispatch[nabe]).append(a)
            for j, (dest, mask) in enumerate(gos):
                b.goacts.append(acting.Goact(dest=made[dest], need=go_need(i, j, mask), hold=hold))
        return made

    if endkey not in hold:
        hold[endkey] = bagging.Bag()
    hold["c25rec"] = bagging.Bag(value=rec_eval)
    hold["c25slot"] = bagging.Bag()
    hold["c25pre"] = bagging.Bag(value=pre_eval)
    hold["c25go"] = bagging.Bag(value=go_eval)
    if mode == 2:
        boxer = boxing.Boxer(name=BOXER, hold=hold, fun=fun)
    else:
        boxer = boxing.Boxer(name=BOXER, hold=hold)
        if mode == 1:
            made = build_direct(boxer)
            if first >= 0:
                boxer.first = made[first]
        else:
            if first >= 0 and (style & 64) and (style & 2):
                boxer.first = f"b{first}"          # a name given before make is resolved by resolve()
            boxer.make(fun)
            if first >= 0 and (style & 64) and not (style & 2):
                boxer.first = boxer.boxes[f"b{first}"]
    st["boxer"] = boxer

    # optional neighbour: another boxer on the same hold, two boxes flipping every pass, ended early
    nb_step = None
    if neighbour and mode != 2:
        nboxer = boxing.Boxer(name=BOXER + "2", hold=hold)

        def nfun(H, bx, go, do, on, at, be):
            bx(name="n0", over=None)
            go("n1")
            bx(name="n1", over=None)
            go("n0")
        nboxer.make(nfun)
        nkey = ("", "boxer", BOXER + "2", "end")
        hold[nkey] = bagging.Bag()
        nrung = nboxer.run(tock=1.0)
        nstate = dict(alive=True, n=0)

        def nb_step():
            if not nstate["alive"]:
                return
            try:
                if nstate["n"] == 0:
                    next(nrung)
                else:
                    nrung.send(float(nstate["n"]))
            except StopIteration:
                nstate["alive"] = False
            nstate["n"] += 1
            if nstate["n"] == 3:
                hold[nkey].value = True

    out = []
    for round_ in range(2 if (rerun and mode != 2) else 1):
        final = ("live",)
        hold[endkey].value = None
        rung = None
        doist = None
        for t in range(ticks + 1):
            st["t"] = t
            st["log"] = []
            if t == endat:
                hold[endkey].value = True
            try:
                if mode == 2:
                    if t == 0:
                        doer = boxing.BoxerDoer(boxer=boxer, tock=1.0)
                        doist = doing.Doist(tock=1.0, real=False, doers=[doer])
                        doist.enter()
                    else:
                        doist.recur()
                    if not doist.deeds:
                        final = ("ret", doer.done if doer.done is None else bool(doer.done))
                else:
                    if t == 0:
                        rung = boxer.run(tock=1.0)
                        next(rung)
                    else:
                        rung.send(float(t))
            except StopIteration as ex:
                final = ("ret", bool(ex.value) if ex.value is not None else None)
            except core.Infra:
                raise
            except BaseException as ex:   # whatever the real code lets escape is an observation
                final = ("exc", type(ex).__name__)
            if nb_step:
                nb_step()
            act = idx.get(boxer.box.name) if boxer.box is not None else None
            out.append((t, act, tuple(st["log"])))
            if final != ("live",):
                break
        out.append(final)
        if rung is not None:
            rung.close()
        if doist is not None:
            try:
                doist.exit()
            except BaseException:
                pass
    return tuple(out)


def request(case):
    boxes, first, ticks, endat, (style, mode, raises, enders, rerun, neighbour, truth, verbs) = parts(case)
    return ("run",
            tuple((p + 1, tuple(c), tuple(pres), tuple((d, m) for d, m in gos)) for p, c, pres, gos in boxes),
            first + 1, ticks, endat + 1,
            tuple((b, nb, k, t, nm) for (b, nb, k, t, nm) in raises),
            tuple((b, nb, k) for (b, nb, k) in enders),
            1 if (rerun and mode != 2) else 0)


# --------------------------------------------------------------------------
# generators

import functools


@functools.lru_cache(maxsize=None)
def all_shapes(n):
    """every ordered forest with n boxes as a parent list in preorder declaration (Catalan many)"""
    if n == 0:
        return [[]]
    out = []

    def grow(parents, spine):
        # spine = path of indices from a root to the last declared box; the next box may hang under any of
        # them (becoming its last under) or start a new tree
        if len(parents) == n:
            out.append(list(parents))
            return
        i = len(parents)
        grow(parents + [-1], [i])
        for d, s in enumerate(spine):
            grow(parents + [s], spine[:d + 1] + [i])
    grow([-1], [0])
    return out


def random_parents(rng, n):
    """random declaration: parent of box i uniform among earlier boxes or none (not only preorder)"""
    ps = [-1]
    style = rng.random()
    for i in range(1, n):
        if style < 0.25:      # deep
            ps.append(rng.choice([i - 1, i - 1, rng.randrange(-1, i)]))
        elif style < 0.5:     # wide
            ps.append(rng.choice([0, 0, rng.randrange(-1, i)]))
        else:
            ps.append(rng.randrange(-1, i) if rng.random() < 0.85 else -1)
    return ps


def _counts(rng, rich):
    if rich:
        return tuple(rng.choice([1, 1, 2, 2, 3]) for _ in NABES8)
    return tuple(rng.choice([0, 1, 1, 2]) for _ in NABES8)


def scripted(rng, parents, steps, fail_p=0.25, rich=True, first=-1, end=True, noise=0.3):
    """build a case that walks the boxwork through `steps` chosen destinations: at tick k+2 (the first loop
    pass is tick 2) exactly one goact somewhere in the then-active pile fires toward dest k; with probability
    fail_p a preact of one arrived box is made to fail at that tick (then the walk stays put)."""
    n = len(parents)
    boxes = [[p, _counts(rng, rich), [], []] for p in parents]
    lit = [(p, None, None, None) for p in parents]
    cur = first if first >= 0 else 0
    ticks = 1
    # a failing first entry now and then
    for k in range(steps):
        t = k + 2
        ticks = t
        # choose the KIND of transition first (sibling / cousin / ancestor / descendant / self / other tree …)
        # so that rare topologies are as frequent as common ones
        kinds = {}
        for d in range(n):
            kinds.setdefault(relation(lit, cur, d), []).append(d)
        dest = rng.choice(kinds[rng.choice(sorted(kinds))])
        A = pile_of(lit, cur)
        holder = rng.choice(A)
        # decoy goacts that never fire / fire but precondition fails, placed before the real one
        boxes[holder][3].append([dest, 1 << t])
        kept, left, arr = split(lit, cur, dest)
        if rng.random() < fail_p and arr:
            victim = rng.choice(arr)
            # one preact failing exactly at tick t (others pass everywhere)
            allbits = (1 << 40) - 1
            boxes[victim][2].append(allbits & ~(1 << t))
        else:
            blocked = False
            for b in arr:
                for m in boxes[b][2]:
                    if not (m >> t) & 1:
                        blocked = True
            if not blocked:
                cur = dest
    # noise: preacts that always pass, goacts that never fire
    for b in boxes:
        if rng.random() < noise:
            b[2].insert(rng.randrange(len(b[2]) + 1), (1 << 40) - 1)
        if rng.random() < noise:
            b[3].insert(rng.randrange(len(b[3]) + 1), [rng.randrange(n), 0])
    endat = -1
    if end and rng.random() < 0.7:
        endat = ticks + 1
        ticks += 1
    case = ([(b[0], b[1], list(b[2]), [tuple(g) for g in b[3]]) for b in boxes], first, ticks, endat)
    return case


def chaotic(rng, parents, ticks):
    """random goacts and preacts with random masks: several goacts may fire in one pass, preconditions fail
    at random, destinations arbitrary"""
    n = len(parents)
    full = (1 << (ticks + 2)) - 1
    boxes = []
    for p in parents:
        pres = []
        for _ in range(rng.choice([0, 0, 1, 1, 2])):
            m = full
            for t in range(ticks + 2):
                if rng.random() < 0.2:
                    m &= ~(1 << t)
            pres.append(m)
        gos = []
        for _ in range(rng.choice([0, 1, 1, 2, 3])):
            m = 0
            for t in range(2, ticks + 2):
                if rng.random() < 0.35:
                    m |= 1 << t
            gos.append((rng.randrange(n), m))
        boxes.append((p, _counts(rng, rng.random() < 0.5), pres, gos))
    first = rng.choice([-1, -1, rng.randrange(n)])
    endat = rng.choice([-1, -1, rng.randrange(1, ticks + 2)])
    return (boxes, first, ticks, endat)


def single_transitions(parents, rich_counts=(1, 2, 1, 2, 1, 1, 2, 2)):
    """for one shape: every (start box, declaring box in its pile, dest) single transition, passing and with a
    failing precondition on each arrived box; then end"""
    n = len(parents)
    lit = [(p, None, None, None) for p in parents]
    out = []
    for start in range(n):
        A = pile_of(lit, start)
        for holder in A:
            for dest in range(n):
                kept, left, arr = split(lit, start, dest)
                for victim in [None] + arr:
                    boxes = []
                    for i, p in enumerate(parents):
                        pres = [0b1011] if i == victim else []     # fails at tick 2 only
                        gos = [(dest, 0b100)] if i == holder else []
                        boxes.append((p, rich_counts, pres, gos))
                    out.append((boxes, start, 3, 3))
    return out
