"""Shared Python for the Box area (C25): case format, adapter that builds a real boxwork with
recording acts in every nabe via Boxer.make, documented-pile helpers for the oracle, generators.

case = (boxes, first, ticks, endat)
  boxes : list of (parent, counts, pres, gos)    box i is named "b<i>", declared in list order
     parent : index of the over box (< i) or -1 for a top-level box
     counts : 8 ints, number of recording acts in (remark, rendo, enmark, endo, redo, afdo, exdo, rexdo)
     pres   : list of masks; preact k of the box is satisfied at tick t iff (mask >> t) & 1
     gos    : list of (dest, mask); goact j of the box fires at tick t iff (mask >> t) & 1
  first : index of the box marked first=True, or -1 (the boxer then starts in the first declared box)
  ticks : number of send() calls after the initial next()   (tick 0 = next(), tick k = k-th send)
  endat : tick before which the harness sets the boxer's end bag to True (like EndAct does), or -1

observation = (rec_0, rec_1, ..., final)
  rec_t  = (t, active box index after the call or None, ((box, nabe, actindex), ...))
  final  = ("ret", True|False) when the generator returned, ("live",) when still running after `ticks`
           sends, ("exc", ClassName) when an exception escaped
"""
from .. import core

NABES8 = ("remark", "rendo", "enmark", "endo", "redo", "afdo", "exdo", "rexdo")
BOXER = "bxr"


# --------------------------------------------------------------------------
# documented structure (used by oracle and generators; not by the adapter)

def unders_of(boxes):
    u = [[] for _ in boxes]
    for i, b in enumerate(boxes):
        if b[0] >= 0:
            u[b[0]].append(i)
    return u


def pile_of(boxes, x):
    """documented pile of box x: its overs top-down, x, then primary unders down to a leaf"""
    u = unders_of(boxes)
    up = []
    p = boxes[x][0]
    while p >= 0:
        up.insert(0, p)
        p = boxes[p][0]
    dn = []
    c = x
    while u[c]:
        c = u[c][0]
        dn.append(c)
    return up + [x] + dn


def split(boxes, active, dest):
    """(kept, left, arrived) top-down for a transition of the active pile to dest, as the docs describe:
    forced re-entry from dest down when dest is in the active pile, else fork at first difference"""
    A = pile_of(boxes, active)
    D = pile_of(boxes, dest)
    if dest in A:
        i = A.index(dest)
    else:
        i = 0
        while i < min(len(A), len(D)) and A[i] == D[i]:
            i += 1
    return A[:i], A[i:], D[i:]


def relation(boxes, active, dest):
    """name of the topological relation of dest to the active pile (for histograms / generators)"""
    A = pile_of(boxes, active)
    D = pile_of(boxes, dest)
    if dest == active:
        return "self"
    if dest in A:
        return "ancestor" if A.index(dest) < A.index(active) else "descendant-in-pile"
    kept, left, arr = split(boxes, active, dest)
    if not kept:
        return "other-tree"
    if active in D and D.index(active) < D.index(dest):
        return "descendant"
    if len(left) == 1 and len(arr) == 1:
        return "sibling"
    return "cousin"


# --------------------------------------------------------------------------
# adapter: the REAL code

def run_impl(case):
    from hio.base.hier import boxing, acting, needing, holding, bagging
    boxes, first, ticks, endat = case
    acting.ActBase._clearall()
    st = dict(t=0, log=[])

    def rec(i, nabe, k):
        def deed(**iops):
            st["log"].append((i, nabe, k))
        return deed

    def pre(i, k, mask):
        def deed(**iops):
            st["log"].append((i, "predo", k))
            return bool((mask >> st["t"]) & 1)
        return deed

    class RecNeed(needing.Need):
        def __init__(self, i, j, mask, **kwa):
            super().__init__(**kwa)
            self._i, self._j, self._mask = i, j, mask

        def __call__(self, **iops):
            st["log"].append((self._i, "godo", self._j))
            return bool((self._mask >> st["t"]) & 1)

    hold = holding.Hold()
    boxer = boxing.Boxer(name=BOXER, hold=hold)

    def fun(H, bx, go, do, on, at, be):
        for i, (parent, counts, pres, gos) in enumerate(boxes):
            bx(name=f"b{i}", over=(None if parent < 0 else f"b{parent}"), first=(i == first))
            for k, mask in enumerate(pres):
                do(pre(i, k, mask), nabe="predo")
            for nabe, n in zip(NABES8, counts):
                for k in range(n):
                    do(rec(i, nabe, k), nabe=nabe)
            for j, (dest, mask) in enumerate(gos):
                go(f"b{dest}", RecNeed(i, j, mask, hold=H))

    boxer.make(fun)
    endkey = ("", "boxer", BOXER, "end")
    if endkey not in hold:
        hold[endkey] = bagging.Bag()
    idx = {f"b{i}": i for i in range(len(boxes))}

    out = []
    final = ("live",)
    rung = boxer.run(tock=1.0)
    for t in range(ticks + 1):
        st["t"] = t
        st["log"] = []
        if t == endat:
            hold[endkey].value = True
        try:
            if t == 0:
                next(rung)
            else:
                rung.send(float(t))
        except StopIteration as ex:
            final = ("ret", bool(ex.value) if ex.value is not None else None)
        except (TypeError, AttributeError, IndexError, KeyError, ValueError, RecursionError) as ex:
            final = ("exc", type(ex).__name__)
        act = idx[boxer.box.name] if boxer.box is not None else None
        out.append((t, act, tuple(st["log"])))
        if final != ("live",):
            break
    out.append(final)
    return tuple(out)


def request(case):
    boxes, first, ticks, endat = case
    return ("run",
            tuple((p + 1, tuple(c), tuple(pres), tuple((d, m) for d, m in gos)) for p, c, pres, gos in boxes),
            first + 1, ticks, endat + 1)


# --------------------------------------------------------------------------
# generators

import functools


@functools.lru_cache(maxsize=None)
def all_shapes(n):
    """every ordered forest with n boxes as a parent list in preorder declaration (Catalan many)"""
    if n == 0:
        return [[]]
    out = []

    def grow(parents, spine):
        # spine = path of indices from a root to the last declared box; the next box may hang under any of
        # them (becoming its last under) or start a new tree
        if len(parents) == n:
            out.append(list(parents))
            return
        i = len(parents)
        grow(parents + [-1], [i])
        for d, s in enumerate(spine):
            grow(parents + [s], spine[:d + 1] + [i])
    grow([-1], [0])
    return out


def random_parents(rng, n):
    """random declaration: parent of box i uniform among earlier boxes or none (not only preorder)"""
    ps = [-1]
    style = rng.random()
    for i in range(1, n):
        if style < 0.25:      # deep
            ps.append(rng.choice([i - 1, i - 1, rng.randrange(-1, i)]))
        elif style < 0.5:     # wide
            ps.append(rng.choice([0, 0, rng.randrange(-1, i)]))
        else:
            ps.append(rng.randrange(-1, i) if rng.random() < 0.85 else -1)
    return ps


def _counts(rng, rich):
    if rich:
        return tuple(rng.choice([1, 1, 2, 2, 3]) for _ in NABES8)
    return tuple(rng.choice([0, 1, 1, 2]) for _ in NABES8)


def scripted(rng, parents, steps, fail_p=0.25, rich=True, first=-1, end=True, noise=0.3):
    """build a case that walks the boxwork through `steps` chosen destinations: at tick k+2 (the first loop
    pass is tick 2) exactly one goact somewhere in the then-active pile fires toward dest k; with probability
    fail_p a preact of one arrived box is made to fail at that tick (then the walk stays put)."""
    n = len(parents)
    boxes = [[p, _counts(rng, rich), [], []] for p in parents]
    lit = [(p, None, None, None) for p in parents]
    cur = first if first >= 0 else 0
    ticks = 1
    # a failing first entry now and then
    for k in range(steps):
        t = k + 2
        ticks = t
        # choose the KIND of transition first (sibling / cousin / ancestor / descendant / self / other tree …)
        # so that rare topologies are as frequent as common ones
        kinds = {}
        for d in range(n):
            kinds.setdefault(relation(lit, cur, d), []).append(d)
        dest = rng.choice(kinds[rng.choice(sorted(kinds))])
        A = pile_of(lit, cur)
        holder = rng.choice(A)
        # decoy goacts that never fire / fire but precondition fails, placed before the real one
        boxes[holder][3].append([dest, 1 << t])
        kept, left, arr = split(lit, cur, dest)
        if rng.random() < fail_p and arr:
            victim = rng.choice(arr)
            # one preact failing exactly at tick t (others pass everywhere)
            allbits = (1 << 40) - 1
            boxes[victim][2].append(allbits & ~(1 << t))
        else:
            blocked = False
            for b in arr:
                for m in boxes[b][2]:
                    if not (m >> t) & 1:
                        blocked = True
            if not blocked:
                cur = dest
    # noise: preacts that always pass, goacts that never fire
    for b in boxes:
        if rng.random() < noise:
            b[2].insert(rng.randrange(len(b[2]) + 1), (1 << 40) - 1)
        if rng.random() < noise:
            b[3].insert(rng.randrange(len(b[3]) + 1), [rng.randrange(n), 0])
    endat = -1
    if end and rng.random() < 0.7:
        endat = ticks + 1
        ticks += 1
    case = ([(b[0], b[1], list(b[2]), [tuple(g) for g in b[3]]) for b in boxes], first, ticks, endat)
    return case


def chaotic(rng, parents, ticks):
    """random goacts and preacts with random masks: several goacts may fire in one pass, preconditions fail
    at random, destinations arbitrary"""
    n = len(parents)
    full = (1 << (ticks + 2)) - 1
    boxes = []
    for p in parents:
        pres = []
        for _ in range(rng.choice([0, 0, 1, 1, 2])):
            m = full
            for t in range(ticks + 2):
                if rng.random() < 0.2:
                    m &= ~(1 << t)
            pres.append(m)
        gos = []
        for _ in range(rng.choice([0, 1, 1, 2, 3])):
            m = 0
            for t in range(2, ticks + 2):
                if rng.random() < 0.35:
                    m |= 1 << t
            gos.append((rng.randrange(n), m))
        boxes.append((p, _counts(rng, rng.random() < 0.5), pres, gos))
    first = rng.choice([-1, -1, rng.randrange(n)])
    endat = rng.choice([-1, -1, rng.randrange(1, ticks + 2)])
    return (boxes, first, ticks, endat)


def single_transitions(parents, rich_counts=(1, 2, 1, 2, 1, 1, 2, 2)):
    """for one shape: every (start box, declaring box in its pile, dest) single transition, passing and with a
    failing precondition on each arrived box; then end"""
    n = len(parents)
    lit = [(p, None, None, None) for p in parents]
    out = []
    for start in range(n):
        A = pile_of(lit, start)
        for holder in A:
            for dest in range(n):
                kept, left, arr = split(lit, start, dest)
                for victim in [None] + arr:
                    boxes = []
                    for i, p in enumerate(parents):
                        pres = [0b1011] if i == victim else []     # fails at tick 2 only
                        gos = [(dest, 0b100)] if i == holder else []
                        boxes.append((p, rich_counts, pres, gos))
                    out.append((boxes, start, 3, 3))
    return out
