"""Shared Python for the HttpParse area (C13, C15, C16, C17): adapters that drive the REAL hio parsers / service
loops through their public API with scripted fake sockets, an independent transcription of the WHATWG event-stream
algorithm, grammar-directed generators and partition generators.  No model involved anywhere in this file."""
import errno
import io
import re
import sys
from urllib.parse import urlsplit

# --------------------------------------------------------------------------------------------------------------
# canonical helpers

def L1(s):
    """text that came from an iso-8859-1 decode -> bytes"""
    if s is None:
        return None
    try:
        return s.encode('latin-1')
    except UnicodeEncodeError:
        return s.encode('utf-8')


def U8(s):
    return None if s is None else s.encode('utf-8')


def hdrs(h):
    return None if h is None else [(L1(k), L1(v)) for k, v in h.items()]


_ERR = [
    (re.compile(r"^got more than \d+ bytes while parsing "), "LineTooLong"),
    (re.compile(r"^Connection closed ?unexpectedly"), "PrematureClosure"),
    (re.compile(r"^Too many headers, more than \d+$"), "TooManyHeaders"),
    (re.compile(r"^Invalid body, content-length not provided!$"), "NoLength"),
    (re.compile(r"^Invalid header line '"), "BadHeader"),
    (re.compile(r"^Invalid chunk size '"), "BadChunkSize"),
    (re.compile(r"^Chunk end error\. Expected empty got "), "BadChunkEnd"),
    (re.compile(r"^Invalid request url '"), "BadUrl"),
]


def errtag(text):
    """class of the error a Parsent recorded (only str(ex) survives in .error); text of start-line errors is peer data"""
    text = text or ""
    for rx, tag in _ERR:
        if rx.match(text):
            return tag
    return "StartLine"


def split_at(data, cuts):
    out = []
    last = 0
    for c in cuts:
        out.append(data[last:c])
        last = c
    out.append(data[last:])
    return out


def bad_urls(data):
    """request-target tokens of `data` on which the stdlib url splitter (or its .port) raises ValueError.
    urllib is third-party to hio: its verdict is handed to the model as a parameter (DESIGN §2.1)."""
    out = []
    for tok in set(data.decode('latin-1').split()):
        try:
            urlsplit(tok).port
        except ValueError:
            out.append(tok.encode('latin-1'))
    return sorted(out)


# --------------------------------------------------------------------------------------------------------------
# parser-level adapters (Requestant / Respondent / EventSource / parseChunk fed through their public attributes)

class _Rem:
    tymeout = 1.0


def _scribble(r):
    """load - mutate the result in place - load again: the attributes of an ended message belong to the caller"""
    try:
        if r.headers is not None:
            r.headers.clear()
            r.headers["x-scribble"] = "1"
        if not getattr(r, "evented", None):
            r.body[:] = b"scribble"
    except Exception:   # noqa
        pass


def _req_result(r):
    if r.errored:
        return ("err", errtag(r.error))
    return ("ok", L1(r.method), L1(r.url), r.version[1], hdrs(r.headers), bytes(r.body), hdrs(r.trails),
            None if r.parms is None else [(bytes(k), None if v is None else bytes(v)) for k, v in r.parms.items()],
            bool(r.persisted), bool(r.chunked))


def feed_req(chunks, want_started=False):
    """drive serving.Requestant the way Server.serviceReqs / serviceReps do: parse after every read; when a message
    ended: errored -> connection closed; persisted -> makeParser() and go on with the leftover; else stop."""
    from hio.core.http import serving
    msg = bytearray()
    r = serving.Requestant(msg=msg, remoter=_Rem())
    out = []
    live = True
    tail = None
    for c in chunks:
        msg.extend(c)
        while live:
            try:
                r.parse()
            except BaseException as ex:   # noqa  (every kind of exception out of the code under test is an observation)  what escapes parse() escapes the service loop
                tail = ("escaped", type(ex).__name__)
                live = False
                break
            if not r.ended:
                break
            out.append(_req_result(r))
            _scribble(r)
            if r.errored:
                tail = ("closed",)
                live = False
            elif not r.persisted:
                live = False
            else:
                r.makeParser()
    if tail is None:
        tail = ("more" if live else "stop", bytes(msg))
    if want_started:
        return (out, tail, bool(live and r.started))
    return (out, tail)


def _resp_result(r):
    if r.errored:
        return ("err", errtag(r.error))
    ev = None
    if r.evented:
        ev = [(U8(e['id']), U8(e['name']), U8(e['data'])) for e in r.events]
        r.events.clear()
    return ("ok", r.version[1], r.status, L1(r.reason), hdrs(r.headers), bytes(r.body), hdrs(r.trails),
            None if r.parms is None else [(bytes(k), None if v is None else bytes(v)) for k, v in r.parms.items()],
            bool(r.persisted), bool(r.chunked), None if r.evented is None else bool(r.evented), ev,
            U8(r.leid), r.retry)


def feed_resp(method, chunks, closed, close_first=False):
    """drive clienting.Respondent the way Client.service does: parse after every read; the far side closing is seen
    one service cycle after the last bytes (Client.service calls respondent.close() when connector.cutoff)."""
    from hio.core.http import clienting
    msg = bytearray()
    r = clienting.Respondent(msg=msg, method=method)
    out = []
    state = {"live": True, "tail": None}

    def drive():
        while state["live"]:
            try:
                r.parse()
            except BaseException as ex:   # noqa  (every kind of exception out of the code under test is an observation)
                from hio.core.http import httping
                if isinstance(ex, httping.HTTPException):   # Client.serviceResponse catches these
                    out.append(("err", errtag(str(ex))))
                    state["tail"] = ("closed",)
                else:
                    state["tail"] = ("escaped", type(ex).__name__)
                state["live"] = False
                return
            if not r.ended:
                return
            out.append(_resp_result(r))
            _scribble(r)
            if r.errored:
                state["tail"] = ("closed",)
                state["live"] = False
            elif not r.persisted:
                state["live"] = False
            else:
                r.reinit(method=method)     # Client.transmit(method=...) for the next request of the same kind
                r.makeParser()

    for i, c in enumerate(chunks):
        msg.extend(c)
        if close_first and i == len(chunks) - 1:
            r.close()         # an owner that signals the close BEFORE it parses the last read
        drive()
    if closed and state["live"]:
        r.close()
        drive()
    tail = state["tail"]
    if tail is None:
        tail = ("more" if state["live"] else "stop", bytes(msg))
    pend = None
    if state["live"] and r.evented and r.headed and not r.ended:   # events of a stream that has not ended yet
        pend = [(U8(e['id']), U8(e['name']), U8(e['data'])) for e in r.events]
        pend = (pend, U8(r.leid), r.retry)
    return (out, tail, pend)


def feed_resp_seq(method, streams):
    """one clienting.Respondent over a SEQUENCE of connections, the way Client.service drives it when an event stream is
    re-requested: per connection the reads (parse after each), then the far side closes (respondent.close(), parse),
    then the reconnect: serviceResponse has called makeParser() when the message ended, transmit() calls reinit().
    The receive buffer is the connector's and survives the reconnect.  -> per connection ([results], tail)"""
    from hio.core.http import clienting
    msg = bytearray()
    r = clienting.Respondent(msg=msg, method=method)
    out = []
    for frags in streams:
        res = []
        state = {"go": True, "esc": None}

        def drive():
            while state["go"]:
                try:
                    r.parse()
                except BaseException as ex:   # noqa  (every kind of exception out of the code under test is an observation)
                    state["esc"] = type(ex).__name__
                    state["go"] = False
                    return
                if not r.ended:
                    return
                res.append(_resp_result(r))
                keep = (not r.errored) and r.persisted
                r.makeParser()                # Client.serviceResponse: set up for next time
                if keep:
                    r.reinit(method=method)   # next request on the same connection
                else:
                    state["go"] = False       # this connection is finished

        for c in frags:
            msg.extend(c)
            drive()
        if state["go"]:
            r.close()
            drive()
        if state["esc"]:
            out.append((res, ("escaped", state["esc"])))
            break
        # events delivered on this connection that are not part of an ended ok message (the queue is the client's output)
        extra = [(U8(e['id']), U8(e['name']), U8(e['data'])) for e in r.events]
        r.events.clear()
        if res and res[-1][0] == "err":
            out.append((res, ("idle", None, extra)))   # what an errored parse leaves in the buffer is not observed
        else:
            out.append((res, ("stuck" if r.started else "idle", bytes(msg), extra)))
        # Client.service on the new connection: empty receive buffer, new message parser, and the re-request
        # (transmit -> reinit) when an event stream with a last event id is being followed
        del msg[:]
        r.makeParser()
        if r.evented and r.leid is not None:
            r.reinit(method=method)
    return out


def _mk_parser(side, buf, method="GET"):
    from hio.core.http import serving, clienting
    if side == "req":
        return serving.Requestant(msg=buf, remoter=_Rem())
    return clienting.Respondent(msg=buf, method=method)


def _result(side, r):
    return _req_result(r) if side == "req" else _resp_result(r)


def feed_rebind(side, steps):
    """ONE parser object re-used over several messages, re-bound between them through a public route.
    steps: [(route, prefill, data, cuts)]; route: 'first' | 'makeParser-new' (makeParser(msg=new buffer)) | 'reinit-new'
    (reinit(msg=new buffer) then makeParser()) | 'same-cleared' (the same buffer emptied, makeParser()) | 'makeParser-same'.
    prefill: number of bytes of the message already in the new buffer at hand-over (0 = empty, the normal state of a new
    connection).  -> per step (result or None, ended?, escaped class or None)"""
    buf = bytearray()
    r = _mk_parser(side, buf)
    out = []
    for route, prefill, data, cuts in steps:
        pre = min(prefill, len(data))
        try:
            if route == "makeParser-new":
                buf = bytearray(data[:pre])
                r.makeParser(msg=buf)
            elif route == "reinit-new":
                buf = bytearray(data[:pre])
                if side == "req":
                    r.reinit(msg=buf, method=None)
                else:
                    r.reinit(msg=buf, method="GET")
                r.makeParser()
            elif route == "same-cleared":
                del buf[:]
                buf.extend(data[:pre])
                r.makeParser()
            elif route == "makeParser-same":
                del buf[:]
                buf.extend(data[:pre])
                r.makeParser(msg=buf)
            else:
                buf.extend(data[:pre])
            esc = None
            frs = split_at(data[pre:], [c - pre for c in cuts if pre < c < len(data)])
            res = None
            for fr in ([b""] if pre else []) + frs:
                buf.extend(fr)
                r.parse()
                if r.ended:
                    break
            if side == "resp" and not r.ended:
                r.close()
                r.parse()
            if r.ended:
                res = _result(side, r)
            out.append((res, bool(r.ended), None))
        except BaseException as ex:   # noqa
            out.append((None, False, type(ex).__name__))
            break
    return out


def feed_interleaved(side, parsers, order):
    """several independent parser instances, their reads interleaved: parsers = [(data, cuts)], order = indices saying whose
    next read is delivered (and parsed) next.  -> per parser (results, tail) as feed_req / feed_resp give, close at the end
    for responses"""
    bufs = [bytearray() for _ in parsers]
    rs = [_mk_parser(side, b) for b in bufs]
    frags = [split_at(d, c) for d, c in parsers]
    pos = [0] * len(parsers)
    outs = [[] for _ in parsers]
    live = [True] * len(parsers)
    esc = [None] * len(parsers)

    def drive(i):
        r = rs[i]
        while live[i]:
            try:
                r.parse()
            except BaseException as ex:   # noqa
                esc[i] = type(ex).__name__
                live[i] = False
                return
            if not r.ended:
                return
            outs[i].append(_result(side, r))
            if r.errored or not r.persisted:
                live[i] = False
            else:
                if side == "resp":
                    r.reinit(method="GET")
                r.makeParser()

    for i in list(order) + [i for i in range(len(parsers)) for _ in range(len(frags[i]))]:
        if i >= len(parsers) or pos[i] >= len(frags[i]):
            continue
        bufs[i].extend(frags[i][pos[i]])
        pos[i] += 1
        drive(i)
    res = []
    for i in range(len(parsers)):
        if side == "resp" and live[i]:
            rs[i].close()
            drive(i)
        res.append((outs[i], ("escaped", esc[i]) if esc[i] else ("live" if live[i] else "over", bytes(bufs[i]) if live[i] or not (outs[i] and outs[i][-1][0] == "err") else None)))
    return res


def feed_sse(chunks):
    """httping.EventSource on its own bytearray"""
    from hio.core.http import httping
    raw = bytearray()
    es = httping.EventSource(raw=raw)
    esc = None
    for c in chunks:
        raw.extend(c)
        try:
            es.parse()
        except BaseException as ex:   # noqa  (every kind of exception out of the code under test is an observation)
            esc = type(ex).__name__
            break
    ev = [(U8(e['id']), U8(e['name']), U8(e['data'])) for e in es.events]
    return (ev, U8(es.leid), es.retry, esc, None if esc else bytes(raw))


def feed_sse_stream(chunks):
    """httping.EventSource driven through its other public parser, parseEventStream (BOM, then the events)"""
    from hio.core.http import httping
    raw = bytearray()
    es = httping.EventSource(raw=raw)
    es.parser = es.parseEventStream()
    esc = None
    for c in chunks:
        raw.extend(c)
        try:
            es.parse()
        except BaseException as ex:   # noqa
            esc = type(ex).__name__
            break
    ev = [(U8(e['id']), U8(e['name']), U8(e['data'])) for e in es.events]
    return (ev, U8(es.leid), es.retry, esc, None if esc else bytes(raw))


def feed_chunks(chunks):
    """httping.parseChunk called repeatedly (as parseBody does) until the last chunk, an error, or starvation"""
    from hio.core.http import httping
    raw = bytearray()
    out = []
    g = None
    status = "more"
    for c in chunks:
        raw.extend(c)
        while status == "more":
            if g is None:
                g = httping.parseChunk(raw)
            try:
                res = next(g)
            except httping.HTTPException as ex:
                status = ("err", errtag(str(ex)))
                break
            except BaseException as ex:   # noqa  (every kind of exception out of the code under test is an observation)
                status = ("escaped", type(ex).__name__)
                break
            if res is None:
                break
            g.close()
            g = None
            size, parms, trails, chunk = res
            out.append((size, [(bytes(k), None if v is None else bytes(v)) for k, v in parms.items()], hdrs(trails), bytes(chunk)))
            if size == 0:
                status = "done"
    if isinstance(status, str):
        status = (status, bytes(raw))
    return (out, status)


# --------------------------------------------------------------------------------------------------------------
# scripted sockets for the service loops (handed in through the public cs= / servant= / connector= parameters)

class FakeSock:
    """recv() hands out one scripted fragment per service cycle, then EAGAIN; after the script: EAGAIN forever or
    b'' (far side closed) when close_after"""

    def __init__(self, frags, close_after, ca, ha):
        self.frags = list(frags)
        self.close_after = close_after     # True: EOF one service pass after the last read; "same": in the same receive pass
        self.ca = ca
        self.ha = ha
        self.sent = bytearray()
        self.gate = False      # one fragment per tick
        self.closed = False
        self.cap = None        # send capacity per service pass (None: unlimited; 0: would block)
        self.fault = None      # ("recv" | "send", tick): that call raises OSError(EPIPE) from that tick on
        self.ticks = 0
        self.room = None

    def tick(self):
        self.gate = True
        self.ticks += 1
        self.room = self.cap

    def setblocking(self, _):
        pass

    def getpeername(self):
        return self.ca

    def getsockname(self):
        return self.ha

    def getsockopt(self, *a):
        return 1 << 20

    def setsockopt(self, *a):
        pass

    def connect_ex(self, ha):
        return 0

    def recv(self, n):
        if self.closed:
            raise OSError(errno.EBADF, "closed")
        if self.fault and self.fault[0] == "recv" and self.ticks >= self.fault[1]:
            raise OSError(errno.EPIPE, "Broken pipe")
        if self.gate:
            self.gate = False
            while self.frags and not self.frags[0]:
                self.frags.pop(0)     # an empty read would mean "closed"
            if self.frags:
                data = bytes(self.frags.pop(0))
                if not self.frags and self.close_after == "same":
                    self.gate = True          # the end of stream is picked up by the same serviceReceives pass
                return data
            if self.close_after:
                return b''
        raise BlockingIOError(errno.EAGAIN, "again")

    def send(self, data):
        if self.closed:
            raise OSError(errno.EBADF, "closed")
        if self.fault and self.fault[0] == "send" and self.ticks >= self.fault[1]:
            raise OSError(errno.EPIPE, "Broken pipe")
        if self.room is None:
            self.sent.extend(data)
            return len(data)
        if self.room <= 0:
            raise BlockingIOError(errno.EAGAIN, "again")
        n = min(len(data), self.room)
        self.room -= n
        self.sent.extend(data[:n])
        return n

    def shutdown(self, how):
        pass

    def close(self):
        self.closed = True


def _app(environ, start_response):
    """the WSGI application of the harness; some paths raise: when called, while iterated, or an HTTPError"""
    path = environ.get('PATH_INFO', '')
    if path.startswith('/callraise'):
        raise ValueError("application failed when called")
    if path.startswith('/httperror'):
        from hio.core.http import httping
        raise httping.HTTPError(400, title="no")
    if path.startswith('/big'):
        body = b"B" * 3000
        start_response("200 OK", [('Content-Type', 'text/plain'), ('Content-Length', str(len(body)))])
        return [body]
    if path.startswith('/iterraise'):
        def gen():
            start_response("200 OK", [('Content-Type', 'text/plain')])
            yield b"partial"
            raise KeyError("application failed while iterated")
        return gen()
    body = b"ok:" + environ['REQUEST_METHOD'].encode('ascii') + b":" + str(len(environ['wsgi.input'].read())).encode('ascii')
    start_response("200 OK", [('Content-Type', 'text/plain'), ('Content-Length', str(len(body)))])
    return [body]


def _count_responses(sent):
    return len(re.findall(rb"HTTP/1\.1 \d\d\d ", bytes(sent)))


def run_server(kind, conns, cycles=None, round2=None):
    """conns: list of (fragments, close_after).  Returns (escaped-class or None, [(n_responses, still_open)]).
    round2: a second list of connections served afterwards by the SAME server object from the SAME peer addresses (the
    first ones are closed by their peers first) -> the result then is that of the second round."""
    from hio.core import tcp
    from hio.core.http import serving
    ha = ('127.0.0.1', 8080)

    class Servant(tcp.Server):
        def serviceAccepts(self):   # no listen socket: connections are injected below through Remoter(cs=...)
            pass

    servant = Servant(ha=ha, tymeout=0.0)
    if kind == "wsgi":
        srv = serving.Server(servant=servant, app=_app)
    else:
        srv = serving.BareServer(servant=servant)
    socks = []
    extra = 0
    conns = [tuple(c) + (None, None)[:4 - len(c)] if len(c) < 4 else tuple(c) for c in conns]
    for i, (frags, close_after, cap, fault) in enumerate(conns):
        ca = ('127.0.0.1', 40000 + i)
        s = FakeSock(frags, close_after, ca, ha)
        s.cap, s.fault = cap, fault
        if cap is not None:
            extra = max(extra, 60 + (6000 // max(cap, 1) if cap <= 40 else 200))
        socks.append(s)
        servant.ixes[ca] = tcp.Remoter(ha=ha, ca=ca, cs=s, tymeout=0.0)
    extra = min(extra, 700)
    conns = [(f, cl) for f, cl, _, _ in conns]
    n = cycles if cycles is not None else max([len(f) for f, _ in conns] + [0]) + 4 * sum(
        1 + sum(bytes(x).count(b"HTTP/") for x in f) for f, _ in conns) + 4 + extra
    esc = None
    serr = sys.stderr
    sys.stderr = io.StringIO()   # serviceReqs writes the error text of a malformed request there
    try:
        for _ in range(n):
            for s in socks:
                s.tick()
            try:
                srv.service()
            except BaseException as ex:   # noqa  (every kind of exception out of the code under test is an observation)
                esc = type(ex).__name__
                break
    finally:
        sys.stderr = serr
    if round2 is not None and esc is None:
        sys.stderr = io.StringIO()
        try:
            for s in socks:             # the peers of the first round go away
                s.frags = []
                s.close_after = True
            for _ in range(4):
                for s in socks:
                    s.tick()
                try:
                    srv.service()
                except BaseException as ex:   # noqa
                    esc = type(ex).__name__
                    break
            socks = []
            for i, (frags, close_after) in enumerate(round2):
                ca = ('127.0.0.1', 40000 + i)
                s = FakeSock(frags, close_after, ca, ha)
                socks.append(s)
                servant.ixes[ca] = tcp.Remoter(ha=ha, ca=ca, cs=s, tymeout=0.0)
            n2 = max([len(f) for f, _ in round2] + [0]) + 4 * sum(1 + sum(bytes(x).count(b"HTTP/") for x in f) for f, _ in round2) + 4
            if esc is None:
                for _ in range(n2):
                    for s in socks:
                        s.tick()
                    try:
                        srv.service()
                    except BaseException as ex:   # noqa
                        esc = type(ex).__name__
                        break
        finally:
            sys.stderr = serr
    res = []
    for i, s in enumerate(socks):
        res.append((_count_responses(s.sent), ('127.0.0.1', 40000 + i) in servant.ixes and not s.closed))
    return (esc, res)


def scripted_resolve(host):
    """stand-in for socket.getaddrinfo inside coring.normalizeHost: numeric IPv4 resolves to itself, any other name is
    first IDNA encoded exactly as the runtime does for a str host (UnicodeError for an empty or over long label) and then
    'resolves' to a fixed loopback address.  No network."""
    if re.match(r"^\d{1,3}\.\d{1,3}\.\d{1,3}\.\d{1,3}$", host or ""):
        return host
    if isinstance(host, str):
        host.encode("idna")
    if host and (host.endswith(".invalid") or host.startswith("nx")):
        import socket
        raise socket.gaierror(-2, "Name or service not known")      # what getaddrinfo raises for a name that does not resolve
    return "127.0.0.9"


def run_client(frags, close_after, scheme="http", redirectable=True, cycles=None, reconnect=False, bodies=False):
    """Client with a scripted connector: one GET is transmitted, the scripted response bytes come back; a followed
    redirect is re-sent on a scripted connector too; with `reconnect` the connector is reconnectable and virtual time
    advances one second per service pass, so a closed event stream is re-requested (Last-Event-ID).
    Returns (escaped-class or None, [(status, errored)] delivered through .responses, n_events)."""
    from hio.base import tyming
    from hio.core import tcp
    from hio.core.http import clienting
    ha = ('127.0.0.1', 8080)
    made = []

    class Conn(tcp.Client):
        def __init__(self, context=None, version=None, certify=None, hostify=None, certedhost="", keypath=None,
                     certpath=None, cafilepath=None, **kwa):     # the TLS-only parameters of tcp.ClientTls are accepted
            super(Conn, self).__init__(**kwa)

        def open(self):
            self.accepted = False
            self.connected = False
            self.cutoff = False
            fr, cl = (frags, close_after) if not made else ([], False)
            self.cs = FakeSock(fr, cl, self.ha, ('127.0.0.1', 50000 + len(made)))   # peer = server, sock = local
            made.append(self.cs)
            self.opened = True
            return True

    saved = (clienting.tcp.Client, clienting.tcp.ClientTls, clienting.coring.normalizeHost)
    # name resolution and socket creation are the runtime's, not hio's: scripted (DESIGN §2.1)
    clienting.tcp.Client = Conn
    clienting.tcp.ClientTls = Conn
    clienting.coring.normalizeHost = scripted_resolve
    esc = None
    try:
        tymist = tyming.Tymist(tock=1.0)
        kw = dict(reconnectable=True, tymeout=0.5) if reconnect else {}
        conn = Conn(ha=ha, tymth=tymist.tymen(), **kw)
        cli = clienting.Client(connector=conn, redirectable=redirectable, dictable=scheme.endswith("+dictable") or None)
        scheme = scheme.split("+")[0]
        cli.reopen()
        if scheme == "https":
            cli.requester.scheme = "https"
        cli.request(method="GET", path="/x")
        n = cycles if cycles is not None else len(frags) + (14 if reconnect else 8)
        for _ in range(n):
            for s in made:
                s.tick()
            try:
                cli.service()
            except BaseException as ex:   # noqa  (every kind of exception out of the code under test is an observation)
                esc = type(ex).__name__
                break
            tymist.tick()
        if bodies:
            resps = [(r['status'], bool(r['errored']), bytes(r['body'])) for r in cli.responses]
        else:
            resps = [(r['status'], bool(r['errored'])) for r in cli.responses]
        nev = len(cli.events)
    finally:
        clienting.tcp.Client, clienting.tcp.ClientTls, clienting.coring.normalizeHost = saved
    return (esc, resps, nev)


def run_client_hold(frags, nreq, close_after=True):
    """one Client, nreq queued requests, the scripted responses; the harness HOLDS every object the client hands out (the
    response entries with their body / headers / data, the event entries) by identity, snapshots it at hand-out and compares
    it again at the end of the history.  -> (escaped class or None, [(status, errored, body at hand-out)], all still equal?)"""
    import copy
    from hio.base import tyming
    from hio.core import tcp
    from hio.core.http import clienting
    ha = ('127.0.0.1', 8080)
    made = []

    class Conn(tcp.Client):
        def open(self):
            self.accepted = False
            self.connected = False
            self.cutoff = False
            fr, cl = (frags, close_after) if not made else ([], False)
            self.cs = FakeSock(fr, cl, self.ha, ('127.0.0.1', 50000 + len(made)))
            made.append(self.cs)
            self.opened = True
            return True

    saved = clienting.coring.normalizeHost
    clienting.coring.normalizeHost = scripted_resolve
    esc = None
    held = []       # (object, snapshot)
    seen_r = seen_e = 0

    def snap(o):
        if isinstance(o, (bytes, bytearray)):
            return bytes(o)
        if hasattr(o, "items"):
            return [(k, snap(v)) for k, v in o.items()]
        if isinstance(o, (list, tuple)):
            return [snap(x) for x in o]
        return copy.deepcopy(o)

    try:
        tymist = tyming.Tymist(tock=1.0)
        conn = Conn(ha=ha, tymth=tymist.tymen())
        cli = clienting.Client(connector=conn, redirectable=False)
        cli.reopen()
        for i in range(nreq):
            cli.request(method="GET", path="/r%d" % i)
        for _ in range(len(frags) + 6 * nreq + 8):
            for sck in made:
                sck.tick()
            try:
                cli.service()
            except BaseException as ex:   # noqa
                esc = type(ex).__name__
                break
            rs = list(cli.responses)
            for r in rs[seen_r:]:
                for key in ("body", "headers", "data"):
                    held.append((r[key], snap(r[key])))
                held.append((r, snap({k: r[k] for k in ("status", "reason", "errored", "error")})))
            seen_r = len(rs)
            es = list(cli.events)
            for e in es[seen_e:]:
                held.append((e, snap(e)))
            seen_e = len(es)
            tymist.tick()
        resps = [(r['status'], bool(r['errored'])) for r in cli.responses]
        bodies = [sn for (o, sn), i in zip(held, range(len(held))) if isinstance(sn, bytes)]
        stable = all(snap(o if not isinstance(o, dict) or "status" not in o else {k: o[k] for k in ("status", "reason", "errored", "error")}) == sn
                     for o, sn in held)
    finally:
        clienting.coring.normalizeHost = saved
    return (esc, [(st, er, b) for (st, er), b in zip(resps, bodies)], stable)


def run_client_seq(streams, cycles=None, same=()):
    """the real Client over a SEQUENCE of connections: connection k delivers the reads streams[k] and then closes; the
    connector is reconnectable and virtual time advances one second per service pass, so the client reconnects (and
    re-requests with Last-Event-ID when it has one).  -> (escaped class or None, [events delivered during connection k],
    last event id, retry)"""
    from collections import deque
    from hio.base import tyming
    from hio.core import tcp
    from hio.core.http import clienting
    ha = ('127.0.0.1', 8080)
    made = []
    events = deque()
    marks = []

    class Conn(tcp.Client):
        def open(self):
            self.accepted = False
            self.connected = False
            self.cutoff = False
            k = len(made)
            fr, cl = (streams[k], "same" if k < len(same) and same[k] else True) if k < len(streams) else ([], False)
            marks.append(len(events))
            self.cs = FakeSock(fr, cl, self.ha, ('127.0.0.1', 50000 + k))
            made.append(self.cs)
            self.opened = True
            return True

    saved = clienting.coring.normalizeHost
    clienting.coring.normalizeHost = scripted_resolve
    esc = None
    try:
        tymist = tyming.Tymist(tock=1.0)
        conn = Conn(ha=ha, tymth=tymist.tymen(), reconnectable=True, tymeout=0.5)
        cli = clienting.Client(connector=conn, events=events)
        cli.reopen()
        cli.request(method="GET", path="/stream")
        n = cycles if cycles is not None else sum(len(f) + 16 for f in streams) + 8
        for _ in range(n):
            if len(made) > len(streams):
                break
            for sck in made:
                sck.tick()
            try:
                cli.service()
            except BaseException as ex:   # noqa  (every kind of exception out of the code under test is an observation)
                esc = type(ex).__name__
                break
            tymist.tick()
        marks.append(len(events))
        evs = [(U8(e['id']), U8(e['name']), U8(e['data'])) for e in events]
        per = [evs[marks[k]:marks[k + 1]] for k in range(min(len(streams), len(marks) - 1))]
        leid, retry = U8(cli.respondent.leid), cli.respondent.retry
    finally:
        clienting.coring.normalizeHost = saved
    return (esc, per, leid, retry)


# --------------------------------------------------------------------------------------------------------------
# WHATWG event stream interpretation (HTML Living Standard §9.2.6), transcribed independently of hio

def whatwg_events(stream, eof_cr_pending=True, want_set=False):
    """-> (events [(lastEventId, type, data)], last event ID buffer, retry or None) for the bytes received so far.
    Lines are ended by CRLF, LF or CR; an unterminated last line is not processed (stream may continue).
    A CR that is the very last byte may still be the first half of a CRLF: eof_cr_pending keeps it unprocessed."""
    text = stream.decode('utf-8', errors='replace')
    lines = []
    cur = []
    i = 0
    n = len(text)
    while i < n:
        ch = text[i]
        if ch == '\n':
            lines.append("".join(cur))
            cur = []
            i += 1
        elif ch == '\r':
            if i + 1 < n:
                lines.append("".join(cur))
                cur = []
                i += 2 if text[i + 1] == '\n' else 1
            else:
                if not eof_cr_pending:
                    lines.append("".join(cur))
                    cur = []
                i += 1
        else:
            cur.append(ch)
            i += 1
    events = []
    data = []
    etype = ""
    leid = ""
    idset = False
    retry = None
    for line in lines:
        if line == "":
            if data:     # data buffer is not the empty string (every data field appends value + LF)
                events.append((leid, etype, "\n".join(data)))
            data = []
            etype = ""
            continue
        if line[0] == ":":
            continue
        field, _, value = line.partition(":")
        if value[:1] == " ":
            value = value[1:]
        if field == "event":
            etype = value
        elif field == "data":
            data.append(value)
        elif field == "id":
            if "\0" not in value:
                leid = value
                idset = True
        elif field == "retry":
            if value and all(c in "0123456789" for c in value) and len(value) <= 4300:
                retry = int(value)      # (a reconnection time of more than 4300 digits is beyond CPython's int(); ignored)
    if want_set:
        return ([(a.encode('utf-8'), b.encode('utf-8'), c.encode('utf-8')) for a, b, c in events],
                leid.encode('utf-8') if idset else None, retry)
    return ([(a.encode('utf-8'), b.encode('utf-8'), c.encode('utf-8')) for a, b, c in events], leid.encode('utf-8'), retry)


# --------------------------------------------------------------------------------------------------------------
# generators

METHODS = ["GET", "HEAD", "PUT", "PATCH", "POST", "DELETE", "OPTIONS", "TRACE", "CONNECT"]
TOKS = ["a", "X-A", "Host", "Accept", "x-b", "Cookie", "ETag", "A", "Connection", "Keep-Alive"]


def cuts_for(rng, data, style=None):
    """partition of `data` as a sorted tuple of cut offsets"""
    n = len(data)
    if n < 2:
        return ()
    style = style or rng.choice(["uniform", "uniform", "ones", "term", "term", "two", "none", "tail"])
    if style == "none":
        return ()
    if style == "ones":
        return tuple(range(1, n))
    if style == "two":
        return (rng.randrange(1, n),)
    if style == "tail":        # everything then the last bytes one by one
        k = rng.randrange(1, min(n, 6))
        return tuple(range(n - k, n))
    if style == "term":        # exactly inside / just before / just after every terminator
        pts = set()
        for i, b in enumerate(data):
            if b in (10, 13):
                for d in (0, 1):
                    if 0 < i + d < n and rng.random() < 0.7:
                        pts.add(i + d)
        if not pts:
            pts.add(rng.randrange(1, n))
        return tuple(sorted(pts))
    k = rng.randrange(1, min(n, 9))
    return tuple(sorted(set(rng.randrange(1, n) for _ in range(k))))


def gen_eol(rng, mode):
    if mode == "crlf":
        return b"\r\n"
    if mode == "lf":
        return b"\n"
    return rng.choice([b"\r\n", b"\n"])


def rand_body(rng, n):
    alpha = [b"\r", b"\n", b"\r\n", b"a", b"b", b"0", b";", b":", b" ", bytes([rng.randrange(256)])]
    out = bytearray()
    while len(out) < n:
        out += rng.choice(alpha)
    return bytes(out[:n])


def chunk_encode(rng, body, exts=True, trailers=None, eolmode="crlf", sizes=None):
    """chunked coding of body; chunk-size lines and chunk ends always CRLF (the only form parseChunk takes),
    trailer lines with eolmode.  Returns (wire, [chunk...], [(name, value|None)...] merged parms, trailers)"""
    out = bytearray()
    i = 0
    chunks = []
    parms = {}
    k = 0
    while i < len(body):
        n = sizes[k] if sizes and k < len(sizes) else rng.choice([1, 2, 3, 5, 16, 17, len(body) - i, rng.randrange(1, 40)])
        n = max(1, min(n, len(body) - i))
        k += 1
        c = body[i:i + n]
        i += n
        chunks.append(c)
        hx = "%x" % n if rng.random() < 0.7 else "%X" % n
        if rng.random() < 0.2:
            hx = "0" * rng.randrange(1, 3) + hx
        line = hx.encode()
        if exts and rng.random() < 0.4:
            for _ in range(rng.randrange(1, 3)):
                nm = rng.choice([b"a", b"b", b"ext", b"q"])
                if rng.random() < 0.6:
                    v = rng.choice([b"1", b"x", b"\"q\"", b"v v"])
                    line += rng.choice([b";", b" ; "]) + nm + rng.choice([b"=", b" = "]) + v
                    parms[nm] = v
                else:
                    line += b";" + nm
                    parms[nm] = None
        out += line + b"\r\n" + c + b"\r\n"
    last = rng.choice([b"0", b"0", b"00"])
    if exts and rng.random() < 0.15:
        last += b";fin"
        parms[b"fin"] = None
    out += last + b"\r\n"
    trailers = trailers or []
    for kk, vv in trailers:
        out += kk + b": " + vv + gen_eol(rng, eolmode)
    out += gen_eol(rng, eolmode)
    return bytes(out), chunks, list(parms.items()), trailers


def gen_headers(rng, n):
    hs = []
    for _ in range(n):
        k = rng.choice(TOKS) if rng.random() < 0.8 else rng.choice(TOKS).swapcase()
        v = rng.choice(["1", "x y", "close", "keep-alive", "a: b", "v;q=1", "", "é".encode('utf-8').decode('latin-1')])
        hs.append((k.encode('latin-1'), v.encode('latin-1')))
    return hs


def gen_request(rng, eolmode=None):
    """one well-formed request; returns (wire bytes, persisted-as-intended)"""
    eolmode = eolmode or rng.choice(["crlf", "crlf", "lf", "mixed"])
    e = lambda: gen_eol(rng, eolmode)
    method = rng.choice(METHODS)
    version = rng.choice(["HTTP/1.1", "HTTP/1.1", "HTTP/1.1", "HTTP/1.0"])
    url = rng.choice(["/", "/a/b?x=1", "/p%20q#f", "http://h:80/x", "*", "/a?b=c&d", "/", "/a", "/callraise", "/iterraise?x", "/httperror"])
    out = bytearray()
    out += ("%s %s %s" % (method, url, version)).encode() + e()
    hs = gen_headers(rng, rng.randrange(0, 4))
    style = rng.choice(["none", "length", "length", "chunked", "chunked"])
    body = rand_body(rng, rng.choice([0, 1, 2, 5, 17, rng.randrange(0, 60)]))
    conn = rng.choice([None, None, None, "close", "keep-alive", "Keep-Alive"])
    if conn:
        hs.append((b"Connection", conn.encode()))
    if style == "length":
        hs.insert(rng.randrange(0, len(hs) + 1), (rng.choice([b"Content-Length", b"content-length"]), str(len(body)).encode()))
    elif style == "chunked":
        hs.insert(rng.randrange(0, len(hs) + 1), (b"Transfer-Encoding", rng.choice([b"chunked", b"Chunked"])))
        if rng.random() < 0.2:
            hs.append((b"Content-Length", b"3"))
    for k, v in hs:
        out += k + b": " + v + e()
    out += e()
    if style == "length":
        out += body
    elif style == "chunked":
        tr = gen_headers(rng, rng.choice([0, 0, 1, 2]))
        tr = [(k, v) for k, v in tr if v]
        wire, _, _, _ = chunk_encode(rng, body, trailers=tr, eolmode=eolmode)
        out += wire
    return bytes(out)


def gen_response(rng, eolmode=None, sse=None):
    """one well-formed response; returns (wire, needs_close)"""
    eolmode = eolmode or rng.choice(["crlf", "crlf", "lf", "mixed"])
    e = lambda: gen_eol(rng, eolmode)
    version = rng.choice(["HTTP/1.1", "HTTP/1.1", "HTTP/1.0"])
    status = rng.choice([200, 200, 201, 204, 304, 404, 500, 101])
    out = bytearray()
    if rng.random() < 0.12:
        out += b"HTTP/1.1 100 Continue" + e()
        if rng.random() < 0.5:
            out += b"X-I: 1" + e()
        out += e()
    out += ("%s %d %s" % (version, status, rng.choice(["OK", "Not Found", "", "A  B"]))).encode() + e()
    hs = gen_headers(rng, rng.randrange(0, 3))
    style = rng.choice(["length", "length", "chunked", "chunked", "close"])
    body = rand_body(rng, rng.choice([0, 1, 3, 17, rng.randrange(0, 60)])) if sse is None else sse
    if sse is not None:
        hs.append((b"Content-Type", rng.choice([b"text/event-stream", b"text/event-stream; charset=utf-8", b"Text/Event-Stream"])))
        style = rng.choice(["chunked", "close"])
        status = 200
    elif rng.random() < 0.3:
        hs.append((b"Content-Type", rng.choice([b"text/plain", b"application/json; charset=utf-8"])))
    conn = rng.choice([None, None, None, "close", "keep-alive"])
    if conn:
        hs.append((b"Connection", conn.encode()))
    if style == "length":
        hs.insert(rng.randrange(0, len(hs) + 1), (b"Content-Length", str(len(body)).encode()))
    elif style == "chunked":
        hs.insert(rng.randrange(0, len(hs) + 1), (b"Transfer-Encoding", b"chunked"))
    for k, v in hs:
        out += k + b": " + v + e()
    out += e()
    nobody = status in (204, 304, 101)
    if nobody and sse is None:
        return bytes(out), False
    if style == "length":
        out += body
    elif style == "chunked":
        tr = [(k, v) for k, v in gen_headers(rng, rng.choice([0, 0, 1])) if v]
        wire, _, _, _ = chunk_encode(rng, body, trailers=tr, eolmode=eolmode)
        out += wire
    else:
        out += body
        return bytes(out), True
    return bytes(out), False


def gen_sse_stream(rng, invalid_utf8=False):
    """event stream with every kind of field, per-line terminator choice"""
    out = bytearray()
    def eol():
        return rng.choice([b"\n", b"\n", b"\r\n", b"\r\n", b"\r"])
    vals = ["x", "hello world", "", " lead", "a:b", "é", "日本", "{\"a\": 1}", ":", "  two"]
    for _ in range(rng.randrange(1, 6)):
        for _ in range(rng.randrange(0, 5)):
            k = rng.random()
            if k < 0.45:
                line = b"data" + rng.choice([b": ", b":", b": ", b""]) if rng.random() < 0.1 else b"data" + rng.choice([b": ", b":"])
                if line != b"data":
                    line += rng.choice(vals).encode('utf-8')
            elif k < 0.6:
                line = b"id" + rng.choice([b": ", b":"]) + rng.choice(["1", "42", "", "abc", "é", "€", "日本", "\U0001f600", "\x7f", "a b", "ÿ", "Ā"]).encode('utf-8')
            elif k < 0.72:
                line = b"event" + rng.choice([b": ", b":"]) + rng.choice(["add", "msg", "", "x y"]).encode('utf-8')
            elif k < 0.84:
                line = b"retry" + rng.choice([b": ", b":"]) + rng.choice(["5", "3000", "0", "00", "1", "+5", "1_0", " 5", "5 ", "", "12a", "007", "-1", "²", "１２", "٣", "9" * 308, "9" * 309, "1" + "0" * 400, "9" * 4300]).encode('utf-8')
            elif k < 0.92:
                line = b":" + rng.choice(["", " comment", "data: no"]).encode()
            else:
                line = rng.choice([b"foo: bar", b"data", b"id", b"datax: 1", b" data: sp", b"retry"])
            if invalid_utf8 and rng.random() < 0.3:
                line += rng.choice([b"\xff", b"\xc3", b"\xe2\x82", b"\xed\xa0\x80", b"\xc0\xaf", b"\xf0\x90\x28", b"\x80"])
            out += line + eol()
        t = eol()
        out += t
    if rng.random() < 0.3:      # unfinished event at the end
        out += b"data: tail" + (eol() if rng.random() < 0.5 else b"")
    s = bytes(out)
    return s


def interpreted_headers():
    from ..extract import httpparse as xhp
    return xhp.interpreted_headers()


_HDR_BASE = {
    "content-type": ["text/plain", "text/html; charset=utf-8", "application/json", "text/event-stream", "multipart/form-data; boundary=xx"],
    "content-length": ["0", "3", "17"], "transfer-encoding": ["chunked", "gzip, chunked", "identity"],
    "connection": ["close", "keep-alive", "Upgrade"], "keep-alive": ["timeout=5, max=100"], "proxy-connection": ["keep-alive"],
    "host": ["h:80", "127.0.0.1:8080", "[::1]:80"], "location": ["http://127.0.0.1:8080/n", "/rel"], "accept-encoding": ["identity", "gzip;q=0.5"],
    "last-event-id": ["7"], "date": ["Thu, 01 Jan 2026 00:00:00 GMT"], "server": ["x/1.0 (y)"],
}


def damage_header_value(rng, name):
    """grammar-level damage of the parameter syntax of a structured header value: empty parameters, missing '=', duplicate
    ';', bare tokens, quotes, white space, commas, duplicated separators — for any header name"""
    base = rng.choice(_HDR_BASE.get(name, ["v", "a=b", "tok; p=1"]))
    ops = rng.randrange(1, 4)
    v = base
    for _ in range(ops):
        k = rng.randrange(14)
        if k == 0:
            v = v + ";"
        elif k == 1:
            v = v + "; charset"
        elif k == 2:
            v = v + ";;"
        elif k == 3:
            v = v + "; =x"
        elif k == 4:
            v = v + "; q=\"a;b\""
        elif k == 5:
            v = v + "; q=\"unterminated"
        elif k == 6:
            v = ";" + v
        elif k == 7:
            v = v.replace("=", " = ", 1) if "=" in v else v + " ;  p  =  1 "
        elif k == 8:
            v = v.replace("=", "", 1) if "=" in v else v + "=" 
        elif k == 9:
            v = v + ", " + v
        elif k == 10:
            v = v.replace(";", ",", 1) if ";" in v else v + ",,"
        elif k == 11:
            v = rng.choice(["", " ", ";", "=", ";;", "charset", "=;=", "\"", ",", "; ;"])
        elif k == 12:
            v = v + rng.choice(["\t", " \t ", "\x0b", "\xa0", "\x00"])
        else:
            v = v.upper() if rng.random() < 0.5 else v + ";" + v
    return v.encode("latin-1", "replace")


def damage_headers(rng, data, names=None):
    """replace or insert, in the first message head of `data`, lines `Name: <damaged value>` for 1-2 of the headers the code
    interprets by name (list read from the source)"""
    names = names or interpreted_headers()
    head, sep, rest = data.partition(b"\r\n\r\n")
    if not sep:
        head, sep, rest = data.partition(b"\n\n")
        if not sep:
            return data
    eol = b"\r\n" if b"\r\n" in head or sep == b"\r\n\r\n" else b"\n"
    lines = head.split(eol)
    for _ in range(rng.choice([1, 1, 2])):
        nm = rng.choice(names)
        val = damage_header_value(rng, nm)
        shown = rng.choice([nm.title(), nm, nm.upper()]).encode()
        idx = [i for i, l in enumerate(lines) if i > 0 and l.lower().startswith(nm.encode() + b":")]
        if idx and rng.random() < 0.7:
            lines[idx[0]] = shown + b": " + val
        else:
            lines.insert(rng.randrange(1, len(lines) + 1), shown + b": " + val)
    return eol.join(lines) + sep + rest


def gen_location(rng):
    """a redirect Location drawn from the URL grammar with adversarial pieces at every position (latin-1 text)"""
    if rng.random() < 0.12:
        return rng.choice(["/relative", "relative/x", "?q=1", "//127.0.0.1:8080/n", "//other.example/x", "", " ", "#f", "../x", "/a//b"])
    scheme = rng.choice(["http", "http", "http", "https", "HTTP", "ftp", "", "ht tp"])
    user = rng.choice(["", "", "", "u@", "u:p@", "@", "u:p:q@"])
    host = rng.choice(["127.0.0.1", "127.0.0.1", "127.0.0.1", "127.0.0.2", "localhost", "other.example", "gone.invalid", "nxdomain.example", "a..b", ".a", "a.", "x" * 64 + ".com",
                       "\xe9.example", "xn--", "[::1]", "[::1", "::1]", "[zz]", "[]", "", "h_st", "h st", "1.2.3.4.5", "%41", "a" * 300])
    port = rng.choice(["", "", ":8080", ":8080", ":80", ":0", ":65535", ":65536", ":99999", ":ab", ":-1", ":", ": 80", ":8080x", ":\xb2"])
    path = rng.choice(["/n", "/n", "", "/", "/items/{id}", "/{0}/{}", "/%s%(x)s", "//other.example/x", "//127.0.0.1:81/x", "//127.0.0.1:99999/x", "//127.0.0.1:8080/x", "//[::1/x", "//a..b/x",
                       "/a b", "/%zz", "/%5B", "/\xe9", "/a;b", "/" + "p" * 300, "//", "///x", "/x//y"])
    query = rng.choice(["", "", "?a=1", "?a=1&b", "?a=%zz", "?", "?a;b", "?\xe9=1", "?x=//y"])
    frag = rng.choice(["", "", "#f", "#"])
    return (scheme + "://" if scheme or rng.random() < 0.5 else "") + user + host + port + path + query + frag


def gen_redirect(rng):
    """3xx response carrying a generated Location (latin-1 on the wire)"""
    status = rng.choice([300, 301, 302, 303, 307, 307, 308, 304])
    loc = gen_location(rng)
    hs = [b"Content-Length: 0"]
    if rng.random() < 0.93:
        hs.insert(rng.randrange(0, 2), rng.choice([b"Location: ", b"location: ", b"LOCATION: "]) + loc.encode("latin-1", "replace"))
    if rng.random() < 0.2:
        hs.append(b"Connection: close")
    return b"HTTP/1.1 %d R\r\n" % status + b"\r\n".join(hs) + b"\r\n\r\n"


def mutate_bytes(rng, data, k=None):
    """near-valid mutations: the corner a malformed-input bug needs"""
    if rng.random() < 0.35:
        data = damage_headers(rng, bytes(data))
    if rng.random() < 0.25:      # format metacharacters inside client-controlled text that ends up in error messages
        meta = rng.choice([b"{id}", b"{0}", b"{}", b"{", b"}", b"{0!r:>{1}}", b"%s", b"%(x)s", b"%", b"\\", b"{{", b"%%d"])
        pos = [m.start() for m in re.finditer(rb"[/:;= ]", bytes(data))] or [0]
        i = rng.choice(pos) + 1
        data = bytes(data[:i]) + meta + bytes(data[i:])
    data = bytearray(data)
    for _ in range(k or rng.randrange(1, 4)):
        op = rng.randrange(9)
        pos = rng.randrange(0, len(data) + 1)
        if op == 0 and data:
            del data[pos % len(data)]
        elif op == 1:
            data[pos:pos] = bytes([rng.randrange(256)])
        elif op == 2 and data:
            data[pos % len(data)] = rng.randrange(256)
        elif op == 3:                       # colon without space / no colon
            i = data.find(b": ")
            if i >= 0:
                data[i:i + 2] = rng.choice([b":", b" ", b";", b""])
        elif op == 4:                       # disturb a chunk size line / number
            m = list(re.finditer(rb"\n([0-9a-fA-F]+)(;[^\r\n]*)?\r\n", bytes(data)))
            if m:
                mm = rng.choice(m)
                data[mm.start(1):mm.end(1)] = rng.choice([b"-5", b"+5", b"0x5", b"1_0", b"zz", b"", b" 5", b"5 ", b"\xb2", b"-0", b"0x0", b"5g", b"ffffffffff"])
        elif op == 5:                       # absolute url with bad authority
            i = data.find(b" /")
            if i >= 0:
                data[i + 1:i + 2] = rng.choice([b"http://h:99999/", b"http://h:ab/", b"http://[::1/", b"http://[zz]/", b"http://h]:1/", b"//[/"])
        elif op == 6:
            data[pos:pos] = rng.choice([b"\r", b"\n", b"\r\n", b"\r\r\n", b" ", b": ", b"\x00"])
        elif op == 7 and data:              # truncate
            del data[pos:]
        elif op == 8:
            i = data.find(b"HTTP/1.")
            if i >= 0:
                data[i:i + 8] = rng.choice([b"HTTP/2.0", b"HTTP/1", b"http/1.1", b"HTP/1.1", b"HTTP/1.1x", b"HTTP/0.9"])
    return bytes(data)


# --------------------------------------------------------------------------------------------------------------
# case kinds shared by C13 / C15 / C16 / C17 (cases are plain literals; see each property for its generators)
#   ("req",  data, cuts, expect|None)                 serving.Requestant, pipelined
#   ("resp", head, data, cuts, closed, expect|None)   clienting.Respondent (+ far side closing)
#   ("sse",  stream, cuts)                            httping.EventSource alone
#   ("rebind", side, ((route, prefill, data, cuts), ...))  ONE Requestant / Respondent re-used over several messages, re-bound
#                                                     to a new / emptied buffer through every public route, vs fresh parsers
#   ("inter", side, ((data, cuts), ...), order)       independent parser instances whose reads are interleaved, vs each alone
#   ("sses", stream, cuts)                            httping.EventSource through parseEventStream (BOM then events)
#   ("srvc", kind, ((data, cuts, close, cap, fault), ...)) as srv, with a send capacity per service pass (responses stay
#                                                     queued across passes) and / or a socket that raises EPIPE on recv / send
#   ("srv2", kind, round1, round2)                    the same server object serving a second round of connections from the
#                                                     same peer addresses after the first ones went away
#   ("sser", mode, stream, sizes, cuts)               event stream inside a response: mode close | chunked
#   ("sseq", ((mode, stream, sizes, drop, cuts), ...)) a SEQUENCE of event-stream responses through one Respondent: each is
#                                                     the sser wire cut off after `drop` bytes (None = complete), read in
#                                                     the partition `cuts`, then the connection drops and the client reconnects
#   ("chunks", data, cuts)                            httping.parseChunk in a loop
#   ("enc",  body, sizes, exts, trailers, cuts)       chunked coding built from the literals, decoded by parseChunk
#   ("pack", (payload, ...), cuts)                    httping.packChunk of each payload + packChunk(b""), decoded by parseChunk
#   ("wsgi", (piece, ...), cuts)                      serving.Responder writing the pieces a WSGI app yields (chunked),
#                                                     decoded by clienting.Respondent
#   ("srv",  kind, ((data, cuts, close), ...))        Server (wsgi) / BareServer service loop, one entry per connection
#   ("cli",  data, cuts, close, scheme)               Client service loop on response bytes (redirects are re-sent)
#   ("clih", (wire, ...), cuts)                       several responses on ONE Client; every object handed out (response entries,
#                                                     body, headers, data, events) is held and compared again at the end
#   ("clid", data, cuts, eof_same)                    Client.service under a delivery schedule: the reads, and the end of stream
#                                                     either one pass after the last read or in the same receive pass
#   ("clir", data, cuts)                              the same with a reconnectable connector: the far side closes, virtual
#                                                     time passes, the client reconnects and re-requests (Last-Event-ID)

def enc_wire(body, sizes, exts, trailers, pads=()):
    """deterministic chunked coding: chunk i has sizes[i] bytes (last one takes the rest), exts[i] appended verbatim
    (already starting with ';'), trailers [(k, v)]"""
    out = bytearray()
    i = 0
    k = 0
    chunks = []
    while i < len(body):
        n = sizes[k] if k < len(sizes) else len(body) - i
        n = max(1, min(n, len(body) - i))
        c = body[i:i + n]
        i += n
        chunks.append(c)
        out += b"0" * (pads[k] if k < len(pads) else 0) + (b"%x" % n) + (exts[k] if k < len(exts) else b"") + b"\r\n" + c + b"\r\n"
        k += 1
    out += b"0" * (pads[k] if k < len(pads) else 0) + b"0" + (exts[k] if k < len(exts) else b"") + b"\r\n"
    for kk, vv in trailers:
        out += kk + b": " + vv + b"\r\n"
    out += b"\r\n"
    return bytes(out), chunks


def sser_wire(mode, stream, sizes):
    head = b"HTTP/1.1 200 OK\r\nContent-Type: text/event-stream\r\n"
    if mode == "chunked":
        wire, _ = enc_wire(stream, sizes, [], [])
        return head + b"Transfer-Encoding: chunked\r\n\r\n" + wire
    return head + b"\r\n" + stream


def sseq_wires(case):
    out = []
    for mode, stream, sizes, drop, cuts in case[1]:
        w = sser_wire(mode, stream, sizes)
        out.append(w if drop is None else w[:drop])
    return out


def sseq_frags(case):
    return [split_at(w, st[4]) for w, st in zip(sseq_wires(case), case[1])]


def chunk_boundaries(stream, sizes):
    """offsets in sser_wire('chunked', stream, sizes) that fall right after a complete chunk (or the head)"""
    head = len(sser_wire("chunked", b"", ())) - len(enc_wire(b"", (), [], [])[0])
    offs = [head]
    _, chunks = enc_wire(stream, sizes, [], [])
    pos = head
    for c in chunks:
        pos += len(b"%x" % len(c)) + 2 + len(c) + 2
        offs.append(pos)
    return offs


def case_data(case):
    k = case[0]
    if k == "sseq":
        return b"".join(sseq_wires(case))
    if k == "rebind":
        return b"".join(st[2] for st in case[2])
    if k == "inter":
        return b"".join(p[0] for p in case[2])
    if k in ("req", "sse", "sses", "chunks"):
        return case[1]
    if k == "resp":
        return case[2]
    if k == "sser":
        return sser_wire(case[1], case[2], case[3])
    if k == "enc":
        return enc_wire(case[1], case[2], case[3], case[4], case[6] if len(case) > 6 else ())[0]
    if k in ("cli", "clir", "clid"):
        return case[1]
    if k == "clih":
        return b"".join(case[1])
    if k == "pack":
        from hio.core.http import httping
        return b"".join(bytes(httping.packChunk(bytearray(p) if i % 2 else p)) for i, p in enumerate(case[1])) + bytes(httping.packChunk(b""))
    if k == "wsgi":
        return wsgi_wire(case[1])
    return b""


def case_cuts(case):
    ix = {"req": 2, "resp": 3, "sse": 2, "sses": 2, "sser": 4, "chunks": 2, "enc": 5, "cli": 2, "clir": 2, "clid": 2, "clih": 2, "pack": 2, "wsgi": 2}.get(case[0])
    return case[ix] if ix is not None else None


def frags_of(case):
    return split_at(case_data(case), case_cuts(case) or ())


def run_case(case):
    """REAL code on the case -> canonical observation"""
    k = case[0]
    if k == "req":
        fr = frags_of(case)
        return (feed_req(fr), feed_req([case[1]]))
    if k == "resp":
        fr = frags_of(case)
        m = "HEAD" if case[1] else "GET"
        if case[5] == "cf":      # close signalled before the parse of the last read, vs the usual order on the whole
            return (feed_resp(m, fr, True, close_first=True), feed_resp(m, [case[2]], True))
        return (feed_resp(m, fr, case[4]), feed_resp(m, [case[2]], case[4]))
    if k == "sser":
        fr = frags_of(case)
        d = case_data(case)
        closed = case[1] == "close"
        return (feed_resp("GET", fr, closed), feed_resp("GET", [d], closed))
    if k == "sse":
        fr = frags_of(case)
        return (feed_sse(fr), feed_sse([case[1]]))
    if k == "rebind":      # ("rebind", side, ((route, prefill, data, cuts), ...)) : one parser re-used, vs a fresh parser per message
        fresh = []
        for route, prefill, data, cuts in case[2]:
            fresh.append(feed_rebind(case[1], [("first", 0, data, cuts)])[0])
        return (feed_rebind(case[1], list(case[2])), fresh)
    if k == "inter":       # ("inter", side, ((data, cuts), ...), order) : independent parsers interleaved read by read, vs each alone
        return (feed_interleaved(case[1], list(case[2]), case[3]),
                [feed_interleaved(case[1], [p], ())[0] for p in case[2]])
    if k == "sses":
        return (feed_sse_stream(frags_of(case)), feed_sse_stream([case[1]]))
    if k == "srvc":      # connections with a send capacity per pass and / or a socket fault
        conns = [(split_at(d, c), cl, cap, fault) for d, c, cl, cap, fault in case[2]]
        multi = run_server(case[1], conns)
        alone = [run_server(case[1], [c]) for c in conns] if len(conns) > 1 else [multi]
        return (multi, alone)
    if k == "srv2":
        r1 = [(split_at(d, c), cl) for d, c, cl in case[2]]
        r2 = [(split_at(d, c), cl) for d, c, cl in case[3]]
        return (run_server(case[1], r1, round2=r2), run_server(case[1], r2))
    if k == "sseq":
        ws = sseq_wires(case)
        same = [(len(w) + i) % 2 == 0 for i, w in enumerate(ws)]      # where the end of stream falls: with the last read or a pass later
        return (feed_resp_seq("GET", sseq_frags(case)), feed_resp_seq("GET", [[w] for w in ws]),
                run_client_seq(sseq_frags(case), same=same), run_client_seq(sseq_frags(case), same=[not x for x in same]))
    if k == "pack":
        d = case_data(case)
        return (d, feed_chunks(split_at(d, case[2])), feed_chunks([d]))
    if k == "wsgi":
        d = case_data(case)
        return (feed_resp("GET", split_at(d, case[2]), False), feed_resp("GET", [d], False))
    if k in ("chunks", "enc"):
        fr = frags_of(case)
        return (feed_chunks(fr), feed_chunks([case_data(case)]))
    if k == "srv":
        conns = [(split_at(d, c), cl) for d, c, cl in case[2]]
        multi = run_server(case[1], conns)
        alone = [run_server(case[1], [c]) for c in conns] if len(conns) > 1 else [multi]
        return (multi, alone)
    if k == "cli":
        return (run_client(split_at(case[1], case[2]), case[3], scheme=case[4]),)
    if k == "clir":
        return (run_client(split_at(case[1], case[2]), True, reconnect=True),)
    if k == "clih":     # ("clih", (wire, ...), cuts): several responses on one Client, everything handed out is held and re-read
        d = b"".join(case[1])
        return (run_client_hold(split_at(d, case[2]), len(case[1])),)
    if k == "clid":     # any delivery schedule incl. the timing of the end of stream vs the plain one
        return (run_client(split_at(case[1], case[2]), "same" if case[3] else True, redirectable=False, bodies=True),
                run_client([case[1]], True, redirectable=False, bodies=True))
    raise ValueError(f"bad case kind {k!r}")


def request_of(case):
    """what the model driver is asked (same inputs; urllib's verdict on the request targets is a parameter)"""
    k = case[0]
    if k == "req":
        return ("req", frags_of(case), bad_urls(case[1]))
    if k == "resp":
        if case[5] == "cf":
            return ("respcf", bool(case[1]), frags_of(case))
        return ("resp", bool(case[1]), frags_of(case), bool(case[4]))
    if k == "sser":
        return ("resp", False, frags_of(case), case[1] == "close")
    if k == "sse":
        return ("sse", frags_of(case))
    if k in ("rebind", "inter"):
        return ("echo", k)          # re-use / interleaving of parser OBJECTS is not a notion of the model: oracle only
    if k == "sses":
        return ("sses", frags_of(case))
    if k == "srvc":
        alld = b" ".join(c[0] for c in case[2])
        return ("srv", case[1], [(split_at(c[0], c[1]), True) for c in case[2]], bad_urls(alld))      # escaped class only
    if k == "srv2":
        alld = b" ".join(d for d, _, _ in case[3])
        return ("srv", case[1], [(split_at(d, c), True) for d, c, _ in case[3]], bad_urls(alld))     # escaped class only
    if k == "sseq":
        return ("respseq", False, sseq_frags(case))
    if k == "pack":
        return ("pack", list(case[1]), list(case[2]))      # the model encodes the pieces itself (packAll)
    if k == "wsgi":
        return ("resp", False, frags_of(case), False)
    if k in ("chunks", "enc"):
        return ("chunks", frags_of(case))
    if k == "srv":
        alld = b" ".join(d for d, _, _ in case[2])
        return ("srv", case[1], [(split_at(d, c), bool(cl)) for d, c, cl in case[2]], bad_urls(alld))
    if k == "cli":
        return ("cli", split_at(case[1], case[2]), bool(case[3]))
    if k == "clir":
        return ("cli", split_at(case[1], case[2]), True)
    if k == "clid":
        return ("cli", split_at(case[1], case[2]), True)
    if k == "clih":
        return ("cli", split_at(b"".join(case[1]), case[2]), True)
    raise ValueError(f"bad case kind {k!r}")


def view_of(case, obs):
    """the part of the observation the model predicts"""
    k = case[0]
    if k == "srv":
        multi = obs[0]
        if case[1] == "wsgi":
            # a peer that closes is dropped at the next cycle: how many of its pipelined requests were answered by then
            # is timing, not parsing -> not compared
            # is timing, not parsing -> not compared.  Likewise a connection delivered in several reads or ending inside a
            # request: Server.serviceReps may close it while a non persistent follow-up request is still incomplete (a
            # defect of the responder bookkeeping, property C18) so counts are compared for whole, complete deliveries only.
            out = []
            for (n, o), (d, cuts, cl) in zip(multi[1], case[2]):
                if cl or cuts or b"raise" in d or b"/httperror" in d:      # what the application does is not the model's
                    out.append((None, None))
                    continue
                msgs, tail, started = feed_req([d], want_started=True)
                if started:          # ends inside a request
                    out.append((None, None))
                else:
                    out.append((n, o))
            return (multi[0], out)
        return (multi[0],)
    if k in ("cli", "clir", "clid", "clih"):
        return (obs[0][0],)
    if k in ("rebind", "inter"):
        return k
    if k == "sses":
        return ("waiting", "waiting") if len(case[1]) < 3 else obs
    if k == "srvc":
        esc = obs[0][0]
        return (esc, [(None, None)] * len(case[2])) if case[1] == "wsgi" else (esc,)
    if k == "srv2":
        esc = obs[0][0]
        return (esc, [(None, None)] * len(case[3])) if case[1] == "wsgi" else (esc,)
    if k == "sseq":
        return obs[:2]          # the Respondent-level runs; the Client-level run is for the oracle
    return obs


def shrink_case(case):
    """smaller variants: fewer cuts, shorter data (never raises: a shrinker that cannot handle a case yields nothing)"""
    try:
        yield from _shrink_case(case)
    except Exception:   # noqa
        return


def _shrink_case(case):
    k = case[0]
    idx = {"req": (1, 2), "resp": (2, 3), "sse": (1, 2), "sses": (1, 2), "chunks": (1, 2), "cli": (1, 2), "clir": (1, 2), "clid": (1, 2)}.get(k)
    if idx:
        di, ci = idx
        data, cuts = case[di], tuple(case[ci])
        def mk(d, c):
            c = tuple(sorted(set(x for x in c if 0 < x < len(d))))
            lst = list(case)
            lst[di] = d
            lst[ci] = c
            if k in ("req", "resp") and lst[-1] != "cf":
                lst[-1] = None     # the intent no longer applies
            return tuple(lst)
        if cuts:
            yield mk(data, ())
            for i in range(len(cuts)):
                yield mk(data, cuts[:i] + cuts[i + 1:])
        n = len(data)
        for a, b in ((n // 2, n), (0, n // 2)):
            if b - a > 0 and n > 1:
                yield mk(data[:a] + data[b:], cuts)
        if n <= 400:
            for i in range(n):
                yield mk(data[:i] + data[i + 1:], tuple(x if x <= i else x - 1 for x in cuts))
    elif k == "sser":
        _, mode, stream, sizes, cuts = case
        if cuts:
            yield (k, mode, stream, sizes, ())
        for i in range(len(stream)):
            s2 = stream[:i] + stream[i + 1:]
            yield (k, mode, s2, sizes, tuple(x for x in cuts if x < len(sser_wire(mode, s2, sizes))))
    elif k == "sseq":
        sts = case[1]
        for i in range(len(sts)):
            if len(sts) > 1:
                yield (k, sts[:i] + sts[i + 1:])
        for i, (mode, stream, sizes, drop, cuts) in enumerate(sts):
            if cuts:
                yield (k, sts[:i] + ((mode, stream, sizes, drop, ()),) + sts[i + 1:])
            if sizes and mode == "close":
                yield (k, sts[:i] + ((mode, stream, (), drop, ()),) + sts[i + 1:])
            if mode == "close":
                w = sser_wire(mode, stream, sizes)
                hl = len(w) - len(stream)
                keep = len(stream) if drop is None else max(0, drop - hl)
                for j in range(len(stream)):
                    s2 = stream[:j] + stream[j + 1:]
                    d2 = None if drop is None else hl + (keep - 1 if j < keep else keep)
                    yield (k, sts[:i] + ((mode, s2, sizes, d2, ()),) + sts[i + 1:])
    elif k == "enc":
        body, sizes, exts, trailers, cuts = case[1:6]
        pads = tuple(case[6]) if len(case) > 6 else ()
        if cuts:
            yield (k, body, sizes, exts, trailers, (), pads)
        if trailers:
            yield (k, body, sizes, exts, trailers[:-1], (), pads)
        if exts:
            yield (k, body, sizes, exts[:-1], trailers, (), pads)
        if sizes:
            yield (k, body, (), exts, trailers, (), pads)
        for i in range(len(pads)):
            if pads[i]:
                yield (k, body, sizes, exts, trailers, (), pads[:i] + (0,) + pads[i + 1:])
        for i in range(len(body)):
            yield (k, body[:i] + body[i + 1:], sizes, exts, trailers, (), pads)
    elif k in ("pack", "wsgi"):
        _, ps, cuts = case
        if cuts:
            yield (k, ps, ())
        for i in range(len(ps)):
            yield (k, ps[:i] + ps[i + 1:], ())
            if len(ps[i]) > 8 and ps[i] != b"a" * len(ps[i]):
                yield (k, ps[:i] + (b"a" * len(ps[i]),) + ps[i + 1:], ())     # same length, plain content
            if len(ps[i]) > 1:
                yield (k, ps[:i] + (ps[i][:-1],) + ps[i + 1:], ())
            if len(ps[i]) > 1:
                yield (k, ps[:i] + (ps[i][:len(ps[i]) // 2],) + ps[i + 1:], ())
    elif k == "clih":
        _, ws, cuts = case
        if cuts:
            yield (k, ws, ())
        for i in range(len(ws)):
            if len(ws) > 1:
                yield (k, ws[:i] + ws[i + 1:], ())
    elif k == "rebind":
        _, side, steps = case
        for i in range(len(steps)):
            if len(steps) > 1:
                yield (k, side, steps[:i] + steps[i + 1:])
        for i, (route, pre, data, cuts) in enumerate(steps):
            if cuts:
                yield (k, side, steps[:i] + ((route, pre, data, ()),) + steps[i + 1:])
            if pre:
                yield (k, side, steps[:i] + ((route, 0, data, cuts),) + steps[i + 1:])
    elif k == "inter":
        _, side, ps, order = case
        for i in range(len(ps)):
            if len(ps) > 2:
                yield (k, side, ps[:i] + ps[i + 1:], tuple(x if x < i else x - 1 for x in order if x != i))
        if len(order) > 1:
            yield (k, side, ps, order[:len(order) // 2])
            yield (k, side, ps, order[1:])
    elif k == "srvc":
        _, kind, conns = case
        for i in range(len(conns)):
            if len(conns) > 1:
                yield (k, kind, conns[:i] + conns[i + 1:])
        for i, (d, c, cl, cap, fault) in enumerate(conns):
            if c:
                yield (k, kind, conns[:i] + ((d, (), cl, cap, fault),) + conns[i + 1:])
            if fault is not None:
                yield (k, kind, conns[:i] + ((d, c, cl, cap, None),) + conns[i + 1:])
            if cap is not None:
                yield (k, kind, conns[:i] + ((d, c, cl, None, fault),) + conns[i + 1:])
            n = len(d)
            if n > 1:
                for a, b in ((n // 2, n), (0, n // 2)):
                    yield (k, kind, conns[:i] + ((d[:a] + d[b:], (), cl, cap, fault),) + conns[i + 1:])
            if n <= 120:
                for j in range(n):
                    yield (k, kind, conns[:i] + ((d[:j] + d[j + 1:], (), cl, cap, fault),) + conns[i + 1:])
    elif k == "srv2":
        _, kind, r1, r2 = case
        for i in range(len(r1)):
            yield (k, kind, r1[:i] + r1[i + 1:], r2)
        for i in range(len(r2)):
            if len(r2) > 1:
                yield (k, kind, r1, r2[:i] + r2[i + 1:])
        for i, (d, c, cl) in enumerate(r1):
            if c:
                yield (k, kind, r1[:i] + ((d, (), cl),) + r1[i + 1:], r2)
            if len(d) > 1:
                yield (k, kind, r1[:i] + ((d[:len(d) // 2], (), cl),) + r1[i + 1:], r2)
    elif k == "srv":
        _, kind, conns = case
        for i in range(len(conns)):
            if len(conns) > 1:
                yield (k, kind, conns[:i] + conns[i + 1:])
        for i, (d, c, cl) in enumerate(conns):
            if c:
                yield (k, kind, conns[:i] + ((d, (), cl),) + conns[i + 1:])
            n = len(d)
            if n > 1:
                for a, b in ((n // 2, n), (0, n // 2)):
                    yield (k, kind, conns[:i] + ((d[:a] + d[b:], (), cl),) + conns[i + 1:])
            if n <= 200:
                for j in range(n):
                    yield (k, kind, conns[:i] + ((d[:j] + d[j + 1:], (), cl),) + conns[i + 1:])


def has_escape(obs_part):
    """('escaped', cls) anywhere in a parser-level observation"""
    if isinstance(obs_part, tuple) and len(obs_part) == 2 and obs_part[0] == "escaped":
        return True
    if isinstance(obs_part, (tuple, list)):
        return any(has_escape(x) for x in obs_part)
    return False


# --------------------------------------------------------------------------------------------------------------
# the encode side through the WSGI responder, and boundary sizes

class _Incomer:
    def __init__(self):
        self.txbs = bytearray()
        self.ca = ("127.0.0.1", 40000)

    def tx(self, data):
        self.txbs.extend(data)


def wsgi_wire(pieces):
    """bytes serving.Responder puts on the wire for an application that yields `pieces` (HTTP/1.1, chunked)"""
    from hio.core.http import serving

    def app(environ, start_response):
        start_response("200 OK", [("Content-Type", "application/octet-stream"), ("Date", "Thu, 01 Jan 2026 00:00:00 GMT"), ("Server", "t")])
        for p in pieces:
            yield bytes(p)

    inc = _Incomer()
    rep = serving.Responder(incomer=inc, app=app, environ={"REQUEST_METHOD": "GET"}, chunkable=True)
    for _ in range(len(pieces) + 3):
        rep.service()
        if rep.ended:
            break
    return bytes(inc.txbs)


def size_constants():
    from ..extract import httpparse as xhp
    return xhp.size_constants()


def boundary_sizes(limit=300000):
    """sizes at and around every size constant of the module and its small multiples (read from the module now, so a
    new or changed constant moves the boundaries), plus the trivial ones"""
    out = {0, 1, 2, 15, 16, 17, 255, 256, 257, 4095, 4096, 4097}
    for _, c in size_constants():
        for k in (1, 2, 3):
            for d in (-1, 0, 1):
                v = k * c + d
                if 0 <= v <= limit:
                    out.add(v)
    return sorted(out)


def boundary_line_sizes():
    """line lengths at and around every size constant of the module that can bound a line (read from the module)"""
    out = set()
    for _, c in size_constants():
        if c <= 1 << 17:
            out.update((c - 1, c, c + 1))
    return sorted(out)


def max_line_size():
    from hio.core.http import httping
    return int(httping.MAX_LINE_SIZE)


def piece_of(rng, n):
    """n bytes, cheap to build, with CR/LF/hex-looking content at both ends"""
    if n <= 64:
        return rand_body(rng, n)
    head = rand_body(rng, 16)
    tail = rand_body(rng, 16)
    return head + bytes([rng.randrange(256)]) * (n - 32) + tail


def total(oracle):
    """an observation the oracle cannot account for is a violation, never a crash of the check"""
    def wrapped(self, case, obs):
        try:
            return oracle(self, case, obs)
        except Exception as ex:   # noqa
            return ["oracle-cannot-account-for-observation:" + type(ex).__name__]
    return wrapped


def safe(default):
    """bookkeeping hooks (features, nontrivial, mutate) never crash the check on an unexpected observation"""
    def deco(fn):
        def wrapped(self, *a):
            try:
                return fn(self, *a)
            except Exception:   # noqa
                return default() if callable(default) else default
        return wrapped
    return deco
