"""Shared pieces for C29 (hio.base.filing.Filer): a disposable sandbox on the real filesystem, snapshots, generators.

Everything happens under SCRATCH/<run>/ROOT.  The head directory sits DEPTH levels below ROOT so that a name with up
to DEPTH-1 '..' segments still lands inside ROOT (and ROOT is removed after every case).

case = (name, base, temp, clean, filed, extensioned, fext, pre, steps[, entry])
  entry = None (plain constructor) | ("ctx", clear): `with openFiler(cls, name=..., temp=..., clear=clear, ...)` around the steps
  pre   = [(relative path below HEAD, 'd' | 'f' | 'lf' | 'ld'), ...]  created before the Filer (non-temp only);
          'lf' / 'ld' = a symbolic link there whose target is a regular file / a directory with a file in it OUTSIDE the head
          (below <sandbox>/outside, which also holds sentinel files)
  steps = [("reopen", clear, reuse, clean[, temp None|bool[, fext None|str]]) | ("close", clear) | ("doer",), ...]  applied after the constructor
          ("doer"[, route, temp]) = a FilerDoer for the filer run to its time limit by a non-real-time Doist; route do | doist | doer =
          temp injected by doist.do(temp=..), Doist(temp=..), FilerDoer(temp=..)
"""
import itertools
import os
import re
import shutil

SCRATCH = "/tmp/path_scratch"
CHAIN = ["s1", "s2", "s3", "s4", "s5", "s6", "s7", "s8"]
_run = itertools.count()
_TMPRE = re.compile(r"^hio_.*_test$")


class Sandbox:
    def __init__(self):
        os.makedirs(SCRATCH, exist_ok=True)
        self.root = os.path.join(SCRATCH, f"r{os.getpid()}_{next(_run)}")
        if os.path.exists(self.root):
            shutil.rmtree(self.root)
        deep = os.path.join(self.root, *CHAIN)
        self.head = os.path.join(deep, "head")
        self.temphead = os.path.join(deep, "tmp")
        self.alt = os.path.join(deep, "alt")
        self.home = os.path.join(deep, "home")      # $HOME while the Filer runs: an expansion of '~' lands here, visibly
        self.cwd = os.path.join(deep, "cwd")        # the current directory while the Filer runs: a relative head ('', '.', 'rel') lands here
        self.deep = deep
        self.systmp = os.path.join(deep, "systmp")   # what tempfile.gettempdir() answers while the Filer runs: a silent fallback to it is visible
        for d in (self.head, self.temphead, self.alt, self.home, self.cwd, self.systmp):
            os.makedirs(d)
        p = self.root
        for s in [None] + CHAIN:          # a sentinel file at every level: deleting one is always wrong
            if s:
                p = os.path.join(p, s)
            open(os.path.join(p, "keep"), "w").close()
        for d in (self.head, self.temphead, self.home, self.cwd):
            open(os.path.join(d, "keep"), "w").close()
        self.tmpnames = {}

    def rel(self, path):
        r = os.path.relpath(path, self.root)
        return tuple(self._canon(i, s) for i, s in enumerate(r.split(os.sep))) if r != "." else ()

    def _canon(self, i, seg):
        if i == len(CHAIN) + 1 and seg in self.tmpnames:
            return self.tmpnames[seg]
        return seg

    def snapshot(self):
        """sorted tuple of (segments as utf-8 bytes, kind) for everything below ROOT; mkdtemp names -> TMP<k> by order of creation"""
        try:
            for n in sorted(os.listdir(self.temphead)):
                if _TMPRE.match(n) and n not in self.tmpnames:
                    self.tmpnames[n] = f"TMP{len(self.tmpnames)}"
        except OSError:
            pass
        out = []
        for dp, dns, fns in os.walk(self.root):          # (does not descend into symbolic links)
            for n in dns + fns:
                full = os.path.join(dp, n)
                if os.path.islink(full):
                    kind = "ld" if os.path.isdir(full) else "lf" if os.path.isfile(full) else "lx"      # link to dir / to file / dangling
                else:
                    kind = "d" if os.path.isdir(full) else "f"
                out.append((tuple(x.encode("utf-8") for x in self.rel(full)), kind))
        return tuple(sorted(out))

    def destroy(self):
        shutil.rmtree(self.root, ignore_errors=True)


def cleanup_all():
    shutil.rmtree(SCRATCH, ignore_errors=True)


HEADSEGS = tuple(s.encode() for s in CHAIN + ["head"])
HOMESEGS = tuple(s.encode() for s in CHAIN + ["home"])
CWDSEGS = tuple(s.encode() for s in CHAIN + ["cwd"])
DEEP = "/" + "/".join(CHAIN)          # the sandbox's deep directory as the model sees it (paths relative to ROOT)

# head-directory tokens: "@/x" = absolute, inside the sandbox; everything else is passed literally ('', '.', 'rel/x', '~', '~/x', '../up')
HEAD_TOKENS = ["@/head", "@/head", "@/h2", "@/h2/deeper", "", ".", "rel", "rel/x", "./rel/", "../up", "~", "~/x", "~/x/y", "@/head/../h3"]
ALT_TOKENS = ["@/alt", "@/alt", "~", "~", "~/altx", "", "altrel", "@/alt2"]


def tok_real(sb, tok):
    return sb.deep + tok[1:] if tok.startswith("@") else tok


def tok_wire(tok):
    return (DEEP + tok[1:] if tok.startswith("@") else tok).encode("utf-8")


def tok_resolved(tok):
    """where a head token points, as segments below ROOT — worked out with posixpath, independently of the code and of the model"""
    import posixpath
    s = DEEP + tok[1:] if tok.startswith("@") else tok
    if s == "~" or s.startswith("~/"):
        s = DEEP + "/home" + s[1:]
    elif not s.startswith("/"):
        s = posixpath.join(DEEP + "/cwd", s)
    s = posixpath.normpath(s)
    return tuple(x.encode("utf-8") for x in s.split("/") if x)


def gen_heads(rng):
    """(headDirPath parameter | None, HeadDirPath class attribute, AltHeadDirPath class attribute, block, notemp)"""
    r = rng.random()
    param = rng.choice(HEAD_TOKENS) if r < 0.8 else None
    cls_head = rng.choice(HEAD_TOKENS) if rng.random() < 0.6 else "@/head"
    cls_alt = rng.choice(ALT_TOKENS)
    block = rng.choice([None, None, "head", "head", "tail"])
    return (param, cls_head, cls_alt, block, rng.random() < 0.08)
TEMPSEGS = tuple(s.encode() for s in CHAIN + ["tmp"])

# ---------------------------------------------------------------- generators
DOTTED = ["..", ".", "", "a", ".h", "a.b"]
SEGS = ["a", "b", "x.y", ".h", "..", ".", "", "a.", "...", "..b", "c.text", "é", "d.d", "a b", "~", "~", "~nosuchuser9", "$HOME", "~.x", "ÿ", "Ã©", "\x7f"]
BASES = ["", "", "", "b", "b/c", "..", "b/..", "../..", ".", "b/", "../b", "../../..", "x.y", "~", "~/b", "b/~", "~nosuchuser9/b"]


def gen_climb(rng):
    """(name, base) whose '..' segments are NOT leading: some segments down, then more segments up than went down"""
    down = [rng.choice(["a", "logs", "x.y", ".h", "é"]) for _ in range(rng.choice([1, 1, 2]))]
    ups = [".."] * (len(down) + rng.choice([0, 1, 1, 2, 2, 3]))
    mid = rng.choice([[], [], ["."], [""]])
    leaf = rng.choice([[], ["x"], ["stolen"], ["c.text"], ["."]])
    parts = down + mid + ups + leaf
    r = rng.random()
    if r < 0.5:
        return "/".join(parts), rng.choice(["", "", "b", "."])
    if r < 0.8:
        # the climb sits in base, the name is ordinary or climbs one more
        return rng.choice(["victim", "../victim", "a/../x", "main"]), "/".join(down + ups[:len(down) + rng.choice([0, 1, 2])])
    k = rng.randrange(1, len(parts))
    return "/".join(parts[k:]), "/".join(parts[:k])


def gen_name(rng):
    r = rng.random()
    n = rng.choice([1, 1, 1, 2, 2, 3])
    if r < 0.45:
        segs = [rng.choice(["a", "b", "x.y", "c.text", "é", "d.d", "main", "a b", ".h"]) for _ in range(n)]
    else:
        segs = [rng.choice(SEGS) for _ in range(n)]
    s = "/".join(segs)
    if rng.random() < 0.03:
        s = "/" + s
    return s


def gen_steps(rng):
    r = rng.random()
    if r < 0.1:
        return []
    steps = []
    for _ in range(rng.choice([0, 0, 0, 1, 1, 2])):
        steps.append(gen_reopen(rng, rng.random() < 0.4) if rng.random() < 0.75 else rng.choice([("doer",), ("exists",), gen_doer(rng), gen_doer(rng), gen_set(rng), gen_set(rng), gen_direct(rng)]))
    steps.append(("close", rng.random() < 0.8))
    return steps


def gen_entry(rng, steps):
    """a third of the cases live in an openFiler context; there the block often ends with the filer already closed"""
    if rng.random() < 0.65:
        return None, steps
    steps = [s for s in steps]
    r = rng.random()
    if r < 0.35 and steps and steps[-1][0] == "close":
        steps[-1] = ("close", False)                      # plain close inside the block
    elif r < 0.55:
        steps = steps[:-1] if steps and steps[-1][0] == "close" else steps      # block leaves it open
    elif r < 0.75:
        steps = [st for st in steps if st[0] != "close"] + [rng.choice([("doer",), gen_doer(rng)])]
    elif r < 0.9:
        steps = [("close", False), ("reopen", False, True, False, None, None), ("close", False)]
    return ("ctx", rng.random() < 0.5), steps


def gen_doer(rng):
    """a FilerDoer step with a temp value injected through one of the three routes"""
    route = rng.choice(["do", "doist", "doer"])
    return ("doer", route, True if route != "do" or rng.random() < 0.8 else False)


ABS_NAMES = ["@/home", "@/home/sub", "@/cwd/x", "@/alt", "@/head/../home"]


def gen_set(rng):
    """an attribute assigned after construction (the next reopen / doer run uses it)"""
    attr = rng.choice(["name", "base", "base", "filed", "extensioned"])
    if attr in ("filed", "extensioned"):
        return ("set", attr, rng.random() < 0.5)
    r = rng.random()
    val = rng.choice(ABS_NAMES) if r < 0.35 else gen_climb(rng)[0] if r < 0.55 else gen_name(rng) if r < 0.8 else rng.choice(["", "b", "b/c", "x.y"])
    return ("set", attr, val)


def gen_direct(rng):
    """a direct call of the public remake() with its own arguments"""
    r = rng.random()
    name = rng.choice(ABS_NAMES) if r < 0.15 else gen_name(rng)
    base = rng.choice(ABS_NAMES) if rng.random() < 0.25 else rng.choice(BASES)
    return ("remake", name, base, rng.random() < 0.4, rng.random() < 0.4, rng.random() < 0.4, rng.random() < 0.3)


def gen_reopen(rng, clean):
    """reopen(clear, reuse, clean, temp, fext): about a third of the calls change a setting"""
    temp = rng.choice([None, None, None, None, True, False])
    fext = rng.choice([None, None, None, None, None, "db", "text"])
    return ("reopen", rng.random() < 0.5, rng.random() < 0.35, clean, temp, fext)


def gen_pre(rng, name, base, clean, filed, extensioned, fext):
    """pre-existing directories along the expected path with sentinel files in them (harness-side arithmetic only)"""
    if rng.random() < 0.55 or not isinstance(name, str) or not isinstance(base, str):
        return []
    tail = "hio/clean" if clean else "hio"
    rel = os.path.normpath(os.path.join(tail, base, os.path.dirname(name)))
    if rel.startswith(".."):
        return [("keep2", "f")]
    parts = [p for p in rel.split("/") if p not in ("", ".")]
    out = []
    for i in range(1, len(parts) + 1):
        if rng.random() < 0.8:
            d = "/".join(parts[:i])
            out.append((d, "d"))
            if rng.random() < 0.7:
                out.append((d + "/keep", "f"))
            if rng.random() < 0.3:
                out.append((d + "/sib", "d"))
                out.append((d + "/sib/keep", "f"))
    return out


def gen_case(rng):
    r = rng.random()
    if r < 0.45:
        return gen_revisit(rng)
    if r < 0.6:
        name, base = gen_climb(rng)
    else:
        name = gen_name(rng)
        base = rng.choice(BASES)
    temp = rng.random() < 0.4
    clean = rng.random() < 0.4
    filed = rng.random() < 0.45
    extensioned = rng.random() < 0.4
    fext = rng.choice(["text", "text", "text", "db", "t.x", "", "a/b", "/../../x", "..", "é"])
    if rng.random() < 0.05:
        name = rng.choice([None, 7, 0])          # not path-like
    elif rng.random() < 0.04:
        base = rng.choice([None, 7])
    elif rng.random() < 0.12:
        name = ("path", name)                     # a pathlib path object instead of a str
        if rng.random() < 0.4:
            base = ("path", base)
    pre = [] if temp else gen_pre(rng, name, base, clean, filed, extensioned, fext)
    entry, steps = gen_entry(rng, gen_steps(rng))
    if rng.random() < 0.3:
        # the head / alt head as parameter and as class attributes, a blocked primary head, a missing TempHeadDir
        return (name, base, temp if rng.random() < 0.5 else False, clean, filed, extensioned, fext, [], steps, entry, gen_heads(rng))
    return (name, base, temp, clean, filed, extensioned, fext, pre, steps, entry)


def gen_revisit(rng):
    """the same path is visited several times (reopen with the same clean flag), with sentinel files and sibling
    directories next to it and possibly something already sitting at the path itself"""
    n = rng.choice([1, 1, 2])
    name = "/".join(rng.choice(["a", "b", "x.y", "c.text", "é", "d.d", "main", ".h", "a/../b", "."]) for _ in range(n))
    base = rng.choice(["", "", "b", "b/c", "b/../c", "."])
    temp = rng.random() < 0.25
    clean = rng.random() < 0.6
    filed = rng.random() < 0.4
    ext = rng.random() < 0.4
    fext = rng.choice(["text", "text", "db"])
    pre = []
    if not temp:
        nm = name
        if (filed or ext) and not os.path.splitext(nm)[1]:
            nm = f"{nm}.{fext}"
        tail = "hio/clean" if clean else "hio"
        rel = os.path.normpath(os.path.join(tail, base, nm))
        parts = rel.split("/")
        for i in range(1, len(parts)):
            d = "/".join(parts[:i])
            pre.append((d, "d"))
            if rng.random() < 0.8:
                pre.append((d + "/keep", "f"))
            if rng.random() < 0.5:
                pre.append((d + "/sib", "d"))
                pre.append((d + "/sib/keep", "f"))
        if len(parts) > 1 and rng.random() < 0.5:
            # neighbours whose names are in prefix relation with the path itself
            for suffix, kind in (("x", "f"), (".bak", "f"), ("0", "d")):
                if rng.random() < 0.6:
                    pre.append((rel + suffix, kind))
                    if kind == "d":
                        pre.append((rel + suffix + "/data", "f"))
            if len(parts[-1]) > 1 and parts[-1][:-1] not in (".", "..") and rng.random() < 0.5:
                pre.append(("/".join(parts[:-1] + [parts[-1][:-1]]), "f"))
        r = rng.random()
        if r < 0.45 and len(parts) > 1:
            lk = rng.random()
            if lk < 0.3:
                # a symbolic link to the outside sits at the path (a FILE at the path of a directory Filer is not generated: with clean
                # the code deliberately removes the whole holding directory then, see notes/Path.md)
                pre.append((rel, (rng.choice(["lf", "ld"]) if lk < 0.08 else "lf") if (filed or ext) else "ld"))
            elif filed or ext:
                pre.append((rel, "f"))
            else:
                pre.append((rel, "d"))
                pre.append((rel + "/old", "f"))
        if rng.random() < 0.3:
            pre = [e for e in pre if rng.random() < 0.8 or e[1] == "d"]
    steps = []
    for _ in range(rng.choice([0, 1, 1, 2, 3])):
        steps.append(gen_reopen(rng, clean if rng.random() < 0.85 else not clean))
    if rng.random() < 0.9:
        steps.append(("close", rng.random() < 0.75))
    entry, steps = gen_entry(rng, steps)
    return (name, base, temp, clean, filed, ext, fext, pre, steps, entry)


def exhaustive_cases():
    names = []
    for n in (1, 2, 3):
        for segs in itertools.product(DOTTED, repeat=n):
            names.append("/".join(segs))
    names = sorted(set(names))
    for name in names:
        for base in ["", "b", "..", "b/..", "../.."]:
            for flags in itertools.product([False, True], repeat=4):
                temp, clean, filed, ext = flags
                yield (name, base, temp, clean, filed, ext, "text", [], [("close", True)])
