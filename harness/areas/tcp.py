"""Shared Python for the Tcp area (C09-C12): fault codes, scripted fake sockets, class factories that hand
the fakes to the REAL hio.core.tcp classes through public parameters / harness subclasses / a patched
`socket` name inside the two tcp modules (harness-process only), scenario runners, generators.

Nothing here looks at the Lean model; the oracles in harness/props/C09..C12.py use only what these runners observe.
"""
import contextlib
import errno
import os
import socket as _socket
import ssl

from .. import core

# --------------------------------------------------------------------------
# fault codes: 1..999 = OSError(errno); 1000+k = ssl error classes
SSL_CODES = {
    1001: ("SSLError", lambda: ssl.SSLError(ssl.SSL_ERROR_SSL, "ssl error")),
    1002: ("SSLWantReadError", lambda: ssl.SSLWantReadError(ssl.SSL_ERROR_WANT_READ, "want read")),
    1003: ("SSLWantWriteError", lambda: ssl.SSLWantWriteError(ssl.SSL_ERROR_WANT_WRITE, "want write")),
    1005: ("SSLSyscallError", lambda: ssl.SSLSyscallError(ssl.SSL_ERROR_SYSCALL, "syscall")),
    1006: ("SSLZeroReturnError", lambda: ssl.SSLZeroReturnError(ssl.SSL_ERROR_ZERO_RETURN, "zero return")),
    1008: ("SSLEOFError", lambda: ssl.SSLEOFError(ssl.SSL_ERROR_EOF, "EOF occurred in violation of protocol")),
    1010: ("SSLCertVerificationError", lambda: ssl.SSLCertVerificationError(ssl.SSL_ERROR_SSL, "certificate verify failed")),
}
SSLEOF = 1008
WANT_READ, WANT_WRITE = 1002, 1003
ERRNOS = sorted(errno.errorcode)
ALL_CODES = ERRNOS + sorted(SSL_CODES)

# the property's list (C10), by NAME; numeric values are this platform's
CONN_FAULT_NAMES = ["ECONNRESET", "EPIPE", "ENETRESET", "ENETUNREACH", "EHOSTUNREACH", "ENETDOWN", "EHOSTDOWN",
                    "ETIMEDOUT", "ECONNREFUSED"]
CONN_FAULTS = [getattr(errno, n) for n in CONN_FAULT_NAMES]
EPIPE = errno.EPIPE
EAGAIN = errno.EAGAIN

KINDS = ("client", "clienttls", "remoter", "remotertls")


def is_tls(kind):
    return kind.endswith("tls")


def wouldblock_codes(kind):
    return [WANT_READ, WANT_WRITE] if is_tls(kind) else [EAGAIN]


def conn_fault_codes(kind):
    return CONN_FAULTS + ([SSLEOF] if is_tls(kind) else [])


def make_exc(code):
    if code in SSL_CODES:
        return SSL_CODES[code][1]()
    return OSError(code, os.strerror(code))


def exc_tag(ex):
    """canonical class of an escaped exception: OSError family vs anything else"""
    return "OSError" if isinstance(ex, OSError) else "Other"


# --------------------------------------------------------------------------
# fake sockets

class World:
    """every socket object the code under test ever obtained, in creation order"""

    def __init__(self):
        self.socks = []

    def new(self, **kw):
        s = FakeSock(self, len(self.socks), **kw)
        self.socks.append(s)
        return s

    def open_ids(self):
        return [s.sid for s in self.socks if not s.closed]


class FakeSock:
    """scripted nonblocking stream socket.
    sends: list of ("acc", n) | ("f", code); exhausted -> would block
    recvs: list of ("d", bytes) | ("f", code); b"" = EOF; exhausted -> would block
    hs:    list of ("ok",) | ("f", code); exhausted -> want-read
    accepts (listen socket): list of (ca, sends, recvs, hs); exhausted -> EAGAIN
    After a hard fault the peer is gone: getpeername() raises ENOTCONN like a real reset socket does.
    """

    def __init__(self, world, sid, sends=(), recvs=(), hs=(), tls=False, ca=None, ha=None):
        self.world = world
        self.sid = sid
        self.sends = list(sends)
        self.recvs = list(recvs)
        self.hs = list(hs)
        self.tls = tls
        self.ca = ca
        self.ha = ha
        self.accepts = []
        self.closed = False
        self.shut = False
        self.broken = False
        self.kacc = bytearray()   # bytes the kernel accepted from send()
        self.kdel = bytearray()   # bytes recv() delivered
        self.calls = []           # ("send"|"recv"|"hs", outcome)
        self.bound = None

    # -- plumbing the code calls while opening
    def setsockopt(self, *a):
        pass

    def getsockopt(self, *a):
        return 1 << 20

    def setblocking(self, flag):
        pass

    def bind(self, ha):
        self.bound = ha
        self.ha = ha

    def listen(self, n):
        pass

    def fileno(self):
        return -1 if self.closed else 1000 + self.sid

    def getsockname(self):
        self._chk()
        return self.ha

    def getpeername(self):
        self._chk()
        if self.broken or self.ca is None:
            raise OSError(errno.ENOTCONN, os.strerror(errno.ENOTCONN))
        return self.ca

    def connect_ex(self, ha):
        self._chk()
        self.ca_remote = ha
        return 0

    def _chk(self):
        if self.closed:
            raise OSError(errno.EBADF, os.strerror(errno.EBADF))

    def _wb(self):
        if self.tls:
            return make_exc(WANT_READ)
        return make_exc(EAGAIN)

    def shutdown(self, how):
        self._chk()
        if self.broken:
            raise OSError(errno.ENOTCONN, os.strerror(errno.ENOTCONN))
        self.shut = True

    def close(self):
        self.closed = True

    # -- scripted I/O
    def send(self, data):
        self._chk()
        if not self.sends:
            self.calls.append(("send", "wb"))
            raise self._wb()
        r = self.sends.pop(0)
        if r[0] == "acc":
            n = min(r[1], len(data))
            self.kacc.extend(bytes(data[:n]))
            self.calls.append(("send", n))
            return n
        self.calls.append(("send", ("f", r[1])))
        self._fault(r[1])

    def recv(self, bs):
        self._chk()
        if not self.recvs:
            self.calls.append(("recv", "wb"))
            raise self._wb()
        r = self.recvs.pop(0)
        if r[0] == "d":
            d = bytes(r[1])
            self.kdel.extend(d)
            self.calls.append(("recv", len(d)))
            return d
        self.calls.append(("recv", ("f", r[1])))
        self._fault(r[1])

    def do_handshake(self):
        self._chk()
        if not self.hs:
            self.calls.append(("hs", "wb"))
            raise make_exc(WANT_READ)
        r = self.hs.pop(0)
        if r[0] == "ok":
            self.calls.append(("hs", "ok"))
            return
        self.calls.append(("hs", ("f", r[1])))
        self._fault(r[1])

    def _fault(self, code):
        if code not in (EAGAIN, WANT_READ, WANT_WRITE, errno.EINTR):
            self.broken = True
        raise make_exc(code)

    def accept(self):
        self._chk()
        if not self.accepts:
            raise make_exc(EAGAIN)
        ca, sends, recvs, hs = self.accepts.pop(0)
        s = self.world.new(sends=sends, recvs=recvs, hs=hs, tls=self.tls, ca=ca, ha=self.ha)
        return s, ca



class _SockMod:
    """stands in for the name `socket` inside hio.core.tcp.{clienting,serving}: socket.socket(...) makes fakes"""

    def __init__(self, world, tls=False, ha=None, client_scripts=None):
        self.world = world
        self.tls = tls
        self.ha = ha
        self.client_scripts = client_scripts if client_scripts is not None else []

    def __getattr__(self, name):
        return getattr(_socket, name)

    def socket(self, *a, **kw):
        if self.client_scripts:
            sends, recvs, hs = self.client_scripts.pop(0)
        else:
            sends, recvs, hs = [], [], []
        s = self.world.new(sends=sends, recvs=recvs, hs=hs, tls=self.tls, ca=self.ha, ha=("127.0.0.1", 50000 + len(self.world.socks)))
        return s


@contextlib.contextmanager
def patched(module, **names):
    old = {k: getattr(module, k) for k in names}
    try:
        for k, v in names.items():
            setattr(module, k, v)
        yield
    finally:
        for k, v in old.items():
            setattr(module, k, v)


_CTX = None


def shared_context():
    global _CTX
    if _CTX is None:
        c = ssl.SSLContext(ssl.PROTOCOL_TLS_SERVER)
        c.verify_mode = ssl.CERT_NONE
        _CTX = c
    return _CTX


_CCTX = None


def shared_client_context():
    global _CCTX
    if _CCTX is None:
        c = ssl.SSLContext(ssl.PROTOCOL_TLS_CLIENT)
        c.check_hostname = False
        c.verify_mode = ssl.CERT_NONE
        _CCTX = c
    return _CCTX


def classes():
    """the real modules and classes; the TLS ones get `wrap()` neutralised (harness process only, see nowrap())
    so that they keep the scripted fake socket.  (Subclassing is not possible for RemoterTls: the server looks the
    class up by its module-global name and the classes use super(Name, self), so a renamed global recurses.)"""
    from hio.core.tcp import clienting, serving
    return clienting, serving, clienting.ClientTls, serving.RemoterTls


@contextlib.contextmanager
def nowrap():
    from hio.core.tcp import clienting, serving
    with patched(clienting.ClientTls, wrap=lambda self: None), patched(serving.RemoterTls, wrap=lambda self: None):
        yield


def make_wl():
    from hio.core import wiring
    wl = wiring.WireLog(samed=False, filed=False, fmt=b'%(data)b')
    wl.reopen()
    return wl


def wl_read(wl):
    return bytes(wl.readTx() or b""), bytes(wl.readRx() or b"")


# --------------------------------------------------------------------------
# one connection object of each of the four kinds, sitting on a scripted fake socket

def make_conn(kind, sends, recvs, hs=(), wl=None, tymth=None, world=None):
    """returns (obj, fakesock).  Clients go through the real open()/accept() path via the patched socket name."""
    with nowrap():
        return _make_conn(kind, sends, recvs, hs, wl, tymth, world)


def _make_conn(kind, sends, recvs, hs, wl, tymth, world):
    clienting, serving, TClientTls, TRemoterTls = classes()
    world = world or World()
    tls = is_tls(kind)
    if kind in ("remoter", "remotertls"):
        s = world.new(sends=sends, recvs=recvs, hs=hs, tls=tls, ca=("127.0.0.1", 40001), ha=("127.0.0.1", 56000))
        if kind == "remoter":
            obj = serving.Remoter(ha=s.ha, ca=s.ca, cs=s, wl=wl, tymth=tymth)
        else:
            obj = TRemoterTls(ha=s.ha, ca=s.ca, cs=s, wl=wl, tymth=tymth, context=shared_context())
            obj.handshake()   # scripted: first hs entry
        return obj, s
    mod = _SockMod(world, tls=tls, ha=("127.0.0.1", 56000), client_scripts=[(list(sends), list(recvs), list(hs))])
    with patched(clienting, socket=mod):
        if kind == "client":
            obj = clienting.Client(ha=("127.0.0.1", 56000), wl=wl, tymth=tymth)
        else:
            obj = TClientTls(ha=("127.0.0.1", 56000), wl=wl, tymth=tymth, context=shared_client_context(), certedhost="localhost")
        obj.reopen()
        obj.serviceConnect()
    return obj, world.socks[-1]


# --------------------------------------------------------------------------
# finite-domain probing of the ten sites (translator and C10 use this)

SITES = ["client_send", "client_recv", "clienttls_send", "clienttls_recv", "remoter_send", "remoter_recv",
         "remotertls_send", "remotertls_recv", "clienttls_hs", "remotertls_hs"]
OUT_WB, OUT_CUT, OUT_ABORT, OUT_RAISE_OS, OUT_RAISE_OTHER = 0, 1, 2, 3, 4
OUT_NAMES = {0: "wouldblock", 1: "cutoff", 2: "aborted", 3: "raisedOS", 4: "raisedOther"}


def probe(site, code):
    """call the real method once on a fresh connection whose socket raises fault `code`; classify what happened"""
    with nowrap():
        return _probe(site, code)


def _probe(site, code):
    kind, what = site.split("_")
    clienting, serving, TClientTls, TRemoterTls = classes()
    if what == "hs":
        world = World()
        if kind == "remotertls":
            s = world.new(hs=[("f", code)], tls=True, ca=("127.0.0.1", 40001), ha=("127.0.0.1", 56000))
            obj = TRemoterTls(ha=s.ha, ca=s.ca, cs=s, context=shared_context())
            try:
                obj.handshake()
            except BaseException as ex:
                return OUT_RAISE_OS if isinstance(ex, OSError) else OUT_RAISE_OTHER
            if obj.aborted and not obj.connected and s.closed:
                return OUT_ABORT
            if not obj.aborted and not obj.connected and not s.closed:
                return OUT_WB
            raise core.Infra(f"probe {site} {code}: unclassifiable state aborted={obj.aborted} connected={obj.connected} closed={s.closed}")
        mod = _SockMod(world, tls=True, ha=("127.0.0.1", 56000), client_scripts=[([], [], [("f", code)])])
        with patched(clienting, socket=mod):
            obj = TClientTls(ha=("127.0.0.1", 56000), context=shared_client_context(), certedhost="localhost")
            obj.reopen()
            try:
                obj.serviceConnect()
            except BaseException as ex:
                return OUT_RAISE_OS if isinstance(ex, OSError) else OUT_RAISE_OTHER
        s = world.socks[0]
        if not obj.connected and s.closed and obj.cs is None:
            return OUT_ABORT
        if not obj.connected and not s.closed:
            return OUT_WB
        raise core.Infra(f"probe {site} {code}: unclassifiable state connected={obj.connected} closed={s.closed}")
    hs = [("ok",)] if is_tls(kind) else []
    if what == "send":
        obj, s = make_conn(kind, [("f", code)], [], hs)
        try:
            r = obj.send(b"abc")
        except BaseException as ex:
            return OUT_RAISE_OS if isinstance(ex, OSError) else OUT_RAISE_OTHER
        if r == 0 and obj.cutoff:
            return OUT_CUT
        if r == 0 and not obj.cutoff:
            return OUT_WB
        raise core.Infra(f"probe {site} {code}: send returned {r!r} cutoff={obj.cutoff}")
    obj, s = make_conn(kind, [], [("f", code)], hs)
    try:
        r = obj.receive()
    except BaseException as ex:
        return OUT_RAISE_OS if isinstance(ex, OSError) else OUT_RAISE_OTHER
    if r == b"" and obj.cutoff:
        return OUT_CUT
    if r is None and not obj.cutoff:
        return OUT_WB
    raise core.Infra(f"probe {site} {code}: receive returned {r!r} cutoff={obj.cutoff}")


_TABLES = None


def tables(refresh=False):
    global _TABLES
    if _TABLES is None or refresh:
        _TABLES = {site: {c: probe(site, c) for c in ALL_CODES} for site in SITES}
    return _TABLES


# --------------------------------------------------------------------------
# C09: one connection, op list, scripted kernel

def _status(fn):
    try:
        fn()
    except BaseException as ex:   # noqa: the escaped class IS the observation
        return exc_tag(ex)
    return "ok"


def run_conn(case):
    """case = (kind, wl, ops, sends, recvs); ops: ("tx", bytes) | ("ss",) | ("sr",) | ("svc",)
    observation = (steps, final): steps[i] = (status, |kacc|, |txbs|, |rxbs|, cutoff),
    final = (txbs, rxbs, kacc, kdel, wireTx|None, wireRx|None, cutoff)"""
    kind, use_wl, ops, sends, recvs = case
    wl = make_wl() if use_wl else None
    try:
        obj, s = make_conn(kind, sends, recvs, [("ok",)] if is_tls(kind) else [], wl=wl)
        steps = []
        for op in ops:
            if op[0] == "tx":
                st = _status(lambda: obj.tx(op[1]))
            elif op[0] == "ss":
                st = _status(obj.serviceSends)
            elif op[0] == "sr":
                st = _status(obj.serviceReceives)
            elif op[0] == "svc":
                if kind.startswith("client"):
                    st = _status(obj.service)
                else:
                    def both():
                        obj.serviceReceives()
                        obj.serviceSends()
                    st = _status(both)
            else:
                raise core.Infra(f"bad op {op!r}")
            steps.append((st, len(s.kacc), len(obj.txbs), len(obj.rxbs), bool(obj.cutoff)))
        wt, wr = wl_read(wl) if wl else (None, None)
        final = (bytes(obj.txbs), bytes(obj.rxbs), bytes(s.kacc), bytes(s.kdel), wt, wr, bool(obj.cutoff))
        return (tuple(steps), final)
    finally:
        if wl:
            wl.close()


# --------------------------------------------------------------------------
# C10 / C11: a server over a fake listen socket, several scripted connections

def _ca(i):
    return ("127.0.0.1", 40000 + i)


PORT = 56000


def run_server(case):
    """case = (tls, ops); ops:
       ("conn", ca, sends, recvs, hs)  a peer connects (queued on the listen socket)
       ("svc",) | ("tx", ca, bytes) | ("rm", ca) | ("close",) | ("reopen",)
    observation = tuple of (status, socks) per op, socks = per socket in creation order:
       ("listen", closed) | (where, cutoff, connected, aborted, rxbs, |txbs|, kacc, closed), where in ix|cx|gone"""
    tls, ops = case
    clienting, serving, TClientTls, TRemoterTls = classes()
    world = World()
    rms = {}

    mod = _SockMod(world, tls=tls, ha=None)
    listeners = []
    real_socket = mod.socket

    def mk(*a, **kw):
        s = real_socket(*a, **kw)
        s.ca = None
        listeners.append(s)
        return s
    mod.socket = mk
    out = []
    orig_init = serving.Remoter.__init__

    def init(self, *a, **kw):
        orig_init(self, *a, **kw)
        if self.cs is not None:
            rms[self.cs.sid] = self
    with patched(serving, socket=mod), nowrap(), patched(serving.Remoter, __init__=init):
        if tls:
            server = serving.ServerTls(host="127.0.0.1", port=PORT, context=shared_context())
        else:
            server = serving.Server(host="127.0.0.1", port=PORT)
        st0 = "ok" if server.reopen() else "openfail"
        pending = []
        for op in ops:
            k = op[0]
            if k == "conn":
                _, ca, sends, recvs, hs = op
                if listeners and not listeners[-1].closed:
                    listeners[-1].accepts.append((_ca(ca), list(sends), list(recvs), list(hs)))
                st = "ok"
            elif k == "svc":
                st = _status(server.service)
            elif k == "tx":
                if _ca(op[1]) in server.ixes:
                    st = _status(lambda: server.transmitIx(op[2], _ca(op[1])))
                else:
                    st = "skip"
            elif k == "rm":
                if _ca(op[1]) in server.ixes:
                    st = _status(lambda: server.removeIx(_ca(op[1])))
                else:
                    st = "skip"
            elif k == "close":
                st = _status(server.close)
            elif k == "reopen":
                st = _status(server.reopen)
            else:
                raise core.Infra(f"bad op {op!r}")
            snap = []
            for s in world.socks:
                if s in listeners:
                    snap.append(("listen", s.closed))
                    continue
                rm = rms.get(s.sid)
                if rm is None:   # created and replaced within one service pass: never seen in a table
                    snap.append(("gone", False, False, False, b"", 0, bytes(s.kacc), s.closed))
                    continue
                where = "gone"
                if any(v is rm for v in server.ixes.values()):
                    where = "ix"
                elif tls and any(v is rm for v in server.cxes.values()):
                    where = "cx"
                snap.append((where, bool(rm.cutoff), bool(getattr(rm, "connected", True)), bool(getattr(rm, "aborted", False)),
                             bytes(rm.rxbs), len(rm.txbs), bytes(s.kacc), s.closed))
            out.append((st, tuple(snap)))
    return (st0, tuple(out))


def run_client(case):
    """C11 client part. case = (tls, ops); ops: ("reopen",) | ("connect", rc) | ("close",) | ("hs", resp) ...
       ("connect", rc): next connect_ex returns rc, then serviceConnect(); for tls a handshake response may be given
    observation per op: (status, open socket ids, id of client.cs or None, connected)"""
    tls, ops = case
    clienting, serving, TClientTls, TRemoterTls = classes()
    world = World()
    mod = _SockMod(world, tls=tls, ha=("127.0.0.1", PORT))
    out = []
    nxt = {"rc": 0, "hs": None}
    real_socket = mod.socket

    def mk(*a, **kw):
        s = real_socket(*a, **kw)

        def connect_ex(ha, s=s):
            s._chk()
            return nxt["rc"]
        s.connect_ex = connect_ex
        return s
    mod.socket = mk
    with patched(clienting, socket=mod), nowrap():
        if tls:
            obj = TClientTls(ha=("127.0.0.1", PORT), context=shared_client_context(), certedhost="localhost")
        else:
            obj = clienting.Client(ha=("127.0.0.1", PORT))
        for op in ops:
            k = op[0]
            if k == "reopen":
                st = _status(obj.reopen)
            elif k == "close":
                st = _status(obj.close)
            elif k == "connect":
                nxt["rc"] = op[1]
                if tls and obj.cs is not None and len(op) > 2 and op[2] is not None:
                    obj.cs.hs.append(tuple(op[2]))
                elif tls and obj.cs is None and len(op) > 2 and op[2] is not None:
                    nxt["hs"] = tuple(op[2])
                st = _status(obj.serviceConnect)
            else:
                raise core.Infra(f"bad op {op!r}")
            cur = obj.cs.sid if obj.cs is not None else None
            out.append((st, tuple(world.open_ids()), cur, bool(obj.connected)))
    return tuple(out)


# --------------------------------------------------------------------------
# C12: http Server over a tcp Server on fake sockets (quick) or real loopback sockets (thorough), virtual Tymist

REQ_HEAD = b"GET /x HTTP/1.1\r\nHost: h\r\nX-Pad: "
REQ_FULL11 = b"GET /x HTTP/1.1\r\nHost: h\r\nContent-Length: 0\r\n\r\n"
UNIT = 0.125   # one model tick = 1/8 s of virtual tyme (exact in binary floating point)


def _app(environ, start_response):
    start_response("200 OK", [("Content-Type", "text/plain"), ("Content-Length", "2")])
    return [b"ok"]


def run_idle(case):
    """case = (tls, tymeout, ops) with tymeout and tick amounts in UNITs; ops:
       ("conn", ca) | ("tick", d) | ("data", ca, n) n pad bytes of a never-finished request arrive
       ("req", ca) a complete persistent HTTP/1.1 request arrives | ("svc",)
    observation per op: (status, tuple(per connection in creation order: open?))  (open = still in servant.ixes and socket not closed)"""
    tls, tymeout, ops = case
    from hio.base import tyming
    from hio.core.http import serving as hserving
    clienting, serving, _, _ = classes()
    world = World()
    mod = _SockMod(world, tls=tls, ha=None)
    out = []
    conns = {}   # ca -> fake socket (latest)
    order = []
    with patched(serving, socket=mod), nowrap():
        tymist = tyming.Tymist(tyme=0.0, tock=UNIT)
        if tls:
            servant = serving.ServerTls(host="127.0.0.1", port=PORT, context=shared_context(), tymeout=tymeout * UNIT)
            server = hserving.Server(servant=servant, app=_app, port=PORT)
        else:
            server = hserving.Server(host="127.0.0.1", port=PORT, app=_app, tymeout=tymeout * UNIT)
        server.wind(tymist.tymen())
        if not server.reopen():
            raise core.Infra("fake listen socket failed to open")
        lst = world.socks[0]
        for op in ops:
            k = op[0]
            st = "ok"
            if k == "conn":
                n0 = len(world.socks)
                lst.accepts.append((_ca(op[1]), [("acc", 1 << 30)] * 64, [], [("ok",)]))
                order.append(op[1])
                conns[op[1]] = None
            elif k == "tick":
                tymist.tick(tock=op[1] * UNIT)
            elif k in ("data", "req"):
                s = conns.get(op[1])
                if s is None:   # find the socket accepted for this ca
                    for x in world.socks[1:]:
                        if x.ca == _ca(op[1]):
                            s = conns[op[1]] = x
                if s is not None and not s.closed:
                    s.recvs.append(("d", b"a" * op[2]) if k == "data" else ("d", REQ_FULL11))
                    if k == "data" and not getattr(s, "started", False):
                        s.started = True
                        s.recvs[-1] = ("d", REQ_HEAD + b"a" * op[2])
            elif k == "svc":
                st = _status(server.service)
            else:
                raise core.Infra(f"bad op {op!r}")
            snap = []
            for ca in order:
                s = None
                for x in world.socks[1:]:
                    if x.ca == _ca(ca):
                        s = x
                if s is None:
                    snap.append("pending")
                else:
                    snap.append("open" if (_ca(ca) in server.servant.ixes or (tls and _ca(ca) in servant.cxes)) and not s.closed else "closed")
            out.append((st, tuple(snap)))
        server.close()
    return tuple(out)
