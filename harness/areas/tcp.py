"""Shared Python for the Tcp area (C09-C12): fault codes, scripted fake sockets, class factories that hand
the fakes to the REAL hio.core.tcp classes through public parameters / harness subclasses / a patched
`socket` name inside the two tcp modules (harness-process only), scenario runners, generators.

Nothing here looks at the Lean model; the oracles in harness/props/C09..C12.py use only what these runners observe.
"""
import contextlib
import errno
import os
import socket as _socket
import ssl

from .. import core

# --------------------------------------------------------------------------
# fault codes: 1..999 = OSError(errno); 1000+k = ssl error classes
SSL_CODES = {
    1001: ("SSLError", lambda: ssl.SSLError(ssl.SSL_ERROR_SSL, "ssl error")),
    1002: ("SSLWantReadError", lambda: ssl.SSLWantReadError(ssl.SSL_ERROR_WANT_READ, "want read")),
    1003: ("SSLWantWriteError", lambda: ssl.SSLWantWriteError(ssl.SSL_ERROR_WANT_WRITE, "want write")),
    1005: ("SSLSyscallError", lambda: ssl.SSLSyscallError(ssl.SSL_ERROR_SYSCALL, "syscall")),
    1006: ("SSLZeroReturnError", lambda: ssl.SSLZeroReturnError(ssl.SSL_ERROR_ZERO_RETURN, "zero return")),
    1008: ("SSLEOFError", lambda: ssl.SSLEOFError(ssl.SSL_ERROR_EOF, "EOF occurred in violation of protocol")),
    1010: ("SSLCertVerificationError", lambda: ssl.SSLCertVerificationError(ssl.SSL_ERROR_SSL, "certificate verify failed")),
}
SSLEOF = 1008
HS_OFFSET = 10000
WANT_READ, WANT_WRITE = 1002, 1003
ERRNOS = sorted(errno.errorcode)
ALL_CODES = ERRNOS + sorted(SSL_CODES)

# the property's list (C10), by NAME; numeric values are this platform's
CONN_FAULT_NAMES = ["ECONNRESET", "EPIPE", "ENETRESET", "ENETUNREACH", "EHOSTUNREACH", "ENETDOWN", "EHOSTDOWN",
                    "ETIMEDOUT", "ECONNREFUSED"]
CONN_FAULTS = [getattr(errno, n) for n in CONN_FAULT_NAMES]
EPIPE = errno.EPIPE
EAGAIN = errno.EAGAIN

KINDS = ("client", "clienttls", "remoter", "remotertls")


def is_tls(kind):
    return kind.endswith("tls")


def wouldblock_codes(kind):
    return [WANT_READ, WANT_WRITE] if is_tls(kind) else [EAGAIN]


def conn_fault_codes(kind):
    return CONN_FAULTS + ([SSLEOF] if is_tls(kind) else [])


def make_exc(code):
    if code in SSL_CODES:
        return SSL_CODES[code][1]()
    return OSError(code, os.strerror(code))


def exc_tag(ex):
    """canonical class of an escaped exception: OSError family vs anything else"""
    return "OSError" if isinstance(ex, OSError) else "Other"


# --------------------------------------------------------------------------
# fake sockets

class World:
    """every socket object the code under test ever obtained, in creation order"""

    def __init__(self, strict_peer=False):
        self.socks = []
        # strict_peer: getpeername()/shutdown() on a socket that has seen a hard fault raise ENOTCONN, as a reset
        # socket does (used by the server-level runs; the connection-level runs keep scripts independent of it)
        self.strict_peer = strict_peer
        self.default_acc = None   # default_acc of every socket created from now on

    def new(self, **kw):
        s = FakeSock(self, len(self.socks), **kw)
        s.default_acc = self.default_acc
        self.socks.append(s)
        return s

    def open_ids(self):
        return [s.sid for s in self.socks if not s.closed]


class FakeSock:
    """scripted nonblocking stream socket.
    sends: list of ("acc", n) | ("f", code); exhausted -> would block
    recvs: list of ("d", bytes) | ("f", code); b"" = EOF; exhausted -> would block
    hs:    list of ("ok",) | ("f", code); exhausted -> want-read
    accepts (listen socket): list of (ca, sends, recvs, hs); exhausted -> EAGAIN
    After a hard fault the peer is gone: getpeername() raises ENOTCONN like a real reset socket does.
    """

    def __init__(self, world, sid, sends=(), recvs=(), hs=(), tls=False, ca=None, ha=None):
        self.world = world
        self.sid = sid
        self.sends = list(sends)
        self.recvs = list(recvs)
        self.hs = list(hs)
        self.tls = tls
        self.ca = ca
        self.ha = ha
        self.accepts = []
        self.closed = False
        self.shut = False
        self.broken = False
        self.reset = False        # the peer has reset the connection: address calls raise ENOTCONN from now on (as on Linux)
        self.default_acc = None   # what send() does once its script is exhausted: None = would block, n = accept up to n bytes
        self.hards = []           # codes of the hard (not would-block) faults this socket has raised
        self.kacc = bytearray()   # bytes the kernel accepted from send()
        self.kdel = bytearray()   # bytes recv() delivered
        self.calls = []           # ("send"|"recv"|"hs", outcome)
        self.bound = None

    # -- plumbing the code calls while opening
    def setsockopt(self, *a):
        pass

    def getsockopt(self, *a):
        return 1 << 20

    def setblocking(self, flag):
        pass

    def bind(self, ha):
        if getattr(self, "fail_bind", None):
            raise OSError(self.fail_bind, os.strerror(self.fail_bind))
        self.bound = ha
        self.ha = ha

    def listen(self, n):
        if getattr(self, "fail_listen", None):
            raise OSError(self.fail_listen, os.strerror(self.fail_listen))

    def fileno(self):
        return -1 if self.closed else 1000 + self.sid

    def getsockname(self):
        self._chk()
        return self.ha

    def getpeername(self):
        self._chk()
        if getattr(self, "dead", False) or getattr(self, "unconnected", False):
            raise OSError(errno.ENOTCONN, os.strerror(errno.ENOTCONN))
        if self.reset or (self.broken and self.world.strict_peer) or self.ca is None:
            raise OSError(errno.ENOTCONN, os.strerror(errno.ENOTCONN))
        return self.ca

    def connect_ex(self, ha):
        self._chk()
        self.ca_remote = ha
        self.unconnected = False
        return 0

    def _chk(self):
        if self.closed:
            raise OSError(errno.EBADF, os.strerror(errno.EBADF))

    def _wb(self):
        if self.tls:
            return make_exc(WANT_READ)
        return make_exc(EAGAIN)

    def shutdown(self, how):
        self._chk()
        if self.reset or (self.broken and self.world.strict_peer):
            # a dead socket: shutdown() fails too — with ENOTCONN, or with the connection's own error again (ECONNRESET, EPIPE ...)
            code = errno.ENOTCONN
            last = (self.hards[-1] % HS_OFFSET) if self.hards else 0
            if 0 < last < 1000 and len(self.hards) % 2 == 1:
                code = last
            raise OSError(code, os.strerror(code))
        self.shut = True

    def close(self):
        self.closed = True

    # -- scripted I/O
    def send(self, data):
        self._chk()
        if not self.sends:
            if self.default_acc:
                n = min(self.default_acc, len(data))
                self.kacc.extend(bytes(data[:n]))
                self.calls.append(("send", n))
                return n
            self.calls.append(("send", "wb"))
            raise self._wb()
        r = self.sends.pop(0)
        if r[0] == "acc":
            n = min(r[1], len(data))
            self.kacc.extend(bytes(data[:n]))
            self.calls.append(("send", n))
            return n
        self.calls.append(("send", ("f", r[1])))
        self._fault(r[1])

    def recv(self, bs):
        self._chk()
        if not self.recvs:
            self.calls.append(("recv", "wb"))
            raise self._wb()
        r = self.recvs.pop(0)
        if r[0] == "d":
            d = bytes(r[1])
            if bs is not None and 0 < bs < len(d):   # a short read: the rest stays in the kernel
                self.recvs.insert(0, ("d", d[bs:]))
                d = d[:bs]
            self.kdel.extend(d)
            self.calls.append(("recv", len(d)))
            return d
        self.calls.append(("recv", ("f", r[1])))
        self._fault(r[1])

    def do_handshake(self):
        self._chk()
        if not self.hs:
            self.calls.append(("hs", "wb"))
            raise make_exc(WANT_READ)
        r = self.hs.pop(0)
        if r[0] == "ok":
            self.calls.append(("hs", "ok"))
            return
        self.calls.append(("hs", ("f", r[1])))
        self._fault(r[1], HS_OFFSET)

    def _fault(self, code, offset=0):
        if code not in ((WANT_READ, WANT_WRITE) if self.tls else (EAGAIN,)):
            self.broken = True
            self.hards.append(code + offset)   # faults raised by do_handshake() are recorded as code + HS_OFFSET
        raise make_exc(code)

    def accept(self):
        self._chk()
        if not self.accepts:
            raise make_exc(EAGAIN)
        if self.accepts[0][0] == "fault":      # accept() itself fails: EMFILE, ECONNABORTED, ...
            code = self.accepts.pop(0)[1]
            raise OSError(code, os.strerror(code))
        ca, sends, recvs, hs, *rest = self.accepts.pop(0)
        s = self.world.new(sends=sends, recvs=recvs, hs=hs, tls=self.tls, ca=ca, ha=self.ha)
        s.dead = bool(rest and rest[0])   # the peer reset the connection before it was accepted
        return s, ca



class _SockMod:
    """stands in for the name `socket` inside hio.core.tcp.{clienting,serving}: socket.socket(...) makes fakes"""

    def __init__(self, world, tls=False, ha=None, client_scripts=None):
        self.world = world
        self.tls = tls
        self.ha = ha
        self.client_scripts = client_scripts if client_scripts is not None else []

    def __getattr__(self, name):
        return getattr(_socket, name)

    def socket(self, *a, **kw):
        if self.client_scripts:
            sends, recvs, hs = self.client_scripts.pop(0)
        else:
            sends, recvs, hs = [], [], []
        s = self.world.new(sends=sends, recvs=recvs, hs=hs, tls=self.tls, ca=self.ha, ha=("127.0.0.1", 50000 + len(self.world.socks)))
        s.unconnected = self.ha is not None    # a client socket has no peer until connect succeeds
        return s


@contextlib.contextmanager
def patched(module, **names):
    old = {k: getattr(module, k) for k in names}
    try:
        for k, v in names.items():
            setattr(module, k, v)
        yield
    finally:
        for k, v in old.items():
            setattr(module, k, v)


_CTX = None


def shared_context():
    global _CTX
    if _CTX is None:
        c = ssl.SSLContext(ssl.PROTOCOL_TLS_SERVER)
        c.verify_mode = ssl.CERT_NONE
        _CTX = c
    return _CTX


_CCTX = None


def shared_client_context():
    global _CCTX
    if _CCTX is None:
        c = ssl.SSLContext(ssl.PROTOCOL_TLS_CLIENT)
        c.check_hostname = False
        c.verify_mode = ssl.CERT_NONE
        _CCTX = c
    return _CCTX


def classes():
    """the real modules and classes; the TLS ones get `wrap()` neutralised (harness process only, see nowrap())
    so that they keep the scripted fake socket.  (Subclassing is not possible for RemoterTls: the server looks the
    class up by its module-global name and the classes use super(Name, self), so a renamed global recurses.)"""
    from hio.core.tcp import clienting, serving
    return clienting, serving, clienting.ClientTls, serving.RemoterTls


@contextlib.contextmanager
def nowrap():
    from hio.core.tcp import clienting, serving
    with patched(clienting.ClientTls, wrap=lambda self: None), patched(serving.RemoterTls, wrap=lambda self: None):
        yield


WL_MODES = ("raw", "std", "samed", "file", "ctx")
_WL_ENTRY = None


class _WL:
    """a WireLog in one of its configurations.  raw: separate in-memory logs holding only the data bytes;
    std: separate logs, default format; samed: one shared in-memory log; file: temporary files on disk;
    ctx: obtained through the wiring.openWL context manager (temporary files, one shared log)"""

    def __init__(self, mode):
        from hio.core import wiring
        self.mode = mode
        self._cm = None
        if mode == "raw":
            self.wl = wiring.WireLog(samed=False, filed=False, fmt=b'%(data)b')
            self.wl.reopen()
        elif mode == "std":
            self.wl = wiring.WireLog(samed=False, filed=False)
            self.wl.reopen()
        elif mode == "samed":
            self.wl = wiring.WireLog(samed=True, filed=False)
            self.wl.reopen()
        elif mode == "file":
            self.wl = wiring.WireLog(samed=False, filed=True, temp=True, name="verif")
            self.wl.reopen()
        elif mode == "ctx":
            self._cm = wiring.openWL(name="verif", temp=True, samed=True, filed=True)
            self.wl = self._cm.__enter__()
        elif isinstance(mode, tuple) and mode[0] == "cfg":
            # the whole flag space: ("cfg", raw format?, samed, filed, rxed, txed)
            _, raw, samed, filed, rxed, txed = mode
            kw = dict(samed=bool(samed), filed=bool(filed), rxed=bool(rxed), txed=bool(txed))
            if raw:
                kw["fmt"] = b'%(data)b'
            if filed:
                kw.update(temp=True, name="verif", prefix="hioverif")
            self.wl = wiring.WireLog(**kw)
            self.wl.reopen()
            self.samed, self.raw, self.filed = bool(samed), bool(raw), bool(filed)
        else:
            raise core.Infra(f"bad wire log mode {mode!r}")
        if not isinstance(mode, tuple):
            self.samed, self.raw, self.filed = mode in ("samed", "ctx"), mode == "raw", mode in ("file", "ctx")

    def read(self, who=None):
        """(tx bytes, rx bytes) recorded, in order; for the formatted modes the log must parse completely into entries
        `\\n<Rx|Tx> <who>:\\n<data>\\n` (data restricted to [a-z] by the generators) and `who` must be the expected address"""
        import re
        tx, rx = bytes(self.wl.readTx() or b""), bytes(self.wl.readRx() or b"")
        if self.raw:
            if self.samed:    # one log without direction marks: the interleaving of both directions, compared as a whole
                return (tx or rx), b"?samed-raw"
            return tx, rx
        logs = [tx or rx] if self.samed else [tx, rx]
        outs = {b"Tx": b"", b"Rx": b""}
        for i, log in enumerate(logs):
            pos = 0
            for m in re.finditer(rb"\n(Rx|Tx) ([^\n]*):\n([a-z]*)\n", log):
                if m.start() != pos:
                    return b"?unparsable", b"?unparsable"
                pos = m.end()
                if who is not None and m.group(2) != str(who).encode():
                    return b"?who", b"?who"
                if not self.samed and m.group(1) != (b"Tx", b"Rx")[i]:
                    return b"?wrong-log", b"?wrong-log"
                outs[m.group(1)] += m.group(3)
            if pos != len(log):
                return b"?unparsable", b"?unparsable"
        return outs[b"Tx"], outs[b"Rx"]

    def close(self):
        try:
            if self._cm is not None:
                self._cm.__exit__(None, None, None)
            else:
                self.wl.close(clear=True) if self.filed else self.wl.close()
        except Exception:
            pass


def make_wl():
    return _WL("raw").wl


def wl_read(wl):
    return bytes(wl.readTx() or b""), bytes(wl.readRx() or b"")


# --------------------------------------------------------------------------
# one connection object of each of the four kinds, sitting on a scripted fake socket

def make_conn(kind, sends, recvs, hs=(), wl=None, tymth=None, world=None, bs=None, extra=None):
    """returns (obj, fakesock).  Clients go through the real open()/accept() path via the patched socket name."""
    with nowrap():
        return _make_conn(kind, sends, recvs, hs, wl, tymth, world, bs, extra)


def _make_conn(kind, sends, recvs, hs, wl, tymth, world, bs=None, extra=None):
    kw = {} if bs is None else {"bs": bs}
    if extra and (kind.startswith("client") != ("refreshable" in extra)):
        kw.update(extra)      # rxbs / txbs: only the client classes take them; refreshable: only the remoter classes
    clienting, serving, TClientTls, TRemoterTls = classes()
    world = world or World()
    tls = is_tls(kind)
    if kind in ("remoter", "remotertls"):
        s = world.new(sends=sends, recvs=recvs, hs=hs, tls=tls, ca=("127.0.0.1", 40001), ha=("127.0.0.1", 56000))
        if kind == "remoter":
            obj = serving.Remoter(ha=s.ha, ca=s.ca, cs=s, wl=wl, tymth=tymth, **kw)
        else:
            obj = TRemoterTls(ha=s.ha, ca=s.ca, cs=s, wl=wl, tymth=tymth, context=shared_context(), **kw)
            obj.handshake()   # scripted: first hs entry
        return obj, s
    mod = _SockMod(world, tls=tls, ha=("127.0.0.1", 56000), client_scripts=[(list(sends), list(recvs), list(hs))])
    with patched(clienting, socket=mod):
        if kind == "client":
            obj = clienting.Client(ha=("127.0.0.1", 56000), wl=wl, tymth=tymth, **kw)
        else:
            obj = TClientTls(ha=("127.0.0.1", 56000), wl=wl, tymth=tymth, context=shared_client_context(), certedhost="localhost", **kw)
        obj.reopen()
        obj.serviceConnect()
    return obj, world.socks[-1]


# --------------------------------------------------------------------------
# finite-domain probing of the ten sites (translator and C10 use this)

SITES = ["client_send", "client_recv", "clienttls_send", "clienttls_recv", "remoter_send", "remoter_recv",
         "remotertls_send", "remotertls_recv", "clienttls_hs", "remotertls_hs"]
OUT_WB, OUT_CUT, OUT_ABORT, OUT_RAISE_OS, OUT_RAISE_OTHER, OUT_UNEXPECTED = 0, 1, 2, 3, 4, 5
OUT_NAMES = {0: "wouldblock", 1: "cutoff", 2: "aborted", 3: "raisedOS", 4: "raisedOther", 5: "unexpected"}


def probe(site, code):
    """call the real method once on a fresh connection whose socket raises fault `code`; classify what happened"""
    with nowrap():
        return _probe(site, code)


def _probe(site, code):
    kind, what = site.split("_")
    clienting, serving, TClientTls, TRemoterTls = classes()
    if what == "hs":
        world = World()
        if kind == "remotertls":
            s = world.new(hs=[("f", code)], tls=True, ca=("127.0.0.1", 40001), ha=("127.0.0.1", 56000))
            obj = TRemoterTls(ha=s.ha, ca=s.ca, cs=s, context=shared_context())
            try:
                obj.handshake()
            except BaseException as ex:
                return OUT_RAISE_OS if isinstance(ex, OSError) else OUT_RAISE_OTHER
            if obj.aborted and not obj.connected and s.closed:
                return OUT_ABORT
            if not obj.aborted and not obj.connected and not s.closed:
                return OUT_WB
            return OUT_UNEXPECTED   # the method neither raised nor reported one of the documented results
        mod = _SockMod(world, tls=True, ha=("127.0.0.1", 56000), client_scripts=[([], [], [("f", code)])])
        with patched(clienting, socket=mod):
            obj = TClientTls(ha=("127.0.0.1", 56000), context=shared_client_context(), certedhost="localhost")
            obj.reopen()
            try:
                obj.serviceConnect()
            except BaseException as ex:
                return OUT_RAISE_OS if isinstance(ex, OSError) else OUT_RAISE_OTHER
        s = world.socks[0]
        if not obj.connected and s.closed and obj.cs is None:
            return OUT_ABORT
        if not obj.connected and not s.closed:
            return OUT_WB
        return OUT_UNEXPECTED   # the method neither raised nor reported one of the documented results
    hs = [("ok",)] if is_tls(kind) else []
    if what == "send":
        obj, s = make_conn(kind, [("f", code)], [], hs)
        try:
            r = obj.send(b"abc")
        except BaseException as ex:
            return OUT_RAISE_OS if isinstance(ex, OSError) else OUT_RAISE_OTHER
        if r == 0 and obj.cutoff:
            return OUT_CUT
        if r == 0 and not obj.cutoff:
            return OUT_WB
        return OUT_UNEXPECTED   # the method neither raised nor reported one of the documented results
    obj, s = make_conn(kind, [], [("f", code)], hs)
    try:
        r = obj.receive()
    except BaseException as ex:
        return OUT_RAISE_OS if isinstance(ex, OSError) else OUT_RAISE_OTHER
    if r == b"" and obj.cutoff:
        return OUT_CUT
    if r is None and not obj.cutoff:
        return OUT_WB
    return OUT_UNEXPECTED   # the method neither raised nor reported one of the documented results


def probe_wl_peer(kind, what):
    """does the wire-log path of send/receive of this class ask the socket for the peer address (and so fail on a
    connection the peer has reset)?  One real call on a reset fake socket with a WireLog attached."""
    wl = make_wl()
    try:
        hs = [("ok",)] if is_tls(kind) else []
        obj, s = make_conn(kind, [("acc", 3)], [("d", b"xyz")], hs, wl=wl)
        s.reset = True
        try:
            if what == "send":
                obj.send(b"abc")
            else:
                obj.receive()
        except OSError:
            return True
        return False
    finally:
        wl.close()


def probe_reopen_clears():
    """after Server.close() and reopen(), are the (closed) remoters of the previous opening still in .ixes?"""
    obs = run_server((False, [("conn", 1, [], [], []), ("svc",), ("close",), ("reopen",)]))
    last = obs[1][-1][1]
    return not any(e[0] == "ix" for e in last)


CONNECT_NAMES = {0: "connected", 1: "retry", 2: "reopen", 3: "raisedOS", 4: "raisedOther", 5: "unexpected"}


def probe_connect(code):
    """Client.accept() when connect_ex returns `code`: 0 connected | 1 try again later | 2 reopened, try again | 3/4 raised"""
    clienting, serving, _, _ = classes()
    world = World()
    mod = _SockMod(world, tls=False, ha=("127.0.0.1", PORT))
    with patched(clienting, socket=mod):
        obj = clienting.Client(ha=("127.0.0.1", PORT))
        obj.reopen()
        s0 = obj.cs

        def connect_ex(ha):
            if code in (0, errno.EISCONN):
                s0.unconnected = False
            return code
        s0.connect_ex = connect_ex
        try:
            r = obj.accept()
        except BaseException as ex:
            return 3 if isinstance(ex, OSError) else 4
        if r is True and obj.accepted and obj.cs is s0:
            return 0
        if r is False and not obj.accepted and obj.cs is s0 and not s0.closed:
            return 1
        if r is False and not obj.accepted and s0.closed and obj.cs is not None and obj.cs is not s0:
            return 2
        return 5


_TABLES = None


def tables(refresh=False):
    global _TABLES
    if _TABLES is None or refresh:
        _TABLES = {site: {c: probe(site, c) for c in ALL_CODES} for site in SITES}
    return _TABLES


# --------------------------------------------------------------------------
# C09: one connection, op list, scripted kernel

def _status(fn):
    try:
        fn()
    except BaseException as ex:   # noqa: the escaped class IS the observation
        return exc_tag(ex)
    return "ok"


def chop(recvs, bs):
    """the receive script as the kernel hands it out when every read is limited to bs bytes"""
    out = []
    for r in recvs:
        if r[0] == "d" and len(r[1]) > bs:
            out += [("d", r[1][i:i + bs]) for i in range(0, len(r[1]), bs)]
        else:
            out.append(tuple(r))
    return out


def run_conn(case, with_hards=False):
    """case = (kind, wl, ops, sends, recvs[, bs]); wl: False | True (= "raw") | one of WL_MODES;
    ops: ("tx", bytes) | ("ss",) serviceSends | ("sr",) serviceReceives | ("sro",) serviceReceiveOnce | ("clr",) clearRxbs
         | ("svc",) | ("rst",) peer resets | ("recv1",) the application calls receive() itself | ("send1", bytes) ... send(data)
    observation = (steps, final): steps[i] = (status, |kacc|, |txbs|, |rxbs|, cutoff, returned value of a direct call or None),
    final = (txbs, rxbs, kacc, kdel, wireTx|None, wireRx|None, cutoff)"""
    kind, use_wl, ops, sends, recvs = case[:5]
    bs = case[5] if len(case) > 5 else None   # the object's .bs buffer size (None = the class default, 8096)
    own = case[6] if len(case) > 6 else None  # None | b"" | bytes: the CALLER supplies rxbs (empty) and txbs (holding these bytes);
    #                                           the history then writes to / reads from the caller's objects, not obj.txbs / obj.rxbs
    own_tx = own_rx = None
    extra = None
    if own == "norefresh":          # remoter classes: constructed with refreshable=False
        extra, own = dict(refreshable=False), None
    elif own is not None and kind.startswith("client"):
        own_tx, own_rx = bytearray(own), bytearray()
        extra = dict(txbs=own_tx, rxbs=own_rx)
    mode = "raw" if use_wl is True else (tuple(use_wl) if isinstance(use_wl, (list, tuple)) else use_wl)
    W = _WL(mode) if mode else None
    wl = W.wl if W else None
    try:
        obj, s = make_conn(kind, sends, recvs, [("ok",)] if is_tls(kind) else [], wl=wl, bs=bs, extra=extra)
        txb = own_tx if own_tx is not None else obj.txbs      # where the application puts / looks
        rxb = own_rx if own_rx is not None else obj.rxbs
        steps = []
        hards_at = []
        if own:     # the bytes the caller's txbs held at construction count as handed over first
            steps.append(("ok", 0, len(txb), 0, bool(obj.cutoff), None))
            hards_at.append(())
        for op in ops:
            ret = [None]
            if own_tx is not None:
                txb, rxb = own_tx, own_rx
            else:
                txb, rxb = obj.txbs, obj.rxbs
            if op[0] == "tx":
                st = _status((lambda: own_tx.extend(op[1])) if own_tx is not None else (lambda: obj.tx(op[1])))
            elif op[0] == "ss":
                st = _status(obj.serviceSends)
            elif op[0] == "sr":
                st = _status(obj.serviceReceives)
            elif op[0] == "sro":
                st = _status(obj.serviceReceiveOnce)
            elif op[0] == "clr":
                st = _status(obj.clearRxbs)
            elif op[0] == "recv1":
                def f():
                    r = obj.receive()
                    ret[0] = None if r is None else bytes(r)
                st = _status(f)
            elif op[0] == "send1":
                def f():
                    ret[0] = int(obj.send(op[1]))
                st = _status(f)
            elif op[0] == "rst":   # the peer resets: whatever is still scripted gets delivered, address calls fail from now on
                s.reset = True
                st = "ok"
            elif op[0] == "svc":
                if kind.startswith("client"):
                    st = _status(obj.service)
                else:
                    def both():
                        obj.serviceReceives()
                        obj.serviceSends()
                    st = _status(both)
            else:
                raise core.Infra(f"bad op {op!r}")
            steps.append((st, len(s.kacc), len(txb), len(rxb), bool(obj.cutoff), ret[0]))
            hards_at.append(tuple(s.hards))
        if W:
            who = obj.ha if kind.startswith("client") else obj.ca
            wt, wr = W.read(who)
        else:
            wt, wr = None, None
        final = (bytes(txb), bytes(rxb), bytes(s.kacc), bytes(s.kdel), wt, wr, bool(obj.cutoff))
        if with_hards:
            return (tuple(steps), final, tuple(hards_at))
        return (tuple(steps), final)
    finally:
        if W:
            W.close()


# --------------------------------------------------------------------------
# C10 / C11: a server over a fake listen socket, several scripted connections

def _ca(i):
    return ("127.0.0.1", 40000 + i)


PORT = 56000


def run_server(case):
    """case = (tls, ops); ops:
       ("conn", ca, sends, recvs, hs)  a peer connects (queued on the listen socket)
       ("dconn", ca)  a peer connects and resets before being accepted (getpeername() on its socket raises ENOTCONN)
       ("afault", errno)  the listen socket's accept() raises this (non-EAGAIN) OSError at that position of its queue
       ("svc",) | ("tx", ca, bytes) | ("rm", ca) | ("close",) | ("reopen",)
       ("reopenf", "bind"|"listen", errno)  reopen() whose new listen socket cannot bind / listen (OSError)
    observation = tuple of (status, socks) per op, socks = per socket in creation order:
       ("listen", closed) | (where, cutoff, connected, aborted, rxbs, |txbs|, kacc, closed), where in ix|cx|gone"""
    tls, ops = case[:2]
    via = case[2] if len(case) > 2 else "direct"   # direct | doer (serving.ServerDoer enter/recur/exit) | ctx (serving.openServer)
    wlcfg = case[3] if len(case) > 3 else None     # None | True/False: a WireLog attached to the server, open / still closed at the start
    swl = None
    if wlcfg is not None:
        from hio.core import wiring
        wflags = case[4] if len(case) > 4 else (True, True)       # (txed, rxed)
        swl = wiring.WireLog(samed=False, filed=False, txed=bool(wflags[0]), rxed=bool(wflags[1]))    # closed until reopen()
        if wlcfg:
            swl.reopen()
    clienting, serving, TClientTls, TRemoterTls = classes()
    world = World(strict_peer=True)
    rms = {}

    mod = _SockMod(world, tls=tls, ha=None)
    listeners = []
    real_socket = mod.socket

    fail_next = []     # (where, errno) for the next listen socket to be created

    def mk(*a, **kw):
        s = real_socket(*a, **kw)
        s.ca = None
        if fail_next:
            where, code = fail_next.pop()
            setattr(s, "fail_" + where, code)
        listeners.append(s)
        return s
    mod.socket = mk
    out = []
    orig_init = serving.Remoter.__init__

    def init(self, *a, **kw):
        orig_init(self, *a, **kw)
        if self.cs is not None:
            rms[self.cs.sid] = self
    with patched(serving, socket=mod), nowrap(), patched(serving.Remoter, __init__=init):
        kw = dict(host="127.0.0.1", port=PORT)
        if tls:
            kw["context"] = shared_context()
        if swl is not None:
            kw["wl"] = swl
        cls = serving.ServerTls if tls else serving.Server
        cm = doer = None
        if via == "ctx":
            cm = serving.openServer(cls=cls, **kw)
            server = cm.__enter__()
            st0 = "ok" if server.opened else "openfail"
            ops = list(ops) + [("close",)]     # leaving the with block
        else:
            server = cls(**kw)
            if via in ("doer", "echo"):    # echo: EchoServerDoer, whose recur() also queues what was received back to the peer
                doer = (serving.EchoServerDoer if via == "echo" else serving.ServerDoer)(server=server)
                st0 = _status(doer.enter)
            else:
                st0 = "ok" if server.reopen() else "openfail"
        nops = len(ops)
        for iop, op in enumerate(ops):
            k = op[0]
            if k == "conn":
                _, ca, sends, recvs, hs = op
                if listeners and not listeners[-1].closed:
                    listeners[-1].accepts.append((_ca(ca), list(sends), list(recvs), list(hs)))
                st = "ok"
            elif k == "afault":   # when the listen socket's queue gets this far, accept() raises this OSError
                if listeners and not listeners[-1].closed:
                    listeners[-1].accepts.append(("fault", op[1]))
                st = "ok"
            elif k == "dconn":   # a peer connects and resets before the server accepts
                if listeners and not listeners[-1].closed:
                    listeners[-1].accepts.append((_ca(op[1]), [], [], [], True))
                st = "ok"
            elif k == "svc":
                st = _status((lambda: doer.recur(0.0)) if doer else server.service)
            elif k == "tx":       # an address the server does not know is a ValueError, nothing else changes
                st = _status(lambda: server.transmitIx(op[2], _ca(op[1])))
            elif k == "rm":
                st = _status(lambda: server.removeIx(_ca(op[1])))
            elif k == "rxix":
                st = _status(lambda: server.serviceReceivesIx(_ca(op[1])))
            elif k == "closeix":
                st = _status(lambda: server.closeIx(_ca(op[1])))
            elif k == "closeall":
                st = _status(server.closeAllIx)
            elif k == "wlopen":
                st = _status(swl.reopen)
            elif k == "norefresh":   # the application switches activity-refresh off on a remoter the server made
                if _ca(op[1]) in server.ixes:
                    server.ixes[_ca(op[1])].refreshable = False
                st = "ok"
            elif k == "close":
                if cm is not None and iop == nops - 1:
                    st = _status(lambda: cm.__exit__(None, None, None))
                else:
                    st = _status(doer.exit if doer else server.close)
            elif k == "reopen":
                st = _status(doer.enter if doer else server.reopen)
            elif k == "reopenf":   # reopen while the address cannot be had: bind()/listen() of the new listen socket raises
                fail_next.append((op[1], op[2]))
                st = _status(doer.enter if doer else server.reopen)
                del fail_next[:]
            else:
                raise core.Infra(f"bad op {op!r}")
            wlog = _parse_shared_log(swl) if swl is not None else None
            snap = []
            for s in world.socks:
                if s in listeners:
                    snap.append(("listen", s.closed))
                    continue
                rm = rms.get(s.sid)
                if rm is None:   # created and replaced within one service pass: never seen in a table
                    snap.append(("gone", False, False, False, b"", 0, bytes(s.kacc), s.closed) + ((b"", b"") if wlog is not None else ()) + (tuple(s.hards),))
                    continue
                where = "gone"
                if any(v is rm for v in server.ixes.values()):
                    where = "ix"
                elif tls and any(v is rm for v in server.cxes.values()):
                    where = "cx"
                e = (where, bool(rm.cutoff), bool(getattr(rm, "connected", True)), bool(getattr(rm, "aborted", False)),
                     bytes(rm.rxbs), len(rm.txbs), bytes(s.kacc), s.closed)
                if wlog is not None:
                    e += wlog.get(str(s.ca).encode(), (b"", b"")) if isinstance(wlog, dict) else (b"?unparsable", b"?unparsable")
                snap.append(e + (tuple(s.hards),))
            out.append((st, tuple(snap)))
    return (st0, tuple(out))


def _parse_shared_log(wl):
    """{who: (tx bytes, rx bytes)} from a WireLog in the default format shared by several connections, or None if it does
    not parse completely into `\\n<Rx|Tx> <who>:\\n<data [a-z]*>\\n` entries"""
    import re
    out = {}
    for i, log in enumerate((bytes(wl.readTx() or b""), bytes(wl.readRx() or b""))):
        pos = 0
        for m in re.finditer(rb"\n(Rx|Tx) ([^\n]*):\n([a-z]*)\n", log):
            if m.start() != pos or m.group(1) != (b"Tx", b"Rx")[i]:
                return None
            pos = m.end()
            t, r = out.get(m.group(2), (b"", b""))
            out[m.group(2)] = (t + m.group(3), r) if i == 0 else (t, r + m.group(3))
        if pos != len(log):
            return None
    return out


def run_wl_closed(case):
    """C09. case = ("wlclosed", kind): a WireLog is attached, opened, used, then closed while the connection lives on; traffic
    after that must still flow (nothing is recorded).  observation = (raised, bytes received == bytes delivered, bytes sent ok)"""
    _, kind = case
    W = _WL("std")
    try:
        obj, s = make_conn(kind, [("acc", 2), ("acc", 9)], [("d", b"ab"), ("f", wouldblock_codes(kind)[0]), ("d", b"cd")],
                           [("ok",)] if is_tls(kind) else [], wl=W.wl)
        obj.tx(b"xyz")
        st1 = _status(obj.serviceSends) + _status(obj.serviceReceives)
        W.wl.close()
        st2 = _status(obj.serviceSends) + _status(obj.serviceReceives)
        return (st1 + st2 != "okokokok", bytes(obj.rxbs) == bytes(s.kdel) == b"abcd", bytes(s.kacc) == b"xyz")
    finally:
        W.close()


def run_client(case):
    """C11 client part. case = (tls, ops) or (tls, reconnectable, tymeout, ops) (tymeout and ticks in UNITs of virtual tyme);
    ops: ("reopen",) | ("close",) | ("tick", d) | ("connect", rc, hsresp|None): next connect_ex returns rc (a handshake
    response may be queued on the current socket), then serviceConnect() | ("service", rc, hsresp|None): the same but a full
    service() pass (connect, sends, receives) | ("feed", sends, recvs): kernel responses queued on the current socket | ("tx", bytes)
    observation per op: (status, open socket ids, id of client.cs or None, connected, cutoff, |rxbs|, |txbs|,
    all bytes the client's sockets have accepted so far (in socket creation order), txbs)"""
    via = "direct"
    if len(case) == 5:
        via, case = case[4], case[:4]
    if len(case) == 2:
        case = (case[0], False, 0, case[1])
    tls, recon, tmo, ops = case
    return _run_client(tls, recon, tmo, ops, via)


def _run_client(tls, recon, tmo, ops, via="direct"):
    """via: direct | doer (clienting.ClientDoer enter/recur/exit) | ctx (clienting.openClient: reopen on entry, close on exit)"""
    from hio.base import tyming
    tymist = tyming.Tymist(tyme=0.0, tock=UNIT)
    clienting, serving, TClientTls, TRemoterTls = classes()
    world = World()
    mod = _SockMod(world, tls=tls, ha=("127.0.0.1", PORT))
    out = []
    nxt = {"rc": 0, "hs": None}
    real_socket = mod.socket

    def mk(*a, **kw):
        s = real_socket(*a, **kw)

        def connect_ex(ha, s=s):
            s._chk()
            if nxt["rc"] in (0, errno.EISCONN):
                s.unconnected = False
            return nxt["rc"]
        s.connect_ex = connect_ex
        return s
    mod.socket = mk
    with patched(clienting, socket=mod), nowrap():
        own_tx, own_rx = bytearray(), bytearray()     # caller-owned (and empty) buffers: the client must use THESE objects
        kw = dict(ha=("127.0.0.1", PORT), tymth=tymist.tymen(), reconnectable=bool(recon), tymeout=tmo * UNIT, txbs=own_tx, rxbs=own_rx)
        if tls:
            kw.update(context=shared_client_context(), certedhost="localhost")
        cls = TClientTls if tls else clienting.Client
        cm = doer = None
        if via == "ctx":
            cm = clienting.openClient(cls=cls, **kw)
            obj = cm.__enter__()
            ops = [("reopen*",)] + list(ops) + [("close",)]
        else:
            obj = cls(**kw)
            if via == "doer":
                doer = clienting.ClientDoer(client=obj)
        nops = len(ops)
        for iop, op in enumerate(ops):
            k = op[0]
            if k == "reopen*":     # already done by the context manager
                st = "ok"
            elif k == "tick":
                tymist.tick(tock=op[1] * UNIT)
                st = "ok"
            elif k == "wind":     # re-wound onto a tymist whose tyme is op[1]
                tymist = tyming.Tymist(tyme=op[1] * UNIT, tock=UNIT)
                st = _status(lambda: obj.wind(tymist.tymen()))
            elif k == "reopen":
                st = _status(doer.enter if doer else obj.reopen)
            elif k == "close":
                if cm is not None and iop == nops - 1:
                    st = _status(lambda: cm.__exit__(None, None, None))
                else:
                    st = _status(doer.exit if doer else obj.close)
            elif k in ("connect", "service"):
                nxt["rc"] = op[1]
                if obj.cs is not None and len(op) > 2 and op[2] is not None:
                    obj.cs.hs.append(tuple(op[2]))
                st = _status(obj.serviceConnect if k == "connect" else ((lambda: doer.recur(0.0)) if doer else obj.service))
            elif k == "feed":   # what the kernel will answer on the current socket
                if obj.cs is not None:
                    obj.cs.sends += [tuple(x) for x in op[1]]
                    obj.cs.recvs += [tuple(x) for x in op[2]]
                st = "ok"
            elif k == "tx":    # alternately through the method and straight into the caller's own buffer
                st = _status((lambda: obj.tx(op[1])) if iop % 2 == 0 else (lambda: own_tx.extend(op[1])))
            else:
                raise core.Infra(f"bad op {op!r}")
            cur = obj.cs.sid if obj.cs is not None else None
            out.append((st, tuple(world.open_ids()), cur, bool(obj.connected), bool(obj.cutoff), len(own_rx), len(own_tx),
                        b"".join(bytes(x.kacc) for x in world.socks), bytes(own_tx)))
    return tuple(out)


# --------------------------------------------------------------------------
# C12: http Server over a tcp Server on fake sockets (quick) or real loopback sockets (thorough), virtual Tymist

REQ_HEAD = b"GET /x HTTP/1.1\r\nHost: h\r\nX-Pad: "
REQ_FULL11 = b"GET /x HTTP/1.1\r\nHost: h\r\nContent-Length: 0\r\n\r\n"
UNIT = 0.125   # one model tick = 1/8 s of virtual tyme (exact in binary floating point)


def _app(environ, start_response):
    start_response("200 OK", [("Content-Type", "text/plain"), ("Content-Length", "2")])
    return [b"ok"]


REQ_FULL10 = b"GET /x HTTP/1.0\r\nHost: h\r\n\r\n"
BIGCAP = 1 << 30
_RESP_LEN = None


def resp_len():
    """length of the response the test application produces for one request (measured once on the real code;
    the Date header has a fixed width)"""
    global _RESP_LEN
    if _RESP_LEN is None:
        obs = run_idle((False, 0, [("conn", 1), ("svc",), ("req", 1), ("svc",), ("svc",)]))
        _RESP_LEN = obs[-1][1][0][2]
    return _RESP_LEN


HTTP_DEFAULT_TMO = 40     # http.Server.Tymeout = 5.0 s, the documented default, in UNITs
TCP_DEFAULT_TMO = 8       # tcp.Server.Tymeout = 1.0 s
ROUTES = ("arg", "none", "subclass", "classattr", "servant", "servant-default")


def effective_tymeout(tmo, route):
    """the tymeout (UNITs) the connections of the server must get, by the documented precedence: an explicit number; else
    the class attribute Tymeout of the (sub)class; a servant passed in brings its own (its argument, else tcp's class default)"""
    return {"arg": tmo, "none": HTTP_DEFAULT_TMO, "subclass": tmo, "classattr": tmo, "servant": tmo, "servant-default": TCP_DEFAULT_TMO}[route]


def connection_persistent(ver10, inhead, connval):
    """RFC 7230 token-list semantics of the Connection header (comma separated, optional whitespace, case-insensitive)"""
    tokens = [t.strip().lower() for t in bytes(connval).decode("latin-1").split(",")]
    if ver10 and not inhead:     # a head already started was started as HTTP/1.1
        return "keep-alive" in tokens
    return "close" not in tokens


def resolve_reqh(ops):
    """the op list with every ("reqh", ca, ver10, connval) replaced by ("reqh", ca, persistent if sent as a whole,
    persistent if it completes a head already started as HTTP/1.1) — the classes the RFC gives it"""
    out = []
    for op in ops:
        if op[0] == "reqh":
            out.append(("reqh", op[1], connection_persistent(op[2], False, op[3]), connection_persistent(op[2], True, op[3])))
        else:
            out.append(tuple(op))
    return out


def run_idle(case, UNIT=UNIT):
    """case = (tls, tymeout, ops) with tymeout and tick amounts in UNITs (UNIT = 1/8 s, or a non-dyadic 0.1 s); ops:
       ("settmo", t) the tcp server's .tymeout attribute is changed: connections accepted from now on get it
       ("conn", ca) | ("tick", d) | ("data", ca, n) n pad bytes of a never-finished request arrive
       ("req", ca) a complete persistent HTTP/1.1 request arrives | ("req10", ca) a complete non-persistent HTTP/1.0 request
       ("reqh", ca, ver10, connval) a complete request of that version with the header `Connection: <connval>`
       ("cap", ca, k) from now on the connection's socket takes k bytes per send (0 = would block)
       ("wind", t) the server is re-wound onto a tymist whose tyme is t | ("svc",)
    observation per op: (status, per connection in creation order: (state, |txbs|, bytes the socket has accepted so far)),
    state = pending | open (still in servant.ixes and socket not closed) | closed"""
    tls, tymeout, ops = case[:3]
    route = (case[3] if len(case) > 3 else None) or ("servant" if tls else "arg")
    wlmode = case[4] if len(case) > 4 else None      # an optional collaborator: a WireLog (any configuration) attached to the server
    W = _WL(tuple(wlmode) if isinstance(wlmode, (list, tuple)) else wlmode) if wlmode else None
    try:
        return _run_idle(tls, tymeout, ops, route, W, UNIT)
    finally:
        if W:
            W.close()


def _run_idle(tls, tymeout, ops, route, W, UNIT):
    from hio.base import tyming
    from hio.core.http import serving as hserving
    clienting, serving, _, _ = classes()
    world = World()
    world.default_acc = BIGCAP
    mod = _SockMod(world, tls=tls, ha=None)
    out = []
    order = []

    def sock_of(ca):
        for x in world.socks[1:]:
            if x.ca == _ca(ca):
                return x
        return None
    with patched(serving, socket=mod), nowrap():
        tymist = tyming.Tymist(tyme=0.0, tock=UNIT)
        scls = serving.ServerTls if tls else serving.Server
        skw = dict(host="127.0.0.1", port=PORT)
        if tls:
            skw["context"] = shared_context()
        hkw = {}
        if W is not None:
            skw["wl"] = W.wl     # when a servant is passed in
            hkw["wl"] = W.wl     # when the http server makes its own
        if route == "servant":
            server = hserving.Server(servant=scls(tymeout=tymeout * UNIT, **skw), app=_app, port=PORT, tymeout=999.0)
        elif route == "servant-default":
            server = hserving.Server(servant=scls(**skw), app=_app, port=PORT)
        elif route == "arg":
            server = hserving.Server(host="127.0.0.1", port=PORT, app=_app, tymeout=tymeout * UNIT, **hkw)
        elif route == "none":
            server = hserving.Server(host="127.0.0.1", port=PORT, app=_app, tymeout=None, **hkw)
        elif route == "subclass":
            class SubServer(hserving.Server):
                Tymeout = tymeout * UNIT
            server = SubServer(host="127.0.0.1", port=PORT, app=_app, **hkw)
        elif route == "classattr":
            with patched(hserving.Server, Tymeout=tymeout * UNIT):
                server = hserving.Server(host="127.0.0.1", port=PORT, app=_app, tymeout=None, **hkw)
        else:
            raise core.Infra(f"bad route {route!r}")
        servant = server.servant
        server.wind(tymist.tymen())
        if not server.reopen():
            raise core.Infra("fake listen socket failed to open")
        lst = world.socks[0]
        for op in ops:
            k = op[0]
            st = "ok"
            if k == "conn":
                lst.accepts.append((_ca(op[1]), [], [], [("ok",)]))
                order.append(op[1])
            elif k == "tick":
                tymist.tick(tock=op[1] * UNIT)
            elif k == "wind":
                tymist = tyming.Tymist(tyme=op[1] * UNIT, tock=UNIT)
                st = _status(lambda: server.wind(tymist.tymen()))
            elif k == "settmo":
                servant.tymeout = op[1] * UNIT
            elif k == "cap":
                s = sock_of(op[1])
                if s is not None and not s.closed:
                    s.default_acc = op[2]
            elif k in ("data", "req", "req10", "reqh"):
                s = sock_of(op[1])
                if s is not None and not s.closed:
                    inhead = getattr(s, "inhead", False)
                    if k == "data":
                        s.recvs.append(("d", (b"" if inhead else REQ_HEAD) + b"a" * op[2]))
                        s.inhead = True
                    elif k == "reqh":   # a complete request carrying a Connection header (a list of options)
                        conn = b"Connection: " + bytes(op[3]) + b"\r\nContent-Length: 0\r\n\r\n"
                        s.recvs.append(("d", (b"\r\n" + conn) if inhead else (b"GET /x HTTP/1.%d\r\nHost: h\r\n" % (0 if op[2] else 1)) + conn))
                        s.inhead = False
                    else:   # complete the request that is under way, or send a whole one
                        s.recvs.append(("d", b"\r\nContent-Length: 0\r\n\r\n" if inhead else (REQ_FULL11 if k == "req" else REQ_FULL10)))
                        s.inhead = False
            elif k == "svc":
                st = _status(server.service)
            else:
                raise core.Infra(f"bad op {op!r}")
            snap = []
            for ca in order:
                s = sock_of(ca)
                if s is None:
                    snap.append(("pending", 0, 0))
                elif (_ca(ca) in servant.ixes or (tls and _ca(ca) in servant.cxes)) and not s.closed:
                    rm = servant.ixes.get(_ca(ca))
                    snap.append(("open", len(rm.txbs) if rm is not None else 0, len(s.kacc)))
                else:
                    snap.append(("closed", 0, len(s.kacc)))
            out.append((st, tuple(snap)))
        server.close()
    return tuple(out)


def strip_idle(obs):
    return tuple((st, tuple(e[:2] for e in snap)) for st, snap in obs)


# --------------------------------------------------------------------------
# generators shared by C09 / C10 / C11

def gen_bytes(rng, n):
    return bytes(rng.randrange(256) for _ in range(n)) if n < 64 else rng.randbytes(n)


def gen_fault_code(rng, kind, flavour=None):
    """a fault code; flavour: None = any mix"""
    f = flavour or rng.choice(["wb", "wb", "conn", "conn", "conn", "epipe", "otherfamily", "any", "ssl"])
    if f == "wb":
        return rng.choice(wouldblock_codes(kind))
    if f == "conn":
        return rng.choice(conn_fault_codes(kind))
    if f == "epipe":
        return EPIPE
    if f == "otherfamily":   # the would-block code of the other family: EAGAIN on TLS, want-read on plain
        return rng.choice([EAGAIN] if is_tls(kind) else [WANT_READ, WANT_WRITE, 2, 3])
    if f == "raise":   # errnos none of the tuples list: the method re-raises them
        return rng.choice([errno.ENOTCONN, errno.ECONNABORTED, errno.EBADF, errno.EIO, EPIPE])
    if f == "ssl":
        return rng.choice(sorted(SSL_CODES))
    return rng.choice(ALL_CODES)


def gen_sends(rng, kind, n, total, fault_p=0.15, flavour=None):
    out = []
    style = rng.choice(["all", "dribble", "zeros", "mixed", "mixed", "half"])
    for _ in range(n):
        if rng.random() < fault_p:
            out.append(("f", gen_fault_code(rng, kind, flavour)))
            continue
        if style == "all":
            k = 1 << 30
        elif style == "dribble":
            k = 1
        elif style == "zeros":
            k = 0 if rng.random() < 0.6 else rng.randrange(0, 4)
        elif style == "half":
            k = max(1, total // 2)
        else:
            k = rng.choice([0, 1, 2, 3, 7, 8, 1 << 30, rng.randrange(0, max(2, total + 2))])
        out.append(("acc", k))
    return out


def gen_recvs(rng, kind, n, fault_p=0.15, flavour=None, big=False):
    out = []
    for _ in range(n):
        r = rng.random()
        if r < fault_p:
            out.append(("f", gen_fault_code(rng, kind, flavour)))
        elif r < fault_p + 0.05:
            out.append(("d", b""))
        else:
            ln = rng.choice([1, 1, 2, 3, 5, 8, 16, rng.randrange(1, 40)])
            if big and rng.random() < 0.2:
                ln = rng.choice([8096, 8097, 65536])
            out.append(("d", gen_bytes(rng, ln)))
    return out


def strip_hard(obs):
    """server observation without the environment-side `hard fault` column (the model does not predict it)"""
    st0, steps = obs
    return (st0, tuple((st, tuple(e if e[0] == "listen" else e[:-1] for e in snap)) for st, snap in steps))


def hard_codes_of_script(kind, script):
    wb = set(wouldblock_codes(kind))
    return [r[1] for r in script if r[0] == "f" and r[1] not in wb]


def gen_server_ops(rng, tls, focus, tier="quick"):
    """focus 'fault': accept/service/transmit with faults at random call indices on one or more of several connections;
    focus 'life': adds removeIx, close, reopen, same-address replacement, handshakes left pending"""
    kind = "remotertls" if tls else "remoter"
    ops = []
    ncas = rng.choice([1, 2, 2, 3, 4])
    live = []
    nsteps = rng.randrange(3, 14)
    faulty = set(rng.sample(range(1, ncas + 1), k=rng.randrange(0, ncas + 1))) if focus == "fault" else set()
    flav = rng.choice(["conn", "conn", "conn", None, "epipe", "raise", "raise"])
    spread = rng.random() < 0.5   # would-blocks between receive chunks: the script is met over several passes, with output queued

    def mkconn(ca):
        fp = 0.0
        if focus == "fault" and ca in faulty:
            fp = rng.choice([0.15, 0.3, 0.6])
        elif focus == "life":
            fp = rng.choice([0.0, 0.0, 0.1])
        sends = gen_sends(rng, kind, rng.randrange(0, 6), 8, fault_p=fp, flavour=flav)
        recvs = gen_recvs(rng, kind, rng.randrange(0, 6), fault_p=fp, flavour=flav)
        if spread:
            recvs = [x for r_ in recvs for x in ((r_, ("f", wouldblock_codes(kind)[0])) if rng.random() < 0.6 else (r_,))]
        hs = []
        if tls:
            m = rng.random()
            for _ in range(rng.randrange(0, 3)):
                hs.append(("f", rng.choice([WANT_READ, WANT_WRITE])))
            if m < 0.6:
                hs.append(("ok",))
            elif m < 0.8:
                hs.append(("f", rng.choice(conn_fault_codes(kind) + [errno.ECONNABORTED, 1001, 1005, 1010]) if (ca in faulty or focus == "life") else WANT_READ))
                if hs[-1] == ("f", WANT_READ):
                    hs.append(("ok",))
            # else: stays pending for ever
        return ("conn", ca, sends, recvs, hs)
    for ca in range(1, ncas + 1):
        if rng.random() < 0.8:
            ops.append(mkconn(ca))
            live.append(ca)
    ops.append(("svc",))
    for _ in range(nsteps):
        r = rng.random()
        if r < 0.45:
            ops.append(("svc",))
        elif r < 0.7 and ncas:
            ops.append(("tx", rng.randrange(1, ncas + 1), gen_bytes(rng, rng.choice([0, 1, 3, 8, 20]))))
        elif r < 0.85:
            ca = rng.randrange(1, ncas + 1)   # a new peer, possibly from an address already connected
            if rng.random() < 0.25:
                ops.append(("dconn", rng.choice([ca, ca, ncas + 1])))
                if rng.random() < 0.6:
                    ops.append(("svc",))      # the dead arrival is serviced on its own, the older connection from that address lives on
                    continue
            ops.append(mkconn(ca))
        elif rng.random() < 0.3:
            ops.append(("rxix", rng.randrange(1, ncas + 2)))     # serviceReceivesIx, possibly for an unknown address
        elif focus == "life":
            k = rng.random()
            if k < 0.3:
                ops.append(("rm", rng.randrange(1, ncas + 1)))
            elif k < 0.4:
                ops.append(rng.choice([("closeix", rng.randrange(1, ncas + 2)), ("closeall",)]))
            elif k < 0.5:
                ops.append(("close",))
            elif k < 0.57:
                # several peers in the backlog and accept() failing somewhere among them (descriptor table full, aborted, ...)
                burst = [mkconn(rng.randrange(1, ncas + 1)) for _ in range(rng.randrange(1, 4))]
                burst.insert(rng.randrange(0, len(burst) + 1), ("afault", rng.choice([errno.EMFILE, errno.EMFILE, errno.ENFILE, errno.ECONNABORTED, errno.ENOBUFS, errno.EPERM])))
                ops += burst + [("svc",)] * rng.choice([1, 1, 2])
            elif k < 0.65:
                for _ in range(rng.choice([1, 1, 2, 3])):
                    ops.append(("reopenf", rng.choice(["bind", "bind", "listen"]), rng.choice([errno.EADDRINUSE, errno.EADDRINUSE, errno.EACCES, errno.EADDRNOTAVAIL])))
            elif k < 0.8:
                ops.append(("reopen",))
            else:
                ca = rng.randrange(1, ncas + 1)
                ops.append(mkconn(ca))
                ops.append(mkconn(ca))
        else:
            ops.append(("svc",))
    if focus == "life":
        ops.append(("close",))
    return ops


def request_server(case_ops, via="direct"):
    out = []
    for op in case_ops:
        if via == "echo" and op[0] == "svc":
            out.append(("svce",))
            continue
        if op[0] == "conn":
            out.append(("conn", op[1], [tuple(x) for x in op[2]], [tuple(x) for x in op[3]], [tuple(x) for x in op[4]]))
        else:
            out.append(tuple(op))
    return out


# --------------------------------------------------------------------------
# real loopback sockets (no fakes): streams with tiny buffers (C09), peer close / RST (C10), descriptor accounting (C11),
# idle timeout seen from the peer (C12).  No wall-clock sleeps: bounded service loops, select() only to wait for the
# kernel to hand over bytes that have already been sent.  Port clashes and descriptor exhaustion are infrastructure.
import gc
import select
import struct
import time as _time

INFRA_ERRNOS = (errno.EADDRINUSE, errno.EADDRNOTAVAIL, errno.EMFILE, errno.ENFILE, errno.ENOBUFS, errno.ENOMEM)


class Retry(Exception):
    pass


def free_port():
    s = _socket.socket(_socket.AF_INET, _socket.SOCK_STREAM)
    try:
        s.bind(("127.0.0.1", 0))
        return s.getsockname()[1]
    finally:
        s.close()


def with_retries(fn, tries=4):
    last = None
    for _ in range(tries):
        try:
            return fn()
        except Retry as ex:
            last = ex
        except core.Infra:
            raise
        except Exception as ex:
            # whatever the code under test raised where the scenario did not expect it is an OBSERVATION (the oracles
            # flag it), never a crash of the harness
            return ("EXC", type(ex).__name__)
    raise core.Infra(f"real-socket scenario could not get its ports/descriptors: {last}")


def cert_paths():
    d = os.path.join(core.REPO, "tests", "core", "tcp", "certs")
    p = {k: os.path.join(d, v) for k, v in dict(skey="server_key.pem", scert="server_cert.pem", cca="client.pem",
                                                ckey="client_key.pem", ccert="client_cert.pem", sca="server.pem").items()}
    for v in p.values():
        if not os.path.exists(v):
            raise core.Infra(f"certificate file missing: {v}")
    return p


def open_real_server(tls, wl=None, tymth=None, cls=None, **kw):
    """a listening tcp.Server/ServerTls on a free loopback port (retry on clashes)"""
    from hio.core.tcp import serving
    for _ in range(6):
        port = free_port()
        if tls:
            c = cert_paths()
            server = (cls or serving.ServerTls)(host="127.0.0.1", port=port, wl=wl, tymth=tymth, keypath=c["skey"], certpath=c["scert"],
                                                cafilepath=c["cca"], certify=ssl.CERT_NONE, **kw)
        else:
            server = (cls or serving.Server)(host="127.0.0.1", port=port, wl=wl, tymth=tymth, **kw)
        if server.reopen():
            return server, port
        server.close()
    raise Retry("no free port for the server")


def raw_peer(port, lport=None):
    s = _socket.socket(_socket.AF_INET, _socket.SOCK_STREAM)
    try:
        s.setsockopt(_socket.SOL_SOCKET, _socket.SO_REUSEADDR, 1)
        if lport:
            s.bind(("127.0.0.1", lport))
        s.settimeout(3.0)
        s.connect(("127.0.0.1", port))
        s.setblocking(False)
    except OSError as ex:
        s.close()
        if ex.errno in INFRA_ERRNOS or isinstance(ex, TimeoutError):
            raise Retry(str(ex))
        raise
    return s


def rst_close(s):
    try:
        s.setsockopt(_socket.SOL_SOCKET, _socket.SO_LINGER, struct.pack("ii", 1, 0))
    except OSError:
        pass
    s.close()


def wait_readable(sock, timeout=2.0):
    try:
        r, _, _ = select.select([sock], [], [], timeout)
    except (OSError, ValueError):
        return False
    return bool(r)


def run_real_stream(case):
    """C09. case = ("real", tls, direction 'c2s'|'s2c', sizes, sndbuf, reader_every, seed)
    observation = (connected, prefix_always, delivered_all, sender_wire_ok, receiver_wire_ok, total)"""
    _, tls, direction, sizes, sndbuf, reader_every, seed = case
    import random
    rng = random.Random(seed)
    payloads = [rng.randbytes(n) for n in sizes]

    def go():
        from hio.core.tcp import clienting
        wls, wlc = make_wl(), make_wl()
        server = client = None
        try:
            server, port = open_real_server(tls, wl=wls)
            server.ss.setsockopt(_socket.SOL_SOCKET, _socket.SO_RCVBUF, sndbuf)
            server.ss.setsockopt(_socket.SOL_SOCKET, _socket.SO_SNDBUF, sndbuf)
            if tls:
                c = cert_paths()
                client = clienting.ClientTls(ha=("127.0.0.1", port), wl=wlc, certedhost="localhost", keypath=c["ckey"], certpath=c["ccert"],
                                             cafilepath=c["sca"], certify=ssl.CERT_NONE, hostify=False)
            else:
                client = clienting.Client(ha=("127.0.0.1", port), wl=wlc)
            client.reopen()
            client.cs.setsockopt(_socket.SOL_SOCKET, _socket.SO_SNDBUF, sndbuf)
            client.cs.setsockopt(_socket.SOL_SOCKET, _socket.SO_RCVBUF, sndbuf)
            for _ in range(20000):
                client.serviceConnect()
                server.serviceConnects()
                if client.connected and server.ixes:
                    break
            if not (client.connected and server.ixes):
                return (False, True, False, True, True, 0)
            ix = list(server.ixes.values())[0]
            snd, rcv, wsnd, wrcv = (client, ix, wlc, wls) if direction == "c2s" else (ix, client, wls, wlc)
            sent = b""
            prefix_ok = True
            it = 0

            def pump(n):
                nonlocal it, prefix_ok
                for _ in range(n):
                    it += 1
                    snd.serviceSends()
                    if it % reader_every == 0:
                        rcv.serviceReceives()
                        if not sent.startswith(bytes(rcv.rxbs)):
                            prefix_ok = False
            for p in payloads:
                snd.tx(p)
                sent += p
                pump(rng.randrange(0, 6))
            last, stall_t = -1, _time.time()
            while len(rcv.rxbs) < len(sent):
                pump(50)
                rcv.serviceReceives()
                if len(rcv.rxbs) != last:
                    last, stall_t = len(rcv.rxbs), _time.time()
                elif _time.time() - stall_t > 5.0:
                    break
                if snd.cutoff or rcv.cutoff:
                    break
            got = bytes(rcv.rxbs)
            if not sent.startswith(got):
                prefix_ok = False
            wt, _ = wl_read(wsnd)
            _, wr = wl_read(wrcv)
            return (True, prefix_ok, got == sent, wt == sent[:len(wt)] and len(wt) + len(snd.txbs) == len(sent), wr == got, len(sent))
        except OSError as ex:
            if ex.errno in INFRA_ERRNOS:
                raise Retry(str(ex))
            raise
        finally:
            if client:
                client.close()
            if server:
                server.close()
            wls.close()
            wlc.close()
    return with_retries(go)


def run_real_faults(case):
    """C10. case = ("realsrv", tls, how 'rst'|'fin', point, nmsg): two raw peers talk to an echoing server; peer 0 dies
    (`how`) after `point` messages (-1: before it is accepted; -2: after being serviced, and a second connection from its very
    address resets before accept); the server keeps being serviced.  For TLS the peers never handshake, peer 0 dies with the
    handshake pending.  observation = (raised, victim_marked, sibling_ok)"""
    _, tls, how, point, nmsg = case

    def go():
        server = None
        peers = []
        try:
            server, port = open_real_server(tls)
            lport = free_port() if point == -2 else None
            peers = [raw_peer(port, lport), raw_peer(port)]
            cas = [p.getsockname() for p in peers]
            raised = False
            echoed = [b"", b""]
            sentb = [b"", b""]

            def svc(n=3):
                nonlocal raised
                for _ in range(n):
                    try:
                        server.service()
                    except BaseException:
                        raised = True
                    for ca, ixr in list(server.ixes.items()):
                        if ixr.rxbs:
                            ixr.tx(bytes(ixr.rxbs))
                            ixr.clearRxbs()
            dead = False
            if point == -1:   # reset before the server has even accepted the connection
                rst_close(peers[0])
                dead = True
            svc()
            if point == -2:
                # the victim is connected and serviced, resets, and a NEW connection from the very same address resets before it
                # is accepted — while the server still lists the old one and has not yet noticed that it is gone
                rst_close(peers[0])
                dead = True
                try:
                    rst_close(raw_peer(port, lport))
                except (Retry, OSError):
                    pass          # the kernel would not give us the same address again: plain reset scenario then
                svc()
            for m in range(nmsg):
                if m == point and not dead:
                    (rst_close if how == "rst" else _socket.socket.close)(peers[0])
                    dead = True
                for i, p in enumerate(peers):
                    if i == 0 and dead:
                        continue
                    if tls:
                        continue
                    msg = bytes([65 + i]) * (m + 1)
                    p.send(msg)
                    sentb[i] += msg
                    sx = server.ixes.get(cas[i])
                    if sx is not None and sx.cs is not None:
                        wait_readable(sx.cs)
                svc()
                for i, p in enumerate(peers):
                    if i == 0 and dead:
                        continue
                    if len(echoed[i]) < len(sentb[i]) and wait_readable(p, 1.0):
                        try:
                            echoed[i] += p.recv(65536)
                        except BlockingIOError:
                            pass
            if not dead:
                (rst_close if how == "rst" else _socket.socket.close)(peers[0])
            # let the server notice: the victim's socket becomes readable (EOF / RST)
            v = server.ixes.get(cas[0]) or (server.cxes.get(cas[0]) if tls else None)
            if v is not None and v.cs is not None:
                wait_readable(v.cs)
            svc(4)
            if tls:
                marked = cas[0] not in server.cxes and cas[0] not in server.ixes
                sibling_ok = cas[1] in server.cxes
            else:
                vix = server.ixes.get(cas[0])
                marked = vix is None or bool(vix.cutoff)
                for _ in range(3):
                    if len(echoed[1]) < len(sentb[1]) and wait_readable(peers[1], 1.0):
                        try:
                            echoed[1] += peers[1].recv(65536)
                        except BlockingIOError:
                            pass
                    svc(1)
                six = server.ixes.get(cas[1])
                sibling_ok = six is not None and not six.cutoff and echoed[1] == sentb[1]
            return (raised, marked, sibling_ok)
        except OSError as ex:
            if ex.errno in INFRA_ERRNOS:
                raise Retry(str(ex))
            raise
        finally:
            for p in peers:
                try:
                    p.close()
                except OSError:
                    pass
            if server:
                server.close()
    return with_retries(go)


def run_real_life(case):
    """C11. case = ("real", tls, ops); ops: ("peer", slot) a raw peer connects from local port slot `slot` (same slot again =
    same address: the old peer is reset first) | ("svc",) | ("drop", slot) peer resets | ("close",) | ("reopen",)
    | ("afault", k) during the next service pass accept() succeeds k more times and then raises EMFILE once
    | ("clash",) a second server is configured for the same address, fails to open twice and is closed
    The harness keeps a reference to every socket object the server obtained (so the GC cannot close anything).
    observation per close/reopen op: (number of sockets obtained so far, how many are still open); last entry: descriptor delta"""
    _, tls, ops = case

    def go():
        from hio.core.tcp import serving
        seen = []
        orig_init = serving.Remoter.__init__
        orig_wrap = serving.RemoterTls.wrap
        orig_open = serving.Acceptor.open

        def init(self, *a, **kw):
            orig_init(self, *a, **kw)
            if self.cs is not None and not any(x is self.cs for x in seen):
                seen.append(self.cs)

        def wrap(self):
            orig_wrap(self)
            seen.append(self.cs)

        def aopen(self):     # (listen sockets are remembered by RecMod when they are created)
            return orig_open(self)

        class RecMod:
            """the name `socket` inside hio.core.tcp.serving: real sockets, but every one created is remembered (also the
            listen socket of an open() that then fails to bind)"""

            def __getattr__(self, name):
                return getattr(_socket, name)

            def socket(self, *a, **kw):
                s = _socket.socket(*a, **kw)
                seen.append(s)
                return AcceptProxy(s)

        class AcceptProxy:
            """a real listen socket whose accept() can be told to fail (EMFILE) after some more successful accepts; every
            socket it does hand out is remembered"""

            def __init__(self, s):
                self.__dict__["_s"] = s
                self.__dict__["fail_after"] = None

            def __getattr__(self, name):
                return getattr(self._s, name)

            def accept(self):
                if self.fail_after is not None:
                    if self.fail_after == 0:
                        self.__dict__["fail_after"] = None
                        raise OSError(errno.EMFILE, os.strerror(errno.EMFILE))
                    self.__dict__["fail_after"] -= 1
                cs, ca = self._s.accept()
                seen.append(cs)
                return cs, ca
        gc.collect()
        fd0 = len(os.listdir("/proc/self/fd"))
        server = None
        peers = {}
        out = []
        try:
            with patched(serving.Remoter, __init__=init), patched(serving.RemoterTls, wrap=wrap), patched(serving.Acceptor, open=aopen), \
                    patched(serving, socket=RecMod()):
                server, port = open_real_server(tls)
                slots = {}
                for op in ops:
                    k = op[0]
                    if k == "peer":
                        if op[1] in peers:
                            rst_close(peers.pop(op[1]))
                        if op[1] not in slots:
                            slots[op[1]] = free_port()
                        if server.opened:
                            peers[op[1]] = raw_peer(server.ha[1], slots[op[1]])
                    elif k == "drop":
                        if op[1] in peers:
                            rst_close(peers.pop(op[1]))
                    elif k == "svc":
                        if server.opened:
                            try:
                                server.service()
                            except Exception:   # what service() raises is C10's business; here only descriptors count
                                pass
                    elif k == "close":
                        server.close()
                        out.append((len(seen), sum(1 for s in seen if s.fileno() != -1)))
                    elif k == "afault":   # the next service pass: op[1] accepts succeed, then accept() fails once
                        if server.ss is not None:
                            server.ss.fail_after = op[1]
                    elif k == "clash":
                        # a second server configured for the address the first one holds: its reopen() fails to bind (twice),
                        # then it is closed; nothing it created may stay open
                        mine = len(seen)
                        beta = type(server)(host="127.0.0.1", port=server.ha[1]) if not tls else None
                        if beta is None:
                            c = cert_paths()
                            beta = type(server)(host="127.0.0.1", port=server.ha[1], keypath=c["skey"], certpath=c["scert"], cafilepath=c["cca"], certify=ssl.CERT_NONE)
                        try:
                            beta.reopen()
                            beta.reopen()
                        finally:
                            beta.close()
                        out.append((len(seen), sum(1 for s in seen[mine:] if s.fileno() != -1)))
                    elif k == "reopen":
                        if not server.reopen():
                            raise Retry("reopen could not bind")
                        out.append((len(seen), sum(1 for s in seen[:-1] if s.fileno() != -1)))
                    else:
                        raise core.Infra(f"bad op {op!r}")
                server.close()
                out.append((len(seen), sum(1 for s in seen if s.fileno() != -1)))
            for p in peers.values():
                p.close()
            peers.clear()
            nleft = sum(1 for s in seen if s.fileno() != -1)
            gc.collect()
            fd1 = len(os.listdir("/proc/self/fd"))
            out.append(("fds", max(0, fd1 - fd0), nleft))
            return tuple(out)
        except OSError as ex:
            if ex.errno in INFRA_ERRNOS:
                raise Retry(str(ex))
            raise
        finally:
            for p in peers.values():
                try:
                    p.close()
                except OSError:
                    pass
            if server:
                server.close()
            for s in seen:   # do not leak into the next case whatever the code under test did
                try:
                    s.close()
                except OSError:
                    pass
    return with_retries(go)


def run_real_idle(case):
    """C12 over real loopback sockets (plain): same case format (without cap) and observation as run_idle; `open` means the
    PEER has not seen EOF and the server still lists the connection; the third column is the number of bytes the peer received"""
    tls, tymeout, ops = case

    def go():
        from hio.base import tyming
        from hio.core.http import serving as hserving
        tymist = tyming.Tymist(tyme=0.0, tock=UNIT)
        server = None
        peers = {}
        eof = {}
        got = {}
        inhead = {}
        listed_once = set()
        order = []
        out = []

        def drain(ca_i, wait):
            p = peers[ca_i]
            for _ in range(16):
                if eof[ca_i] or not wait_readable(p, wait):
                    return
                try:
                    d = p.recv(65536)
                except BlockingIOError:
                    continue
                except ConnectionResetError:
                    d = b""
                if not d:
                    eof[ca_i] = True
                    return
                got[ca_i] += len(d)
                wait = 0.0
        try:
            for _ in range(6):
                port = free_port()
                server = hserving.Server(host="127.0.0.1", port=port, app=_app, tymeout=tymeout * UNIT)
                server.wind(tymist.tymen())
                if server.reopen():
                    break
                server.close()
                server = None
            if server is None:
                raise Retry("no free port for the http server")
            for op in ops:
                k = op[0]
                st = "ok"
                if k == "conn":
                    peers[op[1]] = raw_peer(port)
                    eof[op[1]] = False
                    got[op[1]] = 0
                    order.append(op[1])
                elif k == "tick":
                    tymist.tick(tock=op[1] * UNIT)
                elif k == "wind":
                    tymist = tyming.Tymist(tyme=op[1] * UNIT, tock=UNIT)
                    st = _status(lambda: server.wind(tymist.tymen()))
                elif k in ("data", "req", "req10", "reqh"):
                    p = peers.get(op[1])
                    ca = p.getsockname() if p is not None and not eof[op[1]] else None
                    if ca is not None and ca in server.servant.ixes:
                        ih = inhead.get(op[1], False)
                        if k == "reqh":
                            conn = b"Connection: " + bytes(op[3]) + b"\r\nContent-Length: 0\r\n\r\n"
                            msg = (b"\r\n" + conn) if ih else (b"GET /x HTTP/1.%d\r\nHost: h\r\n" % (0 if op[2] else 1)) + conn
                        else:
                            msg = ((b"" if ih else REQ_HEAD) + b"a" * op[2]) if k == "data" else \
                                (b"\r\nContent-Length: 0\r\n\r\n" if ih else (REQ_FULL11 if k == "req" else REQ_FULL10))
                        inhead[op[1]] = (k == "data")
                        try:
                            p.send(msg)
                            wait_readable(server.servant.ixes[ca].cs)
                        except (BrokenPipeError, ConnectionResetError):
                            pass
                elif k == "svc":
                    st = _status(server.service)
                elif k == "cap":
                    raise core.Infra("cap is not available on real sockets")
                snap = []
                for ca_i in order:
                    p = peers[ca_i]
                    listed = (not eof[ca_i]) and p.getsockname() in server.servant.ixes
                    if listed:
                        listed_once.add(ca_i)
                    # a dropped connection must show EOF at the peer; response bytes may come first
                    drain(ca_i, 1.0 if (ca_i in listed_once and not listed) else 0.0)
                    if ca_i not in listed_once:
                        snap.append(("pending", 0, 0))
                    elif listed:
                        snap.append(("open", len(server.servant.ixes[p.getsockname()].txbs), got[ca_i]))
                    else:
                        snap.append(("closed" if eof[ca_i] else "dropped-but-socket-open", 0, got[ca_i]))
                out.append((st, tuple(snap)))
            return tuple(out)
        except OSError as ex:
            if ex.errno in INFRA_ERRNOS:
                raise Retry(str(ex))
            raise
        finally:
            for p in peers.values():
                try:
                    p.close()
                except OSError:
                    pass
            if server:
                server.close()
    return with_retries(go)


def run_real_client(case):
    """C11, client over real sockets.  case = ("realcli", tls, mode, tymeout, ops);  mode: 'refused' (target port bound but not
    listening), 'hang' (listener whose accept queue is full: connects stay in progress), 'mute' (a listener that never
    accept()s nor handshakes: TCP connects, a TLS handshake never completes).  reconnectable=True, virtual tyme.
    ops: ("tick", d) | ("svc",) serviceConnect | ("io",) service | ("tx",) | ("peerfin",) / ("peerrst",) the far side (mode mute)
    accepts, sends 3 bytes and closes gracefully / resets | ("reopen",) | ("close",).
    The harness keeps every socket object the client ever held.
    observation per op: (status, number of sockets ever held, how many of them other than client.cs are still open)"""
    _, tls, mode, tmo, ops = case

    def go():
        from hio.base import tyming
        from hio.core.tcp import clienting
        held = []
        base = clienting.ClientTls if tls else clienting.Client

        class TrackingClient(base):
            def open(self):
                r = super().open()
                if self.cs is not None:
                    held.append(self.cs)
                return r

            def wrap(self):
                super().wrap()
                held.append(self.cs)
        aux = []
        client = None
        out = []
        try:
            lst = _socket.socket(_socket.AF_INET, _socket.SOCK_STREAM)
            aux.append(lst)
            lst.bind(("127.0.0.1", 0))
            port = lst.getsockname()[1]
            if mode in ("hang", "mute"):
                lst.listen(0 if mode == "hang" else 16)
            if mode == "hang":     # fill the accept queue so that further SYNs are left unanswered
                for _ in range(3):
                    f = _socket.socket(_socket.AF_INET, _socket.SOCK_STREAM)
                    aux.append(f)
                    f.setblocking(False)
                    f.connect_ex(("127.0.0.1", port))
            tymist = tyming.Tymist(tyme=0.0, tock=UNIT)
            kw = dict(ha=("127.0.0.1", port), tymth=tymist.tymen(), reconnectable=True, tymeout=tmo * UNIT)
            if tls:
                c = cert_paths()
                kw.update(certedhost="localhost", keypath=c["ckey"], certpath=c["ccert"], cafilepath=c["sca"], certify=ssl.CERT_NONE, hostify=False)
            client = TrackingClient(**kw)
            for op in ops:
                k = op[0]
                if k == "tick":
                    tymist.tick(tock=op[1] * UNIT)
                    st = "ok"
                elif k == "svc":
                    st = _status(client.serviceConnect)
                elif k == "io":      # a full service pass: connect, sends, receives
                    if client.cs is not None and client.connected:
                        wait_readable(client.cs, 0.02)
                    st = _status(client.service)
                elif k == "tx":
                    st = _status(lambda: client.tx(b"ping"))
                elif k in ("peerfin", "peerrst"):   # the far side sends a few bytes and closes gracefully / resets
                    st = "ok"
                    if mode == "mute":
                        try:
                            lst.settimeout(0.05)
                            p, _ = lst.accept()
                            p.send(b"bye")
                            (p.close if k == "peerfin" else (lambda: rst_close(p)))()
                        except OSError:
                            pass
                elif k == "reopen":
                    st = _status(client.reopen)
                elif k == "close":
                    st = _status(client.close)
                else:
                    raise core.Infra(f"bad op {op!r}")
                stray = sum(1 for s in held if s is not client.cs and s.fileno() != -1)
                out.append((st, len(held), stray))
            return tuple(out)
        except OSError as ex:
            if ex.errno in INFRA_ERRNOS:
                raise Retry(str(ex))
            raise
        finally:
            if client is not None:
                try:
                    client.close()
                except Exception:
                    pass
            for s in held + aux:
                try:
                    s.close()
                except OSError:
                    pass
    return with_retries(go)


def run_real_client_rst(case):
    """C10. case = ("realrst", nbytes): a real Client with a WireLog attached is connected to a raw peer that sends nbytes and
    then resets; the client is serviced until it notices.  observation = (raised, all bytes received, cut off)"""
    _, nbytes = case

    def go():
        from hio.core.tcp import clienting
        wl = make_wl()
        lst = peer = client = None
        try:
            lst = _socket.socket(_socket.AF_INET, _socket.SOCK_STREAM)
            lst.bind(("127.0.0.1", 0))
            lst.listen(4)
            client = clienting.Client(ha=lst.getsockname(), wl=wl)
            client.reopen()
            for _ in range(20000):
                if client.serviceConnect():
                    break
            if not client.connected:
                raise Retry("client could not connect on loopback")
            lst.settimeout(3.0)
            peer, _ = lst.accept()
            data = bytes(i % 251 for i in range(nbytes))
            peer.settimeout(3.0)
            peer.sendall(data)
            rst_close(peer)
            peer = None
            wait_readable(client.cs)
            raised = False
            for _ in range(60):
                try:
                    client.service()
                except BaseException:
                    raised = True
                if client.cutoff or client.cs is None:
                    break
                wait_readable(client.cs, 0.5)
            return (raised, bytes(client.rxbs) == data, bool(client.cutoff))
        except OSError as ex:
            if ex.errno in INFRA_ERRNOS or isinstance(ex, TimeoutError):
                raise Retry(str(ex))
            raise
        finally:
            for x in (peer, lst):
                if x is not None:
                    x.close()
            if client is not None:
                client.close()
            wl.close()
    return with_retries(go)


RCS = [0, 0, errno.EINPROGRESS, errno.EALREADY, errno.ECONNREFUSED, errno.EINVAL, errno.EISCONN, errno.ETIMEDOUT,
       errno.EAGAIN] + CONN_FAULTS    # every result connect_ex can report for a failing / pending connection


def gen_client_ops(rng, tls, tmo, early_tx=False):
    """a client life: reopen / close / ticks / re-wind / kernel responses fed to the current socket / tx / connect or full
    service passes with every connect_ex result and handshake response.  early_tx: bytes are queued before the first connect
    and the first attempts fail (refused, in progress past the retry timer, handshake aborted) before one succeeds"""
    kind = "clienttls" if tls else "client"
    ops = []
    since = 0
    if early_tx:
        for _ in range(rng.randrange(1, 3)):
            ops.append(("tx", gen_bytes(rng, rng.choice([1, 4, 9]))))
        for _ in range(rng.randrange(1, 4)):
            m = rng.random()
            if m < 0.4:
                ops.append((rng.choice(["connect", "service"]), rng.choice([errno.ECONNREFUSED, errno.EINVAL]), None))
            elif m < 0.7 and tmo:
                ops.append((rng.choice(["connect", "service"]), errno.EINPROGRESS, None))
                ops.append(("tick", tmo))
                ops.append((rng.choice(["connect", "service"]), errno.EALREADY, None))
            elif tls:
                ops.append((rng.choice(["connect", "service"]), 0, ("f", rng.choice(conn_fault_codes(kind) + [errno.ECONNABORTED]))))
            else:
                ops.append(("reopen",))
            if rng.random() < 0.4:
                ops.append(("tx", gen_bytes(rng, rng.choice([1, 3]))))
        ops.append(("service", 0, ("ok",) if tls else None))
        ops.append(("feed", [("acc", rng.choice([1, 2, 1 << 30])) for _ in range(rng.randrange(1, 6))], []))
        for _ in range(rng.randrange(1, 5)):
            ops.append(("service", 0, None))
    for _ in range(rng.randrange(1, 16)):
        r = rng.random()
        if r < 0.12:
            ops.append(("reopen",))
        elif r < 0.2:
            ops.append(("close",))
        elif r < 0.24 and tmo is not None:
            ops.append(("wind", rng.choice([0, 3, 100])))
            since = 0
        elif r < 0.45 and tmo is not None:
            d = max(0, tmo - since + rng.choice([-1, 0, 0, 1])) if (tmo and rng.random() < 0.6) else rng.choice([0, 1, 2, tmo or 3, 2 * (tmo or 1) + 1])
            ops.append(("tick", d))
            since = 0 if d >= (tmo or 0) else since + d
        elif r < 0.6:
            recvs = gen_recvs(rng, kind, rng.randrange(0, 4), fault_p=0.2, flavour=rng.choice(["conn", "wb", None]))
            if rng.random() < 0.4:
                recvs.append(("d", b""))          # the far side closes gracefully
            ops.append(("feed", gen_sends(rng, kind, rng.randrange(0, 3), 6, fault_p=0.2, flavour=rng.choice(["conn", "wb"])), recvs))
        elif r < 0.68:
            ops.append(("tx", gen_bytes(rng, rng.choice([1, 3, 9]))))
        else:
            hs = None
            if tls and rng.random() < 0.8:
                hs = rng.choice([("ok",), ("ok",), ("f", WANT_READ), ("f", WANT_READ), ("f", WANT_WRITE), ("f", rng.choice(conn_fault_codes("clienttls") + [errno.ECONNABORTED])),
                                 ("f", rng.choice(ALL_CODES))])
            ops.append((rng.choice(["connect", "service", "service"]), rng.choice(RCS + [0, 0, 0]), hs))
    if rng.random() < 0.7:
        ops.append(("close",))
    return ops


def request_client(tls, recon, tmo, cops):
    ops = []
    for op in cops:
        if op[0] in ("connect", "service"):
            ops.append((op[0], op[1], tuple(op[2]) if op[2] is not None else None))
        elif op[0] == "feed":
            ops.append(("feed", [tuple(x) for x in op[1]], [tuple(x) for x in op[2]]))
        else:
            ops.append(tuple(op))
    return ("cli", bool(tls), bool(recon), tmo, ops)
