"""Shared code for the Store area (C23, C24): lmdb scratch environments, adapters that drive the REAL
hio.base.during / durqing / dusqing / holding code, the value table of C23, key-set generators.

Everything that touches disk lives under /tmp/store_scratch/<pid>/ and is removed at exit.
"""
import atexit
import os
import shutil

from .. import core

SCRATCH = "/tmp/store_scratch"
SEP = b"."
W = 32                      # Duror.SuffixSize (asserted against the code in extract)
MAXKEY = 511                # lmdb max key size (asserted against env.max_key_size() in extract)

_state = {}


def hexw(i):
    return b"%032x" % i


def _root():
    r = os.path.join(SCRATCH, f"run_{os.getpid()}")
    if "root" not in _state:
        shutil.rmtree(r, ignore_errors=True)
        os.makedirs(r, exist_ok=True)
        _state["root"] = r
        atexit.register(_cleanup)
    return r


def _cleanup():
    for k in ("duror", "subery"):
        o = _state.pop(k, None)
        if o is not None:
            try:
                o.close(clear=True)
            except Exception:
                pass
    r = _state.pop("root", None)
    if r:
        shutil.rmtree(r, ignore_errors=True)
    try:
        if os.path.isdir(SCRATCH) and not os.listdir(SCRATCH):
            os.rmdir(SCRATCH)
    except OSError:
        pass


def _drop(env, sdb):
    """empty a sub-db with plain lmdb (independent of the code under test)"""
    with env.begin(write=True) as txn:
        txn.drop(sdb, delete=False)


def raw_items(env, sdb):
    with env.begin(db=sdb) as txn:
        return tuple((bytes(k), bytes(v)) for k, v in txn.cursor())


def classify(ex):
    return ("raise", type(ex).__name__)


# ---------------------------------------------------------------------------
# C24: Suber / IoSuber / IoSetSuber on one Duror, sub-db emptied per case

def c24_subers():
    if "duror" not in _state:
        from hio.base import during
        d = during.Duror(name="c24", headDirPath=_root(), reopen=True, temp=False, clear=True)
        if not d.opened:
            raise core.Infra("cannot open lmdb scratch environment")
        _state["duror"] = d
        _state["subers"] = dict(plain=during.Suber(db=d, subkey="p."),
                                io=during.IoSuber(db=d, subkey="i."),
                                ioset=during.IoSetSuber(db=d, subkey="s."))
    return _state["duror"], _state["subers"]


def enc(r):
    """canonical form of an API result"""
    if r is None or isinstance(r, (bool, int)):
        return r
    if isinstance(r, str):
        return r.encode()
    if isinstance(r, (bytes, bytearray, memoryview)):
        return bytes(r)
    if isinstance(r, (list, tuple)):
        return tuple(enc(x) for x in r)
    raise core.Infra(f"unexpected API result {r!r}")


def _s(b):
    return b.decode()      # values travel through the API as str (Suber._ser encodes, ._des decodes)


TOPOPS = ("items", "itemstop", "fullitems", "trim")


def c24_keys(ops):
    return tuple(sorted({op[1] for op in ops if len(op) > 1 and op[0] not in TOPOPS}))


def c24_apply(sub, kind, op):
    try:
        name = op[0]
        if name == "itemstop":
            return tuple((sub.sep.join(k).encode(), enc(v)) for k, v in sub.getItemIter(op[1]))
        if name == "fullitems":
            return tuple((sub.sep.join(k).encode(), enc(v)) for k, v in sub.getFullItemIter(op[1]))
        if name == "trim":
            return enc(sub.trim(op[1]))
        if name == "cnt" and len(op) == 1:
            return enc(sub.cntAll())
        if kind == "plain":
            if name == "put":
                return enc(sub.put(op[1], _s(op[2])))
            if name == "pin":
                return enc(sub.pin(op[1], _s(op[2])))
            if name == "get":
                return enc(sub.get(op[1]))
            if name == "rem":
                return enc(sub.rem(op[1]))
            if name == "cnt":
                return enc(sub.cntAll())
            if name == "items":
                return tuple((sub.sep.join(k).encode(), enc(v)) for k, v in sub.getItemIter(b""))
        else:
            if name == "add":
                return enc(sub.add(op[1], _s(op[2])))
            if name == "put":
                return enc(sub.put(op[1], [_s(v) for v in op[2]]))
            if name == "pin":
                return enc(sub.pin(op[1], [_s(v) for v in op[2]]))
            if name == "get":
                return enc(sub.get(op[1]))
            if name == "iter":
                return enc(list(sub.getIter(op[1])))
            if name == "first":
                return enc(sub.getFirst(op[1]))
            if name == "last":
                return enc(sub.getLast(op[1]))
            if name == "pop":
                return enc(sub.pop(op[1]))
            if name == "rem":
                return enc(sub.rem(op[1]))
            if name == "remv" and kind == "ioset":
                return enc(sub.rem(op[1], _s(op[2])))
            if name == "cnt":
                return enc(sub.cnt(op[1]))
            if name == "items":
                return tuple((sub.sep.join(k).encode(), enc(v)) for k, v in sub.getItemIter(b""))
    except core.Infra:
        raise
    except Exception as ex:
        return classify(ex)
    raise core.Infra(f"bad op {op!r} for {kind}")


def c24_run(case):
    kind, ops = case
    d, subs = c24_subers()
    sub = subs[kind]
    _drop(d.env, sub.sdb)
    keys = c24_keys(ops)
    steps = []
    for op in ops:
        res = c24_apply(sub, kind, op)
        snap = []
        for k in keys:
            try:
                snap.append(enc(sub.get(k)))
            except Exception as ex:
                snap.append(classify(ex))
        steps.append((res, tuple(snap)))
    return (tuple(steps), raw_items(d.env, sub.sdb))


def f39_pairs(keys, nvals):
    """pairs (k, k') of keys such that entries of k' can sort between the first possible entry of k
    (ordinal 0) and an entry of k with an ordinal < nvals: k' = k ++ sep ++ r with
    suffix(k,0) < suffix(k',0) < suffix(k,nvals)."""
    out = []
    for k in keys:
        for k2 in keys:
            if k2 != k and k2.startswith(k + SEP):
                lo, mid, hi = k + SEP + hexw(0), k2 + SEP + hexw(0), k + SEP + hexw(max(nvals, 1))
                if lo < mid < hi:
                    out.append((k, k2))
    return out


def c24_nvals(ops):
    n = 0
    for op in ops:
        if op[0] == "add":
            n += 1
        elif op[0] in ("put", "pin") and isinstance(op[2], (list, tuple)):
            n += len(op[2])
    return n


# ---------------------------------------------------------------------------
# C23: Durq / Dusq held in a Hold over a Subery, reopen between operations

def _vals():
    if "vals" not in _state:
        from hio.base.hier import Bag, IceBag
        _state["vals"] = [Bag(value=0), Bag(value=1), Bag(value=2), IceBag(value=1), Bag(value="a"),
                          # equal under == / hash to entry 1, different serialisations (F38):
                          Bag(value=1.0), Bag(value=True)]
    return _state["vals"]


NVALS = 7
CLEAN = (0, 1, 2, 3, 4)        # pairwise different under ==, pairwise different serialisations


INVALID = {-1: None, -2: "junk", -3: 7}      # arguments a Durq/Dusq must reject (push(None) is ignored) without any effect


def c23_val(i):
    return INVALID[i] if i < 0 else _vals()[i]


def c23_open():
    from hio.base import during
    s = during.Subery(name="c23", headDirPath=_root(), reopen=True, temp=False, reuse=True)
    if not s.opened:
        raise core.Infra("cannot open lmdb scratch environment")
    _state["subery"] = s
    return s


def c23_ser(v):
    s = _state.get("subery") or c23_open()
    return bytes(s.dsqs._ser(v))


def c23_table():
    """[(eqid, serialisation)] for the value table: eqid = first index whose value is == """
    if "table" not in _state:
        vs = _vals()
        t = []
        for i, v in enumerate(vs):
            e = next(j for j in range(i + 1) if vs[j] == v and hash(vs[j]) == hash(v))
            t.append((e, c23_ser(v)))
        _state["table"] = t
    return _state["table"]


def _mk(kind, pre=None):
    """a fresh empty queue object, or one PRELOADED through its constructor (Durq(vals) / Dusq(vals))"""
    from hio.base.hier import Durq, Dusq
    cls = Durq if kind == "durq" else Dusq
    return cls() if pre is None else cls([c23_val(i) for i in pre])


def _observe(kind, s, hold, keys):
    out = []
    sdb = s.drqs if kind == "durq" else s.dsqs
    for k in keys:
        q = hold[k]
        mem = tuple(c23_ser(v) for v in q)
        try:
            dur = tuple(bytes(sdb._ser(v)) for v in sdb.get(k))
        except Exception as ex:
            dur = classify(ex)
        out.append((mem, dur))
    return tuple(out)


def c23_run(case):
    from hio.base.hier import Hold
    kind, keys, ops = case
    keys = [k.decode() for k in keys]
    vs = _vals()
    s = _state.get("subery")
    if s is None or not s.opened:
        s = c23_open()
    _drop(s.env, s.drqs.sdb)
    _drop(s.env, s.dsqs.sdb)
    hold = Hold(_hold_subery=s)
    for k in keys:
        hold[k] = _mk(kind)
    steps = []
    for op in ops:
        name = op[0]
        try:
            if name == "reopen":
                s.close()
                s = c23_open()
                hold = Hold(_hold_subery=s)
                pres = op[1] if len(op) > 1 else [None] * len(keys)
                for k, pre in zip(keys, pres):
                    hold[k] = _mk(kind, pre)
                res = True
            else:
                q = hold[keys[op[1]]]
                if name == "push":
                    res = q.push(c23_val(op[2]))
                elif name == "pull":
                    res = q.pull()
                elif name == "pullx":
                    res = q.pull(emptive=False)
                elif name == "extend":
                    vals = [c23_val(i) for i in op[2]]
                    res = q.extend(vals) if kind == "durq" else q.update(vals)
                elif name == "sync":
                    res = q.sync(force=bool(op[2]))
                elif name == "clear":
                    res = q.clear()
                elif name == "remove" and kind == "dusq":
                    res = q.remove(c23_val(op[2]))
                elif name == "count" and kind == "durq":
                    res = q.count(c23_val(op[2]))
                else:
                    raise core.Infra(f"bad op {op!r} for {kind}")
            if not (res is None or isinstance(res, (bool, int))):
                res = c23_ser(res)
        except core.Infra:
            raise
        except Exception as ex:
            res = classify(ex)
        steps.append((res, _observe(kind, s, hold, keys)))
    return tuple(steps)


# ---------------------------------------------------------------------------
# generators

def adversarial_keys(rng, n):
    """a key set of size <= n biased to the corners of the suffix encoding"""
    alpha = [b"a", b"b", b"k", b"0", b"f", b"-", b"/", b".", b"00", b"a.b", b"\xc3\xa9"]
    base = rng.choice(alpha[:6]) + rng.choice([b"", b"", b"x", b"0", b"."])
    cands = [base]
    r = rng.random
    o = rng.choice([0, 0, 1, 1, 2, 3, 10, 15, 16])
    cands += [
        base + SEP + hexw(o),                    # looks exactly like an entry of base (F39)
        base + SEP + hexw(o) + SEP + hexw(0),    # nested twice
        base + SEP + hexw(o)[:31],               # one digit short: sorts before every entry of base
        base + SEP + hexw(o) + b"0",             # one digit long
        base + SEP + hexw(o).upper().replace(b"0", b"0"),
        base + SEP,                              # ends with the separator
        base + SEP + b"x",                       # ordinary child key
        base + SEP + b"0",                       # child starting with a suffix character
        base + b"-", base + b"/", base + b"0",   # neighbours of '.' in byte order and a suffix char
        base[:-1] if len(base) > 1 else b"",     # proper prefix (possibly the empty key)
        base + base,
        hexw(o),                                 # a bare 32-hex key
        b"",                                     # empty apparent key (legal for the io kinds)
        rng.choice(alpha) + rng.choice(alpha),
    ]
    k = rng.randrange(1, n + 1)
    out = [base]
    pool = cands[1:]
    rng.shuffle(pool)
    if r() < 0.3:
        out.append(cands[1])
    for c in pool:
        if len(out) >= k:
            break
        if c not in out:
            out.append(c)
    return out


VALS24 = [b"v0", b"v1", b"v2", b"", b"a.b", hexw(1), b"\xc3\xa9", b"v0."]
