"""Shared code for the Store area (C23, C24): lmdb scratch environments, adapters that drive the REAL
hio.base.during / durqing / dusqing / holding code, the value table of C23, key-set generators.

Everything that touches disk lives under /tmp/store_scratch/<pid>/ and is removed at exit.
"""
import atexit
import os
import shutil

from .. import core

SCRATCH = "/tmp/store_scratch"
SEP = b"."
W = 32                      # Duror.SuffixSize (asserted against the code in extract)
MAXKEY = 511                # lmdb max key size (asserted against env.max_key_size() in extract)

_state = {}

# (sep, ionsep) configurations of the custom-separator kinds "<class>@<n>" (None = class default).  Separators whose UTF-8
# length differs from their character count, multi-character ones, str and bytes (ionsep only: sep is joined with str parts).
SEPCFG = [(None, "|"), (None, "\u00a7"), (None, "\u2192"), (None, "\U0001d11e"), (None, "::"), (None, "\u00a7\u2192"),
          (None, b"|"), (None, "\u00a7".encode()), (None, "\u2192::".encode()),
          ("\u00a7", None), ("\u2192", "\u00a7"), ("::", "\u2192"), ("\U0001d11e", "::"), ("\u00a7\u2192", b"||")]


def hexw(i):
    return b"%032x" % i


def _root():
    r = os.path.join(SCRATCH, f"run_{os.getpid()}")
    if "root" not in _state:
        shutil.rmtree(r, ignore_errors=True)
        os.makedirs(r, exist_ok=True)
        _state["root"] = r
        atexit.register(_cleanup)
    return r


def _cleanup():
    for k in ("duror", "subery", "c24sub"):
        o = _state.pop(k, None)
        if o is not None:
            try:
                o.close(clear=True)
            except Exception:
                pass
    r = _state.pop("root", None)
    if r:
        shutil.rmtree(r, ignore_errors=True)
    try:
        if os.path.isdir(SCRATCH) and not os.listdir(SCRATCH):
            os.rmdir(SCRATCH)
    except OSError:
        pass


def _drop(env, sdb):
    """empty a sub-db with plain lmdb (independent of the code under test)"""
    with env.begin(write=True) as txn:
        txn.drop(sdb, delete=False)


def raw_items(env, sdb):
    with env.begin(db=sdb) as txn:
        return tuple((bytes(k), bytes(v)) for k, v in txn.cursor())


def classify(ex):
    return ("raise", type(ex).__name__)


# ---------------------------------------------------------------------------
# C24: Suber / IoSuber / IoSetSuber on one Duror, sub-db emptied per case

def c24_subers():
    if "duror" not in _state:
        from hio.base import during
        d = during.Duror(name="c24", headDirPath=_root(), reopen=True, temp=False, clear=True)
        if not d.opened:
            raise core.Infra("cannot open lmdb scratch environment")
        _state["duror"] = d
        if int(d.env.max_key_size()) != MAXKEY:
            raise core.Infra(f"lmdb max key size {d.env.max_key_size()} != {MAXKEY}")
        _state["subers"] = dict(plain=during.Suber(db=d, subkey="p."),
                                io=during.IoSuber(db=d, subkey="i."),
                                ioset=during.IoSetSuber(db=d, subkey="s."))
        # custom separators: one sub-db per class, one Suber object per (class, configuration) on it
        mk = dict(plain=(during.Suber, "px."), io=(during.IoSuber, "ix."), ioset=(during.IoSetSuber, "sx."))
        for n, (sep, ionsep) in enumerate(SEPCFG):
            for base, (cls, subkey) in mk.items():
                kw = {}
                if sep is not None:
                    kw["sep"] = sep
                if ionsep is not None and base != "plain":
                    kw["ionsep"] = ionsep
                _state["subers"][f"{base}@{n}"] = cls(db=d, subkey=subkey, **kw)
        # neighbours in the same environment that no case may ever touch
        sen = during.IoSuber(db=d, subkey="zz.")
        _drop(d.env, sen.sdb)
        sen.put(b"k", ["s0", "s1"])
        sen.add(b"k." + hexw(0), "s2")
        _state["sentinel"] = (sen, raw_items(d.env, sen.sdb))
    return _state["duror"], _state["subers"]


def enc(r):
    """canonical form of an API result"""
    if r is None or isinstance(r, (bool, int)):
        return r
    if isinstance(r, str):
        return r.encode()
    if isinstance(r, (bytes, bytearray, memoryview)):
        return bytes(r)
    if isinstance(r, (list, tuple)):
        return tuple(enc(x) for x in r)
    return ("unexpected", type(r).__name__.replace(" ", "_") or "x")     # never crash: becomes an observation no oracle accepts


def _s(b):
    return b.decode()      # values travel through the API as str (Suber._ser encodes, ._des decodes)


TOPOPS = ("items", "itemstop", "fullitems", "trim")


def _view(b, m):
    """memoryview forms of the bytes b: whole buffer / a SLICE cut out of a larger bytes frame / a slice of a bytearray"""
    if m == 0:
        return memoryview(b)
    if m == 1:
        frame = b"<hdr>" + b + b".trailer-of-the-frame"
        return memoryview(frame)[5:5 + len(b)]
    frame = bytearray(b"\x00\x01" + b + b"\xfftail")
    return memoryview(frame)[2:2 + len(b)]


NKFORMS = 9


def kform(k, j, sep="."):
    """the same key in every argument form the API accepts (the model / oracle stay keyed by the canonical bytes):
    bytes, str, bytearray, memoryview (whole buffer, slice of a larger bytes, slice of a bytearray), tuple of str parts,
    list of parts alternating str / bytes, tuple of memoryview-free bytes parts"""
    m = j % NKFORMS
    if m == 1:
        return k.decode()
    if m == 2:
        return bytearray(k)
    if m in (3, 4, 5):
        return _view(k, m - 3)
    parts = k.decode().split(sep)
    if m == 6:
        return tuple(parts)
    if m == 7:
        return [p if i % 2 else p.encode() for i, p in enumerate(parts)]
    if m == 8:
        return tuple(p.encode() for p in parts)
    return k


def vform(v, j):
    """the same value as str / bytes / memoryview (whole, slice of bytes, slice of bytearray).  A bytearray itself is not an
    accepted value form (annotated str | bytes | memoryview; unhashable, so IoSetSuber raises TypeError on it): not generated"""
    m = (j // 2) % 5
    if m == 1:
        return v              # bytes
    if m in (2, 3, 4):
        return _view(v, m - 2)
    return v.decode()


def c24_keys(ops):
    return tuple(sorted({op[1] for op in ops if len(op) > 1 and op[0] not in TOPOPS}))


def c24_apply(sub, kind, op, j=0):
    try:
        name = op[0]
        kind = kind.split("@")[0]
        if name not in TOPOPS and len(op) > 1:
            op = (name, kform(op[1], j, sub.sep)) + tuple(op[2:])
        _s = lambda b: vform(b, j)     # noqa: E731  (shadows the module-level str form on purpose)
        if name == "badadd":
            return enc(sub.add(op[1], 7))
        if name == "badput":
            return enc(sub.put(op[1], 7) if kind == "plain" else sub.put(op[1], [7 if v == 7 else _s(v) for v in op[2]]))
        if name == "badpin":
            return enc(sub.pin(op[1], 7) if kind == "plain" else sub.pin(op[1], [7 if v == 7 else _s(v) for v in op[2]]))
        if name in ("get", "iter") and kind != "plain":
            r = sub.get(op[1]) if name == "get" else list(sub.getIter(op[1]))
            out = enc(r)
            if isinstance(r, list):      # the caller may do what it likes with the returned container
                r.append("junk")
                r.reverse()
                del r[:]
            return out
        if name == "itemstop":
            return tuple((sub.sep.join(k).encode(), enc(v)) for k, v in sub.getItemIter(op[1]))
        if name == "fullitems":
            return tuple((sub.sep.join(k).encode(), enc(v)) for k, v in sub.getFullItemIter(op[1]))
        if name == "trim":
            return enc(sub.trim(op[1]))
        if name == "cnt" and len(op) == 1:
            return enc(sub.cntAll())
        if kind == "plain":
            if name == "put":
                return enc(sub.put(op[1], _s(op[2])))
            if name == "pin":
                return enc(sub.pin(op[1], _s(op[2])))
            if name == "get":
                return enc(sub.get(op[1]))
            if name == "rem":
                return enc(sub.rem(op[1]))
            if name == "cnt":
                return enc(sub.cntAll())
            if name == "items":
                return tuple((sub.sep.join(k).encode(), enc(v)) for k, v in sub.getItemIter(b""))
        else:
            if name == "add":
                return enc(sub.add(op[1], _s(op[2])))
            if name == "put":
                return enc(sub.put(op[1], [_s(v) for v in op[2]]))
            if name == "pin":
                return enc(sub.pin(op[1], [_s(v) for v in op[2]]))
            if name == "get":
                return enc(sub.get(op[1]))
            if name == "iter":
                return enc(list(sub.getIter(op[1])))
            if name == "first":
                return enc(sub.getFirst(op[1]))
            if name == "last":
                return enc(sub.getLast(op[1]))
            if name == "pop":
                return enc(sub.pop(op[1]))
            if name == "rem":
                return enc(sub.rem(op[1]))
            if name == "remv" and kind == "ioset":
                return enc(sub.rem(op[1], _s(op[2])))
            if name == "cnt":
                return enc(sub.cnt(op[1]))
            if name == "items":
                return tuple((sub.sep.join(k).encode(), enc(v)) for k, v in sub.getItemIter(b""))
    except core.Infra:
        raise
    except Exception as ex:
        return classify(ex)
    raise core.Infra(f"bad op {op!r} for {kind}")


def c24_run(case):
    kind, ops = case
    d, subs = c24_subers()
    sub = subs[kind]
    _drop(d.env, sub.sdb)
    keys = c24_keys(ops)
    steps = []
    for j, op in enumerate(ops):
        res = c24_apply(sub, kind, op, j)
        snap = []
        for k in keys:
            try:
                snap.append(enc(sub.get(k)))
            except Exception as ex:
                snap.append(classify(ex))
        steps.append((res, tuple(snap)))
    sen, want = _state["sentinel"]
    if raw_items(d.env, sen.sdb) != want:      # a neighbouring sub-db of the same environment changed
        steps.append((("unexpected", "sentinel-subdb-changed"), ()))
        _drop(d.env, sen.sdb)
        sen.put(b"k", ["s0", "s1"])
        sen.add(b"k." + hexw(0), "s2")
    return (tuple(steps), raw_items(d.env, sub.sdb))


# ---------------------------------------------------------------------------
# C24 over the library's own wiring: ONE Subery with its three subers, the same keys used in every store

SUBSTORES = ("cans", "drqs", "dsqs")


def c24_subery():
    if "c24sub" not in _state or not _state["c24sub"].opened:
        from hio.base import during
        s = during.Subery(name="c24sub", headDirPath=_root(), reopen=True, temp=False, reuse=True)
        if not s.opened:
            raise core.Infra("cannot open lmdb scratch environment")
        _state["c24sub"] = s
    return _state["c24sub"]


def _dser(sub, r):
    """canonical form of a Dom-suber result: doms by serialisation"""
    if r is None or isinstance(r, (bool, int)):
        return r
    if isinstance(r, (list, tuple)):
        return tuple(_dser(sub, x) for x in r)
    try:
        return bytes(sub._ser(r))
    except Exception:
        return ("unexpected", type(r).__name__)


def c24sub_apply(s, op):
    store, name = op[0], op[1]
    sub = getattr(s, store)
    V = c23_val
    try:
        if store == "cans":
            if name == "put":
                return _dser(sub, sub.put(op[2], V(op[3])))
            if name == "pin":
                return _dser(sub, sub.pin(op[2], V(op[3])))
            if name == "get":
                return _dser(sub, sub.get(op[2]))
            if name == "rem":
                return _dser(sub, sub.rem(op[2]))
            if name == "cnt":
                return sub.cntAll()
        else:
            if name == "add":
                return _dser(sub, sub.add(op[2], V(op[3])))
            if name == "put":
                return _dser(sub, sub.put(op[2], [V(i) for i in op[3]]))
            if name == "pin":
                return _dser(sub, sub.pin(op[2], [V(i) for i in op[3]]))
            if name == "get":
                return _dser(sub, sub.get(op[2]))
            if name == "first":
                return _dser(sub, sub.getFirst(op[2]))
            if name == "last":
                return _dser(sub, sub.getLast(op[2]))
            if name == "pop":
                return _dser(sub, sub.pop(op[2]))
            if name == "rem":
                return _dser(sub, sub.rem(op[2]))
            if name == "cnt":
                return _dser(sub, sub.cnt(op[2]))
            if name == "remv" and store == "dsqs":
                return _dser(sub, sub.rem(op[2], V(op[3])))
    except core.Infra:
        raise
    except Exception as ex:
        return classify(ex)
    raise core.Infra(f"bad subery op {op!r}")


def c24sub_keys(ops):
    return tuple(sorted({op[2] for op in ops if len(op) > 2}))


def c24sub_run(case):
    _, ops = case
    s = c24_subery()
    for store in SUBSTORES:
        _drop(s.env, getattr(s, store).sdb)
    keys = c24sub_keys(ops)
    steps = []
    for op in ops:
        res = c24sub_apply(s, op)
        snap = []
        for store in SUBSTORES:
            sub = getattr(s, store)
            row = []
            for k in keys:
                try:
                    row.append(_dser(sub, sub.get(k)))
                except Exception as ex:
                    row.append(classify(ex))
            snap.append(tuple(row))
        steps.append((res, tuple(snap)))
    return (tuple(steps), tuple(raw_items(s.env, getattr(s, store).sdb) for store in SUBSTORES))


def f39_pairs(keys, nvals):
    """pairs (k, k') of keys such that entries of k' can sort between the first possible entry of k
    (ordinal 0) and an entry of k with an ordinal < nvals: k' = k ++ sep ++ r with
    suffix(k,0) < suffix(k',0) < suffix(k,nvals)."""
    out = []
    for k in keys:
        for k2 in keys:
            if k2 != k and k2.startswith(k + SEP):
                lo, mid, hi = k + SEP + hexw(0), k2 + SEP + hexw(0), k + SEP + hexw(max(nvals, 1))
                if lo < mid < hi:
                    out.append((k, k2))
    return out


def c24_nvals(ops):
    n = 0
    for op in ops:
        if op[0] in ("add", "badadd"):
            n += 1
        elif op[0] in ("badput", "badpin"):
            n += len(op[2]) if len(op) > 2 else 1
        elif op[0] in ("put", "pin") and isinstance(op[2], (list, tuple)):
            n += len(op[2])
    return n


# ---------------------------------------------------------------------------
# C23: Durq / Dusq held in a Hold over a Subery, reopen between operations

def _dom_classes():
    """registered Dom classes of the harness: field-less markers (mutable and frozen) and classes whose instances are falsy"""
    if "domcls" not in _state:
        from dataclasses import dataclass
        from hio.help import RegDom, IceRegDom
        from hio.help.doming import registerify, namify

        def hsh(self):
            return hash((self.__class__.__name__,) + self._astuple())
        if "VMarker" in RegDom._registry:        # module imported twice in one process
            reg = {**RegDom._registry, **IceRegDom._registry}
            _state["domcls"] = tuple(reg[n] for n in ("VMarker", "VIceMarker", "VFalsy", "VSized"))
        else:
            VMarker = namify(registerify(dataclass(type("VMarker", (RegDom,), {"__hash__": hsh, "__annotations__": {}}))))
            VIceMarker = namify(registerify(dataclass(frozen=True)(type("VIceMarker", (IceRegDom,), {"__annotations__": {}}))))
            VFalsy = namify(registerify(dataclass(type("VFalsy", (RegDom,), {"__hash__": hsh, "__bool__": lambda self: False,
                                                                             "__annotations__": {"x": int}, "x": 0}))))
            VSized = namify(registerify(dataclass(type("VSized", (RegDom,), {"__hash__": hsh, "__len__": lambda self: 0,
                                                                             "__annotations__": {"x": int}, "x": 0}))))
            _state["domcls"] = (VMarker, VIceMarker, VFalsy, VSized)
    return _state["domcls"]


def _vals():
    if "vals" not in _state:
        from hio.base.hier import Bag, IceBag
        VMarker, VIceMarker, VFalsy, VSized = _dom_classes()
        _state["vals"] = [Bag(value=0), Bag(value=1), Bag(value=2), IceBag(value=1), Bag(value="a"),
                          # equal under == / hash to entry 1, different serialisations (F38):
                          Bag(value=1.0), Bag(value=True),
                          # field-less marker doms (mutable, frozen) and an empty-string value: truthy today
                          VMarker(), VIceMarker(), Bag(value=""),
                          # doms that ARE falsy (class defines __bool__ / __len__): known finding C23-K3, oracle-only
                          VFalsy(x=1), VSized(x=2)]
    return _state["vals"]


NVALS = 12
CLEAN = (0, 1, 2, 3, 4)        # pairwise different under ==, pairwise different serialisations
MARKERS = (7, 8, 9, 0, 1)      # field-less / empty-content values next to ordinary ones
FALSY = (10, 11)


INVALID = {-1: None, -2: "junk", -3: 7}      # arguments a Durq/Dusq must reject (push(None) is ignored) without any effect


def c23_val(i):
    """a FRESH object equal to table entry i on every call (equal-but-not-identical arguments)"""
    import copy
    return INVALID[i] if i < 0 else copy.deepcopy(_vals()[i])


def _scribble(v):
    """what a caller may do to an object it passed in or got back: Dusq promises copies, so nothing may change"""
    try:
        v.value = "scribbled"
    except Exception:
        pass                      # frozen (IceBag) or not a dom


class FakeHandle:
    """pyscript.storage-like handle: local writes, committed on sync()"""
    def __init__(self, backend, namespace):
        self.backend = backend
        self.namespace = namespace
        self._local = dict(backend.persisted.get(namespace, {}))

    def get(self, key, default=None):
        return self._local.get(key, default)

    def __getitem__(self, key):
        return self._local[key]

    def __setitem__(self, key, value):
        self._local[key] = value

    async def sync(self):
        self.backend.persisted[self.namespace] = dict(self._local)


class FakeBackend:
    def __init__(self):
        self.persisted = {}

    async def open(self, namespace):
        return FakeHandle(self, namespace)


class WebStore:
    """the browser sibling of Subery: a WebDuror over a scripted in-memory pyscript.storage with the same two subers"""
    STORES = (b"drqs.", b"dsqs.")

    def __init__(self, backend, duror=None):
        import asyncio
        from hio.base import WebDuror
        self.backend = backend
        self.db = duror if duror is not None else WebDuror(name="c23web", storageOpener=backend.open)
        if not asyncio.run(self.db.reopen(stores=self.STORES)):
            raise core.Infra("cannot open WebDuror")
        self.wire()

    def wire(self):
        from hio.base import during
        self.drqs = during.DomIoSuber(db=self.db, subkey="drqs.")
        self.dsqs = during.DomIoSetSuber(db=self.db, subkey="dsqs.")
        self.opened = self.db.opened
        self.env = None

    def close(self, how=0):
        """the three ways a session ends: await aclose(), flush() then close(), plain close()"""
        import asyncio
        if how % 3 == 0:
            asyncio.run(self.db.aclose())
        elif how % 3 == 1:
            asyncio.run(self.db.flush())
            self.db.close()
        else:
            self.db.close()

    def raw(self, sub):
        return tuple((bytes(k), bytes(v)) for k, v in sub.sdb.items.items())


def c23_open():
    from hio.base import during
    s = during.Subery(name="c23", headDirPath=_root(), reopen=True, temp=False, reuse=True)
    if not s.opened:
        raise core.Infra("cannot open lmdb scratch environment")
    _state["subery"] = s
    return s


def c23_ser(v):
    s = _state.get("subery") or c23_open()
    return bytes(s.dsqs._ser(v))


def c23_table():
    """[(eqid, serialisation)] for the value table: eqid = first index whose value is == """
    if "table" not in _state:
        vs = _vals()
        t = []
        for i, v in enumerate(vs):
            e = next(j for j in range(i + 1) if vs[j] == v and hash(vs[j]) == hash(v))
            t.append((e, c23_ser(v)))
        _state["table"] = t
    return _state["table"]


def _mk(kind, pre=None):
    """a fresh empty queue object, or one PRELOADED through its constructor (Durq(vals) / Dusq(vals))"""
    from hio.base.hier import Durq, Dusq
    cls = Durq if kind == "durq" else Dusq
    if pre is None:
        return cls()
    vals = [c23_val(i) for i in pre]          # caller-owned objects handed to the constructor
    obj = cls(vals)
    _state.setdefault("owned", []).extend(vals)
    return obj                                 # pre == "keep" is handled by the caller


NFORMS = 14


def build_hold(s, keys, objs, form):
    """a Hold over subery `s` holding objs at keys, the queues handed over in one of the accepted argument forms of
    Hold(...) / Hold.update(...) / item assignment (one-shot iterables included: each must be injected exactly once)"""
    from hio.base.hier import Hold
    pairs = list(zip(keys, objs))
    ident = [(k, o) for k, o in pairs if k.isidentifier()]
    rest = [(k, o) for k, o in pairs if not k.isidentifier()]
    form %= NFORMS
    if form == 0:
        hold = Hold(_hold_subery=s)
        for k, o in pairs:
            hold[k] = o
    elif form == 1:
        hold = Hold(_hold_subery=s)
        hold.update(dict(pairs))
    elif form == 2:
        hold = Hold(_hold_subery=s)
        hold.update(pairs)
    elif form == 3:
        hold = Hold(_hold_subery=s)
        hold.update(zip(keys, objs))
    elif form == 4:
        hold = Hold(_hold_subery=s)
        hold.update((k, o) for k, o in pairs)
    elif form == 5:
        hold = Hold(_hold_subery=s)
        hold.update(iter(pairs))
    elif form == 6:
        hold = Hold(_hold_subery=s)
        hold.update(**dict(ident))
        for k, o in rest:
            hold[k] = o
    elif form == 7:
        hold = Hold(_hold_subery=s)
        hold.update(iter(rest + ident[:1]), **dict(ident[1:]))
    elif form == 8:
        hold = Hold(dict(pairs), _hold_subery=s)
    elif form == 9:
        hold = Hold(pairs, _hold_subery=s)
    elif form == 10:
        hold = Hold(zip(keys, objs), _hold_subery=s)
    elif form == 11:
        hold = Hold(((k, o) for k, o in pairs), _hold_subery=s)
    elif form == 12:
        hold = Hold(iter(rest), _hold_subery=s, **dict(ident))
    else:
        hold = Hold(_hold_subery=s)
        hold.update({(tuple(k.split("_")) if "_" in k else k): o for k, o in pairs})     # tuple keys are joined with '_'
    return hold


def _observe(kind, s, hold, keys):
    out = []
    sdb = s.drqs if kind == "durq" else s.dsqs
    for k in keys:
        q = hold[k]
        try:
            got = list(q)
            mem = tuple(c23_ser(v) for v in got)
            if kind == "dusq":
                for v in got:
                    _scribble(v)
        except Exception as ex:
            mem = classify(ex)
        try:
            dur = tuple(bytes(sdb._ser(v)) for v in sdb.get(k))
        except Exception as ex:
            dur = classify(ex)
        out.append((mem, dur))
    return tuple(out)


def c23_run(case):
    from hio.base.hier import Hold
    kind, keys, ops = case
    web = kind.startswith("w")          # "wdurq" / "wdusq": the same history over WebDuror instead of the lmdb Duror
    kind = kind[1:] if web else kind
    keys = [k.decode() for k in keys]
    vs = _vals()
    if web:
        c23_ser(vs[0])                  # make sure the value table exists (needs the lmdb subery once)
        s = WebStore(FakeBackend())
        raw = s.raw
    else:
        s = _state.get("subery")
        if s is None or not s.opened:
            s = c23_open()
        _drop(s.env, s.drqs.sdb)
        _drop(s.env, s.dsqs.sdb)
        raw = lambda sub: raw_items(s.env, sub.sdb)      # noqa: E731
    # the sibling sub-db of the other kind holds values at the SAME keys: nothing a case does may touch them
    other = s.dsqs if kind == "durq" else s.drqs
    for k in keys:
        other.put(k, [_vals()[0], _vals()[1]])
    sentinel = raw(other)
    form0 = len(ops) + 3 * len(keys)
    handed = {i: [] for i in range(len(keys))}      # per queue: the caller's own objects it has handed over so far
    _state["nup"] = len(ops)
    hold = build_hold(s, keys, [_mk(kind) for _ in keys], form0)
    steps = []
    nre = 0
    for op in ops:
        name = op[0]
        try:
            if name == "reopen":
                nre += 1
                old = {k: hold[k] for k in keys}
                if web:
                    s.close(how=nre + len(ops))
                    s = WebStore(s.backend, duror=(None if nre % 2 else s.db))     # a new / the same WebDuror object
                    raw = s.raw
                else:
                    s.close()
                    if nre % 2:
                        s = c23_open()               # a new Subery object on the same directory
                    else:
                        s.reopen(reuse=True)         # the SAME Subery object opened again
                        _state["subery"] = s
                        if not s.opened:
                            raise core.Infra("Subery.reopen failed")
                    raw = lambda sub, s=s: raw_items(s.env, sub.sdb)      # noqa: E731
                pres = op[1] if len(op) > 1 else [None] * len(keys)
                # "keep": the same queue object goes into the new Hold
                objs = []
                for qi, (k, pre) in enumerate(zip(keys, pres)):
                    _state["owned"] = []
                    objs.append(old[k] if pre == "keep" else _mk(kind, pre))
                    handed[qi].extend(_state["owned"])
                    if kind == "dusq":      # the caller goes on using the objects it preloaded the set with
                        for v in _state["owned"]:
                            _scribble(v)
                hold = build_hold(s, keys, objs, form0 + nre)
                res = True
            else:
                q = hold[keys[op[1]]]
                if name == "push":
                    arg = c23_val(op[2])
                    handed[op[1]].append(arg)
                    res = q.push(arg)
                    if kind == "dusq":
                        _scribble(arg)
                elif name == "pull":
                    res = q.pull()
                elif name == "pullx":
                    res = q.pull(emptive=False)
                elif name == "extend":
                    vals = [c23_val(i) for i in op[2]]
                    handed[op[1]].extend(vals)
                    if kind == "durq":
                        res = q.extend(vals)
                    else:                   # the documented `deep` flag, default and both explicit values
                        nup = _state["nup"] = _state.get("nup", 0) + 1
                        res = q.update(vals) if nup % 3 == 0 else q.update(vals, deep=(nup % 3 == 1))
                    if kind == "dusq":
                        for v in vals:
                            _scribble(v)
                elif name == "sync":
                    res = q.sync(force=bool(op[2]))
                elif name == "scribble":        # the caller mutates every object of its own that it ever handed to this queue
                    for v in handed[op[1]]:
                        _scribble(v)
                    res = None
                elif name == "clear":
                    res = q.clear()
                elif name == "remove" and kind == "dusq":
                    res = q.remove(c23_val(op[2]))
                elif name == "count" and kind == "durq":
                    res = q.count(c23_val(op[2]))
                else:
                    raise core.Infra(f"bad op {op!r} for {kind}")
            if not (res is None or isinstance(res, (bool, int))):
                got = res
                res = c23_ser(got)
                if kind == "dusq":
                    _scribble(got)
        except core.Infra:
            raise
        except Exception as ex:
            res = classify(ex)
        steps.append((res, _observe(kind, s, hold, keys)))
    other = s.dsqs if kind == "durq" else s.drqs
    if raw(other) != sentinel:
        steps.append((("unexpected", "sibling-subdb-changed"), ()))
    if web:
        s.close(how=0)
    return tuple(steps)


# ---------------------------------------------------------------------------
# generators

def adversarial_keys(rng, n):
    """a key set of size <= n biased to the corners of the suffix encoding"""
    alpha = [b"a", b"b", b"k", b"0", b"f", b"-", b"/", b".", b"00", b"a.b", b"\xc3\xa9"]
    base = rng.choice(alpha[:6]) + rng.choice([b"", b"", b"x", b"0", b"."])
    cands = [base]
    r = rng.random
    o = rng.choice([0, 0, 1, 1, 2, 3, 10, 15, 16])
    cands += [
        base + SEP + hexw(o),                    # looks exactly like an entry of base (F39)
        base + SEP + hexw(o) + SEP + hexw(0),    # nested twice
        base + SEP + hexw(o)[:31],               # one digit short: sorts before every entry of base
        base + SEP + hexw(o) + b"0",             # one digit long
        base + SEP + hexw(o).upper().replace(b"0", b"0"),
        base + SEP,                              # ends with the separator
        base + SEP + b"x",                       # ordinary child key
        base + SEP + b"0",                       # child starting with a suffix character
        base + b"-", base + b"/", base + b"0",   # neighbours of '.' in byte order and a suffix char
        base[:-1] if len(base) > 1 else b"",     # proper prefix (possibly the empty key)
        base + base,
        hexw(o),                                 # a bare 32-hex key
        b"",                                     # empty apparent key (legal for the io kinds)
        rng.choice(alpha) + rng.choice(alpha),
        base + "\u00a0".encode(), base + "\uffff".encode(), base + SEP + "\u00e9".encode(), "\u0100".encode() + base,   # non-ASCII (multi-byte, bytes > 0x7f sort above everything)
        base + b"|", base + b".|" + hexw(0),       # the alternative separator
    ]
    k = rng.randrange(1, n + 1)
    out = [base]
    pool = cands[1:]
    rng.shuffle(pool)
    if r() < 0.3:
        out.append(cands[1])
    for c in pool:
        if len(out) >= k:
            break
        if c not in out:
            out.append(c)
    return out


VALS24 = [b"v0", b"v1", b"v2", b"", b"a.b", hexw(1), b"\xc3\xa9", b"v0."]
