"""Shared Python for the scheduler family (package Sched: C01 C02 C05 C06, later C03 C04 C30).

Case (plain literal, replayable):
  ("run", tock, start, limit, pool, specs)
     tock, start : float;  limit : float | None (the code takes abs);  pool, specs : [Spec]
  Spec = ("leaf", id, shape, act, steps) | ("group", id, tock, always, kids, pool)
     shape in SHAPES; act = "ok" | "fail" | ("done", v);  v in (None, True, False)
     steps = [(ops, out)]; ops = [("extend", [pool index..]) | ("remove", [id..])]
     out = ("yield", t | None) | ("ret", v) | "raise" | "kbint"
     a leaf whose steps are used up returns True.
  Ops act on the doer's OWN scheduler (the Doist for top level / Doist pool, the enclosing DoDoer otherwise);
  extend indices refer to that scheduler's pool.  The Doist has id 0.

Observation (run_program):
  dict(trace=[(id, kind, tyme[, ids])], late=[...events after do() returned (GC closes)...],
       flags=[(id, bool(done))] for every id of the program in increasing id order,
       done=bool(doist.done), tyme=doist.tyme, raised="-"|"err"|"kbint"|"other:<Class>", doers=[ids of doist.doers])
  kinds: enter recur clean cease abort exit exitEnd (lifecycle; exitEnd = DoDoer.exit() returned)
         rmBeg rmEnd (a remove() call on scheduler id), stopBeg stopEnd (Doist.exit() in do()),
         doers (snapshot of scheduler `id`'s doers list after an op returned; 4th field = ids),
         recurBad (a recur whose sent tyme differs from tymth()).
"""
import gc

from .. import core, sx

SHAPES = ("plain", "genrecur", "doify", "doize", "bound")
LIFE = ("enter", "recur", "clean", "cease", "abort", "exit")
FUEL = 2000


class SchedErr(Exception):
    pass


# --------------------------------------------------------------------------- spec helpers

def sid_of(s):
    return s[1]


def walk(specs, parent=0):
    """yield (spec, scheduler id it belongs to, in_pool) for every spec in the forest"""
    for s in specs:
        yield s, parent, False
        if s[0] == "group":
            yield from walk(s[4], s[1])
            for x in walk(s[5], s[1]):
                yield (x[0], x[1], True if x[1] == s[1] and x[0] in s[5] else x[2])


def all_specs(case):
    _, tock, start, limit, pool, specs = case
    out = list(walk(specs, 0))
    for x in walk(pool, 0):
        out.append((x[0], x[1], True if (x[1] == 0 and x[0] in pool) else x[2]))
    return out


def all_ids(case):
    return sorted(s[1] for s, _, _ in all_specs(case))


def parent_map(case):
    return {s[1]: p for s, p, _ in all_specs(case)}


def shape_ok(spec):
    """can this leaf script be expressed in its Python shape?"""
    _, _, shape, act, steps = spec
    if shape != "plain":
        return True
    if isinstance(act, tuple) and act[1] is not True:
        return False
    for ops, out in steps:
        if isinstance(out, tuple):
            if out[0] == "yield" and (out[1] is None or out[1] < 0):
                return False
            if out[0] == "ret" and out[1] is not True:
                return False
    return True


# --------------------------------------------------------------------------- S-expr request

def _v(v):
    return v


def sx_spec(s):
    if s[0] == "leaf":
        _, i, shape, act, steps = s
        a = act if isinstance(act, str) else ("done", act[1])
        st = []
        for ops, out in steps:
            o = out if isinstance(out, str) else (
                ("yield", None if out[1] is None else sx.F(out[1])) if out[0] == "yield" else ("ret", out[1]))
            st.append(([(op[0],) + tuple(op[1]) for op in ops], o))
        return ("leaf", i, shape, a, st)
    _, i, tock, always, kids, pool = s
    return ("group", i, sx.F(tock), bool(always), [sx_spec(k) for k in kids], [sx_spec(k) for k in pool])


def request(case, fuel=FUEL):
    _, tock, start, limit, pool, specs = case
    return ("run", ("tock", sx.F(tock)), ("start", sx.F(start)),
            ("limit", None if limit is None else sx.F(abs(float(limit)))), ("fuel", fuel),
            ("pool", [sx_spec(s) for s in pool]), ("specs", [sx_spec(s) for s in specs]))


def obs_view(obs):
    """the reply the model driver must produce for this observation"""
    tr = []
    for e in obs["trace"]:
        if e[1] == "doers":
            tr.append((e[0], "doers", sx.F(e[2]), list(e[3])))
        else:
            tr.append((e[0], e[1], sx.F(e[2])))
    return (("trace", tr), ("late", len(obs["late"])), ("flags", [(i, b) for i, b in obs["flags"]]),
            ("done", obs["done"]), ("tyme", sx.F(obs["tyme"])), ("raised", None if obs["raised"] == "-" else obs["raised"]),
            ("doers", list(obs["doers"])))


# --------------------------------------------------------------------------- building the real doers

class Rec:
    def __init__(self):
        self.log = []
        self.obj = {}       # id -> python doer object
        self.pools = {}     # scheduler id -> [objects]
        self.sched = {}     # scheduler id -> scheduler object

    def ev(self, i, kind, tyme, *extra):
        self.log.append((i, kind, tyme) + extra)


class Leaf:
    """script interpreter shared by the five shapes"""

    def __init__(self, rec, spec, sid):
        self.rec = rec
        self.id = spec[1]
        self.act = spec[3]
        self.steps = spec[4]
        self.sid = sid

    def run_ops(self, ops, tyme):
        s = self.rec.sched[self.sid]
        for op in ops:
            if op[0] == "extend":
                pool = self.rec.pools[self.sid]
                s.extend([pool[k] for k in op[1] if 0 <= k < len(pool)])
            else:
                s.remove([self.rec.obj[i] for i in op[1] if i in self.rec.obj])
            self.rec.ev(self.sid, "doers", tyme(), tuple(self.ids_of(s.doers)))

    def ids_of(self, doers):
        return [next((i for i, o in self.rec.obj.items() if o == d), -1) for d in doers]

    def step(self, pos, sent, tyme):
        """returns ("yield", t) | ("ret", v); raises for raise/kbint"""
        self.rec.ev(self.id, "recur" if sent == tyme() else "recurBad", tyme())
        ops, out = self.steps[pos] if pos < len(self.steps) else ([], ("ret", True))
        self.run_ops(ops, tyme)
        if out == "raise":
            raise SchedErr(f"doer {self.id}")
        if out == "kbint":
            raise KeyboardInterrupt()
        return out


def _genfn(L):
    """generator function with the canonical lifecycle skeleton (used by doify / doize / bound)"""
    def fn(tymth=None, tock=0.0, **opts):
        rec, i = L.rec, L.id
        done = None
        try:
            rec.ev(i, "enter", tymth())
            if L.act == "fail":
                raise SchedErr(f"enter {i}")
            if isinstance(L.act, tuple):
                done = L.act[1]
            else:
                sent = yield tock
                pos = 0
                while True:
                    out = L.step(pos, sent, tymth)
                    pos += 1
                    if out[0] == "ret":
                        done = out[1]
                        break
                    sent = yield out[1]
        except GeneratorExit:
            rec.ev(i, "cease", tymth())
        except Exception:
            rec.ev(i, "abort", tymth())
            raise
        else:
            rec.ev(i, "clean", tymth())
        finally:
            rec.ev(i, "exit", tymth())
        return done
    return fn


def build_leaf(rec, spec, sid):
    from hio.base import doing
    L = Leaf(rec, spec, sid)
    shape = spec[2]
    if shape in ("plain", "genrecur"):
        class Life(doing.Doer):
            def enter(self, *, temp=None):
                self.pos = 0
                rec.ev(L.id, "enter", self.tyme)
                if L.act == "fail":
                    raise SchedErr(f"enter {L.id}")
                if shape == "plain" and isinstance(L.act, tuple):
                    self.done = L.act[1]

            def clean(self):
                rec.ev(L.id, "clean", self.tyme)

            def cease(self):
                rec.ev(L.id, "cease", self.tyme)

            def abort(self, ex):
                rec.ev(L.id, "abort", self.tyme)

            def exit(self):
                rec.ev(L.id, "exit", self.tyme)

        if shape == "plain":
            class D(Life):
                def recur(self, tyme):
                    out = L.step(self.pos, tyme, self.tymth)
                    self.pos += 1
                    if out[0] == "ret":
                        return out[1]
                    self.tock = out[1]
                    return False
        else:
            class D(Life):
                def recur(self, tock=None):
                    if isinstance(L.act, tuple):
                        return L.act[1]
                    sent = yield tock
                    pos = 0
                    while True:
                        out = L.step(pos, sent, self.tymth)
                        pos += 1
                        if out[0] == "ret":
                            return out[1]
                        sent = yield out[1]
        return D()
    fn = _genfn(L)
    if shape == "doify":
        return doing.doify(fn, name=f"d{L.id}")
    if shape == "doize":
        return doing.doize()(fn)
    if shape == "bound":
        class Holder:
            def run(self, tymth=None, tock=0.0, **opts):
                return (yield from fn(tymth=tymth, tock=tock, **opts))
        return doing.doify(Holder().run, name=f"m{L.id}")
    raise core.Infra(f"unknown shape {shape}")


def build_group(rec, spec):
    from hio.base import doing
    _, gid, tock, always, kids, pool = spec

    class G(doing.DoDoer):
        def enter(self, doers=None, *, temp=None):
            if doers is None:
                rec.ev(gid, "enter", self.tyme)
            return super().enter(doers=doers, temp=temp)

        def recur(self, tyme, deeds=None):
            rec.ev(gid, "recur" if tyme == self.tyme else "recurBad", self.tyme)
            return super().recur(tyme, deeds=deeds)

        def clean(self):
            rec.ev(gid, "clean", self.tyme)

        def cease(self):
            rec.ev(gid, "cease", self.tyme)

        def abort(self, ex):
            rec.ev(gid, "abort", self.tyme)

        def exit(self, deeds=None):
            if deeds is None:
                rec.ev(gid, "exit", self.tyme)
                try:
                    super().exit()
                finally:
                    rec.ev(gid, "exitEnd", self.tyme)
            else:
                super().exit(deeds=deeds)

        def remove(self, doers):
            rec.ev(gid, "rmBeg", self.tyme)
            super().remove(doers)
            rec.ev(gid, "rmEnd", self.tyme)

    g = G(doers=[build(rec, k, gid) for k in kids], always=always, tock=tock)
    rec.pools[gid] = [build(rec, k, gid) for k in pool]
    rec.sched[gid] = g
    return g


def build(rec, spec, sid):
    o = build_leaf(rec, spec, sid) if spec[0] == "leaf" else build_group(rec, spec)
    rec.obj[spec[1]] = o
    return o


def make_doist(rec, tock, start, limit):
    from hio.base import doing

    class TDoist(doing.Doist):
        def exit(self, deeds=None):
            if deeds is None:
                rec.ev(0, "stopBeg", self.tyme)
                try:
                    super().exit()
                finally:
                    rec.ev(0, "stopEnd", self.tyme)
            else:
                super().exit(deeds=deeds)

        def remove(self, doers):
            rec.ev(0, "rmBeg", self.tyme)
            super().remove(doers)
            rec.ev(0, "rmEnd", self.tyme)

    return TDoist(tock=tock, tyme=start, limit=limit, real=False)


def run_program(case, mode="do"):
    """run the REAL scheduler on the case; mode "do" (blocking loop) or "ado" (asyncio)"""
    core.assert_tree()
    _, tock, start, limit, pool, specs = case
    rec = Rec()
    doist = make_doist(rec, tock, start, limit)
    rec.sched[0] = doist
    doers = [build(rec, s, 0) for s in specs]
    rec.pools[0] = [build(rec, s, 0) for s in pool]
    raised = "-"
    n = None
    gc_was = gc.isenabled()
    gc.disable()
    try:
        try:
            if mode == "do":
                doist.do(doers=doers)
            else:
                import asyncio
                loop = asyncio.SelectorEventLoop()
                try:
                    loop.run_until_complete(doist.ado(doers=doers))
                finally:
                    loop.close()
            n = len(rec.log)
        except SchedErr:
            n = len(rec.log)       # before the traceback (and the frames it keeps alive) is released
            raised = "err"
        except KeyboardInterrupt:
            n = len(rec.log)
            raised = "kbint"
        except Exception as ex:
            n = len(rec.log)
            raised = "other:" + type(ex).__name__
        gc.collect()
    finally:
        if gc_was:
            gc.enable()
    ids = sorted(rec.obj)
    leaf0 = Leaf(rec, ("leaf", -1, "doify", "ok", []), 0)
    return dict(trace=rec.log[:n], late=rec.log[n:],
                flags=[(i, bool(rec.obj[i].done)) for i in ids],
                done=bool(doist.done), tyme=doist.tyme, raised=raised,
                doers=leaf0.ids_of(doist.doers))


# --------------------------------------------------------------------------- generators

TOCKS = (0.03125, 0.1, 0.25, 0.5, 1.0)
STARTS = (0.0, 0.0, 0.0, 1.0, 2.5, 0.3)


class _Gen:
    def __init__(self, rng, profile):
        self.rng = rng
        self.profile = profile
        self.next_id = 1
        self.tock = rng.choice(TOCKS)
        self.p_ops = {"mixed": 0.15, "ops": 0.45, "faults": 0.08, "time": 0.0, "plain": 0.0}[profile]
        self.p_fault = {"mixed": 0.08, "ops": 0.05, "faults": 0.22, "time": 0.0, "plain": 0.0}[profile]
        self.always = False

    def nid(self):
        self.next_id += 1
        return self.next_id - 1

    def ytock(self):
        r, t = self.rng, self.tock
        k = r.random()
        if k < 0.35:
            return 0.0
        if k < 0.45:
            return None
        return r.choice([t / 2, t, 1.5 * t, 2 * t, 3 * t, 0.1, 0.3, 0.25, 5 * t])

    def retv(self):
        return self.rng.choice([True, True, None, False])

    def leaf(self, sibs, npool, in_pool, allow_ops=True):
        """sibs: ids this doer may name in remove (members of its scheduler incl. itself, pool ids)"""
        r = self.rng
        i = self.nid()
        act = "ok"
        k = r.random()
        if k < self.p_fault / 2:
            act = "fail"
        elif k < self.p_fault / 2 + 0.06:
            act = ("done", self.retv())
        steps = []
        n = r.choice([0, 1, 2, 3, 3, 4, 5, 6])
        for j in range(n):
            ops = []
            if allow_ops and r.random() < self.p_ops:
                for _ in range(r.choice([1, 1, 1, 2])):
                    if npool and r.random() < 0.5:
                        ks = [r.randrange(npool) for _ in range(r.choice([1, 1, 2, 3]))]
                        if r.random() < 0.1:
                            ks.append(npool + 1)      # out of range index: ignored by the builder
                        ops.append(("extend", ks))
                    else:
                        cand = [x for x in sibs() if not (in_pool and x == i)]
                        if in_pool is False and r.random() < 0.2:
                            cand.append(i)
                        if cand:
                            ids = [r.choice(cand) for _ in range(r.choice([1, 1, 2, 3]))]
                            ops.append(("remove", ids))
            k = r.random()
            if k < self.p_fault:
                out = "raise" if r.random() < 0.8 else "kbint"
            elif j == n - 1 and k < 0.6:
                out = ("ret", self.retv())
            else:
                out = ("yield", self.ytock())
            steps.append((ops, out))
            if out in ("raise", "kbint") or out[0] == "ret":
                break
        spec = ("leaf", i, "doify", act, steps)
        shapes = [s for s in SHAPES if shape_ok(("leaf", i, s, act, steps))]
        return ("leaf", i, r.choice(shapes), act, steps)

    def group(self, depth, in_pool, allow_ops=True):
        r = self.rng
        g = self.nid()
        tock = r.choice([0.0, 0.0, 0.0, self.tock, 2 * self.tock, 0.1])
        always = r.random() < 0.2
        self.always = self.always or always
        kids, pool = self.members(depth + 1, r.choice([0, 1, 2, 2, 3, 4]), r.choice([0, 0, 1, 2]) if allow_ops and self.p_ops else 0,
                                  allow_ops and not in_pool)
        return ("group", g, tock, always, kids, pool)

    def members(self, depth, nk, npool, allow_ops=True):
        r = self.rng
        ids = []
        sibs = lambda: list(ids)
        kinds = ["g" if (depth < 3 and r.random() < 0.25) else "l" for _ in range(nk + npool)]
        out = []
        for n, kd in enumerate(kinds):
            in_pool = n >= nk
            if kd == "g":
                s = self.group(depth, in_pool, allow_ops)
            else:
                s = self.leaf(sibs, npool, in_pool, allow_ops)
            out.append(s)
        ids.extend(s[1] for s in out)
        return out[:nk], out[nk:]


def gen_case(rng, profile="mixed"):
    g = _Gen(rng, profile)
    nk = rng.choice([1, 2, 3, 3, 4, 5])
    npool = rng.choice([0, 1, 2, 3]) if g.p_ops else 0
    specs, pool = g.members(0, nk, npool)
    t = g.tock
    limits = [0.0, t / 2, t, 2.5 * t, 3 * t, 0.3, 1.0, -2 * t, 7 * t, 12 * t]
    if g.always or rng.random() < 0.5:
        limit = rng.choice(limits)
    else:
        limit = None
    return ("run", t, rng.choice(STARTS), limit, pool, specs)
