"""Shared Python for the scheduler family (package Sched: C01 C02 C05 C06, later C03 C04 C30).

Case (plain literal, replayable):
  ("run", tock, start, limit, pool, specs)
     tock, start : float;  limit : float | None (the code takes abs);  pool, specs : [Spec]
  Spec = ("leaf", id, shape, act, steps) | ("group", id, tock, always, kids, pool)
     shape in SHAPES; act = "ok" | "fail" | ("done", v);  v in (None, True, False)
     steps = [(ops, out)]; ops = [("extend", [pool index..]) | ("remove", [id..])]
     out = ("yield", t | None) | ("ret", v) | "raise" | "kbint"
     a leaf whose steps are used up returns True.
     further outs: "sysexit" (raise SystemExit; in the MODEL it is the same kind as kbint = "BaseException that is
     not an Exception": identical trace, only do() re-raises it — the adapter reports which).
     IMPLEMENTATION-SIDE ONLY (the model driver answers `(unmodelled)`, see unmodelled()): act "kbint" / "sysexit"
     (BaseException raised by enter) and pseudo steps (ops, "oncease") / (ops, "onexit") = scheduler ops the doer
     issues from its cease / exit action (re-entrant forced shutdown);
     op ("xextend", [gid, k..]) / ("xremove", [gid, id..]) = the doer calls extend() / remove() on ANOTHER scheduler (DoDoer gid);
     ops ("remove*", []) / ("extend*", []) = remove(sched.doers) / extend(sched.doers): the ARGUMENT is the scheduler's own live
     list (modelled: `expand_star` turns them into remove of every member id / extend of nothing);
     extras ("viaopts", [gids]): those DoDoers get their doers through do(doers=…) (opts) instead of the constructor;
     extras ("doistctor", [1]): the Doist gets its doers in the constructor and do() is called without doers (both modelled);
     a 7th case field `extras` = (("cleanfail", [ids]), ("supervisors", [sids])): the clean action of the `cleanfail` doers
     (leaf or DoDoer) raises; the `supervisors` (DoDoer ids, 0 = the Doist) are scheduler SUBCLASSES whose recur() override
     catches an Exception raised by a child and carries on (implementation-side only).
  Ops act on the doer's OWN scheduler (the Doist for top level / Doist pool, the enclosing DoDoer otherwise);
  extend indices refer to that scheduler's pool.  The Doist has id 0.

Observation (run_program):
  dict(trace=[(id, kind, tyme[, ids])], late=[...events after do() returned (GC closes)...],
       flags=[(id, bool(done))] for every id of the program in increasing id order,
       done=bool(doist.done), tyme=doist.tyme, raised="-"|"err"|"kbint"|"other:<Class>", doers=[ids of doist.doers])
  kinds: enter recur clean cease abort exit exitEnd (lifecycle; exitEnd = DoDoer.exit() returned)
         rmBeg rmEnd (a remove() call on scheduler id), stopBeg stopEnd (Doist.exit() in do()),
         doers (snapshot of scheduler `id`'s doers list after an op returned; 4th field = ids),
         recurBad (a recur whose sent tyme differs from tymth()).
"""
import gc

from .. import core, sx

SHAPES = ("plain", "genrecur", "doify", "doize", "bound")
LIFE = ("enter", "recur", "clean", "cease", "abort", "exit")
FUEL = 2000


class SchedErr(Exception):
    pass


class Runaway(BaseException):
    """the real run does not terminate where the case guarantees termination (only under a broken tree)"""


MAX_EVENTS = 6000
MAX_CYCLES = FUEL


# --------------------------------------------------------------------------- spec helpers

def sid_of(s):
    return s[1]


def walk(specs, parent=0):
    """yield (spec, scheduler id it belongs to, in_pool) for every spec in the forest"""
    for s in specs:
        yield s, parent, False
        if s[0] == "group":
            yield from walk(s[4], s[1])
            for x in walk(s[5], s[1]):
                yield (x[0], x[1], True if x[1] == s[1] and x[0] in s[5] else x[2])


def all_specs(case):
    _, tock, start, limit, pool, specs = case[:6]
    out = list(walk(specs, 0))
    for x in walk(pool, 0):
        out.append((x[0], x[1], True if (x[1] == 0 and x[0] in pool) else x[2]))
    return out


def all_ids(case):
    return sorted(s[1] for s, _, _ in all_specs(case))


def parent_map(case):
    return {s[1]: p for s, p, _ in all_specs(case)}


def shape_ok(spec):
    """can this leaf script be expressed in its Python shape?"""
    _, _, shape, act, steps = spec
    if shape != "plain":
        return True
    if isinstance(act, tuple) and act[1] is not True:
        return False
    for ops, out in steps:
        if isinstance(out, tuple):
            if out[0] == "yield" and (out[1] is None or out[1] < 0):
                return False
            if out[0] == "ret" and out[1] is not True:
                return False
    return True


# --------------------------------------------------------------------------- S-expr request

def _v(v):
    return v


def sx_spec(s):
    if s[0] == "leaf":
        _, i, shape, act, steps = s
        a = act if isinstance(act, str) else ("done", act[1])
        st = []
        for ops, out in steps:
            o = out if isinstance(out, str) else (
                ("yield", None if out[1] is None else sx.F(out[1])) if out[0] == "yield" else ("ret", out[1]))
            st.append(([(op[0],) + tuple(op[1]) for op in ops], o))
        return ("leaf", i, shape, a, st)
    _, i, tock, always, kids, pool = s
    return ("group", i, sx.F(tock), bool(always), [sx_spec(k) for k in kids], [sx_spec(k) for k in pool])


CLOSE_OUTS = ("oncease", "onexit")


def unmodelled(case):
    """cases the Lean model does not cover: ops issued from close actions, BaseException raised by an enter"""
    if extras_of(case, "supervisors") or extras_of(case, "cancel"):
        return True
    for s, _, _ in all_specs(case):
        if s[0] == "leaf":
            if has_op(s, "xextend") or has_op(s, "xremove"):
                return True
            # close-time ops of a doer that ends during its own enter are not modelled (and not generated)
            if s[3] != "ok" and any(o in CLOSE_OUTS for _, o in s[4]):
                return True
    return False


def model3(case):
    """cases with scheduler ops issued from cease / exit actions: third-generation model (HioModel/Sched/Model3.lean)"""
    return any(s[0] == "leaf" and any(o in CLOSE_OUTS for _, o in s[4]) for s, _, _ in all_specs(case))


CLOSE_FUEL = 400


def sx_spec3(s, cf):
    if s[0] == "leaf":
        _, i, shape, act, steps = s
        a = act if isinstance(act, str) else ("done", act[1])
        st, co, eo = [], [], []
        for ops, out in steps:
            sops = [(op[0],) + tuple(op[1]) for op in ops]
            if out == "oncease":
                co += sops
                continue
            if out == "onexit":
                eo += sops
                continue
            o = out if isinstance(out, str) else (
                ("yield", None if out[1] is None else sx.F(out[1])) if out[0] == "yield" else ("ret", out[1]))
            st.append((sops, o))
        return ("leaf", i, shape, a, st, i in cf, co, eo)
    _, i, tock, always, kids, pool = s
    return ("group", i, sx.F(tock), bool(always), [sx_spec3(k, cf) for k in kids], [sx_spec3(k, cf) for k in pool], i in cf)


def model2(case):
    """cases carrying script data only the second-generation model (HioModel/Sched/Model2.lean) has:
    exception kinds (SystemExit at a step, KeyboardInterrupt/SystemExit raised by an enter), a clean action that raises"""
    if extras_of(case, "cleanfail"):
        return True
    for s, _, _ in all_specs(case):
        if s[0] == "leaf" and (s[3] in ("kbint", "sysexit") or any(o == "sysexit" for _, o in s[4])):
            return True
    return False


def sx_spec2(s, cf):
    if s[0] == "leaf":
        _, i, shape, act, steps = s
        a = act if isinstance(act, str) else ("done", act[1])
        st = []
        for ops, out in steps:
            o = out if isinstance(out, str) else (
                ("yield", None if out[1] is None else sx.F(out[1])) if out[0] == "yield" else ("ret", out[1]))
            st.append(([(op[0],) + tuple(op[1]) for op in ops], o))
        return ("leaf", i, shape, a, st, i in cf)
    _, i, tock, always, kids, pool = s
    return ("group", i, sx.F(tock), bool(always), [sx_spec2(k, cf) for k in kids], [sx_spec2(k, cf) for k in pool], i in cf)


def extras_of(case, key):
    for k, v in (case[6] if len(case) > 6 else ()):
        if k == key:
            return list(v)
    return []


def raises_bexc(spec):
    """a leaf below (or at) spec can raise KeyboardInterrupt / SystemExit"""
    if spec[0] == "leaf":
        return spec[3] in ("kbint", "sysexit") or any(o in ("kbint", "sysexit") for _, o in spec[4])
    return any(raises_bexc(k) for k in spec[4]) or any(raises_bexc(k) for k in spec[5])


def enter_bexc(spec):
    """entering this spec can raise KeyboardInterrupt / SystemExit"""
    if spec[0] == "leaf":
        return spec[3] in ("kbint", "sysexit")
    return any(enter_bexc(k) for k in spec[4])


def expand_star(case):
    """("remove*", []) -> ("remove", [every member id of the doer's scheduler: kids then pool]);  ("extend*", []) -> ("extend", [])"""
    if not any(s[0] == "leaf" and any(op[0].endswith("*") for ops, _ in s[4] for op in ops) for s, _, _ in all_specs(case)):
        return case

    def fix(specs, members):
        out = []
        for s in specs:
            if s[0] == "leaf":
                steps = [([("remove", list(members)) if op[0] == "remove*" else ("extend", []) if op[0] == "extend*" else op for op in ops], o)
                         for ops, o in s[4]]
                out.append(("leaf", s[1], s[2], s[3], steps))
            else:
                m = [x[1] for x in s[4]] + [x[1] for x in s[5]]
                out.append(("group", s[1], s[2], s[3], fix(s[4], m), fix(s[5], m)))
        return out
    _, tock, start, limit, pool, specs = case[:6]
    m0 = [x[1] for x in specs] + [x[1] for x in pool]
    return ("run", tock, start, limit, fix(pool, m0), fix(specs, m0)) + tuple(case[6:])


def request(case, fuel=FUEL):
    case = expand_star(case)
    if unmodelled(case):
        return ("unmodelled",)
    _, tock, start, limit, pool, specs = case[:6]
    if model3(case):
        cf = set(extras_of(case, "cleanfail"))
        return ("run3", ("tock", sx.F(tock)), ("start", sx.F(start)),
                ("limit", None if limit is None else sx.F(abs(float(limit)))), ("fuel", fuel), ("cfuel", CLOSE_FUEL),
                ("pool", [sx_spec3(s, cf) for s in pool]), ("specs", [sx_spec3(s, cf) for s in specs]))
    if model2(case):
        cf = set(extras_of(case, "cleanfail"))
        return ("run2", ("tock", sx.F(tock)), ("start", sx.F(start)),
                ("limit", None if limit is None else sx.F(abs(float(limit)))), ("fuel", fuel),
                ("pool", [sx_spec2(s, cf) for s in pool]), ("specs", [sx_spec2(s, cf) for s in specs]))
    return ("run", ("tock", sx.F(tock)), ("start", sx.F(start)),
            ("limit", None if limit is None else sx.F(abs(float(limit)))), ("fuel", fuel),
            ("pool", [sx_spec(s) for s in pool]), ("specs", [sx_spec(s) for s in specs]))


def obs_view(obs):
    """the reply the model driver must produce for this observation"""
    if obs.get("unmodelled"):
        return ("unmodelled",)
    tr = []
    for e in obs["trace"]:
        if e[1] == "doers":
            tr.append((e[0], "doers", sx.F(e[2]), list(e[3])))
        else:
            tr.append((e[0], e[1], sx.F(e[2])))
    return (("trace", tr), ("late", len(obs["late"])), ("flags", [(i, b) for i, b in obs["flags"]]),
            ("done", obs["done"] if isinstance(obs.get("done_raw", obs["done"]), bool) else "notbool"), ("tyme", sx.F(obs["tyme"])), ("raised", None if obs["raised"] == "-" else obs["raised"]),
            ("doers", list(obs["doers"])))


# --------------------------------------------------------------------------- building the real doers

class Rec:
    def __init__(self):
        self.log = []
        self.obj = {}       # id -> python doer object
        self.pools = {}     # scheduler id -> [objects]
        self.sched = {}     # scheduler id -> scheduler object
        self.cleanfail = set()   # ids whose clean action raises
        self.built_always = {}   # DoDoer id -> the `always` it was constructed with (run sequences)
        self.viaopts = set()     # DoDoer ids that get their doers through do(doers=...) instead of the constructor
        self.clock = None        # SimClock of a real=True run
        self.supervisors = set() # scheduler ids whose recur() override catches the exceptions of their children
        self.rosters = {}        # scheduler id -> the very list object handed to DoDoer(doers=) / do(doers=): the caller's
                                 # own roster, which the caller keeps up to date (it must NOT be aliased by the scheduler)
        self.dead = False   # set once a Runaway has been reported: later events (GC closes) are dropped
        self.cycles = 0

    def ev(self, i, kind, tyme, *extra):
        if self.dead:
            return
        if len(self.log) >= MAX_EVENTS:
            raise Runaway("too many events")
        self.log.append((i, kind, tyme) + extra)


class Leaf:
    """script interpreter shared by the five shapes"""

    def __init__(self, rec, spec, sid):
        self.rec = rec
        self.id = spec[1]
        self.act = spec[3]
        self.steps = [st for st in spec[4] if st[1] not in CLOSE_OUTS]
        self.cops = {"cease": [op for ops, o in spec[4] if o == "oncease" for op in ops],
                     "exit": [op for ops, o in spec[4] if o == "onexit" for op in ops]}
        self.sid = sid

    def enter_fault(self):
        if self.act == "fail":
            raise SchedErr(f"enter {self.id}")
        if self.act == "kbint":
            raise KeyboardInterrupt()
        if self.act == "sysexit":
            raise SystemExit(3)

    def clean_fault(self):
        if self.id in self.rec.cleanfail:
            raise SchedErr(f"clean {self.id}")

    def close_ops(self, which, tyme):
        if self.cops[which] and not self.rec.dead:
            self.run_ops(self.cops[which], tyme)

    @staticmethod
    def fresh(o):
        """a bound-method doer is handed to extend()/remove() as a FRESHLY created bound method (what `obj.method`
        evaluates to at the call site): equal to, but not identical with, the object the scheduler holds"""
        import types
        return types.MethodType(o.__func__, o.__self__) if isinstance(o, types.MethodType) else o

    def sync_roster(self, sid, add=(), drop=()):
        """the caller's own bookkeeping: it appends to / drops from ITS list before telling the scheduler"""
        r = self.rec.rosters.get(sid)
        if r is None:
            return
        for o in add:
            if o not in r:
                r.append(o)
        for o in drop:
            if o in r:
                r.remove(o)

    def run_ops(self, ops, tyme):
        s = self.rec.sched[self.sid]
        fresh = self.fresh
        for op in ops:
            if op[0] == "extend":
                pool = self.rec.pools[self.sid]
                self.sync_roster(self.sid, add=[pool[k] for k in op[1] if 0 <= k < len(pool)])
                s.extend([fresh(pool[k]) for k in op[1] if 0 <= k < len(pool)])
            elif op[0] == "extend*":          # the argument IS the scheduler's own live list
                s.extend(s.doers)
            elif op[0] == "remove*":
                self.sync_roster(self.sid, drop=list(self.rec.rosters.get(self.sid) or ()))
                s.remove(s.doers)
            elif op[0] == "xremove":          # remove() on another scheduler (a DoDoer), outside that scheduler's own pass
                gid = op[1][0]
                g = self.rec.sched[gid]
                self.sync_roster(gid, drop=[self.rec.obj[i] for i in op[1][1:] if i in self.rec.obj])
                g.remove([fresh(self.rec.obj[i]) for i in op[1][1:] if i in self.rec.obj])
                self.rec.ev(gid, "doers", tyme(), tuple(self.ids_of(g.doers)))
                continue
            elif op[0] == "xextend":          # extend() on another scheduler (a DoDoer), with that scheduler's pool
                gid = op[1][0]
                g, pool = self.rec.sched[gid], self.rec.pools[gid]
                self.sync_roster(gid, add=[pool[k] for k in op[1][1:] if 0 <= k < len(pool)])
                g.extend([fresh(pool[k]) for k in op[1][1:] if 0 <= k < len(pool)])
                self.rec.ev(gid, "doers", tyme(), tuple(self.ids_of(g.doers)))
                continue
            else:
                self.sync_roster(self.sid, drop=[self.rec.obj[i] for i in op[1] if i in self.rec.obj])
                s.remove([fresh(self.rec.obj[i]) for i in op[1] if i in self.rec.obj])
            self.rec.ev(self.sid, "doers", tyme(), tuple(self.ids_of(s.doers)))

    def ids_of(self, doers):
        return [next((i for i, o in self.rec.obj.items() if o == d), -1) for d in doers]

    def step(self, pos, sent, tyme):
        """returns ("yield", t) | ("ret", v); raises for raise/kbint"""
        self.rec.ev(self.id, "recur" if sent == tyme() else "recurBad", tyme())
        ops, out = self.steps[pos] if pos < len(self.steps) else ([], ("ret", True))
        self.run_ops(ops, tyme)
        if out == "raise":
            raise SchedErr(f"doer {self.id}")
        if out == "kbint":
            raise KeyboardInterrupt()
        if out == "sysexit":
            raise SystemExit(3)
        return out


def _genfn(L):
    """generator function with the canonical lifecycle skeleton (used by doify / doize / bound)"""
    def fn(tymth=None, tock=0.0, **opts):
        rec, i = L.rec, L.id
        done = None
        try:
            rec.ev(i, "enter", tymth())
            L.enter_fault()
            if isinstance(L.act, tuple):
                done = L.act[1]
            else:
                sent = yield tock
                pos = 0
                while True:
                    out = L.step(pos, sent, tymth)
                    pos += 1
                    if out[0] == "ret":
                        done = out[1]
                        break
                    sent = yield out[1]
        except GeneratorExit:
            rec.ev(i, "cease", tymth())
            L.close_ops("cease", tymth)
        except Exception:
            rec.ev(i, "abort", tymth())
            raise
        else:
            rec.ev(i, "clean", tymth())
            L.clean_fault()
        finally:
            rec.ev(i, "exit", tymth())
            L.close_ops("exit", tymth)
        return done
    return fn


def build_leaf(rec, spec, sid):
    from hio.base import doing
    L = Leaf(rec, spec, sid)
    shape = spec[2]
    if shape in ("plain", "genrecur"):
        class Life(doing.Doer):
            def enter(self, *, temp=None):
                self.pos = 0
                rec.ev(L.id, "enter", self.tyme)
                L.enter_fault()
                if shape == "plain" and isinstance(L.act, tuple):
                    self.done = L.act[1]

            def clean(self):
                rec.ev(L.id, "clean", self.tyme)
                L.clean_fault()

            def cease(self):
                rec.ev(L.id, "cease", self.tyme)
                L.close_ops("cease", self.tymth)

            def abort(self, ex):
                rec.ev(L.id, "abort", self.tyme)

            def exit(self):
                rec.ev(L.id, "exit", self.tyme)
                L.close_ops("exit", self.tymth)

        if shape == "plain":
            class D(Life):
                def recur(self, tyme):
                    out = L.step(self.pos, tyme, self.tymth)
                    self.pos += 1
                    if out[0] == "ret":
                        return out[1]
                    self.tock = out[1]
                    return False
        else:
            class D(Life):
                def recur(self, tock=None):
                    if isinstance(L.act, tuple):
                        return L.act[1]
                    sent = yield tock
                    pos = 0
                    while True:
                        out = L.step(pos, sent, self.tymth)
                        pos += 1
                        if out[0] == "ret":
                            return out[1]
                        sent = yield out[1]
        return D()
    fn = _genfn(L)
    if shape == "doify":
        return doing.doify(fn, name=f"d{L.id}")
    if shape == "doize":
        return doing.doize()(fn)
    if shape == "bound":
        class Holder:
            def run(self, tymth=None, tock=0.0, **opts):
                return (yield from fn(tymth=tymth, tock=tock, **opts))
        return doing.doify(Holder().run, name=f"m{L.id}")
    raise core.Infra(f"unknown shape {shape}")


def build_group(rec, spec):
    from hio.base import doing
    _, gid, tock, always, kids, pool = spec

    class G(doing.DoDoer):
        def enter(self, doers=None, *, temp=None):
            if doers is None or doers is self.doers:      # the DoDoer's own enter context (not an extend())
                rec.ev(gid, "enter", self.tyme)
            return super().enter(doers=doers, temp=temp)

        def recur(self, tyme, deeds=None):
            rec.ev(gid, "recur" if tyme == self.tyme else "recurBad", self.tyme)
            if gid in rec.supervisors:      # a supervising DoDoer: a child's Exception is handled here, the others go on
                try:
                    return super().recur(tyme, deeds=deeds)
                except Exception:
                    return False
            return super().recur(tyme, deeds=deeds)

        def clean(self):
            rec.ev(gid, "clean", self.tyme)
            if gid in rec.cleanfail:
                raise SchedErr(f"clean {gid}")

        def cease(self):
            rec.ev(gid, "cease", self.tyme)

        def abort(self, ex):
            rec.ev(gid, "abort", self.tyme)

        def exit(self, deeds=None):
            if deeds is None:
                rec.ev(gid, "exit", self.tyme)
                try:
                    super().exit()
                finally:
                    rec.ev(gid, "exitEnd", self.tyme)
            else:
                super().exit(deeds=deeds)

        def remove(self, doers):
            rec.ev(gid, "rmBeg", self.tyme)
            super().remove(doers)
            rec.ev(gid, "rmEnd", self.tyme)

    roster = [build(rec, k, gid) for k in kids]
    rec.rosters[gid] = roster
    if gid in rec.viaopts:      # the doers arrive through the `doers` parameter of DoDoer.do (opts), not the constructor
        g = G(always=always, tock=tock, opts=dict(doers=roster))
    else:
        g = G(doers=roster, always=always, tock=tock)
    rec.pools[gid] = [build(rec, k, gid) for k in pool]
    rec.sched[gid] = g
    return g


def build(rec, spec, sid):
    o = build_leaf(rec, spec, sid) if spec[0] == "leaf" else build_group(rec, spec)
    rec.obj[spec[1]] = o
    return o


class SimClock:
    """scripted wall clock for real=True runs: time.time() reads it, time.sleep(d) advances it by d; `overrun` seconds
    are lost inside the recur of cycle `at` (a doer that blocks)"""
    def __init__(self, at, overrun):
        self.now, self.at, self.overrun = 1000.0, at, overrun

    def time(self):
        return self.now

    def sleep(self, d):
        if d < 0:
            raise ValueError("sleep length must be non-negative")
        self.now += d


def make_doist(rec, tock, start, limit, real=False):
    from hio.base import doing

    class TDoist(doing.Doist):
        def recur(self, deeds=None):
            rec.cycles += 1
            if rec.cycles > MAX_CYCLES and not rec.dead:
                raise Runaway("too many cycles")
            if rec.clock is not None and rec.cycles == rec.clock.at:
                rec.clock.now += rec.clock.overrun      # this pass takes too long on the wall clock
            if 0 in rec.supervisors:        # a supervising Doist subclass
                try:
                    return super().recur(deeds=deeds)
                except Exception:
                    self.tick()             # the interrupted pass did not reach its tick
                    return None
            return super().recur(deeds=deeds)

        def exit(self, deeds=None):
            if deeds is None:
                rec.ev(0, "stopBeg", self.tyme)
                try:
                    super().exit()
                finally:
                    rec.ev(0, "stopEnd", self.tyme)
            else:
                super().exit(deeds=deeds)

        def remove(self, doers):
            rec.ev(0, "rmBeg", self.tyme)
            super().remove(doers)
            rec.ev(0, "rmEnd", self.tyme)

    return TDoist(tock=tock, tyme=start, limit=limit, real=real)


def run_ado_cancelled(doist, doers, k, kind):
    """drive doist.ado() from a harness event loop and stop it from OUTSIDE after k loop steps:
    kind 1 = task.cancel(); 2 = cancel, and a second cancel at the next loop step (watchdog + shutdown sweep);
    3 = no loop: the coroutine is stepped by hand and then close()d.  Returns the `raised` tag."""
    import asyncio
    if kind == 3:
        coro = doist.ado(doers=doers)
        try:
            for _ in range(k):
                coro.send(None)
        except StopIteration:
            return "-"
        try:
            coro.close()
        except RuntimeError as ex:
            return "other:RuntimeError"
        return "closed"
    loop = asyncio.SelectorEventLoop()
    try:
        task = loop.create_task(doist.ado(doers=doers))

        def step():
            loop.call_soon(loop.stop)
            loop.run_forever()
        for _ in range(k):
            step()
        if task.done():
            ex = task.exception()
            if ex is not None:
                raise ex
            return "-"
        task.cancel()
        step()
        if kind == 2 and not task.done():
            task.cancel()
        for _ in range(5):
            if task.done():
                break
            step()
        if not task.done():
            return "other:TaskStillRunning"
        if task.cancelled():
            return "cancelled"
        ex = task.exception()
        if ex is not None:
            raise ex
        return "-"
    finally:
        loop.close()


def run_program(case, mode="do"):
    """run the REAL scheduler on the case; mode "do" (blocking loop) or "ado" (asyncio)"""
    core.assert_tree()
    _, tock, start, limit, pool, specs = case[:6]
    rec = Rec()
    rec.cleanfail = set(extras_of(case, "cleanfail"))
    rec.supervisors = set(extras_of(case, "supervisors"))
    rec.viaopts = set(extras_of(case, "viaopts"))
    realx = extras_of(case, "real")       # [cycle, overrun]: run with real=True under a scripted wall clock
    if realx:
        rec.clock = SimClock(realx[0], realx[1])
    doist = make_doist(rec, tock, start, limit, real=bool(realx))
    rec.sched[0] = doist
    doers = [build(rec, s, 0) for s in specs]
    rec.rosters[0] = doers
    rec.pools[0] = [build(rec, s, 0) for s in pool]
    raised = "-"
    n = None
    gc_was = gc.isenabled()
    gc.disable()
    import time as _time
    _saved = (_time.time, _time.sleep)
    if rec.clock is not None:
        _time.time, _time.sleep = rec.clock.time, rec.clock.sleep
    try:
        try:
            cancel = extras_of(case, "cancel")
            if cancel:
                raised = run_ado_cancelled(doist, doers, cancel[0], cancel[1])
            elif mode == "do" and extras_of(case, "doistctor"):
                doist.doers = list(doers)      # as Doist(doers=...) stores them; do() is then called without doers
                doist.do()
            elif mode == "do":
                doist.do(doers=doers)
            else:
                import asyncio
                loop = asyncio.SelectorEventLoop()
                try:
                    loop.run_until_complete(doist.ado(doers=doers))
                finally:
                    loop.close()
            n = len(rec.log)
        except SchedErr:
            n = len(rec.log)       # before the traceback (and the frames it keeps alive) is released
            raised = "err"
        except KeyboardInterrupt:
            n = len(rec.log)
            raised = "kbint"
        except SystemExit:
            n = len(rec.log)
            raised = "sysexit"
        except Exception as ex:
            n = len(rec.log)
            raised = "other:" + type(ex).__name__
        except Runaway:
            rec.dead = True
            n = len(rec.log)
            raised = "other:Runaway"
        gc.collect(1)      # objects created during this run are young (gc was disabled); older ones need no traversal
    finally:
        _time.time, _time.sleep = _saved
        if gc_was:
            gc.enable()
    ids = sorted(rec.obj)
    leaf0 = Leaf(rec, ("leaf", -1, "doify", "ok", []), 0)
    return dict(unmodelled=unmodelled(case), trace=rec.log[:n], late=rec.log[n:],
                flags=[(i, bool(rec.obj[i].done)) for i in ids],
                done=bool(doist.done), tyme=doist.tyme, raised=raised,
                doers=leaf0.ids_of(doist.doers))


# --------------------------------------------------------------------------- generators

TOCKS = (0.03125, 0.1, 0.25, 0.5, 1.0)
STARTS = (0.0, 0.0, 0.0, 1.0, 2.5, 0.3)


class _Gen:
    def __init__(self, rng, profile):
        self.rng = rng
        self.profile = profile
        self.next_id = 1
        self.tock = rng.choice(TOCKS)
        # "selfrm": pool doers may remove themselves while running and be extended again (known finding C01-K2)
        self.p_ops = {"mixed": 0.15, "ops": 0.45, "faults": 0.08, "time": 0.0, "plain": 0.0, "selfrm": 0.5,
                      "bexc": 0.12, "closeops": 0.3, "benter": 0.12, "actfault": 0.1, "xext": 0.0, "lastop": 0.1, "superv": 0.0, "oddtock": 0.05, "cancel": 0.05}[profile]
        self.p_fault = {"mixed": 0.08, "ops": 0.05, "faults": 0.22, "time": 0.0, "plain": 0.0, "selfrm": 0.03,
                        "bexc": 0.2, "closeops": 0.06, "benter": 0.1, "actfault": 0.03, "xext": 0.0, "lastop": 0.0, "superv": 0.25, "oddtock": 0.05, "cancel": 0.04}[profile]
        self.always = False
        # "lagging" programs: many yields shorter than the tock, then longer non-multiples (cumulative due tymes matter)
        self.lag = profile in ("time", "plain", "mixed") and rng.random() < 0.4

    def nid(self):
        self.next_id += 1
        return self.next_id - 1

    def ytock(self):
        r, t = self.rng, self.tock
        if self.profile == "oddtock" and r.random() < 0.5:
            # odd numerics a doer may yield: negative (due at once, due tyme moves back), -0.0 (asap), -inf, denormal
            return r.choice([-t, -t / 2, -3 * t, -0.1, -0.0, float("-inf"), 5e-324, 1e-300, -1e-300])
        if self.lag:
            return r.choice([t / 2, t / 2, t / 4, 0.3 * t, 0.75 * t, 2.5 * t, 1.75 * t, 3.25 * t, 0.0, t])
        k = r.random()
        if k < 0.35:
            return 0.0
        if k < 0.45:
            return None
        return r.choice([t / 2, t, 1.5 * t, 2 * t, 3 * t, 0.1, 0.3, 0.25, 5 * t])

    def retv(self):
        return self.rng.choice([True, True, None, False])

    def leaf(self, i, sibs, npool, in_pool, allow_ops=True):
        """sibs: ids this doer may name in remove (members of its scheduler incl. itself, pool ids)"""
        r = self.rng
        selfrm = False
        act = "ok"
        k = r.random()
        if k < self.p_fault / 2 and self.profile != "closeops":   # (an enter failing inside a close action escapes the close loop)
            act = "fail" if self.profile != "benter" else r.choice(["kbint", "sysexit", "fail"])
        elif k < self.p_fault / 2 + 0.06:
            act = ("done", self.retv())
        steps = []
        n = r.choice([0, 1, 2, 3, 3, 4, 5, 6]) if not self.lag else r.choice([3, 5, 6, 7, 8])
        if self.profile == "lastop":
            n = r.choice([1, 2, 2, 3])
        for j in range(n):
            ops = []
            if self.profile == "lastop" and j == n - 1 and allow_ops and r.random() < 0.75:
                # an op in the FINAL step (the doer returns right after it): extend, or remove of the other members
                oth = [x for x in sibs() if x != i]
                if npool and (r.random() < 0.5 or not oth):
                    ops.append(("extend", [r.randrange(npool) for _ in range(r.choice([1, 2]))]))
                elif oth:
                    ops.append(("remove", oth if r.random() < 0.6 else [r.choice(oth)]))
                steps.append((ops, ("ret", self.retv())))
                break
            if allow_ops and r.random() < self.p_ops:
                for _ in range(r.choice([1, 1, 1, 2])):
                    if npool and r.random() < 0.5:
                        ks = [r.randrange(npool) for _ in range(r.choice([1, 1, 2, 3]))]
                        if r.random() < 0.1:
                            ks.append(npool + 1)      # out of range index: ignored by the builder
                        ops.append(("extend", ks))
                    else:
                        cand = [x for x in sibs() if x != i]
                        if in_pool is False and r.random() < 0.2:
                            cand.append(i)
                        if in_pool and self.profile == "selfrm" and r.random() < 0.5:
                            cand = [i]
                            selfrm = True
                        if cand:
                            if r.random() < 0.35:
                                # both sides of the remover at once: every other member, or the two neighbours
                                oth = [x for x in cand if x != i]
                                ids = oth if (r.random() < 0.5 or len(oth) < 3) else r.sample(oth, 2)
                            else:
                                ids = [r.choice(cand) for _ in range(r.choice([1, 1, 2, 3]))]
                            if ids:
                                ops.append(("remove", ids))
            if ops and not in_pool and self.profile in ("ops", "lastop") and r.random() < 0.15:
                # the argument is the scheduler's own live list: remove(sched.doers) / extend(sched.doers)
                ops = [((op[0] + "*", []) if op[0] in ("remove", "extend") else op) for op in ops]
            k = r.random()
            if k < self.p_fault:
                out = ("raise" if r.random() < 0.8 else "kbint") if self.profile != "bexc" else r.choice(["raise", "kbint", "sysexit", "sysexit"])
            elif j == n - 1 and k < 0.6:
                out = ("ret", self.retv())
            else:
                out = ("yield", self.ytock())
            steps.append((ops, out))
            if out in ("raise", "kbint") or out[0] == "ret":
                break
        if self.profile == "closeops" and allow_ops and not in_pool and act == "ok" and r.random() < 0.5:
            # scheduler ops issued from the doer's cease / exit action (only doers that cannot be entered again)
            oth = [x for x in sibs() if x != i]
            for _ in range(r.choice([1, 1, 2])):
                kind = r.choice(["extend", "self", "sib", "sib"])
                if kind == "extend" and npool:
                    op = ("extend", [r.randrange(npool) for _ in range(r.choice([1, 2]))])
                elif kind == "self" or not oth:
                    op = ("remove", [i])
                else:
                    op = ("remove", [r.choice(oth) for _ in range(r.choice([1, 2]))])
                steps.append(([op], r.choice(CLOSE_OUTS)))
        spec = ("leaf", i, "doify", act, steps)
        shapes = [s for s in SHAPES if shape_ok(("leaf", i, s, act, steps)) and not (selfrm and s == "plain")]
        return ("leaf", i, r.choice(shapes), act, steps)

    def group(self, g, depth, in_pool, allow_ops=True):
        r = self.rng
        tock = r.choice([0.0, 0.0, 0.0, self.tock, 2 * self.tock, 0.1])
        always = r.random() < 0.2
        self.always = self.always or always
        kids, pool = self.members(depth + 1, r.choice([0, 1, 2, 2, 3, 4]), r.choice([0, 0, 1, 2]) if allow_ops and self.p_ops else 0,
                                  allow_ops and not in_pool)
        return ("group", g, tock, always, kids, pool)

    def members(self, depth, nk, npool, allow_ops=True):
        r = self.rng
        kinds = ["g" if (depth < 3 and r.random() < 0.25) else "l" for _ in range(nk + npool)]
        ids = [self.nid() for _ in kinds]      # members (kids then pool) get their ids first: removes can name any of them
        # (closeops: removes never name pool doers, so an extend issued from a close action cannot meet a doer that is
        #  being removed in the same remove() call)
        sibs = (lambda: list(ids[:nk])) if self.profile == "closeops" else (lambda: list(ids))
        out = []
        for n, kd in enumerate(kinds):
            in_pool = n >= nk
            if kd == "g":
                s = self.group(ids[n], depth, in_pool, allow_ops)
            else:
                s = self.leaf(ids[n], sibs, npool, in_pool, allow_ops)
            out.append(s)
        return out[:nk], out[nk:]


def gen_case(rng, profile="mixed"):
    g = _Gen(rng, profile)
    nk = rng.choice([1, 2, 3, 3, 4, 5])
    npool = rng.choice([0, 1, 2, 3]) if g.p_ops else 0
    if profile == "closeops":
        nk, npool = max(nk, 3), max(npool, 1)
    if profile == "lastop":
        nk, npool = rng.choice([1, 1, 2, 3]), rng.choice([1, 1, 2])
    if profile == "xext":
        return gen_xext(rng, g)
    if profile == "superv":
        return gen_superv(rng, g)
    specs, pool = g.members(0, nk, npool)
    t = g.tock
    limits = [0.0, t / 2, t, 2.5 * t, 3 * t, 0.3, 1.0, -2 * t, 7 * t, 12 * t]
    both = any(has_op(x, "extend") for x in specs + pool) and any(has_op(x, "remove") for x in specs + pool)
    # remove + extend can re-enter a doer (its script starts again): only a limit guarantees termination then
    if g.always or both or profile == "closeops" or rng.random() < 0.5:
        limit = rng.choice(limits)
    else:
        limit = None
    if profile == "cancel":
        # ado() stopped from outside: cancel at loop step k (single / double) or close() of the hand-stepped coroutine
        return ("run", t, rng.choice(STARTS), limit, pool, specs, (("cancel", [rng.choice([1, 2, 3, 4, 6]), rng.choice([1, 2, 2, 3])]),))
    if profile == "actfault":
        # (a Doer instance assigns self.done before its clean() runs, a generator function has no done yet: the model
        #  follows the function shapes, so leaves whose clean raises are function shaped; DoDoers are fine)
        ids = [s[1] for s, _, _ in list(walk(specs, 0)) + list(walk(pool, 0)) if s[0] == "group" or s[2] in ("doify", "doize", "bound")]
        if not ids:
            return ("run", t, rng.choice(STARTS), limit, pool, specs)
        return ("run", t, rng.choice(STARTS), limit, pool, specs, (("cleanfail", sorted(rng.sample(ids, min(len(ids), rng.choice([1, 1, 2, 3]))))),))
    return ("run", t, rng.choice(STARTS), limit, pool, specs)


def with_ways(rng, case):
    """both ways of giving a scheduler its doers, as a dimension of every program"""
    ex = list(case[6]) if len(case) > 6 else []
    gids = [s[1] for s, _, _ in all_specs(case) if s[0] == "group"]
    if gids and rng.random() < 0.4:
        ex.append(("viaopts", sorted(rng.sample(gids, rng.choice([1, len(gids)])))))
    if rng.random() < 0.2 and not any(k == "cancel" for k, _ in ex):
        ex.append(("doistctor", [1]))
    return case[:6] + ((tuple(ex),) if ex else ())


def gen_superv(rng, g):
    """supervising schedulers: DoDoer / Doist subclasses whose recur() catches a child's Exception and carries on; several
    handled failures in different cycles, then a forced close (limit / fatal BaseException / error in an unsupervised part)"""
    t = g.tock
    nk = rng.choice([2, 3, 4])
    specs, pool = g.members(0, nk, 0)
    if not any(s[0] == "group" for s in specs):
        gid = g.nid()
        kids, _ = g.members(1, rng.choice([2, 3, 4]), 0)
        specs.insert(rng.randrange(len(specs) + 1), ("group", gid, 0.0, rng.random() < 0.3, kids, []))
    sids = [s[1] for s, _, _ in walk(specs, 0) if s[0] == "group"]
    sup = sorted(set(rng.sample(sids, rng.choice([1, len(sids)])) + ([0] if rng.random() < 0.4 else [])))
    return ("run", t, rng.choice(STARTS), rng.choice([3 * t, 5 * t, 7 * t, 12 * t]), [], specs, (("supervisors", sup),))


def gen_xext(rng, g):
    """a DoDoer(always) that goes idle (all kids complete) and is then extended by a SIBLING scheduled after it;
    the run stops (sibling raises / limit) before or after the group's next recur"""
    t = g.tock
    y = lambda v=0.0: ([], ("yield", v))
    specs = []
    groups = []
    for _ in range(rng.choice([1, 1, 2])):
        gid = g.nid()
        kids = [("leaf", g.nid(), rng.choice(SHAPES), "ok", [y()] * rng.choice([0, 1, 2])) for _ in range(rng.choice([0, 1, 2]))]
        gpool = [("leaf", g.nid(), rng.choice(SHAPES), "ok", [y(rng.choice([0.0, t, 2 * t]))] * rng.choice([1, 3, 5])) for _ in range(rng.choice([1, 2]))]
        specs.append(("group", gid, rng.choice([0.0, 0.0, t]), rng.random() < 0.7, kids + ([("leaf", g.nid(), "doify", "ok", [y()] * 9)] if rng.random() < 0.5 else []), gpool))
        groups.append((gid, len(gpool), [k[1] for k in specs[-1][4]], specs[-1][3]))
    if rng.random() < 0.4:
        specs.insert(0, ("leaf", g.nid(), "doify", "ok", [y()] * 6))
    for _ in range(rng.choice([1, 1, 2])):
        gid, np_, kidids, galways = rng.choice(groups)
        pre = rng.choice([1, 2, 3, 4])
        if not galways and not kidids:
            continue
        if kidids and (not galways or rng.random() < 0.5):
            # remove() on the sibling DoDoer from outside its pass: completed doers (nothing to close) and / or live ones
            op = ("xremove", [gid] + rng.sample(kidids, rng.choice([1, min(2, len(kidids))])))
        else:
            op = ("xextend", [gid] + [rng.randrange(np_) for _ in range(rng.choice([1, 2]))])
        tail = rng.choice([[([op], "raise")], [([op], ("yield", 0.0)), ([], "raise")], [([op], ("yield", 0.0))] + [y()] * 4, [([op], ("ret", True))]])
        specs.append(("leaf", g.nid(), rng.choice([s for s in SHAPES if s != "plain"]), "ok", [y()] * pre + tail))
    return ("run", t, rng.choice(STARTS), rng.choice([2 * t, 3 * t, 4 * t, 6 * t, 2.5 * t]), [], specs)


# --------------------------------------------------------------------------- observation wrapper, shrinking

class Obs(tuple):
    """tuple (= the S-expr view the driver must reproduce) that also carries the raw dict as .d"""
    def __new__(cls, d):
        o = super().__new__(cls, obs_view(d))
        o.d = d
        return o


def _shrink_specs(specs):
    """yield smaller variants of a list of specs"""
    for n in range(len(specs)):
        yield specs[:n] + specs[n + 1:]
    for n, s in enumerate(specs):
        if s[0] == "leaf":
            _, i, shape, act, steps = s
            for k in range(len(steps)):
                yield specs[:n] + [("leaf", i, shape, act, steps[:k] + steps[k + 1:])] + specs[n + 1:]
            for k, (ops, out) in enumerate(steps):
                for m in range(len(ops)):
                    yield specs[:n] + [("leaf", i, shape, act, steps[:k] + [(ops[:m] + ops[m + 1:], out)] + steps[k + 1:])] + specs[n + 1:]
                for m, op in enumerate(ops):
                    if len(op[1]) > 1:
                        for q in range(len(op[1])):
                            op2 = (op[0], op[1][:q] + op[1][q + 1:])
                            yield specs[:n] + [("leaf", i, shape, act, steps[:k] + [(ops[:m] + [op2] + ops[m + 1:], out)] + steps[k + 1:])] + specs[n + 1:]
                if isinstance(out, tuple) and out[0] == "yield" and out[1] not in (0.0,):
                    yield specs[:n] + [("leaf", i, shape, act, steps[:k] + [(ops, ("yield", 0.0))] + steps[k + 1:])] + specs[n + 1:]
            if act != "ok":
                yield specs[:n] + [("leaf", i, shape, "ok", steps)] + specs[n + 1:]
            if shape != "doify":
                yield specs[:n] + [("leaf", i, "doify", act, steps)] + specs[n + 1:]
        else:
            _, i, tock, always, kids, pool = s
            # splice the group away
            yield specs[:n] + list(kids) + specs[n + 1:]
            for k2 in _shrink_specs(list(kids)):
                yield specs[:n] + [("group", i, tock, always, k2, pool)] + specs[n + 1:]
            for p2 in _shrink_specs(list(pool)):
                yield specs[:n] + [("group", i, tock, always, kids, p2)] + specs[n + 1:]
            if tock != 0.0:
                yield specs[:n] + [("group", i, 0.0, always, kids, pool)] + specs[n + 1:]


def has_always(specs):
    return any(s[0] == "group" and (s[3] or has_always(s[4]) or has_always(s[5])) for s in specs)


def shrink_case(case):
    if len(case) > 6:
        ex = case[6]
        for c in shrink_case(case[:6]):
            yield c + (ex,)
        for k, v in ex:
            if k in ("cancel", "real", "doistctor"):      # (loop step, kind) / (cycle, overrun): not lists of ids
                continue
            for n in range(len(v)):
                yield case[:6] + (((k, list(v[:n]) + list(v[n + 1:])),),) if len(v) > 1 else case[:6]
        return
    _, tock, start, limit, pool, specs = case[:6]
    for s2 in _shrink_specs(list(specs)):
        yield ("run", tock, start, limit, pool, s2)
    for p2 in _shrink_specs(list(pool)):
        yield ("run", tock, start, limit, p2, specs)
    if start != 0.0:
        yield ("run", tock, 0.0, limit, pool, specs)
    if tock != 1.0:
        yield ("run", 1.0, start, limit, pool, specs)
    if limit is not None and not has_always(list(specs) + list(pool)):
        yield ("run", tock, start, None, pool, specs)
    if limit is not None and limit != 3 * tock:
        yield ("run", tock, start, 3 * tock, pool, specs)


def case_valid(case):
    """termination guard used by shrink/mutate: an `always` group needs a limit"""
    _, tock, start, limit, pool, specs = case[:6]
    if tock <= 0:
        return False
    if limit is None and has_always(list(specs) + list(pool)):
        return False
    if len(case) > 6 and any(k == "cancel" and len(v) != 2 for k, v in case[6]):
        return False
    if limit is None and extras_of(case, "supervisors"):
        return False      # after a handled failure the stale pass marker keeps the deque non-empty: only a limit ends the run
    if limit is None and any(has_op(x, "extend") for x in list(specs) + list(pool)) and any(has_op(x, "remove") for x in list(specs) + list(pool)):
        return False
    sp = all_specs(case)
    groups = {s[1]: (s, inpool) for s, _, inpool in sp if s[0] == "group"}
    for s, _, _ in sp:
        if s[0] == "leaf" and not shape_ok(s):
            return False
        if s[0] == "leaf":
            for ops, _ in s[4]:
                for op in ops:
                    # extend() on another scheduler: only an `always` DoDoer that is entered with the run (it stays alive)
                    if op[0] == "xextend" and not (op[1] and op[1][0] in groups and groups[op[1][0]][0][3] and not groups[op[1][0]][1]):
                        return False
                    if op[0] == "xremove" and not (op[1] and op[1][0] in groups and not groups[op[1][0]][1]):
                        return False
    return True


def _map_leaves(specs, f):
    out = []
    for s in specs:
        if s[0] == "leaf":
            out.append(f(s))
        else:
            out.append(("group", s[1], s[2], s[3], _map_leaves(s[4], f), _map_leaves(s[5], f)))
    return out


def mutate_case(rng, case):
    """neighbourhood for the failing-input search: shrinks + a fault / op / tock planted at a random place"""
    _, tock, start, limit, pool, specs = case[:6]
    out = [c for c in shrink_case(case) if case_valid(c)][:60]
    leaves = [s for s, _, _ in all_specs(case) if s[0] == "leaf" and s[4]]
    pm = parent_map(case)
    for _ in range(40):
        if not leaves:
            break
        tgt = rng.choice(leaves)
        k = rng.randrange(len(tgt[4]))
        kind = rng.choice(["raise", "kbint", "ret", "yield", "remove", "limit"])
        if kind == "limit":
            out.append(("run", tock, start, rng.choice([0.0, tock, 2.5 * tock, 4 * tock]), pool, specs))
            continue

        def f(s):
            if s[1] != tgt[1]:
                return s
            steps = list(s[4])
            ops, o = steps[k]
            if kind == "raise":
                steps[k] = (ops, "raise")
            elif kind == "kbint":
                steps[k] = (ops, "kbint")
            elif kind == "ret":
                steps[k] = (ops, ("ret", True))
            elif kind == "yield":
                steps[k] = (ops, ("yield", rng.choice([0.0, tock, 2 * tock, 0.1])))
            else:
                sibs = [i for i, p in pm.items() if p == pm[s[1]] and i != s[1]] or [s[1]]
                steps[k] = (ops + [("remove", [rng.choice(sibs) for _ in range(rng.choice([1, 2]))])], o)
            return ("leaf", s[1], "doify", s[3], steps)
        c2 = ("run", tock, start, limit, _map_leaves(pool, f), _map_leaves(specs, f))
        if case_valid(c2):
            out.append(c2)
    return out


# --------------------------------------------------------------------------- common analysis of a trace (oracle side)

def spec_index(case):
    """id -> spec, id -> scheduler id, scheduler id -> [pool ids], scheduler id -> [kid ids]"""
    _, tock, start, limit, pool, specs = case[:6]
    spec, par, pools, kids = {}, {}, {0: [s[1] for s in pool]}, {0: [s[1] for s in specs]}
    for s, p, _ in all_specs(case):
        spec[s[1]] = s
        par[s[1]] = p
        if s[0] == "group":
            pools[s[1]] = [x[1] for x in s[5]]
            kids[s[1]] = [x[1] for x in s[4]]
    return spec, par, pools, kids


def descendants(case):
    spec, par, pools, kids = spec_index(case)
    out = {}
    for i in spec:
        a = par[i]
        while a != 0:
            out.setdefault(a, set()).add(i)
            a = par[a]
    return out


def has_out(spec, what):
    if spec[0] == "leaf":
        return any(o == what for _, o in spec[4])
    return any(has_out(k, what) for k in spec[4]) or any(has_out(k, what) for k in spec[5])


def has_op(spec, what):
    if spec[0] == "leaf":
        return any(op[0].rstrip("*") == what for ops, _ in spec[4] for op in ops)
    return any(has_op(k, what) for k in spec[4]) or any(has_op(k, what) for k in spec[5])


class SchedCheck(core.Check):
    """base of the scheduler-family checks: same cases, same adapter, same model driver; subclasses add the oracle"""
    pkg = "Sched"
    exe = "drv"
    quick_n = 700
    thorough_n = 40000
    profiles = ("mixed", "ops", "faults", "time")
    trusted_base = ["correspondence harness/areas/sched.py: compiled model driver vs hio.base.doing run in-process on the same program (trace, flags, done, tyme, raised, doers compared as strings; tymes as IEEE-754 bit patterns)",
                    "adapter: harness-side subclasses of Doer/DoDoer/Doist that log the lifecycle methods, remove() and exit() calls; five Python doer shapes built from one script",
                    "modelled: a Python generator as its remaining script; exceptions as values (err/kbint); the deque+marker as a zipper"]
    assumptions = ["ops are issued by a running doer on its own scheduler only; a pool doer does not remove itself; a removed pool DoDoer whose children issue ops is not extended again (the generators respect this)",
                   "py3.12: generator.close() returns None; Doer/DoDoer return self.done on close, so 3.13 semantics assign the same value",
                   "three model generations, tied by Lean theorems (model2_is_model_on_old_scripts, model3_is_model2_without_close_ops): Model (plain scripts), Model2 (exception kinds Exception/KeyboardInterrupt/SystemExit at steps and at enters; clean actions that raise), Model3 (scheduler ops issued from cease/exit actions, scheduler state threaded through the close loop, close fuel 400); the driver answers each case with the oldest model that has its script data",
                   "leaves whose clean action raises are function shaped in the generators (a Doer instance has assigned self.done before clean() runs, a generator function has not; the model follows the functions)",
                   "IMPLEMENTATION-SIDE ONLY (driver answers (unmodelled); oracle on the real run; ~5-10% of the C01/C02 cases): ado() stopped from outside by task cancellation / coroutine close(), extend()/remove() called on ANOTHER scheduler (an idle always-DoDoer extended by a sibling), supervising scheduler subclasses whose recur() override catches a child's exception (stale pass marker), exceptions raised by ops inside a close action, close-time ops of a doer that ends during its own enter — no Lean theorem covers these"]

    def corpus(self):
        return list(CORPUS)

    ways = False     # vary HOW schedulers get their doers (constructor vs do(doers=...)/opts); only checks that accept 7-field cases

    def generate(self, rng, n, tier):
        for _ in range(n):
            c = gen_case(rng, rng.choice(self.profiles))
            yield with_ways(rng, c) if self.ways else c
        if tier == "quick":      # a seeded slice of the exhaustive single-fault scope (all of it runs in thorough)
            ex = exhaustive_scope()
            for c in rng.sample(ex, min(len(ex), max(20, n // 4))):
                yield c

    def request(self, case):
        return request(case)

    def run_impl(self, case):
        return Obs(run_program(case))

    def compare_view(self, case, obs):
        return sx.dumps(tuple(obs))

    def shrink(self, case):
        return (c for c in shrink_case(case) if case_valid(c))

    def mutate(self, rng, case):
        return mutate_case(rng, case)

    def nontrivial(self, case, obs):
        d = obs.d
        return len(d["trace"]) >= 12 and (d["raised"] != "-" or any(e[1] in ("cease", "rmBeg", "doers") for e in d["trace"]))

    def features(self, case, obs):
        d = obs.d
        _, tock, start, limit, pool, specs = case[:6]
        f = ["raised:" + d["raised"], "done:%s" % d["done"], "limit:" + ("none" if limit is None else "zero" if limit == 0 else "neg" if limit < 0 else "pos"),
             "events~%d" % (len(d["trace"]) // 25 * 25), "start:" + ("0" if start == 0 else "non0")]
        f.append("model:" + ("unmodelled" if unmodelled(case) else "3" if model3(case) else "2" if model2(case) else "1"))
        kinds = {e[1] for e in d["trace"]}
        for k in ("cease", "abort", "rmBeg", "doers", "exitEnd"):
            if k in kinds:
                f.append("has:" + k)
        sp = all_specs(case)
        f.append("doers~%d" % len(sp))
        if any(s[0] == "group" for s, _, _ in sp):
            f.append("nested")
            if any(s[0] == "group" and p != 0 for s, p, _ in sp):
                f.append("nested>=2")
            if any(s[0] == "group" and s[2] != 0 for s, _, _ in sp):
                f.append("group-tock>0")
            if any(s[0] == "group" and s[3] for s, _, _ in sp):
                f.append("group-always")
        for s, _, _ in sp:
            if s[0] == "leaf":
                f.append("shape:" + s[2])
        for w in ("raise", "kbint"):
            if any(has_out(s, w) for s in list(specs) + list(pool)):
                f.append("script:" + w)
        for w in ("extend", "remove"):
            if any(has_op(s, w) for s in list(specs) + list(pool)):
                f.append("script:" + w)
        if any(s[0] == "leaf" and s[3] == "fail" for s, _, _ in sp):
            f.append("script:enter-fails")
        # a forced stop in mid cycle with live doers on both sides of the failing one
        tr = d["trace"]
        for n, e in enumerate(tr):
            if e[1] == "stopBeg" and d["raised"] == "err":
                closed = [x[0] for x in tr[n:] if x[1] == "cease"]
                if len(closed) >= 2:
                    f.append("midcycle-stop>=2live")
        return f


def _y(t=0.0):
    return ([], ("yield", t))


def _lf(i, steps, shape="doify", act="ok"):
    return ("leaf", i, shape, act, steps)


# regressions: the pre-findings F01..F07 (DESIGN §7) as replayable cases, plus a few shapes the generators rarely hit
CORPUS = [
    # F02: raise in mid cycle, live doers on both sides
    ("run", 1.0, 0.0, 10.0, [], [_lf(1, [_y()] * 3), _lf(2, [_y()] * 3, "plain"), _lf(3, [_y(), ([], "raise")], "genrecur"), _lf(4, [_y()] * 3, "bound")]),
    # F02 (remove): removing doers on both sides of the remover
    ("run", 1.0, 0.0, 10.0, [], [_lf(1, [_y()] * 3), _lf(2, [_y(), ([("remove", [1, 3])], ("yield", 0.0))]), _lf(3, [_y()] * 3, "doize")]),
    # F02 nested: raise inside the second of two groups
    ("run", 1.0, 0.0, 10.0, [], [("group", 10, 0.0, False, [_lf(1, [_y()] * 3), _lf(2, [_y()] * 3)], []),
                                 ("group", 11, 0.0, False, [_lf(3, [_y()] * 3), _lf(4, [_y(), ([], "raise")]), _lf(5, [_y()] * 3)], [])]),
    # F03: extend in mid cycle, then limit
    ("run", 1.0, 0.0, 3.0, [_lf(5, [_y()] * 9)], [_lf(1, [_y()] * 9), _lf(2, [([("extend", [0])], ("yield", 0.0))] + [_y()] * 9), _lf(3, [_y()] * 9)]),
    # F04: third enter inside extend() fails
    ("run", 1.0, 0.0, 3.0, [_lf(5, [_y()] * 9), _lf(6, [_y(1.0)] * 9, "plain"), _lf(7, [], "doify", "fail")],
     [_lf(1, [_y()] * 9), _lf(2, [([("extend", [0, 1, 2])], ("yield", 0.0))] + [_y()] * 9), _lf(3, [_y()] * 9)]),
    # F05: duplicate in extend
    ("run", 1.0, 0.0, 2.0, [_lf(5, [_y()] * 9)], [_lf(2, [([("extend", [0, 0])], ("yield", 0.0))] + [_y()] * 9)]),
    # F06: duplicate in remove
    ("run", 1.0, 0.0, 2.0, [], [_lf(1, [_y()] * 9), _lf(2, [([("remove", [1, 1])], ("yield", 0.0))] + [_y()] * 9)]),
    # F07: limit 0
    ("run", 1.0, 0.0, 0.0, [], [_lf(1, [_y()] * 4)]),
    # F01: KeyboardInterrupt inside a nested doer
    ("run", 1.0, 0.0, 5.0, [], [_lf(1, [_y()] * 4), ("group", 9, 0.0, False, [_lf(2, [_y(), ([], "kbint")], "plain"), _lf(3, [_y()] * 4)], [])]),
    # self remove keeps running; remove then extend again (re-entry)
    ("run", 0.25, 1.0, None, [_lf(5, [_y(), _y()])], [_lf(1, [([("remove", [1])], ("yield", 0.0)), _y(), _y()]),
                                                      _lf(2, [([("extend", [0])], ("yield", 0.0)), ([("remove", [5])], ("yield", 0.0)), ([("extend", [0])], ("yield", 0.0)), _y(), _y(), _y()])]),
    # always group emptied, closed by limit; group with own tock
    ("run", 0.5, 0.0, 4.0, [], [("group", 7, 0.0, True, [_lf(1, [_y()])], []), ("group", 8, 1.0, False, [_lf(2, [_y(0.5), _y(None), _y(1.5)], "genrecur")], [])]),
    # enter fails in do(): earlier doers closed in reverse
    ("run", 1.0, 0.0, None, [], [_lf(1, [_y()]), ("group", 9, 0.0, False, [_lf(2, [_y()]), _lf(3, [], "plain", "fail")], []), _lf(4, [_y()])]),
    # F02 (remove) inside a DoDoer: a child removes the members on both sides of itself
    ("run", 1.0, 0.0, 6.0, [], [_lf(1, [_y()] * 5), ("group", 9, 0.0, True, [_lf(2, [_y()] * 5, "plain"), _lf(3, [_y(), ([("remove", [2, 4, 5])], ("yield", 0.0)), _y()]), _lf(4, [_y()] * 5, "bound"), _lf(5, [_y(2.0)] * 3)], [])]),
    # the last live doer extends with a doer that is done at enter, then returns: the run ends right after that cycle
    ("run", 0.5, 0.0, None, [_lf(5, [], "doify", ("done", True)), _lf(6, [], "plain", ("done", True))], [_lf(1, [_y(), ([("extend", [0, 1])], ("ret", True))])]),
    ("run", 0.5, 1.0, 5.0, [], [("group", 9, 0.0, False, [_lf(1, [_y(), ([("extend", [0])], ("ret", None))])], [_lf(5, [], "genrecur", ("done", None))])]),
    # a doer that lags behind (yields shorter than the tock) and then yields a long non-multiple: due tymes are cumulative
    ("run", 1.0, 0.0, None, [], [_lf(1, [_y(0.5)] * 4 + [_y(2.5), _y(0.5), _y(2.5)], "plain"), _lf(2, [_y(0.25)] * 6 + [_y(3.25), _y(None), _y(1.75)], "genrecur")]),
    # an op in the FINAL step of the last live doer: extend (the run must go on), remove of already-run siblings (the run ends now)
    ("run", 1.0, 0.0, None, [_lf(7, [_y(), _y()], "plain")], [_lf(1, [_y(), ([("extend", [0])], ("ret", True))])]),
    ("run", 0.5, 1.0, None, [_lf(7, [_y()] * 3), _lf(8, [_y(1.0)] * 2, "genrecur")], [_lf(1, [_y()]), _lf(2, [_y(), _y(), ([("extend", [1, 0])], ("ret", None))], "bound")]),
    ("run", 1.0, 0.0, None, [], [_lf(1, [_y()] * 9), _lf(2, [_y()] * 9, "plain"), _lf(3, [_y(), _y(), ([("remove", [1, 2])], ("ret", True))], "doize")]),
    ("run", 0.25, 0.0, 9.0, [], [("group", 9, 0.0, False, [_lf(1, [_y()] * 9), _lf(2, [_y(), ([("remove", [1])], ("ret", True))])], [])]),
    # done at enter in all shapes, nothing left: one cycle
    ("run", 0.1, 0.3, None, [], [_lf(1, [], "plain", ("done", True)), _lf(2, [], "genrecur", ("done", None)), _lf(3, [], "doize", ("done", False)), _lf(4, [], "bound", ("done", True))]),
]


# --------------------------------------------------------------------------- exhaustive small scope (thorough)

EXH_NAME = ("every program over the shapes {3 leaves; 4 leaves; leaf+group(2 leaves)+leaf; group(2)+group(2); group(leaf, group(2))} with scripts of 3 asap yields, "
            "ONE fault/op of each kind {raise, kbint, ret True, ret None, enter fails, done at enter, remove each non-empty subset of <=2 members incl. self, extend pool [0], extend [0,0,1], extend with failing enter} "
            "at EACH (doer, step), limits {None, 2.5 tocks}")


def exhaustive_scope():
    y = ([], ("yield", 0.0))

    def shapes():
        L = lambda i: ("leaf", i, "doify", "ok", [y, y, y])
        yield [L(1), L(2), L(3)]
        yield [L(1), L(2), L(3), L(4)]
        yield [L(1), ("group", 10, 0.0, False, [L(2), L(3)], []), L(4)]
        yield [("group", 10, 0.0, False, [L(1), L(2)], []), ("group", 11, 0.0, False, [L(3), L(4)], [])]
        yield [("group", 10, 0.0, False, [L(1), ("group", 11, 0.0, False, [L(2), L(3)], [])], []), L(4)]

    P = [("leaf", 20, "doify", "ok", [y, y]), ("leaf", 21, "plain", "ok", [([], ("yield", 1.0))]), ("leaf", 22, "doify", "fail", [])]

    def with_pool(specs, owner):
        """give scheduler `owner` the pool P"""
        if owner == 0:
            return specs, list(P)
        def f(ss):
            out = []
            for s in ss:
                if s[0] == "group":
                    out.append(("group", s[1], s[2], s[3], f(s[4]), list(P) if s[1] == owner else s[5]))
                else:
                    out.append(s)
            return out
        return f(specs), []

    cases = []
    for specs in shapes():
        base = ("run", 1.0, 0.0, None, [], specs)
        pm = parent_map(base)
        leaves = [s for s, _, _ in all_specs(base) if s[0] == "leaf"]
        for lf in leaves:
            sibs = [i for i, p in pm.items() if p == pm[lf[1]]]
            subsets = [[a] for a in sibs] + [[a, b] for a in sibs for b in sibs if a < b]
            variants = []
            for k in range(3):
                for out in ("raise", "kbint", ("ret", True), ("ret", None)):
                    variants.append(("out", k, out))
                for sub in subsets:
                    variants.append(("remove", k, sub))
                for ks in ([0], [0, 0, 1], [0, 2, 1]):
                    variants.append(("extend", k, ks))
            variants.append(("act", 0, "fail"))
            variants.append(("act", 0, ("done", True)))
            for kind, k, arg in variants:
                def f(s):
                    if s[1] != lf[1]:
                        return s
                    steps = list(s[4])
                    act = s[3]
                    if kind == "out":
                        steps[k] = ([], arg)
                        steps = steps[:k + 1]
                    elif kind == "remove":
                        steps[k] = ([("remove", arg)], steps[k][1])
                    elif kind == "extend":
                        steps[k] = ([("extend", arg)], steps[k][1])
                    else:
                        act = arg
                    return ("leaf", s[1], s[2], act, steps)
                sp2 = _map_leaves(specs, f)
                pool = []
                if kind == "extend":
                    sp2, pool = with_pool(sp2, pm[lf[1]])
                for limit in (None, 2.5):
                    cases.append(("run", 1.0, 0.0, limit, pool, sp2))
    return cases


# known finding C01-K2 (only C01 runs it: the other oracles assume one live generator per doer)
CORPUS_SELFRM = [
    ("run", 1.0, 0.0, 6.0, [_lf(5, [([("remove", [5])], ("yield", 0.0)), _y(), _y(), _y(), _y()], "genrecur")],
     [_lf(1, [([("extend", [0])], ("yield", 0.0)), _y(), ([("extend", [0])], ("yield", 0.0)), _y(), _y(), _y()])]),
]


# exits on BaseException paths and re-entrant forced shutdown (seeded C01-m2 / C01-m3 classes)
CORPUS_BEXC = [
    # a doer calls sys.exit() in mid cycle with live doers on both sides, directly under the Doist and nested
    ("run", 1.0, 0.0, 9.0, [], [_lf(1, [_y()] * 5, "plain"), _lf(2, [_y(), _y(), ([], "sysexit")], "genrecur"), _lf(3, [_y()] * 5, "doize")]),
    ("run", 1.0, 0.0, 9.0, [], [_lf(1, [_y()] * 5), ("group", 9, 0.0, False, [_lf(2, [_y()] * 5, "bound"), _lf(3, [_y(), ([], "sysexit")], "plain")], []), _lf(4, [_y()] * 5)]),
    # KeyboardInterrupt / SystemExit raised by the third enter of do(): the doers already entered must be closed
    ("run", 1.0, 0.0, 9.0, [], [_lf(1, [_y()] * 3), _lf(2, [_y()] * 3, "plain"), _lf(3, [_y()], "doify", "kbint"), _lf(4, [_y()])]),
    ("run", 1.0, 0.0, 9.0, [], [_lf(1, [_y()] * 3), ("group", 9, 0.0, False, [_lf(2, [_y()] * 3), _lf(3, [_y()], "genrecur", "sysexit")], [])]),
    # re-entrant shutdown: ops issued from cease / exit while the scheduler is closing everything (limit stop)
    ("run", 1.0, 0.0, 3.0, [_lf(7, [_y()] * 3)], [_lf(1, [_y()] * 9), _lf(2, [_y()] * 9, "plain"), _lf(3, [_y()] * 9 + [([("extend", [0])], "onexit")])]),
    ("run", 1.0, 0.0, 3.0, [], [_lf(1, [_y()] * 9), _lf(2, [_y()] * 9 + [([("remove", [2])], "oncease")], "genrecur"), _lf(3, [_y()] * 9, "bound")]),
    ("run", 1.0, 0.0, 3.0, [], [_lf(1, [_y()] * 9), _lf(2, [_y()] * 9, "doize"), _lf(3, [_y()] * 9 + [([("remove", [1])], "oncease")], "plain")]),
    ("run", 1.0, 0.0, 3.0, [], [_lf(1, [_y()] * 9), ("group", 9, 0.0, False, [_lf(2, [_y()] * 9), _lf(3, [_y()] * 9 + [([("remove", [2, 3])], "oncease")]), _lf(4, [_y()] * 9 + [([("extend", [0])], "onexit")], "plain")], [_lf(7, [_y()])])]),
]


# --------------------------------------------------------------------------- several runs on ONE Doist object (C05)
# case ("runs", tock, start0, limit0, [call..]); call = (mode "do"|"ado", start|None, limit|None, pool, specs).
# The Doist is created with tyme=start0, limit=limit0; every call passes doers=specs and tyme=/limit= when not None.
# A call whose program has the same ids as an earlier one REUSES those doer objects (their done flags must be reset
# at enter).  Observation = one run_program-style dict per call.

def request_runs(case, fuel=FUEL):
    _, tock, start0, limit0, calls = case
    return ("runs", ("tock", sx.F(tock)), ("start", sx.F(start0)),
            ("limit", None if limit0 is None else sx.F(abs(float(limit0)))), ("fuel", fuel),
            ("calls", [("call", ("start", None if st is None else sx.F(st)), ("limit", None if lm is None else sx.F(abs(float(lm)))),
                        ("pool", [sx_spec(s) for s in pool]), ("specs", [sx_spec(s) for s in specs]))
                       for mode, st, lm, pool, specs in calls]))




def run_sequence(case):
    core.assert_tree()
    _, tock, start0, limit0, calls = case
    rec = Rec()
    doist = make_doist(rec, tock, start0, limit0)
    rec.sched[0] = doist
    out = []
    gc_was = gc.isenabled()
    gc.disable()
    try:
        for mode, st, lm, pool, specs in calls:
            rec.cycles = 0
            stray = None
            if mode.endswith("+x"):
                # the caller extends the idle Doist with a doer BEFORE this call: it is entered at once and sits in .deeds;
                # do(doers=...) then starts from a fresh deque, so that stray doer is dropped (closed) and takes no part in the run
                mode = mode[:-2]
                stray = 9000 + len(out)
                doist.extend([build(rec, ("leaf", stray, "doify", "ok", [([], ("yield", 0.0))] * 3), 0)])
            first = len(rec.log)
            doers = [rec.obj[s[1]] if s[1] in rec.obj else build(rec, s, 0) for s in specs]
            # per-run options of re-used DoDoers: `always` of this call's spec is injected through .opts when it differs from what
            # the object was built with (a run depends only on what it was given)
            def set_opts(ss):
                for sp in ss:
                    if sp[0] == "group" and sp[1] in rec.obj:
                        o = rec.obj[sp[1]]
                        built = rec.built_always.setdefault(sp[1], bool(sp[3]))
                        o.opts = dict(always=bool(sp[3])) if bool(sp[3]) != built else {}
                        set_opts(sp[4])
            set_opts(specs)
            rec.rosters[0] = doers
            if not doers:      # the empty argument in its three usual forms
                doers = [[], (), iter(())][len(out) % 3]
            rec.pools[0] = [rec.obj[s[1]] if s[1] in rec.obj else build(rec, s, 0) for s in pool]
            kw = {}
            if st is not None:
                kw["tyme"] = st
            if lm is not None:
                kw["limit"] = lm
            raised, n = "-", None
            try:
                if mode == "do":
                    doist.do(doers=doers, **kw)
                else:
                    import asyncio
                    loop = asyncio.SelectorEventLoop()
                    try:
                        loop.run_until_complete(doist.ado(doers=doers, **kw))
                    finally:
                        loop.close()
                n = len(rec.log)
            except SchedErr:
                n = len(rec.log)
                raised = "err"
            except KeyboardInterrupt:
                n = len(rec.log)
                raised = "kbint"
            except SystemExit:
                n = len(rec.log)
                raised = "sysexit"
            except Exception as ex:
                n = len(rec.log)
                raised = "other:" + type(ex).__name__
            except Runaway:
                rec.dead = True
                n = len(rec.log)
                raised = "other:Runaway"
            gc.collect(1)
            ids = sorted(x[1] for x, _, _ in all_specs(("run", tock, 0.0, None, pool, specs)))
            leaf0 = Leaf(rec, ("leaf", -1, "doify", "ok", []), 0)
            run_trace = [e for e in rec.log[first:n] if not (e[0] == stray and e[1] != "recur")]
            out.append(dict(trace=run_trace, late=rec.log[n:], flags=[(i, bool(rec.obj[i].done)) for i in ids],
                            done=bool(doist.done), done_raw=doist.done, tyme=doist.tyme, raised=raised, doers=leaf0.ids_of(doist.doers)))
            if rec.dead:
                break
    finally:
        if gc_was:
            gc.enable()
    return out


class ObsRuns(tuple):
    def __new__(cls, ds):
        o = super().__new__(cls, ("runs",) + tuple(obs_view(d) for d in ds))
        o.ds = ds
        return o


def gen_runs(rng):
    """2-4 calls on one Doist: op-free programs (so that reused DoDoers keep their .doers), fresh or reused doers,
    do/ado mixed, tyme and limit given or kept; every call terminates (an `always` group only under a limit in force)"""
    t = rng.choice(TOCKS)
    start0 = rng.choice(STARTS)
    limit0 = rng.choice([None, None, 3 * t, 0.0])
    calls, lim, progs = [], limit0, []
    for k in range(rng.choice([2, 2, 3, 4])):
        if rng.random() < 0.2:
            pool, specs = [], []                                 # an explicitly EMPTY doers argument: the run has no doers at all
        elif progs and rng.random() < 0.5:
            pool, specs = rng.choice(progs)                      # same doer objects again
            if rng.random() < 0.5:                               # ... with another per-run `always` for its DoDoers (via .opts)
                flip = rng.random() < 0.7
                def fl(ss):
                    return [s if s[0] == "leaf" else ("group", s[1], s[2], (not s[3]) if flip else s[3], fl(s[4]), s[5]) for s in ss]
                specs = fl(specs)
        else:
            g = _Gen(rng, rng.choice(["time", "plain", "faults0"]) if False else rng.choice(["time", "plain"]))
            g.tock = t
            g.next_id = 100 * (k + 1) + 1
            if rng.random() < 0.4:
                g.p_fault = 0.1                                   # raises / kbint, still no ops
            specs, pool = g.members(0, rng.choice([1, 2, 3, 4]), 0)
            progs.append((pool, specs))
        lm = rng.choice([None, None, 0.0, t / 2, 2 * t, 2.5 * t, 5 * t, -3 * t])
        eff = lm if lm is not None else lim
        if eff is None and has_always(list(specs) + list(pool)):
            lm = eff = 3 * t
        lim = eff
        st = rng.choice([None, None, None, 0.0, 2.5, 10.0])
        calls.append((rng.choice(["do", "ado"]) + ("+x" if rng.random() < 0.2 else ""), st, lm, pool, specs))
    return ("runs", t, start0, limit0, calls)


# round-2 seeded classes (implementation-side only): a clean action that raises; an idle DoDoer(always) extended by a sibling
CORPUS_R2 = [
    # supervising DoDoer / Doist: two handled failures in different cycles then the limit; one handled failure then a fatal one in mid cycle
    ("run", 1.0, 0.0, 6.0, [], [_lf(1, [_y()] * 9), ("group", 9, 0.0, False, [_lf(2, [_y(), ([], "raise")]), _lf(3, [_y()] * 9, "plain"), _lf(4, [_y(), _y(), _y(), ([], "raise")], "genrecur"), _lf(5, [_y()] * 9)], [])], (("supervisors", [9]),)),
    ("run", 1.0, 0.0, 9.0, [], [("group", 9, 0.0, False, [_lf(2, [_y(), ([], "raise")]), _lf(3, [_y()] * 9), _lf(4, [_y(), _y(), _y(), ([], "kbint")]), _lf(5, [_y()] * 9, "bound")], [])], (("supervisors", [9]),)),
    ("run", 1.0, 0.0, 5.0, [], [_lf(1, [_y(), ([], "raise")]), _lf(2, [_y()] * 9), _lf(3, [_y(), _y(), ([], "raise")], "doize"), _lf(4, [_y()] * 9, "plain")], (("supervisors", [0]),)),
    ("run", 1.0, 0.0, 9.0, [], [_lf(1, [_y()] * 6), ("group", 9, 0.0, False, [_lf(2, [_y()]), _lf(3, [_y(), _y()], "plain")], []), _lf(4, [_y()] * 6)], (("cleanfail", [9]),)),
    ("run", 1.0, 0.0, 9.0, [], [("group", 8, 0.0, False, [("group", 9, 0.0, False, [_lf(2, [_y()])], []), _lf(3, [_y()] * 5)], []), _lf(4, [_y()] * 6, "genrecur")], (("cleanfail", [9, 2]),)),
    ("run", 1.0, 0.0, 9.0, [], [_lf(1, [_y()] * 6, "bound"), _lf(2, [_y(), _y()], "doize"), _lf(3, [_y()] * 6)], (("cleanfail", [2]),)),
    ("run", 1.0, 0.0, 9.0, [], [("group", 9, 0.0, True, [_lf(1, [_y()])], [_lf(7, [_y()] * 5)]), _lf(2, [_y(), _y(), _y(), ([("xextend", [9, 0])], "raise")])]),
    ("run", 1.0, 0.0, 4.0, [], [_lf(1, [_y()] * 9), ("group", 9, 0.0, True, [], [_lf(7, [_y(2.0)] * 5, "plain")]), _lf(2, [_y(), _y(), _y(), ([("xextend", [9, 0])], ("yield", 0.0)), _y(), _y()], "genrecur")]),
]


# regression for fix 689f99b on fix/sched (enter loops iterate over a copy of .doers): a doer that finishes at enter extends from its
# exit action while the scheduler is still entering.  In C01.corpus() (the fix is in /repo as 5414c1a); on a tree without it doer 7 is entered twice
# (C01 clause entered-again-while-still-running).
CORPUS_ENTERLOOP = [
    ("run", 1.0, 0.0, 4.0, [_lf(7, [_y()] * 3)], [_lf(1, [([("extend", [0])], "onexit")], "doify", ("done", True)), _lf(2, [_y()] * 3)]),
    ("run", 1.0, 0.0, 4.0, [], [("group", 9, 0.0, False, [_lf(1, [([("extend", [0])], "onexit")], "plain", ("done", True)), _lf(2, [_y()] * 3)], [_lf(7, [_y()] * 3, "bound")])]),
]
