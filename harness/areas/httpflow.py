"""Shared Python for the HttpFlow area (C14, C18, C19): scripted sockets, scripted servant / connector,
small independent HTTP helpers used by adapters and oracles.  Nothing here imports the Lean model.
"""
import errno
import io
import re
import time

# ----------------------------------------------------------------------------------------------
# scripted socket (server side of C18: one accepted connection; client side of C19: one connection)


class FakeSock:
    """a nonblocking socket whose peer is a script.
    `feed(data)` makes bytes available to recv; `eof()` makes recv return b'' once the fed bytes are drained;
    send(data) accepts at most `quota` bytes per call (None = everything) and records them in `.sent`."""

    def __init__(self, quota=None, peer=("127.0.0.1", 50000), name=("127.0.0.1", 8080)):
        self.inbox = bytearray()
        self.closed_by_peer = False
        self.sent = bytearray()
        self.quota = quota
        self.closed = False       # closed by the code under test
        self.shut = False
        self.peer = peer
        self.name = name
        self.on_send = None       # callback(sock, data) after bytes were accepted

    # -- script side
    def feed(self, data):
        self.inbox.extend(data)

    def eof(self):
        self.closed_by_peer = True

    # -- socket API used by hio.core.tcp
    def setblocking(self, flag):
        pass

    def setsockopt(self, *a):
        pass

    def getsockopt(self, *a):
        return 1 << 20

    def getpeername(self):
        return self.peer

    def getsockname(self):
        return self.name

    def connect_ex(self, ha):
        return 0

    def recv(self, n):
        if self.closed:
            raise OSError(errno.EBADF, "closed")
        if self.inbox:
            data = bytes(self.inbox[:n])
            del self.inbox[:n]
            return data
        if self.closed_by_peer:
            return b""
        if getattr(self, "tls", False):
            import ssl
            raise ssl.SSLWantReadError(ssl.SSL_ERROR_WANT_READ, "want read")
        raise BlockingIOError(errno.EAGAIN, "would block")

    def send(self, data):
        if self.closed:
            raise OSError(errno.EBADF, "closed")
        if self.closed_by_peer:
            raise OSError(errno.ECONNRESET, "reset")
        n = len(data) if self.quota is None else min(len(data), self.quota)
        if n == 0 and len(data):
            raise BlockingIOError(errno.EAGAIN, "would block")
        acc = bytes(data[:n])
        self.sent.extend(acc)
        if self.on_send:
            self.on_send(self, acc)
        return n

    def shutdown(self, how):
        self.shut = True

    def close(self):
        self.closed = True


def token_ok(name):
    """RFC 7230 token"""
    return bool(name) and all(c in "!#$%&'*+-.^_`|~0123456789ABCDEFGHIJKLMNOPQRSTUVWXYZabcdefghijklmnopqrstuvwxyz" for c in name)


def split_requests(buf):
    """independent splitter of a client->server byte stream into complete requests
    (head terminated by CRLFCRLF, body by Content-Length, default 0).  returns (list of (head, body), rest)"""
    out = []
    buf = bytes(buf)
    while True:
        i = buf.find(b"\r\n\r\n")
        if i < 0:
            return out, buf
        head = buf[:i + 4]
        m = re.search(rb"\r\ncontent-length:[ \t]*(\d+)[ \t]*\r\n", head, flags=re.I)
        n = int(m.group(1)) if m else 0
        if len(buf) < i + 4 + n:
            return out, buf
        out.append((head, buf[i + 4:i + 4 + n]))
        buf = buf[i + 4 + n:]


# ----------------------------------------------------------------------------------------------
# C18: real hio.core.http.serving.Server over a scripted servant with one scripted connection

FIXED_DATE = "Thu, 01 Jan 1970 00:00:00 GMT"


def c18_request_bytes(req, path="/p"):
    """req = (ver, conn, blen): ver 0|1 -> HTTP/1.0|1.1; conn 0 none | 1 keep-alive | 2 close | 3 Keep-Alive (caps) | 4 'keep-alive, close';
    blen: None -> GET without body, n -> POST with n body bytes and Content-Length"""
    ver, conn, blen = req
    lines = [("GET" if blen is None else "POST") + " " + path + " HTTP/1." + str(ver), "Host: h"]
    c = {0: None, 1: "keep-alive", 2: "close", 3: "Keep-Alive", 4: "keep-alive, close"}[conn]
    if c:
        lines.append("Connection: " + c)
    if blen is not None:
        lines.append("Content-Length: %d" % blen)
    return ("\r\n".join(lines) + "\r\n\r\n").encode("ascii") + b"x" * (blen or 0)


def c18_app_reply(app, start_response):
    """WSGI behaviour of one scripted app entry (status bytes | int, headers, clen, pieces, retval[, (restarts, written)[, err]]).
    err = None | (k, status int, reason, title, detail, fault int|None, headers): the app raises httping.HTTPError after its iterator has
    yielded k items (k < 0: the app callable raises at once, before start_response);  err = ("crash", n): the callable raises another exception.
    restarts: earlier start_response calls [(status, headers, clen)] made before the final one — every call after the first passes
    exc_info (the PEP 3333 error restart, legal as long as nothing has been written); written: non-empty pieces the app hands to the
    write() callable returned by start_response before it returns its iterable"""
    status, headers, clen, pieces, retval = app[:5]
    restarts, written = app[5] if len(app) > 5 else ([], [])
    err = app[6] if len(app) > 6 else None
    if err is not None and err[0] == "crash":
        # the application callable raises something that is NOT an HTTPError, before it has called start_response
        raise [RuntimeError("app failed"), KeyError("missing"), ZeroDivisionError(), UnicodeDecodeError("utf-8", b"\xff", 0, 1, "bad body")][err[1] % 4]

    def fail():
        k, st, reason, title, detail, fault, ehs = err
        from hio.core.http import httping
        raise httping.HTTPError(st, reason=reason.decode("latin-1"), title=title.decode("latin-1"), detail=detail.decode("latin-1"), fault=fault,
                                headers={n.decode("latin-1"): v.decode("latin-1") for n, v in ehs})
    if err is not None and err[0] < 0:
        fail()                      # the app callable itself raises, before it has called start_response

    def call(st, hd, cl, exc):
        hs = [(n.decode("latin-1"), v.decode("latin-1")) for n, v in hd]
        if cl is not None:
            hs.append(("Content-Length", str(cl)))
        st = st if isinstance(st, int) else st.decode("latin-1")
        return start_response(st, hs, exc) if exc else start_response(st, hs)
    exc = None
    for st, hd, cl in restarts:
        call(st, hd, cl, exc)
        try:
            raise RuntimeError("app changed its mind")
        except RuntimeError:
            import sys
            exc = sys.exc_info()
    write = call(status, headers, clen, exc)
    exc = None
    for w in written:
        write(w)

    def gen():
        for i, p in enumerate(pieces):
            if err is not None and i == err[0]:
                fail()
            yield p
        if err is not None and err[0] >= len(pieces):
            fail()
        return retval
    return gen()


def c18_persisted(req):
    """HTTP semantics of the request (RFC 7230 6.3), written independently of the code"""
    ver, conn, _ = req
    if conn in (2, 4):
        return False
    if ver == 1:
        return True
    return conn in (1, 3)


def c18_run(case, max_cycles=None):
    """case = (reqs, apps, sched, quota)
       apps[i] = (status:bytes, headers:[(name:bytes, value:bytes)], clen: None|int, pieces:[bytes], retval: None|bytes)
       sched: list of ints: cut points into the concatenated request stream, each followed by `gap` service cycles;  (cuts, gap)
       quota: None or max bytes the socket accepts per send
    returns dict(raw=bytes sent by server, closed=bool, calls=int, close_after=bytes sent when close happened | None)"""
    from hio.base import tyming
    from hio.core import tcp
    from hio.core.http import serving, httping
    reqs, apps, quota = case[0], case[1], case[3]
    paced = case[2][0] == "paced"
    # ("paced", idles, tock): every request is fed alone, the exchange runs to quiescence, then the clock jumps by idles[i] seconds
    # with nothing on the wire; tock = seconds of virtual time per service pass (0: the Tymist default), so that an app that yields
    # empty pieces really lets time pass
    cuts, gap = ([], 1) if paced else (case[2][0], case[2][1])
    idles, tock = (case[2][1], case[2][2]) if paced else ([], 0)
    tymist = tyming.Tymist(tyme=0.0, tock=float(tock)) if tock else tyming.Tymist(tyme=0.0)
    calls = []

    def app(environ, start_response):
        k = len(calls)
        calls.append(environ.get("SERVER_PROTOCOL"))
        return c18_app_reply(apps[k] if k < len(apps) else (b"200 OK", [], None, [], None), start_response)

    class Servant(tcp.Server):
        def serviceConnects(self):   # no listen socket: the one connection is installed by the script
            pass

    servant = Servant(ha=("127.0.0.1", 8080), tymth=tymist.tymen())
    sock = FakeSock(quota=quota)
    ca = sock.peer
    sched = case[2]
    bs = sched[2] if (not paced and len(sched) > 2) else (1 << 16)       # receive buffer size of the connection: small values make one request arrive over many recv()s
    # the connection gets the idle timeout the http Server gives its servant (Server.Tymeout): the reaper in serviceConnects is live
    ix = tcp.Remoter(tymth=tymist.tymen(), ha=sock.name, ca=ca, cs=sock, bs=bs, tymeout=serving.Server.Tymeout)
    servant.ixes[ca] = ix
    server = serving.Server(servant=servant, app=app)
    stream = b"".join(c18_request_bytes(r) for r in reqs)
    pts = sorted(set(min(max(c, 0), len(stream)) for c in cuts) | {len(stream)})
    saved = httping.httpDate1123
    httping.httpDate1123 = lambda dt: FIXED_DATE
    close_after = None
    try:
        prev = 0
        budget = max_cycles or 200000      # hard cap only; the loop ends on quiescence

        def settle():
            idle = 0
            for _ in range(budget):
                before = (len(sock.sent), sock.closed, len(calls), len(ix.txbs))
                server.service()
                tymist.tick()
                idle = idle + 1 if before == (len(sock.sent), sock.closed, len(calls), len(ix.txbs)) else 0
                if idle > 6 + max((len(a[3]) for a in apps), default=0):
                    break
        if paced:
            for i, r in enumerate(reqs):
                if not sock.closed:
                    sock.feed(c18_request_bytes(r))
                settle()
                tymist.tyme += float(idles[i] if i < len(idles) else 0)
                for _ in range(3):
                    server.service()
                    tymist.tick()
            pts = []
        for p in pts:
            if p > prev and not sock.closed:
                sock.feed(stream[prev:p])
            prev = p
            for _ in range(gap):
                server.service()
                tymist.tick()
                if sock.closed and close_after is None:
                    close_after = len(sock.sent)
        idle = 0
        for _ in range(budget):
            before = (len(sock.sent), sock.closed, len(calls), len(ix.txbs))
            server.service()
            tymist.tick()
            if sock.closed and close_after is None:
                close_after = len(sock.sent)
            after = (len(sock.sent), sock.closed, len(calls), len(ix.txbs))
            idle = idle + 1 if before == after else 0
            if idle > 6 + max((len(a[3]) for a in apps), default=0):
                break
    finally:
        httping.httpDate1123 = saved
    return dict(raw=bytes(sock.sent), closed=sock.closed, calls=len(calls), pending=len(ix.txbs) if not sock.closed else 0)


class _NoCloseIO(io.BytesIO):
    def close(self):
        pass


class _SockOver:
    def __init__(self, f):
        self.f = f

    def makefile(self, *a, **k):
        return self.f


def parse_responses(raw, n):
    """parse up to n responses from raw with the stdlib's http.client (independent of hio).
    returns list of dict(status, reason, headers=[(name,value)], body, delimited: 'length'|'chunked'|'close', consumed_to)"""
    import http.client
    f = _NoCloseIO(raw)
    out = []
    for _ in range(n):
        if f.tell() >= len(raw):
            break
        r = http.client.HTTPResponse(_SockOver(f), method="GET")
        try:
            r.begin()
            delim = "chunked" if r.chunked else ("length" if r.length is not None else "close")
            body = r.read()
        except (http.client.HTTPException, ValueError, OSError) as ex:
            out.append(dict(error=type(ex).__name__ + ":" + str(ex)[:60], at=f.tell()))
            break
        out.append(dict(status=r.status, reason=r.reason, headers=[(k, v) for k, v in r.getheaders()], body=body,
                        delimited=delim, end=f.tell()))
        if delim == "close":
            break
    return out, f.tell()


# ----------------------------------------------------------------------------------------------
# C14: real Requester.build -> bytes -> real Requestant (+ real Server.buildEnviron)

def c14_run(spec, feed=None):
    """spec = (method:bytes, path:bytes(utf8), qargs:[(k,v)] utf8, headers:[(name ascii bytes, value latin1 bytes)],
               bkind: 0 raw | 1 json | 2 form, bval: bytes | bytes(json text of the data) | [(k,v)] utf8, explicit_cl: bool)
    returns dict(built=bytes | ('raise', cls), method, path, query(list of pairs), headers(sorted list lower-name,value), body, environ-derived fields, state)"""
    import json
    from urllib.parse import parse_qsl, unquote
    from hio.base import tyming
    from hio.core import tcp
    from hio.core.http import clienting, serving, httping
    from hio import help as hhelp
    method, path, qargs, headers, bkind, bval, explicit_cl = spec
    hs = [(n.decode("ascii"), v.decode("latin-1")) for n, v in headers]
    body = b""
    data = None
    fargs = None
    if bkind == 0:
        body = bytes(bval)
        if explicit_cl:
            hs.append(("Content-Length", str(len(body))))
    elif bkind == 1:
        data = json.loads(bytes(bval).decode("utf-8"))
    else:
        fargs = dict((k.decode("utf-8"), v.decode("utf-8")) for k, v in bval)
    out = dict(built=None)
    try:
        requester = clienting.Requester(hostname="example.com", port=8080, method=method.decode("utf-8"), path=path.decode("utf-8"),
                                        qargs=dict((k.decode("utf-8"), v.decode("utf-8")) for k, v in qargs),
                                        headers=hhelp.Hict(hs), body=body, data=data, fargs=fargs)
        msg = requester.build()
    except (ValueError, UnicodeError, KeyError, TypeError) as ex:
        out["built"] = ("raise", type(ex).__name__)
        return out
    out["built"] = bytes(msg)
    # server side: real Requestant fed through a Remoter-like holder, real buildEnviron
    tymist = tyming.Tymist(tyme=0.0)
    sock = FakeSock()
    ix = tcp.Remoter(tymth=tymist.tymen(), ha=sock.name, ca=sock.peer, cs=sock, bs=1 << 16)
    req = serving.Requestant(msg=ix.rxbs, remoter=ix)
    pieces = [bytes(msg)] if not feed else [bytes(msg[a:b]) for a, b in zip([0] + list(feed), list(feed) + [len(msg)])]
    err = None
    for p in pieces:
        ix.rxbs.extend(p)
        try:
            req.parse()
        except httping.HTTPException as ex:
            err = "HTTPException"
            break
        except ValueError as ex:          # escapes the parser (C16's concern); classified, not judged, here
            err = "ValueError"
            break
    for _ in range(3):
        if err is None and req.parser is not None:
            req.parse()
    if err is not None or not req.ended or req.errored:
        out["state"] = ("error", err or ("HTTPException" if req.errored else "incomplete"))
        return out
    out["state"] = ("ok",)
    out["leftover"] = bytes(ix.rxbs)

    class Servant(tcp.Server):
        pass
    server = serving.Server(servant=Servant(ha=("127.0.0.1", 8080)), app=None)
    env = server.buildEnviron(req)
    out["method"] = req.method
    out["env_method"] = env["REQUEST_METHOD"]
    out["path"] = req.path
    out["env_path"] = unquote(env["PATH_INFO"])
    out["env_path_raw"] = env["PATH_INFO"]
    out["query_raw"] = env["QUERY_STRING"]
    out["query"] = parse_qsl(env["QUERY_STRING"], keep_blank_values=True)
    out["headers"] = [(k.lower(), v) for k, v in req.headers.items()]
    out["env"] = dict((k, v) for k, v in env.items() if k.startswith("HTTP_") or k in ("CONTENT_TYPE", "CONTENT_LENGTH"))
    out["body"] = bytes(req.body)
    out["env_body"] = env["wsgi.input"].read()
    out["version"] = req.version
    return out


# ----------------------------------------------------------------------------------------------
# C19: real hio.core.http.clienting.Client over scripted connectors talking to a scripted world of servers

REASONS = {102: "Processing", 204: "No Content", 304: "Not Modified", 200: "OK", 201: "Created", 404: "Not Found", 500: "Internal Server Error",
           301: "Moved Permanently", 302: "Found", 303: "See Other", 307: "Temporary Redirect", 300: "Multiple Choices"}
HOST = "127.0.0.1"


def c19_bodiless(method, status):
    """responses that end at the blank line whatever their header fields say (RFC 7230 3.3.3)"""
    return method == b"HEAD" or status in (204, 304) or 100 <= status < 200


def c19_response_bytes(resp, method=b"GET"):
    """resp = (status, loc, body, framing, delay, cuts, close[, k100[, ctype]])     k100 = number of interim 100 Continue responses sent first;
       ctype 0 none | 1..3 a JSON Content-Type header
       loc: None | (secure 0|1, port, target bytes: path, optionally ?query[, form]) — form: how the Location header is written, see below
       framing: 0 Content-Length | 1 chunked | 2 until-close | 3 Content-Length but truncated by close
       For a bodiless response (HEAD request, 1xx / 204 / 304) the head is the same (Content-Length = entity length, or
       Transfer-Encoding: chunked) but NO body byte is sent, as a correct server does.
       returns (bytes, close_after)"""
    status, loc, body, framing, delay, cuts, close = resp[:7]
    k100 = resp[7] if len(resp) > 7 else 0
    ctype = resp[8] if len(resp) > 8 else 0
    lines = ["HTTP/1.1 %d %s" % (status, REASONS.get(status, "X"))]
    if ctype:       # the body is announced as JSON (whatever its bytes really are)
        lines.append("Content-Type: " + [None, "application/json", "application/json; charset=utf-8", "Application/JSON;charset=ISO-8859-1"][ctype])
    if loc is not None:
        sec, port, path = loc[:3]
        form = loc[3] if len(loc) > 3 else 0
        # how the Location names its server: 0 absolute with port | 1 absolute WITHOUT port (the scheme's default port is meant: only written when the target
        # sits on 80 / 443) | 2 scheme-relative //host[:port]/path (means http to this client; only written for plain-http targets)
        default = port == (443 if sec else 80)
        if form == 1 and default:
            lines.append("Location: %s://%s%s" % ("https" if sec else "http", HOST, path.decode("ascii")))
        elif form == 2 and not sec:
            lines.append("Location: //%s%s%s" % (HOST, "" if default else ":%d" % port, path.decode("ascii")))
        else:
            lines.append("Location: %s://%s:%d%s" % ("https" if sec else "http", HOST, port, path.decode("ascii")))
    out = None
    if framing in (0, 4):      # 4: a complete length-delimited response; LATER, with the client idle, the server says 408 on its own and closes
        lines.append("Content-Length: %d" % len(body))
        out = body
    elif framing == 1:
        lines.append("Transfer-Encoding: chunked")
        out = b""
        step = max(1, (len(body) + 1) // 2)
        for i in range(0, len(body), step):
            piece = body[i:i + step]
            out += [b"%x", b"%X", b"0%x"][len(body) % 3] % len(piece) + b"\r\n" + piece + b"\r\n"
        out += b"0\r\n\r\n"
    elif framing == 2:
        out = body
        close = True
    else:
        lines.append("Content-Length: %d" % (len(body) + 5))
        out = body
        close = True
    if c19_bodiless(method, status):
        out = b""
    head = ("\r\n".join(lines) + "\r\n\r\n").encode("ascii")
    # interim responses (RFC 7231 6.2.1: any number of 100 Continue may precede the final response; a client must read past all of them)
    interim = b"".join([b"HTTP/1.1 100 Continue\r\n\r\n", b"HTTP/1.1 100 Continue\r\nX-Interim: %d\r\n\r\n" % i, b"HTTP/1.1 100 \r\n\r\n"][i % 3] for i in range(k100))
    return interim + head + out, bool(close)


UNSOLICITED = b"HTTP/1.1 408 Request Timeout\r\nContent-Length: 0\r\nConnection: close\r\n\r\n"   # what an idle-timing-out server says before it closes


class World:
    """servers keyed by port; each has a script of responses used in order over all its connections"""

    def __init__(self, servers):
        self.scripts = {port: list(resps) for port, sec, resps in servers}
        self.secure = {port: bool(sec) for port, sec, resps in servers}
        self.used = {port: 0 for port in self.scripts}
        self.tick_no = 0
        self.socks = []            # every connection ever opened: (port, sock)
        self.wire = []             # requests as the servers saw them: (port, head, body, tls) in arrival order
        self.served = []           # the scripted response each of them drew
        self.inflight = 0          # requests seen complete whose response has not been completely read by the client
        self.partial = False
        self.overlap = False
        self.sent_to = {port: 0 for port in self.scripts}   # request bytes received per server
        self.unknown_target = []

    def connect(self, port, tls):
        sock = FakeSock(peer=(HOST, port), name=(HOST, 40000 + len(self.socks)))
        sock.port = port
        sock.buf = bytearray()
        sock.timeline = []         # (release_tick, bytes | None for eof)
        sock.on_send = self.on_send
        sock.tls = tls
        if port not in self.scripts:
            self.unknown_target.append(port)
            sock.eof()
        self.socks.append((port, sock))
        return sock

    def on_send(self, sock, data):
        port = sock.port
        if port not in self.scripts:
            return
        self.sent_to[port] += len(data)
        sock.doom_at = None          # the client is not idle: the server's idle timeout does not fire
        # a byte of a new request while an earlier request is still unanswered = not one at a time
        if self.inflight > 0:
            self.overlap = True
        sock.buf.extend(data)
        done, rest = split_requests(sock.buf)
        sock.buf[:] = rest
        for head, body in done:
            self.wire.append((port, head, body, bool(sock.tls)))
            self.inflight += 1
            k = self.used[port]
            self.used[port] += 1
            script = self.scripts[port]
            resp = script[k] if k < len(script) else (200, None, b"", 0, 0, [], False)
            if resp[3] == 4:        # framing 4 has its own closing rule (unsolicited 408 + close only if the client stays idle): a close-after flag means nothing there
                resp = tuple(resp[:6]) + (False,) + tuple(resp[7:])
            self.served.append(resp)
            render = getattr(self, "render", None)
            raw, close = render(resp, head.split(b" ", 1)[0]) if render else c19_response_bytes(resp, head.split(b" ", 1)[0])
            delay, cuts = resp[4], resp[5]
            pts = sorted(set(min(max(c, 1), len(raw)) for c in cuts) | {len(raw)})
            t = self.tick_no + delay
            base = max([t] + [r for r, _ in sock.timeline]) if sock.timeline else t
            prev = 0
            for i, p in enumerate(pts):
                sock.timeline.append((base + i, raw[prev:p], p == len(raw)))
                prev = p
            if resp[3] == 4:
                sock.doom_at = base + len(pts) + 2      # unless the client sends something before then (it is not idle): see on_send / release
            elif close:
                sock.timeline.append((base + len(pts) - 1, None, False))

    def tick(self):
        self.tick_no += 1
        self.release()

    def release(self):
        for port, sock in self.socks:
            if getattr(sock, "doom_at", None) is not None and sock.doom_at <= self.tick_no and not sock.timeline:
                sock.feed(UNSOLICITED)
                sock.eof()
                sock.doom_at = None
            keep = []
            for rel, data, last in sock.timeline:
                if rel <= self.tick_no:
                    if data is None:
                        sock.eof()
                    else:
                        sock.feed(data)
                        if last:
                            sock.mark_last = getattr(sock, "mark_last", 0) + 1
                else:
                    keep.append((rel, data, last))
            sock.timeline = keep

    def note_read(self):
        """called after each service cycle: a response whose last byte has been released and read is no longer in flight"""
        for port, sock in self.socks:
            n = getattr(sock, "mark_last", 0)
            if n and not sock.inbox:
                self.inflight -= n
                sock.mark_last = 0


def c19_kmode(case):
    """which constructor route c19_run takes for this case (see there)"""
    secure, reqs, servers = case[0], case[1], case[2]
    return (3 * len(reqs) + len(servers) + sum(len(sc) for _, _, sc in servers)) % 4


def c19_run(case):
    """case = (secure, reqs, servers, late)
       reqs = [(method bytes, path bytes, body bytes)]   servers = [(port, secure, [resp,...])]; the client connects to servers[0]
       late = number of requests queued only after the first response entry appeared (the rest are queued before the first cycle)
    """
    import ssl
    import types
    from hio.base import tyming
    from hio.core import tcp
    from hio.core.http import clienting, httping
    secure, reqs, servers, late = case[:4]
    second = list(case[4]) if len(case) > 4 else []      # requests queued after the first batch is over, following client.reopen() ...
    do_reopen = bool(case[5]) if len(case) > 5 else True   # ... or on the connection as it is
    world = World(servers)
    tymist = tyming.Tymist(tyme=0.0)
    RealClient, RealClientTls = tcp.Client, tcp.ClientTls

    class SClient(RealClient):
        def __init__(self, bufsize=None, **kwa):
            super().__init__(**kwa)

        def open(self):
            self.accepted = False
            self.connected = False
            self.cutoff = False
            self.cs = world.connect(self.ha[1], False)
            self.opened = True
            return True

    class SClientTls(SClient, RealClientTls):        # as in hio.core.tcp: the TLS client IS a (subclass of the plain) client
        def __init__(self, bufsize=None, context=None, **kwa):
            if context is None:
                context = ssl.SSLContext(ssl.PROTOCOL_TLS_CLIENT)
                context.check_hostname = False
                context.verify_mode = ssl.CERT_NONE
            super().__init__(context=context, **kwa)

        def open(self):
            self.accepted = False
            self.connected = False
            self.cutoff = False
            self.cs = world.connect(self.ha[1], True)
            self.opened = True
            return True

        def wrap(self):
            pass

        def handshake(self):
            self.connected = True
            return True

    port0 = servers[0][0]
    out = dict(raised=None)
    tcp.Client, tcp.ClientTls = SClient, SClientTls
    try:
        cls = SClientTls if secure else SClient
        connector = cls(ha=(HOST, port0), tymth=tymist.tymen())
        # who owns the queues (derived from the case so that it stays a plain literal): 0 the Client's own; 1 containers the CALLER made
        # (empty at construction) and keeps using — it appends request dicts to its own deque and reads entries from its own deque;
        # 2 caller containers that are NOT empty at construction: the requests deque already holds the first batch, the responses deque
        # (shared with a second, idle Client) already holds an older entry
        from collections import deque
        cmode = (len(reqs) + len(servers[0][2])) % 3
        own_requests, own_responses, own_redirects, own_events = deque(), deque(), list(), deque()
        SENTINEL = dict(sentinel=True)

        def reqdict(k):
            method, path, body = allreqs[k][:3]
            qa = allreqs[k][3] if len(allreqs[k]) > 3 else []
            return dict(method=method.decode("ascii"), path=path.decode("utf-8"), qargs=dict((a.decode("utf-8"), b.decode("utf-8")) for a, b in (qa or [])),
                        headers={"X-Req": str(k)}, body=bytes(body), reply=k)
        allreqs = list(reqs) + second
        n_first = max(1, len(reqs) - min(late, len(reqs))) if reqs else 0
        if cmode == 2:
            for k in range(n_first):
                own_requests.append(reqdict(k))
            own_responses.append(SENTINEL)
        # how the Client gets its connection (derived from the case): 0 a connector the CALLER built, no scheme given; 1 the same with the matching
        # scheme= spelled out; 2 no connector: scheme= / hostname= / port= (the Client builds tcp.Client / tcp.ClientTls itself); 3 no connector: a full
        # URL as path=;  odd sums also ask for dictable=True (every body is tried as JSON)
        kmode = c19_kmode(case)
        sch = "https" if secure else "http"
        how = [dict(connector=connector, hostname=HOST, port=port0), dict(connector=connector, hostname=HOST, port=port0, scheme=sch.upper() if len(reqs) % 2 else sch),
               dict(scheme=sch, hostname=HOST, port=port0, tymth=tymist.tymen()), dict(path="%s://%s:%d/" % (sch, HOST, port0), tymth=tymist.tymen())][kmode]
        if (len(reqs) + len(servers)) % 2:
            how["dictable"] = True
        client = None
        try:
            if cmode == 0:
                client = clienting.Client(**how)
            else:
                client = clienting.Client(requests=own_requests, responses=own_responses, redirects=own_redirects, events=own_events, **how)
                other = clienting.Client(connector=cls(ha=(HOST, port0), tymth=tymist.tymen()), hostname=HOST, port=port0, responses=own_responses)
            client.reopen()
        except Exception as ex:      # a constructor that refuses legitimate arguments is an observation too
            out["raised"] = ("construct:" + type(ex).__name__, False)
            client = types.SimpleNamespace(responses=deque(), requests=deque(), waited=False, request=lambda **kw: None, service=lambda: None, reopen=lambda: None)
        responses = client.responses if cmode == 0 else own_responses     # the caller reads ITS deque
        def queue(k):
            method, path, body = allreqs[k][:3]
            qa = allreqs[k][3] if len(allreqs[k]) > 3 else []
            kw = dict(method=method.decode("ascii"), headers={"X-Req": str(k)}, body=bytes(body), reply=k)   # X-Req: lets the oracle tell whose hop a wire item is
            if path:                    # b"" = no path=: Client.request() takes the requester's stored path
                kw["path"] = path.decode("utf-8")
            if qa is not None:          # None = no qargs=: the requester's stored query arguments
                kw["qargs"] = dict((a.decode("utf-8"), b.decode("utf-8")) for a, b in qa)
            if cmode and path and qa is not None:
                own_requests.append(reqdict(k))         # the documented way: the caller appends to the deque it handed in
            else:
                client.request(**kw)
        if cmode != 2:
            for k in range(n_first):
                queue(k)
        queued = n_first
        idle = 0
        phase = 0
        waited_trace = []
        budget = 120 + 2 * sum(8 + r[4] + len(r[5]) for _, _, rs in servers for r in rs) + 20 * (len(reqs) + len(second))
        for cyc in range(budget if not out["raised"] else 0):
            before = (len(responses), len(client.requests), client.waited, sum(len(s.sent) for _, s in world.socks),
                      sum(len(s.inbox) + len(s.timeline) for _, s in world.socks))
            try:
                client.service()
            except ValueError as ex:
                out["raised"] = ("ValueError", "non secure" in str(ex))
                break
            except httping.HTTPException as ex:
                out["raised"] = (type(ex).__name__, False)
                break
            except Exception as ex:      # whatever escapes Client.service() is an observation (judged by the oracle), never an adapter crash
                out["raised"] = (type(ex).__name__, False)
                break
            world.note_read()
            world.tick()
            tymist.tick()
            if queued < len(reqs) and len(responses) > (1 if cmode == 2 else 0):
                while queued < len(reqs):
                    queue(queued)
                    queued += 1
            after = (len(responses), len(client.requests), client.waited, sum(len(s.sent) for _, s in world.socks),
                     sum(len(s.inbox) + len(s.timeline) for _, s in world.socks))
            idle = idle + 1 if before == after else 0
            if idle >= 12:
                if phase == 0 and second and not client.waited and not out["raised"] and queued >= len(reqs):
                    # second run on the same Client object: reopen the connection, queue more
                    phase = 1
                    if do_reopen:
                        client.reopen()
                    for k in range(len(reqs), len(allreqs)):
                        queue(k)
                    queued = len(allreqs)
                    idle = 0
                    continue
                break
    finally:
        tcp.Client, tcp.ClientTls = RealClient, RealClientTls
    entries = []
    sentinel_ok = True
    if cmode == 2:
        sentinel_ok = bool(responses) and responses[0] is SENTINEL
    for r in responses:
        if r is SENTINEL:
            continue
        rq = r["request"]
        entries.append(dict(status=r["status"], body=bytes(r["body"]), errored=bool(r["errored"]), tag=rq.get("reply"),
                            method=rq.get("method"), path=rq.get("path"), rbody=bytes(rq.get("body") or b""),
                            rqargs=[(a.encode("utf-8"), str(b).encode("utf-8")) for a, b in (rq.get("qargs") or {}).items()],
                            redirects=[(h["status"], h["request"].get("path"), h["request"].get("reply")) for h in r.get("redirects", [])]))
    wire = []
    rids = []
    for p, h, b, tls in world.wire:
        parts = h.split(b"\r\n", 1)[0].split(b" ")
        wire.append((p, tls, parts[0], parts[1] if len(parts) > 1 else b"", b))
        m = re.search(rb"\r\nx-req: (\d+)\r\n", h, flags=re.I)
        rids.append(int(m.group(1)) if m else -1)
    out.update(entries=entries, wire=wire, rids=rids, cmode=cmode, sentinel_ok=sentinel_ok, served=list(world.served), overlap=world.overlap,
               insecure_bytes=sum(len(sk.sent) for _, sk in world.socks if not sk.tls),
               waited=bool(client.waited), left=len(client.requests if cmode == 0 else own_requests) + (len(reqs) + (len(second) if phase == 1 else 0) - queued), phase=phase, sent_to=dict(world.sent_to), unknown=list(world.unknown_target),
               conns=[p for p, _ in world.socks])
    return out


# ----------------------------------------------------------------------------------------------
# C14, sequences: requests built by real Requester(s) -> one connection of a real Server (ONE Requestant, reused) -> WSGI app

C14_BOUNDARY_N = 0xabcdef123456
C14_BOUNDARY = ("____________{0:012x}".format(C14_BOUNDARY_N)).encode("ascii")


def c14_seq_run(specs, sched, route=0):
    """specs = [(method, path, qargs, headers, bkind, bval, explicit_cl, fresh)], as c14_run plus `fresh`: build with a new Requester
    (True) or by Requester.rebuild() on the previous one (False, what Client.transmit does), or 2: rebuild() WITHOUT path=, i.e. the
    stored path of the previous request is used again (the spec's own path field is then ignored).
    sched = (cuts, gap): cut points into the concatenated request stream, `gap` service cycles after each piece.
    route 0: Requester objects used directly (host example.com:8080).  route 1: through a clienting.Client (host 127.0.0.1:8080, never connected — what it
    queues on its connector is taken as sent and a bare 200 is handed back so that the exchange ends):
      fresh True -> a new Client whose CONSTRUCTOR gets method / path / qargs / headers / body (sent by a bare transmit(), or request() + serviceRequests()
      when there is no body), 3 -> the same with path= given as a full URL (scheme://host:port/path?query#fragment, no hostname= / port=),
      False / 2 -> Client.request(...) with / without path= then serviceRequests(), 4 -> Client.transmit(...) with arguments.  (route 0: 3 = True, 4 = False)
    qargs / headers None: the argument is NOT passed (the previous request's values are inherited); an empty list IS passed, as an empty collection.
    returns dict(builts=[bytes | ('raise', cls)], views=[dict], leftover=bytes, closed=bool, raised=None|cls)"""
    import json
    import types
    from urllib.parse import parse_qsl, unquote
    from hio.base import tyming
    from hio.core import tcp
    from hio.core.http import clienting, serving, httping
    from hio import help as hhelp
    builts = []
    requester = None
    prev = None
    saved_random = clienting.random
    clienting.random = types.SimpleNamespace(randint=lambda a, b: C14_BOUNDARY_N)
    try:
        for spec in specs:
            method, path, qargs, headers, bkind, bval, explicit_cl, fresh = spec
            restart = requester is None or fresh is True or fresh == 1 or fresh == 3
            no_qargs, no_headers = qargs is None and not restart, headers is None and not restart
            qargs, headers = qargs or [], headers or []
            hs = [(n.decode("ascii"), v.decode("latin-1")) for n, v in headers]
            body, data, fargs = b"", None, None
            if bkind == 0:
                body = bytes(bval)
                if explicit_cl and not no_headers:
                    hs.append(("Content-Length", ("00" if explicit_cl == 2 else "") + str(len(body))))
            elif bkind == 1:
                data = json.loads(bytes(bval).decode("utf-8"))
            else:
                fargs = dict((k.decode("utf-8"), v.decode("utf-8")) for k, v in bval)
            qd = dict((k.decode("utf-8"), v.decode("utf-8")) for k, v in qargs)
            # argument forms and identity (derived from the case so that it stays a plain literal):
            #  * a caller re-using ONE dict object for equal query arguments of consecutive requests
            if prev is not None and qargs and list(qargs) == list(prev[0]) and prev[1] is not None:
                qd = prev[1]
            prev = (qargs, qd)
            #  * the str form of a raw body (latin-1 text) and the int form of a numeric header value
            if bkind == 0 and len(body) % 3 == 1:
                body = body.decode("latin-1")
            hs = [(n, int(v) if (v.isascii() and v.isdigit() and str(int(v)) == v and len(v) % 2 == 0) else v) for n, v in hs]
            kw = dict(method=method.decode("utf-8"), body=body, data=data, fargs=fargs)
            if not no_qargs:
                kw["qargs"] = qd
            if not no_headers:
                kw["headers"] = hhelp.Hict(hs)
            try:
                if route == 1:
                    if restart:
                        p = path.decode("utf-8")
                        if fresh == 3:
                            requester = clienting.Client(path="http://127.0.0.1:8080" + p, **kw)
                        else:
                            requester = clienting.Client(hostname="127.0.0.1", port=8080, path=p, **kw)
                        if body or data is not None or fargs is not None or len(p) % 2 == 0:
                            requester.transmit()
                        else:
                            requester.request()
                            requester.serviceRequests()
                    elif fresh == 4:
                        requester.transmit(path=path.decode("utf-8"), **kw)
                    else:
                        if fresh != 2:
                            kw["path"] = path.decode("utf-8")
                        requester.request(**kw)
                        requester.serviceRequests()
                    msg = bytes(requester.connector.txbs)
                    requester.connector.txbs.clear()
                    requester.connector.rxbs.extend(b"HTTP/1.1 200 OK\r\nContent-Length: 0\r\n\r\n")
                    requester.serviceResponse()
                    if requester.waited or requester.requests or not msg:
                        raise RuntimeError("client did not complete the exchange")
                    requester.responses.clear()
                    builts.append(msg)
                    continue
                if no_qargs or no_headers:
                    msg = requester.rebuild(path=None if fresh == 2 else path.decode("utf-8"), **kw)
                elif requester is None or fresh is True or fresh == 1 or fresh == 3:
                    requester = clienting.Requester(hostname="example.com", port=8080, method=method.decode("utf-8"), path=path.decode("utf-8"),
                                                    qargs=qd, headers=hhelp.Hict(hs), body=body, data=data, fargs=fargs)
                    msg = requester.build()
                elif fresh == 2:      # no path=: the Requester's stored path (that of its previous request) is used again
                    msg = requester.rebuild(method=method.decode("utf-8"), qargs=qd, headers=hhelp.Hict(hs), body=body, data=data, fargs=fargs)
                else:
                    msg = requester.rebuild(method=method.decode("utf-8"), path=path.decode("utf-8"), qargs=qd, headers=hhelp.Hict(hs),
                                            body=body, data=data, fargs=fargs)
                builts.append(bytes(msg))
            except Exception as ex:      # whatever build() raises is an observation, never an adapter crash
                builts.append(("raise", type(ex).__name__))
                requester = None
                prev = None
    finally:
        clienting.random = saved_random
    stream = b"".join(b for b in builts if isinstance(b, bytes))
    n_sent = sum(1 for b in builts if isinstance(b, bytes))

    tymist = tyming.Tymist(tyme=0.0)
    views = []

    class Servant(tcp.Server):
        def serviceConnects(self):
            pass

    servant = Servant(ha=("127.0.0.1", 8080), tymth=tymist.tymen())
    sock = FakeSock()
    ix = tcp.Remoter(tymth=tymist.tymen(), ha=sock.name, ca=sock.peer, cs=sock, bs=1 << 16)
    servant.ixes[sock.peer] = ix
    holder = {}

    def app(environ, start_response):
        req = holder["server"].reqs[sock.peer]
        views.append(dict(method=req.method, path=req.path, headers=[(k.lower(), v) for k, v in req.headers.items()], body=bytes(req.body),
                          env_method=environ["REQUEST_METHOD"], env_path=unquote(environ["PATH_INFO"]), query_raw=environ["QUERY_STRING"],
                          query=parse_qsl(environ["QUERY_STRING"], keep_blank_values=True),
                          env=dict((k, v) for k, v in environ.items() if k.startswith("HTTP_") or k in ("CONTENT_TYPE", "CONTENT_LENGTH")),
                          env_body=environ["wsgi.input"].read()))
        start_response("200 OK", [("Content-Length", "0")])
        return [b""]

    server = serving.Server(servant=servant, app=app)
    holder["server"] = server
    cuts, gap = sched
    pts = sorted(set(min(max(c, 0), len(stream)) for c in cuts) | {len(stream)})
    raised = None
    try:
        prev = 0
        for p in pts:
            if p > prev and not sock.closed:
                sock.feed(stream[prev:p])
            prev = p
            for _ in range(gap):
                server.service()
                tymist.tick()
        idle = 0
        for _ in range(20000):
            before = (len(sock.sent), sock.closed, len(views), len(ix.txbs), len(ix.rxbs))
            server.service()
            tymist.tick()
            after = (len(sock.sent), sock.closed, len(views), len(ix.txbs), len(ix.rxbs))
            idle = idle + 1 if before == after else 0
            if idle > 8:
                break
    except Exception as ex:   # escapes the service loop: classified and judged, never an adapter crash
        raised = type(ex).__name__
    return dict(builts=builts, views=views, leftover=bytes(ix.rxbs) if not sock.closed else b"", closed=sock.closed, raised=raised, n_sent=n_sent)


def c18_run_multi(conns, mode):
    """several connections on ONE Server object.  conns = [(reqs, apps, eof_at)], eof_at: None | number of request-stream bytes after
    which the client goes away (EOF).  mode 0: all connections at once from different addresses, fed round-robin in small pieces;
    mode 1: one after the other from the SAME address (the next connects when the server has closed / dropped the previous one).
    returns [dict(raw, closed, calls)] per connection"""
    from hio.base import tyming
    from hio.core import tcp
    from hio.core.http import serving, httping
    tymist = tyming.Tymist(tyme=0.0)
    calls = [0] * len(conns)

    def app(environ, start_response):
        j = int(environ["PATH_INFO"][2:])
        k = calls[j]
        calls[j] += 1
        apps = conns[j][1]
        return c18_app_reply(apps[k] if k < len(apps) else (b"200 OK", [], None, [], None), start_response)

    class Servant(tcp.Server):
        def serviceConnects(self):
            pass

    servant = Servant(ha=("127.0.0.1", 8080), tymth=tymist.tymen())
    server = serving.Server(servant=servant, app=app)
    socks = [None] * len(conns)
    results = {}
    streams = []
    for j, (reqs, apps, eof_at) in enumerate(conns):
        st = b"".join(c18_request_bytes(r, "/c%d" % j) for r in reqs)
        streams.append(st if eof_at is None else st[:min(eof_at, len(st))])

    def connect(j):
        peer = ("127.0.0.1", 50000 + (j if mode == 0 else 0))
        sk = FakeSock(peer=peer)
        socks[j] = sk
        servant.ixes[peer] = tcp.Remoter(tymth=tymist.tymen(), ha=sk.name, ca=peer, cs=sk, bs=1 << 16)
        return sk

    def cycle(n=1):
        for _ in range(n):
            server.service()
            tymist.tick()

    saved = httping.httpDate1123
    httping.httpDate1123 = lambda dt: FIXED_DATE
    try:
        if mode == 0:
            for j in range(len(conns)):
                connect(j)
            pos = [0] * len(conns)
            step = 23
            while any(pos[j] < len(streams[j]) for j in range(len(conns))):
                for j in range(len(conns)):
                    if pos[j] < len(streams[j]) and not socks[j].closed:
                        socks[j].feed(streams[j][pos[j]:pos[j] + step])
                    pos[j] += step
                    if pos[j] >= len(streams[j]) and conns[j][2] is not None:
                        socks[j].eof()
                cycle()
            idle = 0
            for _ in range(20000):
                before = tuple((len(sk.sent), sk.closed) for sk in socks) + tuple(calls)
                cycle()
                idle = idle + 1 if before == tuple((len(sk.sent), sk.closed) for sk in socks) + tuple(calls) else 0
                if idle > 14:
                    break
        else:
            for j in range(len(conns)):
                sk = connect(j)
                sk.feed(streams[j])
                if conns[j][2] is not None:
                    sk.eof()
                idle = 0
                for _ in range(20000):
                    before = (len(sk.sent), sk.closed, calls[j])
                    cycle()
                    idle = idle + 1 if before == (len(sk.sent), sk.closed, calls[j]) else 0
                    if idle > 14:
                        break
                results[j] = dict(raw=bytes(sk.sent), closed=sk.closed, calls=calls[j])
                if not sk.closed:        # still open (all requests persistent): the client hangs up so that the address is free again
                    sk.eof()
                    cycle(4)
    finally:
        httping.httpDate1123 = saved
    return [results.get(j) or dict(raw=bytes(sk.sent), closed=sk.closed, calls=calls[j]) for j, sk in enumerate(socks)]


# ----------------------------------------------------------------------------------------------
# real loopback tier (thorough): the same C18 case through real sockets — hio tcp.Server inside the http Server, hio tcp.Client as the peer

class LoopbackInfra(Exception):
    """the environment, not the code under test (no free port, cannot connect): becomes core.Infra"""


def free_port():
    import socket
    s = socket.socket(socket.AF_INET, socket.SOCK_STREAM)
    try:
        s.bind(("127.0.0.1", 0))
        return s.getsockname()[1]
    finally:
        s.close()


def c18_run_loopback(case):
    """single-connection C18 case over a real loopback connection under virtual time; send quota and bs of the case do not apply.
    returns dict(raw, closed, calls)"""
    from hio.base import tyming
    from hio.core import tcp
    from hio.core.http import serving, httping
    reqs, apps = case[0], case[1]
    cuts, gap = case[2][0], case[2][1]
    tymist = tyming.Tymist(tyme=0.0)
    calls = []

    def app(environ, start_response):
        k = len(calls)
        calls.append(1)
        return c18_app_reply(apps[k] if k < len(apps) else (b"200 OK", [], None, [], None), start_response)

    server = client = None
    saved = httping.httpDate1123
    httping.httpDate1123 = lambda dt: FIXED_DATE
    try:
        for attempt in range(4):
            port = free_port()
            try:
                server = serving.Server(host="127.0.0.1", port=port, app=app, tymeout=1.0e9)
                server.wind(tymist.tymen())
                if server.reopen():
                    break
            except OSError:
                pass
            server = None
        if server is None:
            raise LoopbackInfra("no loopback port could be opened")
        client = tcp.Client(ha=("127.0.0.1", port), tymth=tymist.tymen())
        client.reopen()
        for _ in range(2000):
            client.serviceConnect()
            server.service()
            if client.connected and server.servant.ixes:
                break
        else:
            raise LoopbackInfra("loopback connection was not established")
        stream = b"".join(c18_request_bytes(r) for r in reqs)
        pts = sorted(set(min(max(c, 0), len(stream)) for c in cuts) | {len(stream)})

        def cycle():
            client.serviceSends()
            server.service()
            client.serviceReceives()
            tymist.tick()
        prev = 0
        for p in pts:
            if p > prev and not client.cutoff:
                client.tx(stream[prev:p])
            prev = p
            for _ in range(max(gap, 1)):
                cycle()
        idle = 0
        for _ in range(200000):
            before = (len(client.rxbs), client.cutoff, len(calls), len(client.txbs))
            cycle()
            idle = idle + 1 if before == (len(client.rxbs), client.cutoff, len(calls), len(client.txbs)) else 0
            if idle > 4:
                time.sleep(0.004)      # real sockets: small segments may sit in the kernel for a delayed-ACK period (Nagle); quiescence is judged in real time
            if idle > 70 + max((len(a[3]) for a in apps), default=0):
                break
        return dict(raw=bytes(client.rxbs), closed=bool(client.cutoff), calls=len(calls))
    except OSError as ex:
        raise LoopbackInfra("socket error on loopback: %r" % (ex,))
    finally:
        httping.httpDate1123 = saved
        try:
            if client is not None:
                client.close()
            if server is not None:
                server.close()
        except OSError:
            pass


def c19_run_loopback(case):
    """the same C19 case with the real Client talking to scripted HTTP servers over REAL loopback sockets (plain http only): every logical
    port of the case is a real hio tcp.Server on a free port; the World decides what each server answers.  returns the same dict as c19_run"""
    from hio.base import tyming
    from hio.core import tcp
    from hio.core.http import clienting, httping
    secure, reqs, servers, late = case[:4]
    second = list(case[4]) if len(case) > 4 else []
    if secure or any(sec for _, sec, _ in servers):
        raise LoopbackInfra("loopback tier is plain http only")
    world = World(servers)
    tymist = tyming.Tymist(tyme=0.0)
    portmap, back, listeners = {}, {}, {}
    out = dict(raised=None)
    client = None
    try:
        for port, _, _ in servers:
            for attempt in range(4):
                real = free_port()
                try:
                    srv = tcp.Server(ha=("127.0.0.1", real), tymth=tymist.tymen(), tymeout=1.0e9)
                    if srv.reopen():
                        portmap[port], back[real], listeners[port] = real, port, srv
                        break
                except OSError:
                    pass
            else:
                raise LoopbackInfra("no loopback port could be opened")
        shims = {}       # (logical port, ca) -> FakeSock used as the World's per-connection state

        def render(resp, method):
            st, loc, body, fr, delay, cuts, close = resp[:7]
            if loc is not None and loc[1] in portmap:
                loc = (loc[0], portmap[loc[1]], loc[2])
            return c19_response_bytes((st, loc, body, fr, delay, cuts, close) + tuple(resp[7:]), method)

        def serve_all():
            for port, srv in listeners.items():
                srv.serviceConnects()
                srv.serviceReceivesAllIx()
                for ca, ix in list(srv.ixes.items()):
                    key = (port, ca)
                    if key not in shims:
                        shims[key] = world.connect(port, False)
                        shims[key].render = render
                    sh = shims[key]
                    if ix.rxbs:
                        data = bytes(ix.rxbs)
                        ix.clearRxbs()
                        world.on_send(sh, data)
                    if sh.inbox:
                        ix.tx(bytes(sh.inbox))
                        del sh.inbox[:]
                    ix.serviceSends()
                    if (sh.closed_by_peer and not sh.timeline and not ix.txbs) or ix.cutoff:
                        srv.removeIx(ca)
        world.render = render
        client = clienting.Client(hostname=HOST, port=portmap[servers[0][0]], tymth=tymist.tymen())
        client.reopen()
        allreqs = list(reqs) + second

        def queue(k):
            method, path, body = allreqs[k][:3]
            qa = allreqs[k][3] if len(allreqs[k]) > 3 else []
            kw = dict(method=method.decode("ascii"), headers={"X-Req": str(k)}, body=bytes(body), reply=k)
            if path:
                kw["path"] = path.decode("utf-8")
            if qa is not None:
                kw["qargs"] = dict((a.decode("utf-8"), b.decode("utf-8")) for a, b in qa)
            client.request(**kw)
        n_first = max(1, len(reqs) - min(late, len(reqs))) if reqs else 0
        for k in range(n_first):
            queue(k)
        queued, idle, phase = n_first, 0, 0
        for cyc in range(4000):
            before = (len(client.responses), len(client.requests), client.waited, len(world.wire), sum(len(s.timeline) for _, s in world.socks))
            try:
                client.service()
            except Exception as ex:
                out["raised"] = (type(ex).__name__, False)
                break
            serve_all()
            world.note_read()
            world.tick()
            tymist.tick()
            if queued < len(reqs) and client.responses:
                while queued < len(reqs):
                    queue(queued)
                    queued += 1
            after = (len(client.responses), len(client.requests), client.waited, len(world.wire), sum(len(s.timeline) for _, s in world.socks))
            idle = idle + 1 if before == after else 0
            if idle > 4:
                time.sleep(0.004)      # see c18_run_loopback
            if idle >= 70:
                if phase == 0 and second and not client.waited and queued >= len(reqs):
                    phase = 1
                    client.reopen()
                    for k in range(len(reqs), len(allreqs)):
                        queue(k)
                    queued = len(allreqs)
                    idle = 0
                    continue
                break
        entries = []
        for r in client.responses:
            rq = r["request"]
            entries.append(dict(status=r["status"], body=bytes(r["body"]), errored=bool(r["errored"]), tag=rq.get("reply"),
                                method=rq.get("method"), path=rq.get("path"), rbody=bytes(rq.get("body") or b""),
                                rqargs=[(a.encode("utf-8"), str(b).encode("utf-8")) for a, b in (rq.get("qargs") or {}).items()],
                                redirects=[(h["status"], h["request"].get("path"), h["request"].get("reply")) for h in r.get("redirects", [])]))
        wire, rids = [], []
        for p, h, b, tls in world.wire:
            parts = h.split(b"\r\n", 1)[0].split(b" ")
            wire.append((p, tls, parts[0], parts[1] if len(parts) > 1 else b"", b))
            m = re.search(rb"\r\nx-req: (\d+)\r\n", h, flags=re.I)
            rids.append(int(m.group(1)) if m else -1)
        out.update(entries=entries, wire=wire, rids=rids, served=list(world.served), overlap=world.overlap, insecure_bytes=0,
                   waited=bool(client.waited), left=len(client.requests) + (len(reqs) + (len(second) if phase == 1 else 0) - queued), phase=phase)
        return out
    except OSError as ex:
        raise LoopbackInfra("socket error on loopback: %r" % (ex,))
    finally:
        try:
            if client is not None:
                client.close()
            for srv in listeners.values():
                srv.close()
        except OSError:
            pass
