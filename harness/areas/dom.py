"""Shared pieces for C28 (hio.help.doming round trips): run-time dataclass schemas, value trees, canonical forms.

case   = ("rt", schema, tree)            round trip an instance through dict / json / cbor / mgpk
       | ("load", schema, cidx, tree)    cls._fromdict(plain tree)
       | ("seq", schema, [step, ...])    several calls in ONE process, in order:
             step = ("rt", tree) | ("load", cidx, tree) | ("bad", base)   (bad: serialise a record holding an unserialisable object)
schema = [(base, [(fname, ann, dflt), ...]), ...]      class k may only mention classes j < k
  base = raw | reg | tyme | iceraw | icereg | icetyme | map | icemap | ("sub", j) subclass of class j
       | ("chk", base, field, lo, hi, exc): the class also has a __post_init__ that raises exception class `exc`
         (ValueError | OverflowError | Rejected (custom) | ValidationError (hio's)) when `field` holds an int outside [lo, hi]
  ann  = ("any",) | ("prim", tname) | ("dom", j) | ("opt", j | [j1, j2, ..]) | ("union", j | [j1, ..]) | ("list", j) | ("dictof", j) | ("strann", j)
         opt = Optional[A] / Optional[Union[A, B]],  union = A | None / A | B | None   (members tried in the listed order)
  dflt = None (required) | ("d", tree)
tree   = ("null",) | ("bool", b) | ("int", i) | ("float", bits) | ("str", s) | ("list", [t..]) | ("dict", [(k, t)..]) | ("obj", j, [t..])
"""
import dataclasses
import itertools
import typing

from .. import sx

_counter = itertools.count()
PRIMS = {"int": int, "str": str, "list": list, "dict": dict, "float": float, "bool": bool}
RAW_BASES = ("raw", "reg", "tyme", "iceraw", "icereg", "icetyme", "bag", "icebag")
ALL_BASES = RAW_BASES + ("map", "icemap")
FNAMES = ["a", "b", "c", "x", "y", "k_1", "é", "_seq", "_", "__d", "x_", "class_", "_é", "_0", "ñ2", "__len"]
KEYS = FNAMES + ["", "q", "zz", "ключ"]


def unwrap(base):
    """(base without the validation / decorator wrappers, (field, lo, hi, exc) | None)"""
    chk = None
    while isinstance(base, (tuple, list)) and base[0] in ("chk", "dec", "hook"):
        if base[0] == "chk":
            chk = tuple(base[2:6])
        base = base[1]
    return base, chk


def hook_of(schema, j):
    """the _dictify / _datify hook pair class j has: its own ("hook", base, "rename" | "wrap") or the nearest inherited one"""
    base = schema[j][0]
    while isinstance(base, (tuple, list)) and base[0] in ("chk", "dec", "hook"):
        if base[0] == "hook":
            return base[2]
        base = base[1]
    if isinstance(base, (tuple, list)) and base[0] == "sub":
        return hook_of(schema, base[1])
    return None


def _hooks(kind):
    """the two methods of a hook pair; exact inverses of each other"""
    def _one(v):
        if not (isinstance(v, list) and len(v) == 1):
            raise ValueError("not a wrapped value")
        return v[0]

    def _unprefix(k):
        if not k.startswith("h_"):
            raise KeyError(k)
        return k[2:]
    if kind == "rename":
        def _dictify(self):
            return {"h_" + k: v for k, v in dataclasses.asdict(self).items()}

        def _datify(cls, d):
            return cls(**{_unprefix(k): v for k, v in d.items()})
    else:
        def _dictify(self):
            return {k: [v] for k, v in dataclasses.asdict(self).items()}

        def _datify(cls, d):
            return cls(**{k: _one(v) for k, v in d.items()})
    return dict(_dictify=_dictify, _datify=classmethod(_datify))


def dec_of(base):
    """explicit decorator set of a class ("n" = @namify, "r" = @registerify), or None = what the library itself does for
    that family (reg: r, tyme / bag: nr, the others: none)"""
    while isinstance(base, (tuple, list)) and base[0] in ("chk", "dec", "hook"):
        if base[0] == "dec":
            return base[2]
        base = base[1]
    return None


TYME_ROOTS = ("tyme", "icetyme", "bag", "icebag")
REG_ROOTS = ("reg", "icereg") + TYME_ROOTS
ROOT_FIELDS = {"bag": [("value", ("any",), ("d", ("null",)))], "icebag": [("value", ("any",), ("d", ("null",)))]}


def check_of(schema, j):
    """the __post_init__ validation in force for class j: its own, else the nearest inherited one"""
    base, chk = unwrap(schema[j][0])
    if chk is not None:
        return chk
    if isinstance(base, (tuple, list)) and base[0] == "sub":
        return check_of(schema, base[1])
    return None


class Rejected(Exception):
    """a custom exception class for validators"""


def fields_of(schema, j):
    """effective (name, ann, dflt) list of class j as dataclasses.fields() orders it: inherited fields first, a
    redeclared field keeps its inherited position"""
    base, own = schema[j]
    base = unwrap(base)[0]
    if isinstance(base, (tuple, list)) and base[0] == "sub":
        inh = fields_of(schema, base[1])
        names = [f for f, _, _ in inh]
        for fld in own:
            if fld[0] in names:
                inh[names.index(fld[0])] = fld
            else:
                inh.append(fld)
                names.append(fld[0])
        return inh
    inh = list(ROOT_FIELDS.get(base, []))          # Bag / IceBag bring a field of their own
    names = [f for f, _, _ in inh]
    for fld in own:
        if fld[0] in names:
            inh[names.index(fld[0])] = fld
        else:
            inh.append(fld)
    return inh


def base_of(schema, j):
    """the hio base class kind at the root of class j's inheritance chain"""
    base = unwrap(schema[j][0])[0]
    while isinstance(base, (tuple, list)) and base[0] == "sub":
        base = unwrap(schema[base[1]][0])[0]
    return base


def build_classes(schema):
    """create fresh dataclass subclasses of the real Dom bases for this schema"""
    from hio.help import doming
    from hio.base.hier import bagging
    bases = dict(raw=doming.RawDom, reg=doming.RegDom, tyme=doming.TymeDom, iceraw=doming.IceRawDom,
                 icereg=doming.IceRegDom, icetyme=doming.IceTymeDom, map=doming.MapDom, icemap=doming.IceMapDom,
                 bag=bagging.Bag, icebag=bagging.IceBag)
    classes = []
    for k, (base, flds) in enumerate(schema):
        name = f"C28Dom{next(_counter)}"
        specs = []
        for fname, ann, dflt in flds:
            specs.append((fname, _pyann(ann, classes), _pyfield(dflt, classes)))
        root = base_of(schema, k)
        dec = dec_of(base)
        own_hook = None
        b_ = base
        while isinstance(b_, (tuple, list)) and b_[0] in ("chk", "dec", "hook"):
            if b_[0] == "hook":
                own_hook = b_[2]
            b_ = b_[1]
        base, chk = unwrap(base)
        parent = classes[base[1]] if isinstance(base, (tuple, list)) else bases[base]
        ns = {}
        if chk is not None and root not in TYME_ROOTS:      # the tyme bases have a __post_init__ of their own
            ns["__post_init__"] = _validator(*chk)
        if own_hook is not None:
            ns.update(_hooks(own_hook))
        cls = dataclasses.make_dataclass(name, specs, bases=(parent,), frozen=root.startswith("ice"), namespace=ns)
        if dec is None:
            dec = "nr" if root in TYME_ROOTS else "r" if root in REG_ROOTS else ""
        if "r" in dec and root in REG_ROOTS:
            cls = doming.registerify(cls)
        if "n" in dec:
            cls = doming.namify(cls)
        classes.append(cls)
    return classes


def members(ann):
    """class indices a class-like annotation may rebuild, in the order datify tries them"""
    if ann[0] == "dom":
        return [ann[1]]
    if ann[0] in ("opt", "union"):
        return list(ann[1]) if isinstance(ann[1], (list, tuple)) else [ann[1]]
    return []


def _validator(field, lo, hi, exc):
    from hio import hioing
    klass = dict(ValueError=ValueError, OverflowError=OverflowError, Rejected=Rejected, ValidationError=hioing.ValidationError)[exc]

    def __post_init__(self):
        v = getattr(self, field)
        if isinstance(v, int) and not isinstance(v, bool) and not lo <= v <= hi:
            raise klass(f"{field}={v} outside [{lo}, {hi}]")
    return __post_init__


def _pyann(ann, classes):
    k = ann[0]
    if k == "any":
        return typing.Any
    if k == "prim":
        return PRIMS[ann[1]]
    if k == "opt":
        ms = [classes[j] for j in members(ann)]
        # Optional[Union[A, B]] is Union[A, B, None]; it is spelled flat here because typing caches Optional[X] by the
        # EQUALITY of X and Union[A, B] == Union[B, A]: the nested spelling would silently reuse the member order of
        # whichever of the two was created first in this process
        return typing.Optional[ms[0]] if len(ms) == 1 else typing.Union[tuple(ms) + (type(None),)]
    if k == "union":
        t = None
        for j in members(ann):
            t = classes[j] if t is None else t | classes[j]
        return t | None
    c = classes[ann[1]]
    if k == "dom":
        return c
    if k == "list":
        return list[c]
    if k == "dictof":
        return dict[str, c]
    if k == "strann":
        return c.__name__          # what `from __future__ import annotations` leaves in Field.type
    raise ValueError(ann)


def _pyfield(dflt, classes):
    if dflt is None:
        return dataclasses.field()
    t = dflt[1]
    if t[0] in ("list", "dict"):
        return dataclasses.field(default_factory=lambda t=t: to_py(t, classes))
    return dataclasses.field(default=to_py(t, classes))


def to_py(t, classes):
    k = t[0]
    if k == "null":
        return None
    if k in ("bool", "int", "str"):
        return t[1]
    if k == "float":
        return sx.bitsf(t[1])
    if k == "list":
        return [to_py(x, classes) for x in t[1]]
    if k == "dict":
        return {key: to_py(x, classes) for key, x in t[1]}
    if k == "obj":
        cls = classes[t[1]]
        names = [f.name for f in dataclasses.fields(cls)]
        return cls(**{n: to_py(x, classes) for n, x in zip(names, t[2])})
    raise ValueError(t)


def canon(v, classes):
    """canonical, type-strict wire value of a python object (dict keys sorted by utf-8)"""
    if v is None:
        return "null"
    if v is True or v is False:
        return ("bool", v)
    if isinstance(v, int):
        return ("int", v)
    if isinstance(v, float):
        return ("float", sx.F(v))
    if isinstance(v, str):
        return ("str", v.encode("utf-8"))
    if isinstance(v, list):
        return ("list",) + tuple(canon(x, classes) for x in v)
    if isinstance(v, dict):
        items = []
        for key, x in v.items():
            if not isinstance(key, str):
                return ("foreign", "dictkey")
            items.append((key.encode("utf-8"), canon(x, classes)))
        return ("dict",) + tuple(sorted(items, key=lambda kv: kv[0]))
    for i, c in enumerate(classes):
        if type(v) is c:
            return ("obj", i) + tuple(canon(getattr(v, f.name), classes) for f in dataclasses.fields(c))
    return ("foreign", type(v).__name__)


def wire_tree(t):
    """case tree -> request value (dict order kept: it is the insertion order the real dict gets)"""
    k = t[0]
    if k == "null":
        return "null"
    if k in ("bool", "int"):
        return (k, t[1])
    if k == "float":
        return ("float", t[1])
    if k == "str":
        return ("str", t[1].encode("utf-8"))
    if k == "list":
        return ("list",) + tuple(wire_tree(x) for x in t[1])
    if k == "dict":
        return ("dict",) + tuple((key.encode("utf-8"), wire_tree(x)) for key, x in t[1])
    if k == "obj":
        return ("obj", t[1]) + tuple(wire_tree(x) for x in t[2])
    raise ValueError(t)


def wire_schema(schema):
    out = []
    for k in range(len(schema)):
        fs = []
        for fname, ann, dflt in fields_of(schema, k):
            a = ann[0]
            if a in ("any", "prim"):
                w = "any"
            elif a in ("opt", "union"):
                w = ("opt",) + tuple(members(ann))
            else:
                w = (a, ann[1])
            fs.append(("fld", fname.encode("utf-8"), w, None if dflt is None else wire_tree(dflt[1])))
        if hook_of(schema, k) is not None:
            fs.append(("hook", hook_of(schema, k)))
        chk = check_of(schema, k)
        if chk is not None and base_of(schema, k) not in TYME_ROOTS:
            fs.append(("chk", chk[0].encode("utf-8"), chk[1], chk[2]))
        out.append(("cls",) + tuple(fs))
    return tuple(out)


# ---------------------------------------------------------------- predicates on cases (triggers / guards)

def has_obj(t):
    k = t[0]
    if k == "obj":
        return True
    if k == "list":
        return any(has_obj(x) for x in t[1])
    if k == "dict":
        return any(has_obj(x) for _, x in t[1])
    return False


def class_ann(ann):
    return ann[0] in ("dom", "opt", "union")


def upgradable(schema, j, t):
    """plain value that datify(class j, .) turns into an instance although it was not one"""
    flds = fields_of(schema, j)
    req = [f for f, _, d in flds if d is None]
    names = [f for f, _, _ in flds]
    if t[0] == "dict":
        keys = [k for k, _ in t[1]]
        return all(k in names for k in keys) and all(r in keys for r in req)
    if t in (("list", []), ("str", "")):
        return not req
    return False


def accepts(schema, j, names):
    """would class j accept a dict with exactly these keys (all known, all required present)?"""
    flds = fields_of(schema, j)
    return all(n in [f for f, _, _ in flds] for n in names) and all(f in names for f, _, d in flds if d is None)


def misplaced_obj(schema, t, ann=("dom", None)):
    """K1 trigger: a nested data object sits somewhere datify does not rebuild (not directly in a class-annotated field)"""
    k = t[0]
    if k == "obj":
        if not class_ann(ann) or (ann[1] is not None and t[1] not in members(ann)):
            return True
        return any(misplaced_obj(schema, x, a) for x, (_, a, _) in zip(t[2], fields_of(schema, t[1])))
    if k == "list":
        return any(has_obj(x) for x in t[1])
    if k == "dict":
        return any(has_obj(x) for _, x in t[1])
    return False


def upgraded_plain(schema, t, ann=("any",)):
    """K2 trigger: a plain dict / empty list / empty str sits in a class-annotated field and datify makes an instance of it"""
    k = t[0]
    if k == "obj":
        return any(upgraded_plain(schema, x, a) for x, (_, a, _) in zip(t[2], fields_of(schema, t[1])))
    if class_ann(ann) and not has_obj(t):
        return any(upgradable(schema, j, t) for j in members(ann))
    return False


def nested_hooked(schema, t, top=True):
    """K5 trigger: an object of a class with a _dictify/_datify hook pair sits INSIDE another object"""
    if t[0] != "obj":
        return False
    if not top and hook_of(schema, t[1]) is not None:
        return True
    return any(nested_hooked(schema, x, False) for x in t[2])


def ambiguous_union(schema, t, ann=("dom", None)):
    """K3 trigger: an object sits in a union-annotated field and a member tried EARLIER accepts its dict too"""
    if t[0] != "obj":
        return False
    ms = members(ann) if class_ann(ann) and ann[1] is not None else []
    if t[1] in ms:
        names = [f for f, _, _ in fields_of(schema, t[1])]
        if any(accepts(schema, j, names) for j in ms[:ms.index(t[1])]):
            return True
    return any(ambiguous_union(schema, x, a) for x, (_, a, _) in zip(t[2], fields_of(schema, t[1])) if class_ann(a))


# ---------------------------------------------------------------- generators

def gen_leaf(rng):
    r = rng.random()
    if r < 0.12:
        return ("null",)
    if r < 0.22:
        return ("bool", rng.random() < 0.5)
    if r < 0.5:
        m = rng.random()
        if m < 0.3:
            return ("int", rng.choice([0, 1, -1, 2 ** 31, -2 ** 31, 2 ** 63 - 1, -2 ** 63, 2 ** 53 + 1, 255, 256, -32, -33, 65535, 65536,
                                       23, 24, -24, -25, 127, 128, -128, -129, 2 ** 32 - 1, 2 ** 32, -2 ** 31 - 1, 2 ** 16 - 1, -2 ** 15 - 1]))
        return ("int", rng.randrange(-2 ** 63, 2 ** 63) >> rng.choice([0, 8, 31, 40, 56, 60]))
    if r < 0.68:
        m = rng.random()
        if m < 0.4:
            x = rng.choice([0.0, -0.0, 1.0, -1.5, 1e22, 1e-7, 5e-324, 1.7976931348623157e308, float("inf"), float("-inf"), 0.1, 3.0, 2.0 ** 53])
        else:
            x = None
            while x is None or x != x:
                x = sx.bitsf(rng.getrandbits(64))
        return ("float", sx.fbits(x))
    m = rng.random()
    if m < 0.15:
        return ("str", "")
    if m < 0.19:
        # lengths around every size class of the three formats (fixstr 31/32, str8 255/256, str16 65535/65536; cbor 23/24)
        n = rng.choice([23, 24, 31, 32, 255, 256] * 4 + [65535, 65536])      # the two big ones rarely: they cost time
        return ("str", (rng.choice(["a", "é", "ÿ"]) * n)[:n])
    if m < 0.5:
        return ("str", rng.choice(KEYS + ["null", "true", "0", "\\", '"', "\n", "\x00", "\x7f", "é", "日本", "😀", "a b", "﻿"]))
    n = rng.randrange(1, 12)
    return ("str", "".join(rng.choice(["a", "Z", "0", " ", '"', "\\", "/", "\n", "\t", "\x01", "é", "ß", "中", "😀", "퟿", "", "\U0010ffff"]) for _ in range(n)))


def gen_plain(rng, depth):
    r = rng.random()
    if depth <= 0 or r < 0.55:
        return gen_leaf(rng)
    if r < 0.78:
        return ("list", [gen_plain(rng, depth - 1) for _ in range(rng.choice([0, 0, 1, 2, 3]))])
    if r < 0.8:
        n = rng.choice([15, 16, 17, 23, 24] * 3 + [255, 256])      # fixarray / fixmap 15|16, cbor 23|24, one-byte lengths
        if rng.random() < 0.5:
            return ("list", [("int", i) for i in range(n)])
        return ("dict", [(f"k{i}", ("int", i)) for i in range(n)])
    keys = rng.sample(KEYS, rng.choice([0, 0, 1, 2, 3]))
    return ("dict", [(k, gen_plain(rng, depth - 1)) for k in keys])


def gen_schema(rng, dirty):
    n = rng.choice([1, 1, 2, 2, 3, 3, 4, 5])
    schema = []
    for k in range(n):
        base = rng.choice(ALL_BASES if rng.random() < 0.15 else RAW_BASES) if k == n - 1 else rng.choice(ALL_BASES)
        if k == n - 1 and rng.random() < 0.9 and base in ("map", "icemap"):
            base = "raw"
        names = rng.sample(FNAMES, rng.choice([0, 1, 2, 2, 3, 3, 4]))
        sub = k >= 1 and rng.random() < 0.45
        if sub:
            # subclass of an earlier generated class (chains of depth >= 2 arise): inherits its fields, may redeclare one
            base = ("sub", rng.randrange(k))
            inherited = [f for f, _, _ in fields_of(schema + [(base, [])], k)]
            if inherited and rng.random() < 0.3:
                names = list(dict.fromkeys(names[:2] + [rng.choice(inherited)]))
        flds = []
        for fname in names:
            r = rng.random()
            if k == 0 or r < 0.35:
                ann = ("any",) if rng.random() < 0.6 else ("prim", rng.choice(sorted(PRIMS)))
            else:
                j = rng.randrange(k)
                if dirty and r > 0.8:
                    ann = (rng.choice(["list", "dictof", "strann"]), j)
                else:
                    kind = rng.choice(["dom", "dom", "opt", "union", "opt", "union"])
                    if kind != "dom" and k >= 2 and rng.random() < 0.6:
                        ann = (kind, rng.sample(range(k), rng.choice([2, 2, 3]) if k >= 3 else 2))
                    else:
                        ann = (kind, j)
            if sub or base in TYME_ROOTS or rng.random() < 0.5:
                d = rng.random()
                if d < 0.5:
                    dflt = ("d", ("null",))
                elif d < 0.8:
                    dflt = ("d", gen_leaf(rng))
                else:
                    dflt = ("d", rng.choice([("list", []), ("dict", [])]))
            else:
                dflt = None
            if sub:
                par = {f: d for f, _, d in fields_of(schema, base[1])}
                if fname in par and par[fname] is None:
                    dflt = None          # a redeclared required field stays required (it keeps its inherited position)
            flds.append((fname, ann, dflt))
        flds.sort(key=lambda f: f[2] is not None)      # required fields first (dataclass rule)
        if hook_of(schema + [(base, flds)], k) is not None:
            # the (inherited) hook pair of this harness converts plain values only: keep the fields of a hooked class plain
            flds = [(f, a if a[0] in ("any", "prim") else ("any",), d) for f, a, d in flds]
        if rng.random() < 0.45:
            # every decorator combination the family allows: @namify and/or @registerify or neither (a child then INHERITS
            # whatever class attributes its parent's decorators wrote)
            root = base_of(schema + [(base, flds)], k)
            base = ("dec", base, rng.choice(["", "n", "r", "nr", "r", ""] if root in REG_ROOTS else ["", "n", "n"]))
        if rng.random() < 0.15 and all(a[0] in ("any", "prim") for _, a, _ in fields_of(schema + [(base, flds)], k)) \
                and hook_of(schema + [(base, flds)], k) is None:
            # a _dictify / _datify hook pair (key-renaming or value-transforming, exact inverses), on any family, frozen or not
            base = ("hook", base, rng.choice(["rename", "wrap"]))
        if rng.random() < 0.2:
            eff = [f for f, _, _ in fields_of(schema + [(base, flds)], k)]
            if eff:
                lo, hi = rng.choice(RANGES)
                base = ("chk", base, rng.choice(eff), lo, hi, rng.choice(EXCS))
        schema.append((base, flds))
    return schema


def gen_value(rng, schema, ann, depth, dirty):
    """value for a field annotated `ann`"""
    a = ann[0]
    if a in ("dom", "opt", "union"):
        r = rng.random()
        ms = members(ann)
        if r < 0.7 and depth > 0:
            return gen_obj(rng, schema, rng.choice(ms), depth - 1, dirty)      # a value of EVERY member, not just the first
        if r < 0.85:
            return ("null",)
        if dirty and r < 0.95:
            return rng.choice([("dict", []), ("list", []), ("str", ""), gen_plain(rng, 1),
                               ("dict", [(f, gen_leaf(rng)) for f, _, _ in fields_of(schema, rng.choice(ms))[:rng.randrange(0, 4)]])])
        return rng.choice([("int", 7), ("bool", True), ("float", sx.fbits(2.5)), ("str", "s")])
    if a in ("list", "dictof", "strann") or (dirty and rng.random() < 0.15):
        if a == "strann" or a in ("any", "prim"):
            j = ann[1] if a == "strann" else rng.randrange(len(schema))
            if rng.random() < 0.6 and depth > 0:
                return gen_obj(rng, schema, j, depth - 1, dirty)
            return gen_plain(rng, depth)
        j = ann[1]
        n = rng.choice([0, 1, 1, 2])
        objs = [gen_obj(rng, schema, j, depth - 1, dirty) if depth > 0 else ("null",) for _ in range(n)]
        if a == "list":
            return ("list", objs)
        return ("dict", list(zip(rng.sample(KEYS, n), objs)))
    return gen_plain(rng, min(depth, 3))


def gen_obj(rng, schema, j, depth, dirty):
    vals = [gen_value(rng, schema, ann, depth, dirty) for _, ann, _ in fields_of(schema, j)]
    chk = check_of(schema, j)
    if chk is not None and base_of(schema, j) not in TYME_ROOTS:
        for i, (fname, _, _) in enumerate(fields_of(schema, j)):
            if fname == chk[0] and vals[i][0] == "int" and not chk[1] <= vals[i][1] <= chk[2]:
                vals[i] = ("int", rng.choice([chk[1], chk[2], rng.randint(chk[1], chk[2])]))      # an instance satisfies its own validator
    return ("obj", j, vals)


RANGES = [(0, 100), (-5, 5), (1, 2 ** 31), (0, 0), (-2 ** 63, -1), (101, 1000)]
EXCS = ["ValueError", "OverflowError", "Rejected", "ValidationError"]


def gen_rt_validated(rng):
    """a union of look-alike classes (same field names) that only their __post_init__ validators tell apart, holding a
    value of either member that the OTHER member's validator rejects (or, sometimes, admits)"""
    base = rng.choice(["raw", "iceraw", "reg", "icereg", "map"])
    fname = rng.choice(["n", "_n", "x", "é"])
    other = [(f, ("any",), ("d", gen_leaf(rng))) for f in rng.sample(["a", "b", "k_1"], rng.choice([0, 1, 2]))]
    flds = [(fname, ("any",), ("d", ("int", 0)))] + other
    r1, r2 = rng.sample(RANGES, 2)
    A = (("chk", base, fname, r1[0], r1[1], rng.choice(EXCS)), flds)
    B = (("chk", base, fname, r2[0], r2[1], rng.choice(EXCS)), flds) if rng.random() < 0.6 else (base, flds)
    order = rng.choice([[0, 1], [1, 0]])
    top_base = rng.choice(["raw", "iceraw", "reg"])
    T = (top_base, [("level", (rng.choice(["opt", "union"]), order), ("d", ("null",))), ("also", ("dom", rng.choice([0, 1])), ("d", ("null",))), ("g", ("any",), ("d", ("null",)))])
    schema = [A, B, T]
    m = rng.choice([0, 1])
    v = gen_obj(rng, schema, m, 1, False)
    rng_m = check_of(schema, m)
    lo, hi = (rng_m[1], rng_m[2]) if rng_m else (-1000, 1000)
    val = rng.choice([lo, hi, rng.randint(lo, hi)])
    v[2][0] = ("int", val)
    w = gen_obj(rng, schema, T[1][1][1][1], 1, False)
    return ("rt", schema, ("obj", 2, [v if rng.random() < 0.9 else ("null",), w, gen_plain(rng, 1)]))


def gen_rt(rng):
    dirty = rng.random() < 0.3
    schema = gen_schema(rng, dirty)
    top = len(schema) - 1
    return ("rt", schema, gen_obj(rng, schema, top, 3, dirty))


def gen_seq(rng):
    """several calls in one process on one schema: round trips of different (and repeated) instances, loads, and
    serialisations that must fail, interleaved"""
    dirty = rng.random() < 0.15
    schema = gen_schema(rng, dirty)
    raw = [j for j in range(len(schema)) if base_of(schema, j) in RAW_BASES] or [len(schema) - 1]
    steps = []
    trees = []
    for _ in range(rng.choice([2, 3, 3, 4, 5, 6])):
        r = rng.random()
        if r < 0.25:
            steps.append(("bad", rng.choice(["raw", "iceraw", "reg", "icetyme"]), rng.choice(["object", "object", "surrogate"])))
        elif r < 0.35 and trees:
            steps.append(("rt", rng.choice(trees)))            # the same instance again, later in the history
        elif r < 0.45:
            j = rng.randrange(len(schema))
            steps.append(("load", j, ("dict", [(f, gen_plain(rng, 1)) for f, _, _ in fields_of(schema, j) if rng.random() < 0.8])))
        else:
            t = gen_obj(rng, schema, rng.choice(raw), 3, dirty)
            trees.append(t)
            steps.append(("rt", t))
    if not any(s[0] == "rt" for s in steps):
        steps.append(("rt", gen_obj(rng, schema, rng.choice(raw), 2, dirty)))
    return ("seq", schema, steps)


def gen_load(rng):
    schema = gen_schema(rng, rng.random() < 0.3)
    j = rng.randrange(len(schema))
    flds = fields_of(schema, j)
    r = rng.random()
    if r < 0.7:
        kvs = []
        for fname, ann, dflt in flds:
            if rng.random() < 0.8:
                if ann[0] in ("dom", "opt", "union") and rng.random() < 0.7:
                    sub = fields_of(schema, rng.choice(members(ann)))
                    v = ("dict", [(f, gen_plain(rng, 1)) for f, _, _ in sub if rng.random() < 0.85])
                else:
                    v = gen_plain(rng, 2)
                kvs.append((fname, v))
        if rng.random() < 0.15:
            kvs.append((rng.choice(["q", "zz", "_tyme", "_tymth"]), gen_leaf(rng)))
        rng.shuffle(kvs)
        t = ("dict", kvs)
    else:
        t = rng.choice([("list", []), ("str", ""), ("null",), ("dict", []), gen_plain(rng, 2)])
    return ("load", schema, j, t)
