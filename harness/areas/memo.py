"""Shared Python for the Memo area (C20, C21, C22): deterministic keys and memo ids, an independent reference
gram builder / signature check (used by generators and oracles, never by the model), and the instrumented
Memoer subclass through which the REAL code is driven (scripted transport, recorded sign/verify calls)."""
import base64
import errno
import hashlib

import pysodium

B64 = "ABCDEFGHIJKLMNOPQRSTUVWXYZabcdefghijklmnopqrstuvwxyz0123456789-_"
ZCODES = ["bAAA", "bAAC", "bAAE", "bAAG"]          # plain, auth, sure, sure+auth zeroth codes
PAIR = {"bAAA": "bAAB", "bAAC": "bAAD", "bAAE": "bAAF", "bAAG": "bAAH"}
SIGNED = {"bAAC", "bAAD", "bAAG", "bAAH", "bAAJ"}
# reference copy of the header part sizes (bz nz mz vz az); the oracle's own knowledge of the wire format
RSIZES = {"bAAA": (4, 4, 24, 0, 0), "bAAB": (4, 4, 24, 0, 0), "bAAC": (4, 4, 24, 44, 88), "bAAD": (4, 4, 24, 0, 88),
          "bAAE": (4, 4, 24, 0, 0), "bAAF": (4, 4, 24, 0, 0), "bAAG": (4, 4, 24, 44, 88), "bAAH": (4, 4, 24, 0, 88)}
UNREACH = ("ECONNREFUSED", "ENOENT", "ECONNRESET", "ENETRESET", "ENETUNREACH", "EHOSTUNREACH", "ENETDOWN", "EHOSTDOWN",
           "ETIMEDOUT", "ETIME")


def qb64(code, raw):
    ps = (3 - len(raw) % 3) % 3
    return code + base64.urlsafe_b64encode(bytes(ps) + raw)[ps:].decode()


_KEYS = {}


def key(i):
    """deterministic key i: dict(seed, vk, sk, vid, qvk, qss); even i: non-transferable 'B' vid, odd i: 'D' vid (keep lookup)"""
    if i not in _KEYS:
        seed = hashlib.sha256(b"verif-memo-key-%d" % i).digest()
        vk, sk = pysodium.crypto_sign_seed_keypair(seed)
        _KEYS[i] = dict(seed=seed, vk=vk, sk=sk, vid=qb64("B" if i % 2 == 0 else "D", vk), qvk=qb64("B", vk), qss=qb64("A", seed))
    return _KEYS[i]


ROTATED = (7, 6)      # the transferable ('D') identifier of key 7 has been rotated: the receiver's keep holds key 6 for it


def keep(n=4):
    """the receiver's keep: keys 0..n-1 under their own vids ('B' for even, 'D' for odd), plus the rotated identifier: vid of key 7 -> key 6.
    Keys 4 and 5 are strangers (5 has a 'D' vid the keep does not know)."""
    from hio.core.memo import Keyage
    k = {key(i)["vid"]: Keyage(qvk=key(i)["qvk"], qss=key(i)["qss"]) for i in range(n)}
    k[key(ROTATED[0])["vid"]] = Keyage(qvk=key(ROTATED[1])["qvk"], qss=key(ROTATED[1])["qss"])
    return k


def mid_of(seed):
    """deterministic 24 char memo id '0A' + 22 base64 chars"""
    return qb64("0A", hashlib.sha256(b"verif-memo-mid-%d" % seed).digest()[:16])


def i2b64(n, l):
    s = ""
    while n or len(s) < l:
        s = B64[n % 64] + s
        n //= 64
        if not n and len(s) >= l:
            break
    return s


def ref_sign(ki, ser):
    """qb64 signature text of key ki over ser"""
    return qb64("0B", pysodium.crypto_sign_detached(ser, key(ki)["sk"]))


def ref_gram(code, curt, mid, num, body, ki=None, vid_in_gram=None, sig=None):
    """independent construction of one gram: code, num (count for zeroth, number otherwise), mid text, body bytes;
    signed codes take key index ki; zeroth signed grams carry the vid"""
    bz, nz, mz, vz, az = RSIZES[code]
    head = code + i2b64(num, nz) + mid
    if vz:
        head += vid_in_gram if vid_in_gram is not None else key(ki)["vid"]
    headb = base64.urlsafe_b64decode(head.encode()) if curt else head.encode()
    fore = headb + body
    if az:
        s = sig if sig is not None else ref_sign(ki, fore)
        fore += base64.urlsafe_b64decode(s.encode()) if curt else s.encode()
    return fore


def ref_count(ml, zbz, nbz):
    """number of grams for ml body bytes, first gram holds zbz, the others nbz (zbz, nbz >= 1)"""
    return 1 if ml <= zbz else 1 + -(-(ml - zbz) // nbz)


def ref_overheads(code, curt):
    """(zeroth, non-zeroth) header+signature overhead in bytes on the wire"""
    z = sum(RSIZES[code])
    n = sum(RSIZES[PAIR[code]])
    return (3 * z // 4, 3 * n // 4) if curt else (z, n)


def ref_verify(kp, vid, sig, ser):
    """reference outcome of Memoer.verify(vid, sig, ser): 'ok' or the name of the exception class raised.
    vid/sig may be bytes or str; kp maps vid text -> (qvk, qss)"""
    import binascii
    try:
        if isinstance(vid, (bytes, bytearray)):
            vid = bytes(vid).decode()
        vk, code = _dec(vid, ("B", "D", "E"), 1, 44)
        if code != "B":
            if not kp.get(vid):
                return "MemoerVerifyError"
            vk, _ = _dec(kp[vid][0], ("B",), 1, 44)
        if isinstance(sig, (bytes, bytearray)):
            sig = bytes(sig).decode()
        try:
            raw, _ = _dec(sig, ("0B",), 2, 88)
        except _Bad:
            return "MemoerVerifyError"
        if isinstance(ser, str):
            ser = ser.encode()
        try:
            pysodium.crypto_sign_verify_detached(raw, ser, vk)
        except Exception:
            return "MemoerVerifyError"
        return "ok"
    except _Bad:
        return "MemoerError"
    except UnicodeDecodeError:
        return "UnicodeDecodeError"
    except binascii.Error:
        return "Error"


class _Bad(Exception):
    pass


def _dec(q, codes, hz, qz):
    code = q[:hz]
    if code not in codes:      # NB the tree writes `code not in ('B')` for single-code tuples: substring test, '' passes
        if not (len(codes) == 1 and code in codes[0]):
            raise _Bad()
    if len(q) != qz:
        raise _Bad()
    hz = len(code)
    pz = hz % 4
    if len(codes) != 1 or codes[0] != "0B":
        if not (hz == pz == 1) and (hz != pz):
            raise _Bad()
    paw = base64.urlsafe_b64decode(pz * b"A" + q[hz:].encode())
    if int.from_bytes(paw[:pz], "big") != 0:
        raise _Bad()
    if len(paw[pz:]) != (qz - hz) * 3 // 4:
        raise _Bad()
    return paw[pz:], code


def errno_of(name):
    return getattr(errno, name)


def instrument(base):
    """subclass of a Memoer class with deterministic mids, scripted send() and recorded sign / verify calls"""

    class TM(base):
        def __init__(self, *, mids=(), script=(), **kw):
            self._mids = list(mids)
            self._script = list(script)
            self.sendlog = []       # (dst, bytes offered, outcome)
            self.signlog = []       # (vid text, ser bytes, sig bytes as returned | ("err", class name))
            self.verlog = []        # (vid bytes, sig bytes, ser bytes, outcome)
            super().__init__(**kw)

        def makeMID(self, code="0A"):
            if self._mids:
                return self._mids.pop(0)
            return mid_of(10 ** 9 + len(self.signlog))

        def send(self, gram, dst, *, echoic=False):
            offered = bytes(gram)
            step = self._script.pop(0) if self._script else ("a", len(offered))
            if step[0] == "a":
                n = min(step[1], len(offered))
                self.sendlog.append((dst, offered, ("a", n)))
                if self.echoic or echoic:
                    self.echos.append((offered[:n], dst))
                return n
            if step[0] == "w":
                self.sendlog.append((dst, offered, ("w",)))
                return 0
            self.sendlog.append((dst, offered, ("e", step[1])))
            raise OSError(errno_of(step[1]), "scripted " + step[1])

        _bufmode = 0      # how the transport hands a datagram over: 0 bytes | 1 fresh bytearray (scribbled over later) | 2 ONE reused bytearray | 3 memoryview

        def receive(self, **kw):
            gram, src = super().receive(**kw)
            if not gram or not self._bufmode:
                return gram, src
            data = bytes(gram)
            prev = getattr(self, "_handed", None)
            if self._bufmode == 1:
                if prev is not None:
                    prev[:] = b"\x00" * len(prev)          # the transport owns the buffer it handed over last time and re-uses it for something else
                self._handed = bytearray(data)
                return self._handed, src
            if self._bufmode == 2:
                if prev is None:
                    self._handed = prev = bytearray()
                prev[:] = data                               # recv_into style: the same bytearray object, refilled for every datagram
                return prev, src
            return memoryview(data), src

        def sign(self, vid, ser):
            rec = (vid if isinstance(vid, str) else bytes(vid).decode(), bytes(ser) if not isinstance(ser, str) else ser.encode())
            try:
                sig = super().sign(vid, ser)
            except BaseException as ex:
                self.signlog.append(rec + (("err", type(ex).__name__),))
                raise
            self.signlog.append(rec + (bytes(sig),))
            return sig

        def verify(self, vid, sig, ser):
            rec = (bytes(vid) if not isinstance(vid, str) else vid.encode(), bytes(sig) if not isinstance(sig, str) else sig.encode(),
                   bytes(ser) if not isinstance(ser, str) else ser.encode())
            try:
                r = super().verify(vid, sig, ser)
            except BaseException as ex:
                self.verlog.append(rec + (type(ex).__name__,))
                raise
            self.verlog.append(rec + ("ok",))
            return r

    return TM


def make_tm(kind="memoer"):
    """the instrumented subclass (built lazily so that importing this module does not import hio); kind: memoer | auth (AuthMemoer)"""
    from hio.core.memo import memoing
    return instrument(memoing.AuthMemoer if kind == "auth" else memoing.Memoer)


def exn_name(ex):
    """class of an exception that left the code under test, as the observation names it"""
    return "OSError" if isinstance(ex, OSError) else type(ex).__name__


# --------------------------------------------------------------------------
# adapters: run the REAL code, return canonical observations (same shape as the driver's replies)

def _kp():
    return {k: (v.qvk, v.qss) for k, v in keep().items()}


def _vtab(verlog):
    """verify table for the model: every (vid, sig, ser) the real run asked about, with the REFERENCE outcome"""
    kp = _kp()
    seen = {}
    for vid, sig, ser, _real in verlog:
        seen.setdefault((vid, sig, ser), ref_verify(kp, vid, sig, ser))
    return [(v, s, m, o) for (v, s, m), o in seen.items()]


def set_keep(kp, v, k):
    """kp[vid of key v] = Keyage of key k, or remove it (k None): key rotation / revocation by the application"""
    from hio.core.memo import Keyage
    if k is None:
        kp.pop(key(v)["vid"], None)
    else:
        kp[key(v)["vid"]] = Keyage(qvk=key(k)["qvk"], qss=key(k)["qss"])


def keep_states(ops):
    """[(vid text -> qvk text) after 0, 1, … keep ops] of a receive history, starting from keep()"""
    cur = {v: q[0] for v, q in _kp().items()}
    out = [dict(cur)]
    for op in norm_ops(ops):
        if not isinstance(op, str) and op[0] == "keep":
            if op[2] is None:
                cur.pop(key(op[1])["vid"], None)
            else:
                cur[key(op[1])["vid"]] = key(op[2])["qvk"]
            out.append(dict(cur))
    return out


def _refdec(q, codes, hz, qz):
    """('ok', raw, code) | ('err', class name) for one piece of qualified Base64 material given as bytes"""
    import binascii
    try:
        raw, code = _dec(bytes(q).decode(), codes, hz, qz)
        return ("ok", raw, ord(code[0]) if code else 0)
    except _Bad:
        return ("err", "MemoerError")
    except UnicodeDecodeError:
        return ("err", "UnicodeDecodeError")
    except binascii.Error:
        return ("err", "Error")


def _vparts(verlog, states=None):
    """the third-party parts of Memoer.verify for the model, computed independently of the code under test (stdlib base64 + pysodium):
    the receiver's keep, and for every (vid, sig, ser) the real run asked about: the decoded vid, the decoded keep key, the decoded
    signature, and the ed25519 verdict under every key that could be meant (the one embedded in the vid, the one the keep holds)"""
    kp = _kp()
    states = states or [{v: q[0] for v, q in kp.items()}]
    dvid, dqvk, dsgn, chk = {}, {}, {}, {}
    for vid, sig, ser, _real in verlog:
        dv = dvid.setdefault(vid, _refdec(vid, ("B", "D", "E"), 1, 44))
        ds = dsgn.setdefault(sig, _refdec(sig, ("0B",), 2, 88))
        keys = [dv[1]] if dv[0] == "ok" else []
        try:
            vt = bytes(vid).decode()
        except UnicodeDecodeError:
            vt = None
        for q in sorted({st[vt] for st in states if vt in st}):      # every key the keep holds for this id at some point of the history
            dq = dqvk.setdefault(q.encode(), _refdec(q.encode(), ("B",), 1, 44))
            if dq[0] == "ok" and dq[1] not in keys:
                keys.append(dq[1])
        if ds[0] == "ok":
            for k in keys:
                if (k, ds[1], ser) not in chk:
                    try:
                        pysodium.crypto_sign_verify_detached(ds[1], ser, k)
                        chk[(k, ds[1], ser)] = True
                    except Exception:
                        chk[(k, ds[1], ser)] = False
    dec = lambda d, withcode: tuple((k, (("ok", v[1], v[2]) if withcode else ("ok", v[1])) if v[0] == "ok" else ("err", v[1])) for k, v in d.items())
    return (("keep",) + tuple((v.encode(), q.encode()) for v, q in states[0].items()), ("dvid",) + dec(dvid, True), ("dqvk",) + dec(dqvk, False),
            ("dsgn",) + dec(dsgn, False), ("chk",) + tuple((k, s, m, b) for (k, s, m), b in chk.items()))


def _entries(r):
    """the reassembly state as the APPLICATION sees it in the containers it handed over"""
    o = getattr(r, "_own", None) or dict(rxgs=r.rxgs, vids=r.vids, counts=r.counts, sources=r.sources)
    out = []
    for mid, grams in o["rxgs"].items():
        vid = o["vids"].get(mid)
        out.append((mid.encode(), tuple((gn, bytes(b)) for gn, b in grams.items()), o["counts"].get(mid),
                    vid.encode() if vid is not None else None, addr_id(o["sources"][mid])))
    return tuple(out)


def addr(n, shape="mixed"):
    """transport address for the small integer id n, in the shapes the real transports use: a (host, port) tuple (udp), a path str (uxd);
    mixed: odd ids tuples, even ids strs.  On the receive side id 0 is None (a datagram whose source the transport could not name)."""
    if shape == "tuple" or (shape == "mixed" and n % 2):
        return ("10.0.0.%d" % (n % 250), 4000 + n)
    return "/tmp/hio_uxd/peer%d" % n


def src_of(n, shape="mixed"):
    return None if n == 0 else addr(n, shape)


def addr_id(a):
    """inverse of addr / src_of"""
    if a is None:
        return 0
    if isinstance(a, tuple):
        return a[1] - 4000
    return int(a.rsplit("peer", 1)[1])


class RawText(str):
    """a memo whose bytes are NOT text (a sender that bypasses str): rend sees a str whose encode() gives these bytes"""
    def __new__(cls, raw):
        o = super().__new__(cls, "?" * len(raw))
        o._raw = bytes(raw)
        return o

    def encode(self, *a, **k):
        return self._raw


def as_text(b):
    b = bytes(b)
    try:
        return b.decode()
    except UnicodeDecodeError:
        return RawText(b)


_MIDS = []


def mids_distinct():
    """the REAL Memoer.makeMID under a coarse clock (every clock reading the same for the whole burst): ids of memos rent by one process must be
    pairwise distinct and well-formed"""
    if not _MIDS:
        import time
        from hio.core.memo import memoing
        saved = {n: getattr(time, n) for n in ("time", "time_ns", "monotonic", "monotonic_ns", "perf_counter", "perf_counter_ns")}
        t0 = time.time_ns()
        try:
            for n in saved:
                setattr(time, n, (lambda v: (lambda: v))(t0 if n.endswith("_ns") else t0 / 1e9))
            try:
                ms = [memoing.Memoer.makeMID() for _ in range(64)] + [memoing.Memoer().makeMID() for _ in range(8)]
            except BaseException as ex:
                ms = ["raised:" + type(ex).__name__]
        finally:
            for n, f in saved.items():
                setattr(time, n, f)
        _MIDS.append(len(set(ms)) == len(ms) and all(isinstance(m, str) and len(m) == 24 for m in ms))
    return _MIDS[0]


def norm_ops(batches):
    """receive history as a list of ops: ("all", batch) serviceAllRx | ("svc", batch) service() | ("once", batch) serviceAllRxOnce |
    ("rxg", batch) serviceReceives + serviceRxGrams | "close" | "reopen".
    A bare list is ("all", list)."""
    out = []
    for b in batches:
        if isinstance(b, str):
            out.append(b)
        elif isinstance(b, (tuple, list)) and len(b) == 3 and b[0] == "keep":
            out.append(("keep", b[1], b[2]))      # the application replaces (key index) / removes (None) what the keep holds for the vid of key b[1]
        elif isinstance(b, tuple) and b and isinstance(b[0], str):
            out.append((b[0], list(b[1])))
        else:
            out.append(("all", list(b)))
    return out


class RxSock:
    """scripted receiving socket for the real Peer.receive: recvfrom pops the next datagram, would-block when nothing is queued"""

    def __init__(self):
        self.queue = []

    def recvfrom(self, bs):
        if not self.queue:
            raise BlockingIOError(errno.EAGAIN, "nothing queued")
        return self.queue.pop(0)

    def sendto(self, data, dst):
        return len(data)


_CYC = [0]


def cycle(peer, up):
    """close / reopen the transport the way applications do: the base Memoer through its own close() / reopen(), alternately through its Doer
    (MemoerDoer.exit() / .enter()); a PeerMemoer over our scripted socket only has its flag switched (its close() would drop the socket)"""
    from hio.core.memo import memoing
    if type(peer).__mro__[1] in (memoing.Memoer, memoing.AuthMemoer):
        _CYC[0] += 1
        if _CYC[0] % 2:
            (peer.reopen if up else peer.close)()
        else:
            d = memoing.MemoerDoer(peer=peer)
            (d.enter if up else d.exit)()
    else:
        peer.opened = up


def run_rx_ops(r, ops, feed=None, pending=None):
    """feed the ops through the transport (echo queue, or the fake socket under a real Peer), observing after every service call:
    memos that reached the inbox, entries, datagrams still queued, fused memos still in .rxms"""
    feed = feed or (lambda g, s: r.echos.append((bytes(g), src_of(s))))
    pending = pending or (lambda: len(r.echos))
    res = []
    for op in norm_ops(ops):
        if op in ("close", "reopen"):
            cycle(r, op == "reopen")
            continue
        if op[0] == "keep":
            set_keep(r._own["keep"] if getattr(r, "_own", None) else r.keep, op[1], op[2])
            continue
        kind, b = op
        for g, s in b:
            feed(g, s)
        try:
            if kind == "once":
                r.serviceAllRxOnce()
            elif kind == "rxg":          # the two lower tiers only: fused memos stay in .rxms
                r.serviceReceives()
                r.serviceRxGrams()
            elif kind == "svc":
                r.service()
            else:
                r.serviceAllRx()
        except BaseException as ex:   # whatever leaves the service call is an observation, never an adapter failure
            res.append(("escape", exn_name(ex)))
            break
        try:
            dl = tuple((m.encode(), addr_id(s), v.encode() if v is not None else None) for m, s, v in r.inbox)
            r.inbox.clear()
            res.append((("delivered",) + dl, ("entries",) + _entries(r), ("queue", pending()), ("pending", len(r._own["rxms"]) if getattr(r, "_own", None) else len(r.rxms))))
        except BaseException as ex:   # state the adapter cannot render is itself an observation
            res.append(("unreadable-state", type(ex).__name__))
            break
    return res


def own_rx(shared=None):
    """containers the APPLICATION owns and hands to the Memoer (empty at construction unless shared with an instance that already holds state);
    the keep gets its keys only after construction"""
    from collections import deque
    o = dict(rxgs={}, sources={}, counts={}, vids={}, rxms=deque(), keep={})
    if shared:
        o.update({k: shared[k] for k in ("rxgs", "sources", "counts", "vids", "keep")})
    return o


def replaced(peer, own):
    """names of the caller's containers the instance does not use"""
    return sorted(k for k, v in own.items() if getattr(peer, k) is not v)


RCFG = [{}, dict(size=33), dict(size=40, curt=True), dict(size=170, code="bAAG"), dict(size=300, code="bAAE", curt=True), dict(size=1),
        dict(size=64000, code="bAAC")]


def make_receiver(authic, flavor="memoer", buf=0, shared=None, rcfg=0):
    """flavor: memoer | auth (AuthMemoer; only meaningful with authic) | udp | uxd (real PeerMemoer.receive over a scripted socket).
    Every container parameter is supplied by the caller, who keeps using its own objects (r._own).
    rcfg: the receiver's OWN rending configuration (size / code / curt), independent of any sender's — it must not matter for receiving."""
    own = own_rx(shared)
    cfgkw = dict(RCFG[rcfg % len(RCFG)])
    if flavor in ("udp", "uxd"):
        import importlib
        PM = instrument(importlib.import_module(f"hio.core.{flavor}.peermemoing").PeerMemoer)
        r = PM(name="r", authic=authic, **own, **cfgkw)
        r.ls = RxSock()
        r.opened = True
        shape = "tuple" if flavor == "udp" else "str"      # what recvfrom really returns for that transport
        feed, pend = (lambda g, s: r.ls.queue.append((bytes(g), src_of(s, shape)))), (lambda: len(r.ls.queue))
    else:
        TM = make_tm("auth" if flavor == "auth" and authic else "memoer")
        if flavor == "auth" and authic:
            cfgkw.pop("code", None)
            r = TM(echoic=True, **own, **cfgkw)
        else:
            r = TM(echoic=True, authic=authic, **own, **cfgkw)
        r._bufmode = buf % 4
        r.reopen()
        feed, pend = None, None
    if not shared:
        own["keep"].update(keep())          # the application learns the signers' keys after the Memoer exists
    r._own = own
    return r, feed, pend


def run_rx(authic, ops, flavor="memoer"):
    # a neighbour instance that holds state of its own: nothing of it may leak into (or out of) the receiver under test
    decoy, _f, _p = make_receiver(False)
    decoy.echos.append((ref_gram("bAAA", False, mid_of(424242), 3, b"decoy"), src_of(9)))
    decoy.serviceAllRx()
    before = (_entries(decoy), len(decoy.inbox))
    ndg = sum(len(op[1]) for op in norm_ops(ops) if not isinstance(op, str) and op[0] != "keep")
    r, feed, pend = make_receiver(authic, "memoer" if flavor == "shared" else flavor, buf=ndg, rcfg=ndg // 4 + (1 if authic else 0))
    if flavor == "shared":
        res = run_rx_shared(r, authic, ops)
    else:
        res = run_rx_ops(r, ops, feed, pend)
    bad = replaced(r, r._own)
    if bad:
        res.append(("callers-container-replaced",) + tuple(bad))
    bq = bounded_queues(type(r)(echoic=True) if flavor not in ("udp", "uxd") else type(r)(name="dflt"))
    if bq:
        res.append(("bounded-queue",) + tuple(bq))
    if (_entries(decoy), len(decoy.inbox)) != before or any(e[0] == mid_of(424242).encode() for o in res if isinstance(o[0], tuple) for e in o[1][1:]):
        res.append(("neighbour-instance-disturbed",))
    vl = r.verlog + (getattr(r, "_peer2").verlog if getattr(r, "_peer2", None) is not None else [])
    return res, _vparts(vl, keep_states(ops))


def run_rx_shared(r1, authic, ops):
    """TWO instances sharing the reassembly dicts and the keep (a memo's grams may arrive at either): service call k is made on instance k % 2,
    the second one is only constructed when first needed (its containers are non-empty by then).  Only greedy calls, no empty datagrams."""
    peers = [r1, None]
    res = []
    k = 0
    for op in norm_ops(ops):
        if isinstance(op, str) or op[0] == "keep":
            if not isinstance(op, str):
                set_keep(r1._own["keep"], op[1], op[2])
            continue
        if peers[k % 2] is None:
            peers[1], _f, _p = make_receiver(authic, "memoer", buf=k, shared=r1._own)
            r1._peer2 = peers[1]
        r = peers[k % 2]
        k += 1
        out = run_rx_ops(r, [("svc" if op[0] == "svc" else "all", op[1])])
        res += out
        if out and isinstance(out[-1][0], str):
            break
    return res


def run_e2e(code, curt, size, authic, ki, memos, sched, hist=(), txpath="rend"):
    """constructor (code, curt, size); the history of property assignments (a refused one is survived); every memo — after its own
    assignments, if any — goes through rend directly, or through memoit + serviceTxMemos / serviceTxMemosOnce + serviceTxGrams; then the
    scheduled delivery on a receiver"""
    TM = make_tm()
    vid = key(ki)["vid"] if ki is not None else None
    allmids = [mid_of(m[1]) for m in memos]
    from collections import deque
    sown = dict(txms=deque(), txgs=deque(), keep={}, txbs=(bytearray(), None))      # the sending application's own containers
    try:
        s = TM(code=code, curt=curt, size=size, vid=vid, echoic=True, **sown)
    except BaseException as ex:
        return [("cfg-raise", exn_name(ex))], [], _vparts([]), None
    sown["keep"].update(keep())             # keys arrive after construction
    s.reopen()

    def assign(pairs):
        for item in pairs:
            if item[0] == "keep":           # the sending application rotates its key for the vid of key item[1]
                set_keep(sown["keep"], item[1], item[2])
                continue
            what, val = item
            try:
                setattr(s, what, val)          # .code / .curt / .size property setters
            except BaseException:
                pass                            # refused (raises before storing anything): the application carries on
    assign(hist)
    rends = []
    plain = not any(len(m) > 3 and m[3] for m in memos)      # no re-configuration / key rotation between memos
    if txpath != "rend" and plain and memos:
        # the queued way in: every memo is handed to memoit first, with its signer id given explicitly (the peer's own default is another one)
        s.vid = key((ki + 1) % 4)["vid"] if ki is not None else None
        s._mids = list(allmids)
        for j_, m in enumerate(memos):
            if j_ % 2:
                sown["txms"].append((as_text(m[0]), addr(m[2]), vid))      # queued through the application's own deque
            else:
                s.memoit(as_text(m[0]), addr(m[2]), vid)
        got = {}
        fails = {}
        guard = 0
        while s.txms and guard < 4 * len(memos) + 4:
            guard += 1
            head = len(memos) - len(s.txms)
            try:
                if txpath == "once":
                    s.serviceTxMemosOnce()
                else:
                    s.serviceTxMemos()
            except BaseException as ex:
                fails[len(memos) - len(s.txms) - 1] = exn_name(ex)       # the memo that was popped last is the one rend refused
            s.serviceTxGrams(echoic=True)
            if txpath == "once":          # exactly one memo per call: everything that came out belongs to the memo that was at the head
                got.setdefault(head, []).extend(bytes(g) for g, _d in s.echos)
                s.echos.clear()
        for g, _d in s.echos:
            p_ = ref_parse(g)
            mi = allmids.index(p_["mid"]) if p_ and p_["mid"] in allmids else len(memos)
            got.setdefault(mi, []).append(bytes(g))
        s.echos.clear()
        for i in range(len(memos)):
            rends.append(("raise", fails[i]) if i in fails else ("grams",) + tuple(got.get(i, ())))
        if len(memos) in got:
            rends.append(("grams",) + tuple(got[len(memos)]))      # grams that belong to no memo: the observation keeps them
    else:
        txq = txpath if plain else "rend"
        for i, m in enumerate(memos):
            assign(m[3] if len(m) > 3 else ())
            s._mids = [allmids[i]]
            text = as_text(m[0])
            try:
                if txq == "rend":
                    gs = s.rend(text, vid)
                else:
                    s.memoit(text, addr(m[2]), vid)
                    s.serviceTxMemos()
                    s.serviceTxGrams(echoic=True)
                    gs = [g for g, _d in s.echos]
                    s.echos.clear()
                rends.append(("grams",) + tuple(bytes(g) for g in gs))
            except BaseException as ex:
                s.txms.clear()
                s.txgs.clear()
                s.echos.clear()
                rends.append(("raise", exn_name(ex)))
    ops = []
    for op in norm_ops(sched):
        if isinstance(op, str) or op[0] == "keep":
            ops.append(op)
            continue
        bb = []
        for item in op[1]:
            mi, gi = item[0], item[1]
            if mi < len(rends) and rends[mi][0] == "grams" and len(rends[mi]) > 1:
                gs = rends[mi][1:]
                bb.append((gs[gi % len(gs)], item[2] if len(item) > 2 else memos[mi][2]))
        ops.append((op[0], bb))
    ndg_ = sum(len(o[1]) for o in ops if not isinstance(o, str) and o[0] != "keep")
    r, feed, pend = make_receiver(authic, buf=ndg_, rcfg=ndg_ // 4 + len(memos) + size)      # a receiver configured on its own, differently from the sender
    res = run_rx_ops(r, ops, feed, pend)
    bad = replaced(r, r._own) + replaced(s, {k: v for k, v in sown.items() if k != "txbs"})
    if bad:
        res.append(("callers-container-replaced",) + tuple(bad))
    if not mids_distinct():
        res.append(("memo-ids-not-distinct-within-a-clock-tick",))
    stab = []
    seen = set()
    for v, ser, sig in s.signlog:
        if (v, ser) not in seen:
            seen.add((v, ser))
            stab.append((v.encode(), ser, sig))
    return [("cfg", s.code.encode(), bool(s.curt), s.size), ("rend",) + tuple(rends), ("rx",) + tuple(res)], stab, _vparts(r.verlog, keep_states(sched)), s.size


EXOTIC = {   # OSError subclasses a socket really raises, with the errno the model sees (0 = none that any table knows)
    "BlockingIOError": ("EAGAIN", lambda e: BlockingIOError(e, "would block")),
    "ConnectionRefusedError": ("ECONNREFUSED", lambda e: ConnectionRefusedError(e, "refused")),
    "ConnectionResetError": ("ECONNRESET", lambda e: ConnectionResetError(e, "reset")),
    "TimeoutError": ("ETIMEDOUT", lambda e: TimeoutError(e, "timed out")),
    "timeout": (None, lambda e: TimeoutError("timed out")),            # socket.timeout: args[0] is a string, no errno
    "gaierror": (None, lambda e: __import__("socket").gaierror(-2, "Name or service not known")),
}


def sock_errno(step):
    """errno number the model is told for a script step ("e", NAME) / ("x", KIND); 0 when the exception carries none"""
    if step[0] == "e":
        return errno_of(step[1])
    name = EXOTIC[step[1]][0]
    return errno_of(name) if name else 0


class FakeSock:
    """scripted socket: sendto returns a count or raises OSError(errno) / one of the OSError subclasses; an exhausted script accepts everything"""

    def __init__(self, script, log):
        self.script = list(script)
        self.log = log

    def sendto(self, data, dst):
        offered = bytes(data)
        step = self.script.pop(0) if self.script else ("a", len(offered))
        if step[0] == "a":
            n = min(step[1], len(offered))
            self.log.append((dst, offered, ("a", n)))
            return n
        self.log.append((dst, offered, ("e", sock_errno(step))))
        if step[0] == "x":
            name, mk = EXOTIC[step[1]]
            raise mk(errno_of(name) if name else None)
        raise OSError(errno_of(step[1]), "scripted " + step[1])


def bounded_queues(peer):
    """queues a default-constructed Memoer owns that would silently discard entries: every deque must be unbounded (maxlen None)"""
    from collections import deque
    out = []
    for name in ("txms", "txgs", "rxms", "echos", "inbox"):
        q = getattr(peer, name, None)
        if isinstance(q, deque) and q.maxlen is not None:
            out.append(name)
    for name in ("rxgs", "counts", "sources", "vids"):
        d = getattr(peer, name, None)
        if not isinstance(d, dict):
            out.append(name)
    return out


def run_tx(grams, script, calls, peer=None, txbs=None):
    """peer=None: Memoer with a scripted send(); peer='udp'|'uxd': the real PeerMemoer (real Peer.send) over a scripted socket.
    calls: "g" serviceTxGrams | "o" serviceTxGramsOnce | "a" serviceAllTx | "c" close | "r" reopen | ("q", gram, dst) gramit"""
    from collections import deque
    shape0 = "tuple" if peer == "udp" else ("str" if peer == "uxd" else "mixed")
    town = dict(txgs=deque(), txms=deque(),       # the application's own queues, empty at construction; txbs: a remainder it restores, if any
                txbs=((bytearray(txbs[0]), addr(txbs[1], shape0)) if txbs else (bytearray(), None)))
    if len(grams) >= 64:
        town = {}           # long queues go through the containers the Memoer creates for itself
    if peer is None:
        TM = make_tm()
        t = TM(script=[tuple(x) for x in script], **town)
        t.reopen()
        decoy = TM()
    else:
        import importlib
        PM = importlib.import_module(f"hio.core.{peer}.peermemoing").PeerMemoer
        t = PM(name="t", **town)
        t.sendlog = []
        t.ls = FakeSock([tuple(x) for x in script], t.sendlog)
        t.opened = True
        decoy = PM(name="decoy")
    decoy.gramit(b"decoy-gram", "d9")        # a neighbour instance with a queued gram of its own: must stay as it is
    shape = "tuple" if peer == "udp" else ("str" if peer == "uxd" else "mixed")
    shared = {}         # ONE bytearray object per distinct content: a buffer the caller fans out to several destinations / queues again
    from collections import Counter
    contents = Counter([bytes(g) for g, _d in grams] + [bytes(c[1]) for c in calls if isinstance(c, (tuple, list))])

    def form(i, g):
        g = bytes(g)
        if contents[g] > 1 or i % 2:
            return shared.setdefault(g, bytearray(g))
        return g
    for i, (g, d) in enumerate(grams):
        if i % 3 == 2 and town:
            town["txgs"].append((form(i, g), addr(d, shape)))      # queued through the application's own deque
        else:
            t.gramit(form(i, g), addr(d, shape))      # both forms the API accepts
    res = []

    def state():
        return (("txgs",) + tuple((bytes(g), addr_id(d)) for g, d in t.txgs), ("txb", bytes(t.txbs[0])),
                ("dst", addr_id(t.txbs[1]) if t.txbs[1] is not None else None))

    def evs(k):
        out = []
        for dst, offered, r in t.sendlog[k:]:
            out.append((addr_id(dst), offered, ("e", errno_of(r[1]) if isinstance(r[1], str) else r[1]) if r[0] == "e" else r))
        return tuple(out)
    for c in calls:
        if isinstance(c, (tuple, list)):
            t.gramit(form(1, c[1]), addr(c[2], shape))
            continue
        if c in ("c", "r"):
            cycle(t, c == "r")
            continue
        k = len(t.sendlog)
        try:
            if c == "g":
                t.serviceTxGrams()
            elif c == "a":
                t.serviceAllTx()
            else:
                t.serviceTxGramsOnce()
        except BaseException as ex:
            res.append(("call",) + evs(k))
            try:
                res.append(("escape", exn_name(ex), state()))
            except BaseException as ex2:
                res.append(("escape", exn_name(ex), ("unreadable-state", type(ex2).__name__)))
            return res
        res.append(("call",) + evs(k))
    try:
        res.append(("final", state()))
    except BaseException as ex:
        res.append(("unreadable-state", type(ex).__name__))
    if list(decoy.txgs) != [(b"decoy-gram", "d9")] or decoy.txbs[1] is not None:
        res.append(("neighbour-instance-disturbed",))
    if town and (t.txgs is not town["txgs"] or t.txms is not town["txms"]):
        res.append(("callers-container-replaced",))
    bq = bounded_queues(decoy)
    if bq:
        res.append(("bounded-queue",) + tuple(bq))
    if any(bytes(obj) != content for content, obj in shared.items()):
        res.append(("callers-buffer-modified",))       # the gram handed to gramit belongs to the caller
    return res


# --------------------------------------------------------------------------
# reference parser (oracle side): what a well-formed gram is, independent of the code under test

def ref_parse(d):
    """dict(code, zeroth, signed, num, mid, vid, sig, fore, body) for a datagram that has the layout of a memo gram, else None"""
    d = bytes(d)
    if not d:
        return None
    sextet = d[0] >> 2
    try:
        if sextet == 0o30:
            curt = False
            code = d[:4].decode("ascii")
        elif sextet == 0o33 and len(d) >= 3:
            curt = True
            code = base64.urlsafe_b64encode(d[:3]).decode()
        else:
            return None
        if code not in RSIZES:
            return None
        bz, nz, mz, vz, az = [3 * x // 4 if curt else x for x in RSIZES[code]]
        oz = bz + nz + mz + vz + az
        if len(d) < oz:
            return None
        conv = (lambda b: base64.urlsafe_b64encode(b).decode()) if curt else (lambda b: b.decode("utf-8"))   # mid / vid only need to be text
        if curt:
            num = int.from_bytes(d[bz:bz + nz], "big")
        else:
            t = d[bz:bz + nz].decode("ascii")
            if any(c not in B64 for c in t):
                return None
            num = 0
            for c in t:
                num = num * 64 + B64.index(c)
        mid = conv(d[bz + nz:bz + nz + mz])
        vid = conv(d[bz + nz + mz:bz + nz + mz + vz])
        sig = conv(d[len(d) - az:]) if az else ""
        fore = d[:len(d) - az] if az else d
        return dict(code=code, zeroth=code in ZCODES, signed=code in SIGNED, num=num, mid=mid, vid=vid, sig=sig, fore=fore, body=fore[oz - az:])
    except (UnicodeDecodeError, ValueError):
        return None


def can_assemble(text, parts, i=0, pos=0):
    """can `text` be written as one option from parts[0], then one from parts[1], …?"""
    if i == len(parts):
        return pos == len(text)
    for b in parts[i]:
        if text.startswith(b, pos) and can_assemble(text, parts, i + 1, pos + len(b)):
            return True
    return False
